package main

// C12 — a characteristic's value always has its declared type and range.
// Correspondence of characteristic.updateValue/getValue/typed getters with HcModel/Characteristic.lean
// on update sequences over every constructor of the package and custom characteristics, plus
// direct oracles (type, range, finiteness, no panic, getters total, encodable).

import (
	"encoding/json"
	"errors"
	"fmt"
	"github.com/brutella/hc/accessory"
	"github.com/brutella/hc/characteristic"
	"math"
	"math/rand"
	"strconv"
	"strings"
	"unicode/utf8"
)

func init() { register("C12", checkC12) }

type charCaseSpec struct {
	id   string
	cc   *charCase
	ops  []charOp
	note string
}

// formatRange: the values of an integer format (uint64 as far as an int holds them).
func formatRange(format string) (lo, hi int64, ok bool) {
	switch format {
	case characteristic.FormatUInt8:
		return 0, math.MaxUint8, true
	case characteristic.FormatUInt16:
		return 0, math.MaxUint16, true
	case characteristic.FormatUInt32:
		return 0, math.MaxUint32, true
	case characteristic.FormatInt32:
		return math.MinInt32, math.MaxInt32, true
	case characteristic.FormatUInt64:
		return 0, math.MaxInt64, true
	}
	return 0, 0, false
}

// c12Oracles: the property itself, evaluated on the real object after one step.
func c12Oracles(c *Ctx, prop string, spec *charCaseSpec, stepIdx int, o *stepObs, input interface{}) {
	cc := spec.cc
	kind := formatKind(cc.C.Format)
	if kind == "" {
		// undeclared format: outside the typing property — but a value a controller can send must not make the
		// comparison with the stored value panic (F50)
		if o.Panicked && panicClass(o.PanicMsg) == "comparing uncomparable type" {
			c.Violate(prop+": operation panics: comparing uncomparable type (characteristic without a format)", spec.id, input, fmt.Sprintf("no panic (step %d)", stepIdx), o.PanicMsg)
		}
		return
	}
	wrapperOK := cc.Tcb == "-" || cc.Tcb == kind
	at := fmt.Sprintf("step %d", stepIdx)
	if o.Panicked && wrapperOK {
		c.Violate(prop+": operation panics: "+panicClass(o.PanicMsg), spec.id, input, "no panic ("+at+")", o.PanicMsg)
	}
	v := o.Value
	if v == nil {
		if hasPerm(cc.C.Perms, "pr") && cc.Initial != nil {
			c.Violate(prop+": readable characteristic lost its value", spec.id, input, "a value ("+at+")", "nil")
		}
		return
	}
	if !hasPerm(cc.C.Perms, "pr") {
		c.Violate(prop+": characteristic without read permission stores a value", spec.id, input, "nil ("+at+")", fmt.Sprintf("%T %v", v, v))
	}
	if got := fmt.Sprintf("%T", v); got != kind {
		c.Violate(fmt.Sprintf("%s: stored value of a %s characteristic has type %s", prop, kind, typeClass(got)), spec.id, input, kind+" ("+at+")", fmt.Sprintf("%s %v", got, v))
		return
	}
	switch t := v.(type) {
	case float64:
		if math.IsNaN(t) || math.IsInf(t, 0) {
			c.Violate(prop+": non-finite float stored", spec.id, input, "finite ("+at+")", fmt.Sprint(t))
		}
		if mn, ok := cc.C.MinValue.(float64); ok && t < mn {
			c.Violate(prop+": stored float below declared minimum", spec.id, input, fmt.Sprintf(">= %v (%s)", mn, at), fmt.Sprint(t))
		}
		if mx, ok := cc.C.MaxValue.(float64); ok && t > mx {
			c.Violate(prop+": stored float above declared maximum", spec.id, input, fmt.Sprintf("<= %v (%s)", mx, at), fmt.Sprint(t))
		}
	case int:
		if mn, ok := cc.C.MinValue.(int); ok && t < mn {
			c.Violate(prop+": stored int below declared minimum", spec.id, input, fmt.Sprintf(">= %v (%s)", mn, at), fmt.Sprint(t))
		}
		if mx, ok := cc.C.MaxValue.(int); ok && t > mx {
			c.Violate(prop+": stored int above declared maximum", spec.id, input, fmt.Sprintf("<= %v (%s)", mx, at), fmt.Sprint(t))
		}
		// the type the format declares: uint8 is 0..255 &c. (as far as the int of the platform can hold it)
		// (hypothesis `boundsInFormat` of value_within_format: a declared bound outside the range of the format leaves no
		// value that satisfies both, and the declared bounds win)
		within := func(b interface{}, lo, hi int64) bool {
			i, isInt := b.(int)
			return !isInt || (int64(i) >= lo && int64(i) <= hi)
		}
		if lo, hi, ok := formatRange(cc.C.Format); ok && within(cc.C.MinValue, lo, hi) && within(cc.C.MaxValue, lo, hi) && (int64(t) < lo || int64(t) > hi) {
			c.Violate(fmt.Sprintf("%s: stored value of a %s characteristic is outside the range of that format", prop, cc.C.Format), spec.id, input, fmt.Sprintf("within [%d, %d] (%s)", lo, hi, at), fmt.Sprint(t))
		}
	}
	gi := map[string]int{"bool": 0, "int": 1, "float64": 2, "string": 3}[kind]
	if o.Getters[gi] {
		c.Violate(prop+": typed getter of the declared type panics", spec.id, input, "value ("+at+")", fmt.Sprintf("%T", v))
	}
	if stepIdx == 0 && (kind == "int" || kind == "float64") {
		// the range getters of the wrapper of the declared type: total too, whether a bound is declared or not (F51)
		for _, g := range []struct {
			name string
			f    func()
		}{
			{"GetMinValue", func() {
				if kind == "int" {
					(&characteristic.Int{Characteristic: cc.C}).GetMinValue()
				} else {
					(&characteristic.Float{Characteristic: cc.C}).GetMinValue()
				}
			}},
			{"GetMaxValue", func() {
				if kind == "int" {
					(&characteristic.Int{Characteristic: cc.C}).GetMaxValue()
				} else {
					(&characteristic.Float{Characteristic: cc.C}).GetMaxValue()
				}
			}},
			{"GetStepValue", func() {
				if kind == "int" {
					(&characteristic.Int{Characteristic: cc.C}).GetStepValue()
				} else {
					(&characteristic.Float{Characteristic: cc.C}).GetStepValue()
				}
			}},
		} {
			if msg, pan := safely(g.f); pan {
				c.Violate(prop+": range getter of the declared type panics", spec.id, map[string]interface{}{"characteristic": cc.Desc, "getter": g.name, "min": fmt.Sprint(cc.C.MinValue), "max": fmt.Sprint(cc.C.MaxValue), "step": fmt.Sprint(cc.C.StepValue)}, "the bound, or the zero value when none is declared", trunc(msg, 120))
				break
			}
		}
	}
	if kind == "string" && o.BytesGet {
		c.Violate(prop+": Bytes.GetValue panics", spec.id, input, "value ("+at+")", fmt.Sprintf("%T", v))
	}
	if o.EncErr != nil {
		c.Violate(prop+": characteristic cannot be encoded as JSON", spec.id, input, "json ("+at+")", o.EncErr.Error())
	}
	// callbacks see the declared type only
	for _, e := range o.Cbs {
		if got := fmt.Sprintf("%T", e.new); got != kind {
			c.Violate(fmt.Sprintf("%s: callback of a %s characteristic receives %s", prop, kind, typeClass(got)), spec.id, input, kind+" ("+at+")", got)
		}
	}
}

func typeClass(t string) string {
	switch t {
	case "[]interface {}":
		return "array"
	case "map[string]interface {}":
		return "object"
	}
	return t
}

func panicClass(msg string) string {
	switch {
	case strings.Contains(msg, "comparing uncomparable"):
		return "comparing uncomparable type"
	case strings.Contains(msg, "interface conversion"):
		return "interface conversion"
	}
	if len(msg) > 40 {
		msg = msg[:40]
	}
	return msg
}

func specInput(spec *charCaseSpec, line string) map[string]interface{} {
	var ops []string
	for _, o := range spec.ops {
		ops = append(ops, o.describe())
	}
	return map[string]interface{}{
		"characteristic": spec.cc.Desc, "format": spec.cc.C.Format, "perms": spec.cc.C.Perms,
		"min": spec.cc.C.MinValue, "max": spec.cc.C.MaxValue, "updateOnSameValue": spec.cc.Same,
		"typed_remote_callback": spec.cc.Tcb, "ops": ops, "model_line": line, "note": spec.note,
	}
}

// c12Corpus: F9 witnesses and boundary cases, run first.
func c12Corpus() []func() *charCaseSpec {
	arr := func() interface{} { return []interface{}{float64(1), "x"} }
	obj := func() interface{} { return map[string]interface{}{"a": float64(1)} }
	remote := func(v interface{}) charOp { return charOp{Kind: "u", Fc: true, Cp: true, V: v} }
	local := func(v interface{}) charOp { return charOp{Kind: "u", V: v} }
	byName := func(name string) *charCase {
		for _, e := range allCharacteristicCtors {
			if e.Name == name {
				cc, _ := newCtorCase(e)
				return cc
			}
		}
		return nil
	}
	custom := func(format, wrapper string, perms []string, mn, mx interface{}) *charCase {
		r := rand.New(rand.NewSource(1))
		cc := newCustomCase(r)
		for cc.Wrapper != wrapper {
			cc = newCustomCase(r)
		}
		cc.C.Format, cc.C.Perms, cc.C.MinValue, cc.C.MaxValue = format, perms, mn, mx
		setSameFlag(cc.C, false)
		cc.Same = false
		cc.Desc = fmt.Sprintf("custom %s-wrapper format=%q", wrapper, format)
		return cc
	}
	all := []string{"pr", "pw", "ev"}
	return []func() *charCaseSpec{
		func() *charCaseSpec { // F9 (i)
			cc := byName("NewConfiguredName")
			if cc == nil {
				return nil
			}
			cc.Tcb = "string"
			return &charCaseSpec{cc: cc, ops: []charOp{remote(float64(5)), remote(true), remote(nil)}, note: "F9(i): number written to a writable string characteristic"}
		},
		func() *charCaseSpec { // F9 (ii)
			cc := custom("string", "string", all, nil, nil)
			return &charCaseSpec{cc: cc, ops: []charOp{remote(arr()), remote(arr()), remote(obj()), remote(obj())}, note: "F9(ii): same array/object written twice"}
		},
		func() *charCaseSpec {
			cc := custom("tlv8", "string", all, nil, nil)
			cc.BytesCb, cc.Tcb = true, "string"
			return &charCaseSpec{cc: cc, ops: []charOp{remote(obj()), remote(obj()), remote(float64(2.5))}, note: "F9(ii) on tlv8 with Bytes callback"}
		},
		func() *charCaseSpec { // F9 (iii)
			cc := byName("NewTargetTemperature")
			if cc == nil {
				return nil
			}
			return &charCaseSpec{cc: cc, ops: []charOp{remote("NaN"), remote("Inf"), remote("1e999"), remote("-1e999"), {Kind: "g", Fc: true}}, note: "F9(iii): NaN / Inf strings written to a bounded float"}
		},
		func() *charCaseSpec {
			cc := custom("float", "float64", all, nil, nil)
			return &charCaseSpec{cc: cc, ops: []charOp{local(1.5), remote("1e999"), remote("-Inf"), remote("nan"), local(math.Inf(1)), local(math.NaN())}, note: "F9(iii): ±Inf on a float without bounds"}
		},
		func() *charCaseSpec { // clamping + conversions on an int
			cc := byName("NewBrightness")
			if cc == nil {
				return nil
			}
			cc.Tcb = "int"
			return &charCaseSpec{cc: cc, ops: []charOp{remote(float64(101)), remote(float64(-1)), remote("50"), remote(1e19), remote(1e30), remote(true), remote("18446744073709551616"), local(77)}, note: "int clamping and uint64 wrap"}
		},
		func() *charCaseSpec { // undeclared format keeps the comparison panic (model's Outcome.panic branch)
			cc := custom("", "string", all, nil, nil)
			return &charCaseSpec{cc: cc, ops: []charOp{remote(arr()), remote(arr()), remote(obj()), remote(arr())}, note: "undeclared format: uncomparable comparison panics (outside the property, ties the model's panic branch)"}
		},
	}
}

func checkC12(c *Ctx) {
	c12Rebound(c)
	c.SetRule("one case = one characteristic (every zero-argument constructor of package characteristic, and custom " +
		"format/permission/bound combinations) and a sequence of 1–8 local/remote updates and reads with type-directed dynamic values; " +
		"non-trivial = at least one step got past the equality and permission checks (callbacks ran), was refused by a permission, or panicked; " +
		"distinct = distinct model lines")
	c.Assume("github.com/xiam/to, strconv.ParseFloat/ParseUint/ParseBool/FormatFloat('g') and fmt %v on decoded JSON are modelled by hand (HcModel/Json.lean) and exercised through the real libraries")
	c.Assume("uint64(float64) outside [-2^63, 2^64) yields 0x8000000000000000 (go1.23/amd64, measured); the theorems do not depend on it")
	c.Assume("strings are valid UTF-8; decimal strings have fewer than 800 significant digits")
	checkCtorTable(c)

	var specs []*charCaseSpec
	for i, mk := range c12Corpus() {
		s := mk()
		if s == nil {
			continue
		}
		s.id = c.CaseID("c12-corpus", i)
		specs = append(specs, s)
	}
	rounds := c.Pick(8, 60)
	n := 0
	for round := 0; round < rounds; round++ {
		for _, e := range allCharacteristicCtors {
			id := c.CaseID("c12-ctor", n)
			r := c.CaseRng("c12-ctor", n)
			n++
			cc, pmsg := newCtorCase(e)
			if cc == nil {
				if !c.Skip(id) {
					c.Violate("C12: constructor panics", id, e.Name, "a characteristic", pmsg)
				}
				continue
			}
			if r.Intn(2) == 0 {
				cc.Tcb = cc.Wrapper
			}
			specs = append(specs, &charCaseSpec{id: id, cc: cc, ops: genOps(r, cc, false, 0)})
		}
	}
	for i := 0; i < c.Pick(6000, 120000); i++ {
		r := c.CaseRng("c12-custom", i)
		cc := newCustomCase(r)
		if r.Intn(2) == 0 {
			cc.Tcb = cc.Wrapper
			if cc.Wrapper == "string" && r.Intn(2) == 0 {
				cc.BytesCb = true
			}
		}
		specs = append(specs, &charCaseSpec{id: c.CaseID("c12-custom", i), cc: cc, ops: genOps(r, cc, false, 0)})
	}
	runCharSpecs(c, "C12", "c12", specs, nil, c12Oracles, nil)
	c12Strconv(c)
	c12Foreign(c)
	otherPlatforms(c, "C12") // type and range of what is stored, on 32-bit and non-amd64 builds too
}

// c12Strconv ties the hand-written strconv specifications of HcModel/Json.lean directly:
// parseFloat vs strconv.ParseFloat (error dropped) on numeric, near-numeric and malformed text, and
// fmtG vs strconv.FormatFloat(x,'g',-1,64) on arbitrary finite float64 bit patterns.
func c12Strconv(c *Ctx) {
	var lines, want, ids []string
	add := func(id, line, w string) {
		if c.Skip(id) {
			return
		}
		ids, lines, want = append(ids, id), append(lines, line), append(want, w)
	}
	pf := func(id, s string) {
		f, _ := strconv.ParseFloat(s, 64)
		add(id, "char pf "+hx([]byte(s)), encF(f))
	}
	for i, s := range interestingStrings {
		if utf8.ValidString(s) {
			pf(c.CaseID("c12-pf-fixed", i), s)
		}
	}
	alphabet := []byte("0123456789.eE+-_xXpPinfINFatyNA ")
	for i := 0; i < c.Pick(3000, 60000); i++ {
		r := c.CaseRng("c12-pf", i)
		var s string
		switch r.Intn(4) {
		case 0: // noise over the numeric alphabet (mostly malformed)
			b := make([]byte, r.Intn(9))
			for k := range b {
				b[k] = alphabet[r.Intn(len(alphabet))]
			}
			s = string(b)
		case 1: // valid text of a random float, possibly damaged
			s = numberText(r, math.Float64frombits(r.Uint64()&^(0x7ff<<52)|uint64(r.Intn(2046)+1)<<52))
			if r.Intn(3) == 0 && len(s) > 0 {
				k := r.Intn(len(s))
				s = s[:k] + string(alphabet[r.Intn(len(alphabet))]) + s[k:]
			}
		case 2: // decimal with many digits / extreme exponents (rounding, overflow, underflow, subnormals)
			s = fmt.Sprintf("%d.%de%d", r.Int63(), r.Int63(), r.Intn(700)-350)
			if r.Intn(4) == 0 {
				s = fmt.Sprintf("%d%de-%d", r.Intn(9)+1, r.Int63(), 320+r.Intn(12))
			}
		default: // hex floats and underscores
			s = fmt.Sprintf("0x%x.%xp%d", r.Intn(1<<20), r.Intn(1<<16), r.Intn(80)-40)
			if r.Intn(3) == 0 {
				s = strings.Replace(numberText(r, float64(r.Intn(1e9))), "0", "0_", 1)
			}
		}
		pf(c.CaseID("c12-pf", i), s)
	}
	for i := 0; i < c.Pick(3000, 60000); i++ {
		r := c.CaseRng("c12-fg", i)
		f := math.Float64frombits(r.Uint64())
		switch r.Intn(4) {
		case 0:
			f = interestingNumbers[r.Intn(len(interestingNumbers))]
		case 1:
			f = math.Ldexp(float64(r.Intn(1<<20)), r.Intn(80)-60)
		case 2:
			f = math.Ldexp(1, r.Intn(2098)-1074) // powers of two: asymmetric rounding interval
		}
		if math.IsNaN(f) || math.IsInf(f, 0) {
			continue
		}
		add(c.CaseID("c12-fg", i), "char fg "+encF(f), hx([]byte(strconv.FormatFloat(f, 'g', -1, 64))))
	}
	// parseInt vs strconv.ParseInt(s, 10, 64) (error dropped) and F64.toInt64 vs Go's int64(float64) on this platform
	pi := func(id, s string) {
		n, _ := strconv.ParseInt(s, 10, 64)
		add(id, "char pi "+hx([]byte(s)), fmt.Sprint(n))
	}
	for i, s := range interestingStrings {
		if utf8.ValidString(s) {
			pi(c.CaseID("c12-pi-fixed", i), s)
		}
	}
	ialpha := []byte("0123456789+-_ .e")
	for i := 0; i < c.Pick(1500, 30000); i++ {
		r := c.CaseRng("c12-pi", i)
		var s string
		switch r.Intn(3) {
		case 0:
			b := make([]byte, r.Intn(7))
			for k := range b {
				b[k] = ialpha[r.Intn(len(ialpha))]
			}
			s = string(b)
		case 1:
			s = fmt.Sprint(int64(r.Uint64()))
			if r.Intn(3) == 0 {
				s = "+" + strings.TrimPrefix(s, "-")
			}
		default: // around the ends of the int64 range and beyond
			s = []string{"", "-", "+"}[r.Intn(3)] + fmt.Sprintf("922337203685477580%d", r.Intn(10)) + []string{"", "0", "x"}[r.Intn(3)]
		}
		pi(c.CaseID("c12-pi", i), s)
	}
	for i := 0; i < c.Pick(1500, 30000); i++ {
		r := c.CaseRng("c12-fi", i)
		f := math.Float64frombits(r.Uint64())
		switch r.Intn(4) {
		case 0:
			f = interestingNumbers[r.Intn(len(interestingNumbers))]
		case 1:
			f = float64(r.Intn(400)-200) + []float64{0, 0.5, -0.5, 0.999}[r.Intn(4)]
		case 2:
			f = math.Ldexp(float64(r.Intn(1<<20)+1), r.Intn(70)-10) * float64(1-2*r.Intn(2)) // around 2^63
		}
		if math.IsNaN(f) {
			continue
		}
		add(c.CaseID("c12-fi", i), "char fi "+encF(f), fmt.Sprint(int64(f)))
	}
	got := c.Model(lines)
	for i := range lines {
		stream := "c12-strconv-format"
		if strings.HasPrefix(lines[i], "char pf") {
			stream = "c12-strconv-parse"
		}
		if strings.HasPrefix(lines[i], "char pi") || strings.HasPrefix(lines[i], "char fi") {
			c.Same("c12-strconv-int", ids[i], lines[i], got[i], want[i])
			c.Count(lines[i], want[i] != "0", "c12-strconv-int:"+lines[i][5:7])
			continue
		}
		c.Same(stream, ids[i], lines[i], got[i], want[i])
		kind := "finite"
		if strings.HasSuffix(want[i], "inf") || want[i] == "dnan" {
			kind = "nonfinite"
		} else if want[i] == "d+0e0" || want[i] == "d-0e0" {
			kind = "zero-or-syntax-error"
		}
		c.Count(lines[i], kind != "zero-or-syntax-error", stream+":"+kind)
	}
}

type fooStruct struct{ A int }

// c12Foreign: the malformed stream — application values of Go types outside the JSON universe
// (not modelled); only the direct oracles of the property apply.
func c12Foreign(c *Ctx) {
	foreign := []func() interface{}{
		func() interface{} { return int64(-7) }, func() interface{} { return uint8(200) }, func() interface{} { return uint64(math.MaxUint64) },
		func() interface{} { return float32(2.5) }, func() interface{} { return float32(math.NaN()) }, func() interface{} { return float32(math.Inf(-1)) },
		func() interface{} { return []byte("12") }, func() interface{} { return []int{1, 2} }, func() interface{} { return map[int]int{1: 2} },
		func() interface{} { return fooStruct{3} }, func() interface{} { return &fooStruct{4} }, func() interface{} { return complex(1, 2) },
		func() interface{} { return int32(math.MinInt32) }, func() interface{} { return uint16(65535) }, func() interface{} { return []string{"a"} },
		func() interface{} { return errors.New("x") }, func() interface{} { return json.Number("12") }, func() interface{} { return 'x' },
	}
	for i := 0; i < c.Pick(1500, 20000); i++ {
		id := c.CaseID("c12-foreign", i)
		if c.Skip(id) {
			continue
		}
		r := c.CaseRng("c12-foreign", i)
		var cc *charCase
		if r.Intn(2) == 0 {
			cc, _ = newCtorCase(allCharacteristicCtors[r.Intn(len(allCharacteristicCtors))])
		}
		if cc == nil {
			cc = newCustomCase(r)
		}
		if formatKind(cc.C.Format) == "" {
			continue
		}
		if cc.Wrapper == formatKind(cc.C.Format) && r.Intn(2) == 0 {
			cc.Tcb = cc.Wrapper
		}
		var ops []charOp
		for k := 0; k < 1+r.Intn(6); k++ {
			o := charOp{Kind: "u", Fc: r.Intn(2) == 0}
			o.Cp = o.Fc
			if r.Intn(3) == 0 {
				o.V = genValue(r, cc, false)
			} else {
				o.V = foreign[r.Intn(len(foreign))]()
			}
			if k > 0 && r.Intn(4) == 0 {
				o.V = ops[k-1].V // the very same (possibly uncomparable) value again
			}
			ops = append(ops, o)
		}
		spec := &charCaseSpec{id: id, cc: cc, ops: ops, note: "values of Go types outside the JSON universe (direct oracles only)"}
		var desc []string
		for _, o := range ops {
			desc = append(desc, fmt.Sprintf("%s %T %v", map[bool]string{true: "remote", false: "local"}[o.Fc], o.V, o.V))
		}
		input := map[string]interface{}{"characteristic": cc.Desc, "format": cc.C.Format, "perms": cc.C.Perms, "min": cc.C.MinValue, "max": cc.C.MaxValue, "typed_remote_callback": cc.Tcb, "ops": desc}
		for k, o := range runCharCase(cc, ops, nil) {
			c12Oracles(c, "C12", spec, k, o, input)
		}
		c.Count(fmt.Sprint(input), true, "c12-foreign:format="+cc.C.Format)
	}
}

// runCharSpecs: model + implementation + oracles for a list of cases (shared with C11).
type stepOracle func(c *Ctx, prop string, spec *charCaseSpec, stepIdx int, o *stepObs, input interface{})

func runCharSpecs(c *Ctx, prop, stream string, specs []*charCaseSpec, put putRunner, oracle stepOracle, before func(s *charCaseSpec), after ...func(s *charCaseSpec, input interface{})) {
	var lines []string
	var live []*charCaseSpec
	var inits []bool
	for _, s := range specs {
		if c.Skip(s.id) {
			continue
		}
		line, hasInit := modelLine(s.cc, s.ops)
		live = append(live, s)
		lines = append(lines, line)
		inits = append(inits, hasInit)
	}
	model := c.Model(lines)
	for i, s := range live {
		input := specInput(s, lines[i])
		if before != nil {
			before(s)
		}
		obs := runCharCase(s.cc, s.ops, put)
		var implParts []string
		if inits[i] {
			// observation of the constructed object, in the model's terms
			o := &stepObs{Value: s.cc.Initial, Cbs: []cbRec{{false, s.cc.Initial, nil}}}
			// the four typed getters on the constructed object (F37: none of them panics, whatever is stored)
			fresh := s.cc.C
			_, o.Getters[0] = safely(func() { (&characteristic.Bool{Characteristic: fresh}).GetValue() })
			_, o.Getters[1] = safely(func() { (&characteristic.Int{Characteristic: fresh}).GetValue() })
			_, o.Getters[2] = safely(func() { (&characteristic.Float{Characteristic: fresh}).GetValue() })
			_, o.Getters[3] = safely(func() { (&characteristic.String{Characteristic: fresh}).GetValue() })
			implParts = append(implParts, obsLine(o))
		}
		nontriv := false
		var buckets []string
		buckets = append(buckets, stream+":format="+modelFormat(s.cc.C.Format), fmt.Sprintf("%s:ops=%d", stream, len(s.ops)))
		for k, o := range obs {
			implParts = append(implParts, o.Line)
			oracle(c, prop, s, k, o, input)
			op := s.ops[k]
			switch op.Kind {
			case "u":
				buckets = append(buckets, fmt.Sprintf("%s:op=update conn=%v perms=%v", stream, op.Fc, op.Cp), stream+":value="+valueKind(op.V))
			case "g":
				buckets = append(buckets, fmt.Sprintf("%s:op=get conn=%v getfunc=%v", stream, op.Fc, op.HasV))
				if op.HasV {
					buckets = append(buckets, stream+":value="+valueKind(op.V))
				}
			case "p":
				buckets = append(buckets, fmt.Sprintf("%s:op=put entries=%d", stream, len(op.Puts)))
				for _, e := range op.Puts {
					if e.Value != nil {
						buckets = append(buckets, stream+":value="+valueKind(e.Value))
					}
				}
			}
			branch := "stored"
			switch {
			case o.Panicked:
				branch = "panic"
			case len(o.Cbs) == 0:
				branch = "ignored"
			case mustEnc(o.Value) != mustEnc(o.Cbs[len(o.Cbs)-1].new):
				branch = "callback-only"
			}
			buckets = append(buckets, stream+":branch="+branch)
			if len(o.Cbs) > 0 || o.Panicked {
				nontriv = true
			}
			if (op.Kind == "p" || (op.Kind == "u" && op.Cp)) && !hasPerm(s.cc.C.Perms, "pw") {
				nontriv = true // refused by the write permission
				buckets = append(buckets, stream+":refused=pw")
			}
			if len(o.Statuses) > 0 {
				nontriv = true // subscription refused
				buckets = append(buckets, stream+":refused=ev")
			}
			if len(o.Cbs) > 0 && !hasPerm(s.cc.C.Perms, "pr") {
				buckets = append(buckets, stream+":not-stored=pr")
			}
		}
		for _, f := range after {
			f(s, input)
		}
		impl := strings.Join(implParts, " | ")
		c.Same(stream, s.id, input, model[i], impl)
		c.Count(lines[i], nontriv, buckets...)
		if i%211 == 0 {
			c.Sample(trunc(lines[i], 260) + "  =>  " + trunc(impl, 260))
		}
		c.Trace()
	}
}

// c12Rebound: the declared range itself changes (Int/Float SetMinValue / SetMaxValue, and the accessory constructors that
// take a range: NewThermostat, NewTemperatureSensor). After every step on which min ≤ max holds, the stored value lies
// within the range that is declared NOW.
func c12Rebound(c *Ctx) {
	for i := 0; i < c.Pick(300, 20000); i++ {
		id := c.CaseID("rebound", i)
		if c.Skip(id) {
			continue
		}
		r := c.CaseRng("rebound", i)
		pick := func() float64 {
			return []float64{-273.15, -90, -20, -5, -0.5, 0, 0.1, 1, 8, 10, 25.5, 30, 50, 80, 100, 120, 200, 1e6}[r.Intn(18)]
		}
		var steps []string
		switch i % 4 {
		case 0, 1: // a float / an int characteristic, random setter sequence
			isInt := i%4 == 1
			fl := characteristic.NewCurrentTemperature()
			in := characteristic.NewBrightness().Int
			if i%8 == 5 {
				// the one constructor whose characteristic reports every update, also one to the value it already has
				in = &characteristic.Int{Characteristic: characteristic.NewProgrammableSwitchEvent().Characteristic}
				steps = append(steps, "NewProgrammableSwitchEvent")
			}
			if i%3 == 2 {
				// a characteristic whose value the application supplies on demand (a sensor that is read when asked): what
				// is stored — and served by /accessories and in events — still has to follow a changed range
				last := pick()
				fl.OnValueGet(func() interface{} { return last })
				in.OnValueGet(func() interface{} { return int(last) })
				steps = append(steps, "OnValueGet registered")
			}
			for k := 0; k < 2+r.Intn(8); k++ {
				v := pick()
				op := []string{"SetValue", "SetMinValue", "SetMaxValue"}[r.Intn(3)]
				steps = append(steps, fmt.Sprintf("%s(%v)", op, v))
				if isInt {
					switch op {
					case "SetValue":
						in.SetValue(int(v))
					case "SetMinValue":
						in.SetMinValue(int(v))
					default:
						in.SetMaxValue(int(v))
					}
					mn, hasMn := in.MinValue.(int)
					mx, hasMx := in.MaxValue.(int)
					if val, ok := in.Value.(int); ok && !(hasMn && hasMx && mn > mx) && ((hasMn && val < mn) || (hasMx && val > mx)) {
						c.Violate("C12: stored value outside the declared range after the range was changed", id, steps, fmt.Sprintf("within [%d, %d]", mn, mx), fmt.Sprint(val))
						break
					}
				} else {
					switch op {
					case "SetValue":
						fl.SetValue(v)
					case "SetMinValue":
						fl.SetMinValue(v)
					default:
						fl.SetMaxValue(v)
					}
					mn, _ := fl.MinValue.(float64)
					mx, _ := fl.MaxValue.(float64)
					if val, ok := fl.Value.(float64); ok && mn <= mx && (val < mn || val > mx) {
						c.Violate("C12: stored value outside the declared range after the range was changed", id, steps, fmt.Sprintf("within [%v, %v]", mn, mx), fmt.Sprint(val))
						break
					}
				}
			}
		default: // constructors with a range
			a, b := pick(), pick()
			if a > b {
				a, b = b, a
			}
			temp := pick()
			want := math.Min(math.Max(temp, a), b)
			steps = []string{fmt.Sprintf("temp=%v min=%v max=%v", temp, a, b)}
			var got []float64
			if i%4 == 2 {
				t := accessory.NewThermostat(accessory.Info{Name: "T"}, temp, a, b, 0.5)
				got = []float64{t.Thermostat.CurrentTemperature.GetValue(), t.Thermostat.TargetTemperature.GetValue()}
				steps = append(steps, "NewThermostat")
			} else {
				t := accessory.NewTemperatureSensor(accessory.Info{Name: "T"}, temp, a, b, 0.5)
				got = []float64{t.TempSensor.CurrentTemperature.GetValue()}
				steps = append(steps, "NewTemperatureSensor")
			}
			for _, g := range got {
				if g != want {
					c.Violate("C12: a constructor that takes a value and a range stores a value outside that range (or not the value given, when it lies inside)", id, steps, fmt.Sprint(want), fmt.Sprint(g))
					break
				}
			}
		}
		c.Count(fmt.Sprint(steps), true, "stream:rebound", fmt.Sprintf("rebound:kind=%d", i%4))
	}
}
