package main

// Shared by C11 and C12: wire syntax of dynamic values (see lean/HcModel/Drv/Characteristic.lean),
// type-directed value generator, characteristic configurations (every generated constructor +
// custom ones), and the runner that executes an operation sequence on the real characteristic.

import (
	"encoding/hex"
	"encoding/json"
	"fmt"
	"go/ast"
	"go/parser"
	"go/token"
	"math"
	"math/rand"
	"net"
	"os"
	"path/filepath"
	"reflect"
	"sort"
	"strconv"
	"strings"
	"unicode/utf8"
	"unsafe"

	"github.com/brutella/hc/characteristic"
)

type ctorEntry struct {
	Name string
	New  func() interface{}
}

// ---- wire syntax ---------------------------------------------------------------------------------

func encF(f float64) string {
	if math.IsNaN(f) {
		return "dnan"
	}
	if math.IsInf(f, 1) {
		return "d+inf"
	}
	if math.IsInf(f, -1) {
		return "d-inf"
	}
	b := math.Float64bits(f)
	sign := "+"
	if b>>63 == 1 {
		sign = "-"
	}
	ex := int((b >> 52) & 0x7ff)
	m := b & (1<<52 - 1)
	e := -1074
	if ex != 0 {
		m |= 1 << 52
		e = ex - 1075
	}
	if m == 0 {
		e = 0
	}
	for m != 0 && m%2 == 0 {
		m /= 2
		e++
	}
	return fmt.Sprintf("d%s%de%d", sign, m, e)
}

// encV renders a Go dynamic value; ok=false for types outside the modelled universe.
func encV(v interface{}) (string, bool) {
	switch t := v.(type) {
	case nil:
		return "n", true
	case bool:
		if t {
			return "t", true
		}
		return "f", true
	case int:
		return "i" + strconv.Itoa(t), true
	case float64:
		return encF(t), true
	case string:
		if !utf8.ValidString(t) {
			return "", false
		}
		return "s" + hex.EncodeToString([]byte(t)), true
	case []interface{}:
		parts := make([]string, len(t))
		for i, x := range t {
			s, ok := encV(x)
			if !ok {
				return "", false
			}
			parts[i] = s
		}
		return "a(" + strings.Join(parts, ",") + ")", true
	case map[string]interface{}:
		keys := make([]string, 0, len(t))
		for k := range t {
			keys = append(keys, k)
		}
		sort.Strings(keys)
		parts := make([]string, len(keys))
		for i, k := range keys {
			s, ok := encV(t[k])
			if !ok || !utf8.ValidString(k) {
				return "", false
			}
			parts[i] = hex.EncodeToString([]byte(k)) + "=" + s
		}
		return "o(" + strings.Join(parts, ",") + ")", true
	}
	return "", false
}

func mustEnc(v interface{}) string {
	s, ok := encV(v)
	if !ok {
		return fmt.Sprintf("?%T", v)
	}
	return s
}

// deepCopy returns a structurally equal fresh value (what decoding the same JSON text again yields).
func deepCopy(v interface{}) interface{} {
	switch t := v.(type) {
	case []interface{}:
		out := make([]interface{}, len(t))
		for i, x := range t {
			out[i] = deepCopy(x)
		}
		return out
	case map[string]interface{}:
		out := map[string]interface{}{}
		for k, x := range t {
			out[k] = deepCopy(x)
		}
		return out
	}
	return v
}

func valueKind(v interface{}) string {
	switch t := v.(type) {
	case nil:
		return "null"
	case bool:
		return "bool"
	case int:
		return "int"
	case float64:
		switch {
		case math.IsNaN(t) || math.IsInf(t, 0):
			return "num-nonfinite"
		case t != math.Trunc(t):
			return "num-fraction"
		case math.Abs(t) >= 1<<53:
			return "num-huge"
		case math.Abs(t) >= 1<<31:
			return "num-big"
		}
		return "num-small"
	case string:
		if _, err := strconv.ParseFloat(t, 64); err == nil {
			f, _ := strconv.ParseFloat(t, 64)
			if math.IsNaN(f) || math.IsInf(f, 0) {
				return "str-nonfinite"
			}
			return "str-numeric"
		} else if ne, ok := err.(*strconv.NumError); ok && ne.Err == strconv.ErrRange {
			return "str-nonfinite"
		}
		return "str-other"
	case []interface{}:
		return "array"
	case map[string]interface{}:
		return "object"
	}
	return "?"
}

// ---- configurations ------------------------------------------------------------------------------

var declaredFormats = []string{"float", "uint8", "uint16", "uint32", "int32", "uint64", "bool", "string", "tlv8", "data"}

func formatKind(f string) string { // Go type the format declares
	switch f {
	case "float":
		return "float64"
	case "uint8", "uint16", "uint32", "int32", "uint64":
		return "int"
	case "bool":
		return "bool"
	case "string", "tlv8", "data":
		return "string"
	}
	return ""
}

func modelFormat(f string) string {
	if formatKind(f) == "" {
		return "other"
	}
	return f
}

// charCase is one characteristic instance under test.
type charCase struct {
	Desc    string // constructor name or custom description
	C       *characteristic.Characteristic
	Wrapper string // bool|int|float64|string: the typed wrapper the constructor returned
	Tcb     string // "-" or the wrapper kind whose OnValueRemoteUpdate is registered
	BytesCb bool   // register it through Bytes.OnValueRemoteUpdate (asserts string as well)
	Same    bool
	Initial interface{} // value after construction
}

func wrapperOf(x interface{}) (*characteristic.Characteristic, string) {
	w := reflect.ValueOf(x).Elem().Field(0).Interface()
	switch t := w.(type) {
	case *characteristic.Int:
		return t.Characteristic, "int"
	case *characteristic.Float:
		return t.Characteristic, "float64"
	case *characteristic.String:
		return t.Characteristic, "string"
	case *characteristic.Bool:
		return t.Characteristic, "bool"
	case *characteristic.Bytes:
		return t.Characteristic, "string"
	}
	return nil, ""
}

func readSameFlag(c *characteristic.Characteristic) bool {
	return reflect.ValueOf(c).Elem().FieldByName("updateOnSameValue").Bool()
}

func setSameFlag(c *characteristic.Characteristic, v bool) {
	f := reflect.ValueOf(c).Elem().FieldByName("updateOnSameValue")
	reflect.NewAt(f.Type(), unsafe.Pointer(f.UnsafeAddr())).Elem().SetBool(v)
}

func newCtorCase(e ctorEntry) (cc *charCase, panicMsg string) {
	msg, pan := safely(func() {
		x := e.New()
		c, w := wrapperOf(x)
		if c == nil {
			panic(fmt.Sprintf("constructor %s returns %T: no typed wrapper found", e.Name, x))
		}
		cc = &charCase{Desc: e.Name, C: c, Wrapper: w, Tcb: "-", Same: readSameFlag(c), Initial: c.Value}
	})
	if pan {
		return nil, msg
	}
	return cc, ""
}

var allPerms = []string{"pr", "pw", "ev", "hd", "wr"}

func randPerms(r *rand.Rand) []string {
	var ps []string
	switch r.Intn(6) {
	case 0:
		return characteristic.PermsAll()
	case 1:
		return characteristic.PermsRead()
	case 2:
		return characteristic.PermsWriteOnly()
	}
	for _, p := range allPerms {
		if r.Intn(2) == 0 {
			ps = append(ps, p)
		}
	}
	r.Shuffle(len(ps), func(i, j int) { ps[i], ps[j] = ps[j], ps[i] })
	return ps
}

// newCustomCase: a characteristic built from the generic constructors with random format,
// permission set, bounds and flags.
func newCustomCase(r *rand.Rand) *charCase {
	format := declaredFormats[r.Intn(len(declaredFormats))]
	if r.Intn(12) == 0 {
		format = "" // undeclared format: convert's default branch
	}
	kind := formatKind(format)
	wrapper := kind
	if wrapper == "" || r.Intn(12) == 0 {
		wrapper = []string{"bool", "int", "float64", "string"}[r.Intn(4)] // deliberately mismatched wrapper
	}
	var c *characteristic.Characteristic
	switch wrapper {
	case "int":
		c = characteristic.NewInt("F0").Characteristic
	case "float64":
		c = characteristic.NewFloat("F1").Characteristic
	case "bool":
		c = characteristic.NewBool("F2").Characteristic
	default:
		if r.Intn(2) == 0 {
			c = characteristic.NewBytes("F3").Characteristic
		} else {
			c = characteristic.NewString("F4").Characteristic
		}
	}
	c.Format = format
	c.Perms = randPerms(r)
	desc := fmt.Sprintf("custom %s-wrapper format=%q", wrapper, format)
	// bounds
	switch kind {
	case "int":
		lo := []int{0, 0, 1, -10, -100, 5, -2147483648, 10}[r.Intn(8)]
		hi := lo + []int{0, 1, 2, 10, 100, 255, 65535, 4294967295}[r.Intn(8)]
		switch r.Intn(5) {
		case 0: // none
		case 1:
			c.MinValue = lo
		case 2:
			c.MaxValue = hi
		default:
			c.MinValue, c.MaxValue = lo, hi
		}
		if r.Intn(15) == 0 {
			c.MaxValue = float64(hi) // bound of a foreign type: ignored by clampInt
		}
	case "float64":
		lo := []float64{0, 0, -0.5, 10, -270, 0.0001, -1e30, 16}[r.Intn(8)]
		hi := lo + []float64{0, 0.5, 1, 22, 100, 370, 1e30, 100000}[r.Intn(8)]
		switch r.Intn(5) {
		case 0:
		case 1:
			c.MinValue = lo
		case 2:
			c.MaxValue = hi
		default:
			c.MinValue, c.MaxValue = lo, hi
		}
		if r.Intn(15) == 0 {
			c.MinValue = int(lo) // foreign type: ignored by clampFloat
		}
	}
	same := r.Intn(6) == 0
	if same {
		setSameFlag(c, true)
	}
	// a step (metadata for controllers; no part of storing a value), often one the bounds are not multiples of — drawn
	// from a generator of its own so that the other choices stay as they were
	if sr := rand.New(rand.NewSource(r.Int63())); kind == "float64" && sr.Intn(3) > 0 {
		c.StepValue = []float64{0.1, 1, 3, 0.25, 7.5, 0.3}[sr.Intn(6)]
		desc += fmt.Sprintf(" step=%v", c.StepValue)
	} else if kind == "int" && sr.Intn(3) > 0 {
		c.StepValue = []int{1, 2, 3, 7, 10}[sr.Intn(5)]
		desc += fmt.Sprintf(" step=%v", c.StepValue)
	}
	return &charCase{Desc: desc, C: c, Wrapper: wrapper, Tcb: "-", Same: same}
}

func permsToken(ps []string) (string, bool) {
	if len(ps) == 0 {
		return "-", true
	}
	for _, p := range ps {
		ok := false
		for _, q := range allPerms {
			if p == q {
				ok = true
			}
		}
		if !ok {
			return "", false
		}
	}
	return strings.Join(ps, "+"), true
}

func hasPerm(ps []string, p string) bool {
	for _, q := range ps {
		if q == p {
			return true
		}
	}
	return false
}

func (cc *charCase) cfgTokens() string {
	pt, _ := permsToken(cc.C.Perms)
	same := "0"
	if cc.Same {
		same = "1"
	}
	return fmt.Sprintf("%s %s %s %s %s %s", modelFormat(cc.C.Format), pt, mustEnc(cc.C.MinValue), mustEnc(cc.C.MaxValue), same, cc.Tcb)
}

// ---- operations ----------------------------------------------------------------------------------

type putEntry struct {
	Value interface{} // nil = absent
	Ev    interface{}
	HasEv bool
}

type charOp struct {
	Kind string // "u" update, "g" get, "p" put
	Fc   bool   // from a connection
	Cp   bool   // checkPerms
	HasV bool   // g: a get function is registered
	V    interface{}
	HasG bool // u, p: a get function (returning G) is registered while the write is made; a write does not consult it
	G    interface{}
	Puts []putEntry
}

func bit(b bool) string {
	if b {
		return "1"
	}
	return "0"
}

func (o charOp) token() string {
	switch o.Kind {
	case "u":
		return "u" + bit(o.Fc) + bit(o.Cp) + "=" + mustEnc(o.V)
	case "g":
		if o.HasV {
			return "g" + bit(o.Fc) + "=" + mustEnc(o.V)
		}
		return "g" + bit(o.Fc)
	}
	var parts []string
	for _, e := range o.Puts {
		parts = append(parts, mustEnc(e.Value)+"~"+mustEnc(e.Ev))
	}
	return "p=" + strings.Join(parts, ";")
}

func (o charOp) describe() string {
	if o.HasG {
		p := o
		p.HasG = false
		return p.describe() + " while OnValueGet returns " + mustEnc(o.G)
	}
	j := func(v interface{}) string {
		if i, ok := v.(int); ok {
			return fmt.Sprintf("int(%d)", i)
		}
		if f, ok := v.(float64); ok && (math.IsNaN(f) || math.IsInf(f, 0)) {
			return fmt.Sprintf("float64(%v)", f)
		}
		b, _ := json.Marshal(v)
		return string(b)
	}
	switch o.Kind {
	case "u":
		switch {
		case !o.Fc && !o.Cp:
			return "UpdateValue(" + j(o.V) + ")"
		case o.Fc && o.Cp:
			return "UpdateValueFromConnection(" + j(o.V) + ", conn)"
		case !o.Fc && o.Cp:
			return "UpdateValueFromConnection(" + j(o.V) + ", nil)"
		}
		return "updateValue(" + j(o.V) + ", conn, false)"
	case "g":
		s := "GetValue()"
		if o.Fc {
			s = "GetValueFromConnection(conn)"
		}
		if o.HasV {
			s += " with OnValueGet returning " + j(o.V)
		}
		return s
	}
	var parts []string
	for _, e := range o.Puts {
		m := map[string]interface{}{}
		if e.Value != nil {
			m["value"] = e.Value
		}
		if e.HasEv {
			m["ev"] = e.Ev
		}
		parts = append(parts, j(m))
	}
	return "PUT [" + strings.Join(parts, ",") + "]"
}

// ---- value generator -----------------------------------------------------------------------------

var interestingNumbers = []float64{
	0, 1, -1, 2, 7, 100, 255, 256, 65535, 65536, -2147483648, 2147483647, 2147483648, -2147483649, 4294967295, 4294967296,
	9007199254740992, -9007199254740992, 9007199254740994, 9223372036854775808, -9223372036854775808, 18446744073709551616, 18446744073709549568,
	1e19, 1e30, -1e30, 0.5, 2.5, -0.25, 99.99, 0.1, 1.0 / 1024, 3.7, -3.7, 0.9, -0.9, 1e-320, 5e-324, math.MaxFloat64, -math.MaxFloat64,
	1e21, 1e6, 123456789, 0.0001, 0.00001, 1e23, 360, 37.5,
}

var interestingStrings = []string{
	"NaN", "nan", "Inf", "-Inf", "+Infinity", "inf", "infin", "1e999", "-1e999", "1.7976931348623159e308", " 7", "7 ", "+7", "-7", "-0", "1_000", "1__0",
	"0x1p-2", "0x10", "0X1P3", "true", "T", "t", "TRUE", "True", "1", "0", "false", "F", "yes", "", "18446744073709551616", "18446744073709551615",
	"9223372036854775808", "-5", "3.7", "1e3", "1E5", ".5", "5.", ".", "1e", "1.0", "2.4e-324", "2.5e-324", "+nan", "0.1", "00012", "1.5.2", "12abc",
	"hello world", "Wohnzimmer Lampe", "AQIDBA==", "日本語", "١٢", "[1 2]", "map[a:1]", "<nil>", "a b\tc", "%v", "\u0000",
	"e\u0301A\u030a\u212b\u1100\u1161",
}

func numberNear(r *rand.Rand, cc *charCase) (float64, bool) {
	var bs []float64
	for _, b := range []interface{}{cc.C.MinValue, cc.C.MaxValue} {
		switch t := b.(type) {
		case int:
			bs = append(bs, float64(t))
		case float64:
			bs = append(bs, t)
		}
	}
	if len(bs) == 0 {
		return 0, false
	}
	b := bs[r.Intn(len(bs))]
	d := []float64{-1, 0, 1, -0.5, 0.5, -2, 2, 0.25}[r.Intn(8)]
	if len(bs) == 2 && r.Intn(4) == 0 {
		return (bs[0] + bs[1]) / 2, true
	}
	return b + d, true
}

func genNumber(r *rand.Rand, cc *charCase) float64 {
	switch r.Intn(10) {
	case 0, 1, 2:
		if f, ok := numberNear(r, cc); ok {
			return f
		}
	case 3:
		return float64(r.Intn(300) - 20)
	case 4:
		return math.Round(r.NormFloat64()*1e6) / 64
	case 5:
		return math.Float64frombits(r.Uint64()&^(0x7ff<<52) | uint64(r.Intn(2046)+1)<<52) // any finite normal float64
	}
	return interestingNumbers[r.Intn(len(interestingNumbers))]
}

func numberText(r *rand.Rand, f float64) string {
	switch r.Intn(5) {
	case 0:
		return strconv.FormatFloat(f, 'e', -1, 64)
	case 1:
		return strconv.FormatFloat(f, 'f', -1, 64)
	case 2:
		if f == math.Trunc(f) && math.Abs(f) < 1e18 {
			return strconv.FormatInt(int64(f), 10)
		}
	case 3:
		return strconv.FormatFloat(f, 'f', 3, 64)
	}
	return strconv.FormatFloat(f, 'g', -1, 64)
}

func genWord(r *rand.Rand) string {
	n := r.Intn(12)
	rs := make([]rune, n)
	for i := range rs {
		switch r.Intn(10) {
		case 0:
			rs[i] = rune(0x80 + r.Intn(0x700))
		case 1:
			rs[i] = ' '
		case 2:
			rs[i] = rune('0' + r.Intn(10))
		default:
			rs[i] = rune('a' + r.Intn(26))
		}
	}
	return string(rs)
}

func genComposite(r *rand.Rand, cc *charCase, depth int) interface{} {
	leaf := func() interface{} {
		switch r.Intn(6) {
		case 0:
			return nil
		case 1:
			return r.Intn(2) == 0
		case 2:
			return genWord(r)
		case 3:
			return interestingStrings[r.Intn(len(interestingStrings))]
		}
		return genNumber(r, cc)
	}
	n := r.Intn(4)
	if r.Intn(2) == 0 {
		a := make([]interface{}, n)
		for i := range a {
			if depth > 0 && r.Intn(3) == 0 {
				a[i] = genComposite(r, cc, depth-1)
			} else {
				a[i] = leaf()
			}
		}
		return a
	}
	m := map[string]interface{}{}
	for i := 0; i < n; i++ {
		k := []string{"a", "b", "value", "Z", "ä", "", "k 1"}[r.Intn(7)]
		if depth > 0 && r.Intn(3) == 0 {
			m[k] = genComposite(r, cc, depth-1)
		} else {
			m[k] = leaf()
		}
	}
	return m
}

// genValue: type-directed. jsonOnly restricts to what a JSON decoder produces (no Go int).
func genValue(r *rand.Rand, cc *charCase, jsonOnly bool) interface{} {
	kind := formatKind(cc.C.Format)
	x := r.Intn(20)
	switch {
	case x < 8: // the natural type of the format
		switch kind {
		case "bool":
			return r.Intn(2) == 0
		case "string":
			if r.Intn(2) == 0 {
				return genWord(r)
			}
			return interestingStrings[r.Intn(len(interestingStrings))]
		case "int":
			f := genNumber(r, cc)
			if !jsonOnly && f == math.Trunc(f) && math.Abs(f) < 9e18 && r.Intn(3) > 0 {
				return int(f)
			}
			return f
		}
		return genNumber(r, cc)
	case x < 11:
		f := genNumber(r, cc)
		if !jsonOnly && f == math.Trunc(f) && math.Abs(f) < 9e18 && r.Intn(4) == 0 {
			return int(f)
		}
		return f
	case x < 13:
		return numberText(r, genNumber(r, cc))
	case x < 15:
		return interestingStrings[r.Intn(len(interestingStrings))]
	case x < 16:
		return genWord(r)
	case x < 17:
		return r.Intn(2) == 0
	case x < 18:
		return nil
	}
	return genComposite(r, cc, 2)
}

// genOps: 1–8 operations; repeats the previous value (fresh copy) with probability 1/4.
func genOps(r *rand.Rand, cc *charCase, withPut bool, putExtra int) []charOp {
	n := 1 + r.Intn(8)
	var ops []charOp
	var prev interface{}
	havePrev := false
	for i := 0; i < n; i++ {
		var o charOp
		k := r.Intn(20 + putExtra)
		jsonOnly := true
		switch {
		case k < 6:
			o = charOp{Kind: "u"} // local
			jsonOnly = false
		case k < 13:
			o = charOp{Kind: "u", Fc: true, Cp: true}
		case k < 14:
			o = charOp{Kind: "u", Fc: false, Cp: true}
		case k < 15:
			o = charOp{Kind: "g", Fc: r.Intn(2) == 0}
		case k < 17:
			o = charOp{Kind: "g", Fc: r.Intn(2) == 0, HasV: true}
			jsonOnly = false
		default:
			if withPut {
				o = charOp{Kind: "p"}
			} else {
				o = charOp{Kind: "u", Fc: true, Cp: true}
			}
		}
		pick := func() interface{} {
			if havePrev && r.Intn(4) == 0 {
				if _, isInt := prev.(int); !(isInt && jsonOnly) {
					return deepCopy(prev)
				}
			}
			v := genValue(r, cc, jsonOnly)
			prev, havePrev = v, true
			return v
		}
		switch o.Kind {
		case "u":
			o.V = pick()
		case "g":
			if o.HasV {
				o.V = pick()
			}
		case "p":
			ne := 1
			if r.Intn(4) == 0 {
				ne = 2 + r.Intn(2)
			}
			for j := 0; j < ne; j++ {
				var e putEntry
				if r.Intn(4) > 0 {
					e.Value = pick()
				}
				switch r.Intn(8) {
				case 0, 1, 2:
					e.HasEv, e.Ev = true, true
				case 3:
					e.HasEv, e.Ev = true, false
				case 4:
					e.HasEv, e.Ev = true, []interface{}{float64(1), "yes", map[string]interface{}{}}[r.Intn(3)]
				}
				o.Puts = append(o.Puts, e)
			}
		}
		if (o.Kind == "u" || o.Kind == "p") && r.Intn(5) == 0 {
			// drawn from a generator of its own: the stream of the other choices stays as it was
			gr := rand.New(rand.NewSource(r.Int63()))
			o.HasG, o.G = true, genValue(gr, cc, false)
		}
		ops = append(ops, o)
	}
	return ops
}

// ---- runner --------------------------------------------------------------------------------------

type cbRec struct {
	conn     bool
	new, old interface{}
}

// putRunner executes one PUT against the real handler and returns (panicked, status entries, subscribed).
type putRunner func(cc *charCase, entries []putEntry) (panicked bool, statuses []int, sub bool, msg string)

type stepObs struct {
	Line     string // same format as the Lean driver's observation
	Panicked bool
	PanicMsg string
	Value    interface{}
	Read     interface{}
	Cbs      []cbRec
	Getters  [4]bool // typed getter panicked: bool, int, float64, string
	BytesGet bool
	EncErr   error
	Statuses []int
	Sub      bool
}

func obsLine(o *stepObs) string {
	out := "ok"
	if o.Panicked {
		out = "panic"
	}
	cb := "-"
	if len(o.Cbs) > 0 {
		cb = ""
		for _, e := range o.Cbs {
			p := "L("
			if e.conn {
				p = "C("
			}
			cb += p + mustEnc(e.new) + ";" + mustEnc(e.old) + ")"
		}
	}
	g := ""
	for _, p := range o.Getters {
		if p {
			g += "P"
		} else {
			g += "o"
		}
	}
	st := "-"
	if len(o.Statuses) > 0 {
		var ss []string
		for _, s := range o.Statuses {
			ss = append(ss, strconv.Itoa(s))
		}
		st = strings.Join(ss, ",")
	}
	enc := "1"
	if o.EncErr != nil {
		enc = "0"
	}
	return fmt.Sprintf("%s v=%s cb=%s g=%s enc=%s r=%s st=%s sub=%s", out, mustEnc(o.Value), cb, g, enc, mustEnc(o.Read), st, bit(o.Sub))
}

// runCharCase executes ops on the real characteristic and records one observation per op.
func runCharCase(cc *charCase, ops []charOp, put putRunner) []*stepObs {
	c := cc.C
	var cbs []cbRec
	c.OnValueUpdate(func(_ *characteristic.Characteristic, n, o interface{}) { cbs = append(cbs, cbRec{false, n, o}) })
	c.OnValueUpdateFromConn(func(_ net.Conn, _ *characteristic.Characteristic, n, o interface{}) {
		cbs = append(cbs, cbRec{true, n, o})
	})
	switch cc.Tcb {
	case "int":
		(&characteristic.Int{Characteristic: c}).OnValueRemoteUpdate(func(int) {})
	case "float64":
		(&characteristic.Float{Characteristic: c}).OnValueRemoteUpdate(func(float64) {})
	case "bool":
		(&characteristic.Bool{Characteristic: c}).OnValueRemoteUpdate(func(bool) {})
	case "string":
		if cc.BytesCb {
			(&characteristic.Bytes{String: &characteristic.String{Characteristic: c}}).OnValueRemoteUpdate(func([]byte) {})
		} else {
			(&characteristic.String{Characteristic: c}).OnValueRemoteUpdate(func(string) {})
		}
	}
	var res []*stepObs
	sub := false
	for _, op := range ops {
		o := &stepObs{}
		cbs = nil
		if op.HasG {
			g := op.G
			c.OnValueGet(func() interface{} { return g })
		}
		switch op.Kind {
		case "u":
			o.PanicMsg, o.Panicked = safely(func() {
				switch {
				case !op.Fc && !op.Cp:
					c.UpdateValue(op.V)
				case op.Fc && op.Cp:
					c.UpdateValueFromConnection(op.V, characteristic.TestConn)
				case !op.Fc && op.Cp:
					c.UpdateValueFromConnection(op.V, nil)
				default:
					panic("harness: update (conn, no perms check) is only reachable through a get function")
				}
			})
		case "g":
			if op.HasV {
				v := op.V
				c.OnValueGet(func() interface{} { return v })
			}
			o.PanicMsg, o.Panicked = safely(func() {
				if op.Fc {
					o.Read = c.GetValueFromConnection(characteristic.TestConn)
				} else {
					o.Read = c.GetValue()
				}
			})
			c.OnValueGet(nil)
		case "p":
			o.Panicked, o.Statuses, sub, o.PanicMsg = put(cc, op.Puts)
		}
		if op.HasG {
			c.OnValueGet(nil)
		}
		o.Sub = sub
		o.Cbs = cbs
		o.Value = c.Value
		_, o.Getters[0] = safely(func() { (&characteristic.Bool{Characteristic: c}).GetValue() })
		_, o.Getters[1] = safely(func() { (&characteristic.Int{Characteristic: c}).GetValue() })
		_, o.Getters[2] = safely(func() { (&characteristic.Float{Characteristic: c}).GetValue() })
		_, o.Getters[3] = safely(func() { (&characteristic.String{Characteristic: c}).GetValue() })
		_, o.BytesGet = safely(func() { (&characteristic.Bytes{String: &characteristic.String{Characteristic: c}}).GetValue() })
		_, o.EncErr = json.Marshal(c)
		o.Line = obsLine(o)
		res = append(res, o)
	}
	return res
}

// modelLine renders the case for the Lean driver. When the constructor already stored a value the
// model replays it as a first local update (its observation is matched against the constructed object).
func modelLine(cc *charCase, ops []charOp) (line string, hasInit bool) {
	toks := []string{"char run", cc.cfgTokens()}
	if cc.Initial != nil {
		hasInit = true
		toks = append(toks, "u00="+mustEnc(cc.Initial))
	}
	for _, o := range ops {
		toks = append(toks, o.token())
	}
	return strings.Join(toks, " "), hasInit
}

// ---- cross-check of the generated constructor table against the tree -----------------------------

func scanCtorNames(repo string) ([]string, error) {
	fset := token.NewFileSet()
	pkgs, err := parser.ParseDir(fset, filepath.Join(repo, "characteristic"), func(fi os.FileInfo) bool { return !strings.HasSuffix(fi.Name(), "_test.go") }, 0)
	if err != nil {
		return nil, err
	}
	var names []string
	for _, pkg := range pkgs {
		for _, f := range pkg.Files {
			for _, d := range f.Decls {
				fd, ok := d.(*ast.FuncDecl)
				if !ok || fd.Recv != nil || !fd.Name.IsExported() || !strings.HasPrefix(fd.Name.Name, "New") {
					continue
				}
				if len(fd.Type.Params.List) > 0 || fd.Type.Results == nil || len(fd.Type.Results.List) != 1 {
					continue
				}
				if _, isPtr := fd.Type.Results.List[0].Type.(*ast.StarExpr); !isPtr {
					continue
				}
				names = append(names, fd.Name.Name)
			}
		}
	}
	sort.Strings(names)
	return names, nil
}

// checkCtorTable: the compiled-in table must list exactly the constructors of the tree.
func checkCtorTable(c *Ctx) {
	names, err := scanCtorNames(c.Repo)
	if err != nil {
		c.Mismatch("ctor-table", "ctor-table", c.Repo, "parsable characteristic package", err.Error())
		return
	}
	have := map[string]bool{}
	for _, e := range allCharacteristicCtors {
		have[e.Name] = true
	}
	for _, n := range names {
		if !have[n] {
			c.Mismatch("ctor-table", "ctor-table", n, "constructor covered by the generated table", "missing (run extract CtorTable)")
		}
		delete(have, n)
	}
	for n := range have {
		c.Mismatch("ctor-table", "ctor-table", n, "constructor exists in the tree", "stale table entry")
	}
	c.Extra("constructors", len(names))
}
