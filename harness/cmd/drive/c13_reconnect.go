package main

// C13 — "afterwards a correct handshake on a new connection still succeeds". Stream `reconnect-during-close`: a controller
// resets its connection and reconnects from the same port; the old connection's real Close runs while the new connection is
// being set up (hap.NewConnection) — before it, after it, and in the middle of Close, right after Close has looked its
// session up in the context (a wrapper around the real context starts the new connection at that point and gives it time).
// Afterwards the connection that lives must have its session registered: without one every pairing handler of that connection
// fails. The order that was actually taken is given to HcModel/CloseRace.lean (theorem reconnect_during_close_keeps_session
// for the schedules the repaired code admits).

import (
	"fmt"
	"net"
	"sync"
	"time"

	"github.com/brutella/hc/hap"
)

// hookGetCtx runs a callback right after a lookup of the session of one net.Conn has been answered by the real context.
type hookGetCtx struct {
	hap.Context
	mu    sync.Mutex
	armed bool
	after func()
}

func (h *hookGetCtx) GetSessionForConnection(cn net.Conn) hap.Session {
	s := h.Context.GetSessionForConnection(cn)
	h.mu.Lock()
	f := h.after
	fire := h.armed
	h.armed = false
	h.mu.Unlock()
	if fire && f != nil {
		f()
	}
	return s
}

func c13ReconnectDuringClose(c *Ctx) {
	for i := 0; i < c.Pick(6, 60); i++ {
		id := c.CaseID("reconnect-during-close", i)
		if c.Skip(id) {
			continue
		}
		r := c.CaseRng("reconnect-during-close", i)
		ctx := &hookGetCtx{Context: hap.NewContextForSecuredDevice(nil)}
		addr := fakeAddr(fmt.Sprintf("10.9.%d.%d:%d", r.Intn(200), 1+r.Intn(200), 40000+r.Intn(20000)))
		raw1 := &sinkConn{remote: addr}
		conn1 := hap.NewConnection(raw1, ctx)
		raw2 := &sinkConn{remote: addr} // the same addresses
		var conn2 *hap.Connection
		mode := i % 3
		var sched, how string
		switch mode {
		case 0:
			conn2 = hap.NewConnection(raw2, ctx)
			conn1.Close()
			sched, how = "c1 a", "the new connection is set up, then the old one is closed"
		case 1:
			conn1.Close()
			conn2 = hap.NewConnection(raw2, ctx)
			sched, how = "a c1", "the old connection is closed, then the new one is set up"
		case 2:
			started, done := make(chan struct{}), make(chan struct{})
			inBetween := false
			ctx.mu.Lock()
			ctx.armed = true
			ctx.after = func() {
				go func() {
					close(started)
					conn2 = hap.NewConnection(raw2, ctx)
					close(done)
				}()
				<-started
				select {
				case <-done:
					inBetween = true // set up between the lookup and the removal of Close
				case <-time.After(60 * time.Millisecond):
				}
			}
			ctx.mu.Unlock()
			conn1.Close()
			<-done
			if inBetween {
				sched, how = "g c1 d", "the new connection is set up after Close has looked its session up and before Close removes it"
			} else {
				sched, how = "a c1", "the new connection is being set up while the old one closes; it had to wait until Close was through"
			}
		}
		impl := "none"
		switch s := ctx.Context.GetSessionForConnection(raw2); {
		case s == nil:
		case s.Connection() == net.Conn(conn2):
			impl = "1"
		case s.Connection() == net.Conn(conn1):
			impl = "0"
		default:
			impl = "other"
		}
		in := map[string]interface{}{"order": how, "address_pair": "the same for both connections"}
		c.Same("closerace", id, in, c.Model1("closerace run "+sched), impl)
		if impl != "1" {
			c.Violate("a connection that was accepted while an older connection with the same addresses closed is left without a session (every pairing request on it fails)", id, in,
				"the session of the new connection is registered", "registered: "+impl)
		}
		c.Count(id+sched, mode == 2, "stream:reconnect-during-close", "reconnect-during-close:"+sched)
	}
}
