package main

// Targets Catalog (C15, C14) and JsonShape (C14): see harness/internal/catalog.

import (
	"hcverif/harness/internal/catalog"
)

func init() {
	targets["Catalog"] = func(e *env) (string, error) {
		s, d, err := catalogDump(e)
		if err != nil {
			return "", err
		}
		return catalog.RenderCatalog(s, d)
	}
	targets["JsonShape"] = func(e *env) (string, error) {
		s, d, err := catalogDump(e)
		if err != nil {
			return "", err
		}
		return catalog.RenderJsonShape(s, d)
	}
}

var (
	cachedScan *catalog.Scan
	cachedDump *catalog.Dump
)

// catalogDump scans the tree and runs the generated constructor dump once per extract invocation.
func catalogDump(e *env) (*catalog.Scan, *catalog.Dump, error) {
	if cachedDump != nil {
		return cachedScan, cachedDump, nil
	}
	s, err := catalog.ScanRepo(e.Repo)
	if err != nil {
		return nil, nil, err
	}
	d, err := s.RunDump(e.Repo, e.Scratch("catalog"))
	if err != nil {
		return nil, nil, err
	}
	cachedScan, cachedDump = s, d
	return s, d, nil
}
