package main

// Target PairLabels (C04, C05, C06): every constant the pairing / session code feeds into HKDF, the AEAD and SRP, the
// TLV8 tag / state / error / method constants, and the order in which signature material is concatenated — read from
// /repo's source with go/ast (these facts are invisible to any run-time observation of the accessory alone:
// a label changed consistently on hc's client and server side still interoperates with itself).

import (
	"fmt"
	"go/ast"
	"go/parser"
	"go/token"
	"path/filepath"
	"sort"
	"strconv"
	"strings"
)

func init() { targets["PairLabels"] = genPairLabels }

type labelRow struct{ File, Func, Kind, A, B string }

// byteLit returns the string in `[]byte("…")` / a string literal / a package-level string constant.
func byteLit(e ast.Expr, consts map[string]string) (string, bool) {
	switch x := e.(type) {
	case *ast.BasicLit:
		if x.Kind == token.STRING {
			s, err := strconv.Unquote(x.Value)
			return s, err == nil
		}
	case *ast.Ident:
		s, ok := consts[x.Name]
		return s, ok
	case *ast.CallExpr:
		if at, ok := x.Fun.(*ast.ArrayType); ok && len(x.Args) == 1 {
			if id, ok := at.Elt.(*ast.Ident); ok && id.Name == "byte" {
				return byteLit(x.Args[0], consts)
			}
		}
	}
	return "", false
}

// dotted renders a selector chain a.b.c ("" for anything else).
func dotted(e ast.Expr) string {
	switch x := e.(type) {
	case *ast.Ident:
		return x.Name
	case *ast.SelectorExpr:
		if p := dotted(x.X); p != "" {
			return p + "." + x.Sel.Name
		}
		return x.Sel.Name
	}
	return ""
}

func funcName(fset *token.FileSet, fd *ast.FuncDecl) string {
	fn := fd.Name.Name
	if fd.Recv != nil && len(fd.Recv.List) > 0 {
		fn = exprText(fset, fd.Recv.List[0].Type) + "." + fn
	}
	return fn
}

func genPairLabels(e *env) (string, error) {
	fset := token.NewFileSet()
	files := []string{
		"hap/pair/setup_server_controller.go", "hap/pair/setup_server_session.go", "hap/pair/srp.go",
		"hap/pair/verify_server_controller.go", "hap/pair/verify_session.go", "crypto/secure_session.go",
		"crypto/chacha20poly1305/chacha20_poly1305.go", "crypto/hkdf/hkdf.go",
	}
	constFiles := []string{"hap/pair/tag_types.go", "hap/pair/sequence_types.go", "hap/pair/error_types.go", "hap/pair/method_types.go", "hap/pair/srp.go"}
	var rows []labelRow
	type constRow struct {
		File, Name string
		Val        string
	}
	var consts []constRow
	strConsts := map[string]string{}
	for _, f := range constFiles {
		af, err := parser.ParseFile(fset, filepath.Join(e.Repo, f), nil, 0)
		if err != nil {
			return "", err
		}
		for _, d := range af.Decls {
			gd, ok := d.(*ast.GenDecl)
			if !ok || gd.Tok != token.CONST {
				continue
			}
			for _, sp := range gd.Specs {
				vs := sp.(*ast.ValueSpec)
				for i, n := range vs.Names {
					if i >= len(vs.Values) {
						continue
					}
					if bl, ok := vs.Values[i].(*ast.BasicLit); ok {
						switch bl.Kind {
						case token.INT:
							v, err := strconv.ParseInt(bl.Value, 0, 64)
							if err == nil {
								consts = append(consts, constRow{f, n.Name, fmt.Sprint(v)})
							}
						case token.STRING:
							s, _ := strconv.Unquote(bl.Value)
							strConsts[n.Name] = s
							consts = append(consts, constRow{f, n.Name, leanString(s)})
						}
					}
				}
			}
		}
	}
	for _, f := range files {
		af, err := parser.ParseFile(fset, filepath.Join(e.Repo, f), nil, 0)
		if err != nil {
			return "", err
		}
		for _, d := range af.Decls {
			fd, ok := d.(*ast.FuncDecl)
			if !ok || fd.Body == nil {
				continue
			}
			fn := funcName(fset, fd)
			locals := map[string]string{} // local := []byte("…") assignments, e.g. salt/in/out in secure_session.go
			for k, v := range strConsts {
				locals[k] = v
			}
			var material []string
			group := 0
			flush := func() {
				if len(material) > 0 {
					for _, m := range material {
						rows = append(rows, labelRow{f, fn, "material", fmt.Sprint(group), m})
					}
					group++
					material = nil
				}
			}
			ast.Inspect(fd.Body, func(n ast.Node) bool {
				switch x := n.(type) {
				case *ast.AssignStmt:
					if len(x.Lhs) == 1 && len(x.Rhs) == 1 {
						if id, ok := x.Lhs[0].(*ast.Ident); ok {
							if s, ok := byteLit(x.Rhs[0], locals); ok {
								locals[id.Name] = s
								rows = append(rows, labelRow{f, fn, "local", id.Name, s})
							}
							// material = append(material, X...)  /  material = make(...)
							if id.Name == "material" {
								if call, ok := x.Rhs[0].(*ast.CallExpr); ok {
									if fid, ok := call.Fun.(*ast.Ident); ok && fid.Name == "append" && len(call.Args) == 2 {
										material = append(material, exprText(fset, call.Args[1]))
									} else {
										flush()
									}
								}
							}
						}
					}
				case *ast.DeclStmt:
					if gd, ok := x.Decl.(*ast.GenDecl); ok {
						for _, sp := range gd.Specs {
							if vs, ok := sp.(*ast.ValueSpec); ok && len(vs.Names) == 1 && vs.Names[0].Name == "material" {
								flush()
							}
						}
					}
				case *ast.CallExpr:
					name := dotted(x.Fun)
					switch {
					case name == "hkdf.Sha512" && len(x.Args) == 3:
						a, ok1 := byteLit(x.Args[1], locals)
						b, ok2 := byteLit(x.Args[2], locals)
						if ok1 && ok2 {
							rows = append(rows, labelRow{f, fn, "hkdf", a, b})
						} else {
							rows = append(rows, labelRow{f, fn, "hkdf-dynamic", exprText(fset, x.Args[1]), exprText(fset, x.Args[2])})
						}
					case (name == "SetupEncryptionKey" || strings.HasSuffix(name, ".SetupEncryptionKey")) && len(x.Args) == 2:
						a, ok1 := byteLit(x.Args[0], locals)
						b, ok2 := byteLit(x.Args[1], locals)
						if ok1 && ok2 {
							rows = append(rows, labelRow{f, fn, "hkdf", a, b})
						}
					case (name == "chacha20poly1305.DecryptAndVerify" || name == "chacha20poly1305.EncryptAndSeal") && len(x.Args) >= 4:
						nonce, ok := byteLit(x.Args[1], locals)
						if !ok {
							nonce = "<" + exprText(fset, x.Args[1]) + ">"
						}
						ad := exprText(fset, x.Args[len(x.Args)-1])
						rows = append(rows, labelRow{f, fn, strings.TrimPrefix(name, "chacha20poly1305."), nonce, ad})
					case name == "srp.NewSRP" && len(x.Args) == 3:
						g, _ := byteLit(x.Args[0], locals)
						rows = append(rows, labelRow{f, fn, "srp", g, exprText(fset, x.Args[1])})
					case name == "hkdf.New" && len(x.Args) == 4:
						rows = append(rows, labelRow{f, fn, "hkdf-hash", exprText(fset, x.Args[0]), ""})
					case name == "copy" && len(x.Args) == 2:
						rows = append(rows, labelRow{f, fn, "copy", exprText(fset, x.Args[0]), exprText(fset, x.Args[1])})
					case strings.HasPrefix(name, "binary.LittleEndian.") || strings.HasPrefix(name, "binary.BigEndian."):
						rows = append(rows, labelRow{f, fn, "endian", name, ""})
					}
				}
				return true
			})
			flush()
		}
	}
	sort.SliceStable(rows, func(i, j int) bool {
		if rows[i].File != rows[j].File {
			return rows[i].File < rows[j].File
		}
		return rows[i].Func < rows[j].Func
	})
	var sb strings.Builder
	sb.WriteString("/- GENERATED by harness/cmd/extract (target PairLabels) from /repo's working tree — do not edit.\n")
	sb.WriteString("   rows: (file, function, kind, a, b) in source order within a function. kinds: hkdf (salt, info), EncryptAndSeal /\n")
	sb.WriteString("   DecryptAndVerify (nonce, associated-data expression), local (variable, literal), material (index of the append chain within\n")
	sb.WriteString("   the function, operand — one row per operand of the chain building signature material), srp (group, hash), copy (dst, src), endian (call). -/\n")
	sb.WriteString("namespace Hc.Generated\n\nstructure LabelRow where\n  file : String\n  func : String\n  kind : String\n  a : String\n  b : String\nderiving DecidableEq, Repr\n\n")
	sb.WriteString("def labelRows : List LabelRow := [\n")
	for i, r := range rows {
		sep := ","
		if i == len(rows)-1 {
			sep = ""
		}
		fmt.Fprintf(&sb, "  ⟨%s, %s, %s, %s, %s⟩%s\n", leanString(r.File), leanString(r.Func), leanString(r.Kind), leanString(r.A), leanString(r.B), sep)
	}
	sb.WriteString("]\n\n/-- integer / string constants of hap/pair (TLV8 tags, states, error codes, methods, SRP group) -/\n")
	sb.WriteString("def pairConsts : List (String × String) := [\n")
	for i, c := range consts {
		sep := ","
		if i == len(consts)-1 {
			sep = ""
		}
		fmt.Fprintf(&sb, "  (%s, %s)%s\n", leanString(c.Name), leanString(strings.Trim(c.Val, "\"")), sep)
	}
	sb.WriteString("]\n\nend Hc.Generated\n")
	return sb.String(), nil
}
