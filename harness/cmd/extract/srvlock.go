package main

// Target SrvLock (C13): lock regions that decide whether one peer can keep the others from being served.
//   accessoriesPath  — (*Server).Accessories of hap/http/accessories.go: Lock / Unlock of the server mutex, `encode`
//                      (JSONEncode), `write` (anything that writes to the response: WriteJSON, a ChunkedWriter's Write,
//                      http.Error, w.Write). A write under the mutex blocks every other /accessories request for as
//                      long as the peer does not read (F57).
//   bodyReaders      — every use of a request's `Body` in the handlers of hap/endpoint and hap/http: `limited <n>` when it
//                      is the argument of http.MaxBytesReader(_, <request>.Body, <const n>), `unlimited` for anything else
//                      (F59: each TLV8 item costs a multiple of its wire size in memory; F68: the JSON endpoints).
//   newConnectionPath, closePath — hap.NewConnection and (*Connection).Close of hap/connection.go: Lock / Unlock of the
//                      package-level sessionMutex, `set` / `get` / `delete` of the session in the context, `close` of
//                      the socket. Comparison and removal in Close must be one step with respect to NewConnection (F56).

import (
	"fmt"
	"go/ast"
	"go/constant"
	"go/parser"
	"go/token"
	"go/types"
	"path/filepath"
	"strings"
)

func init() { targets["SrvLock"] = genSrvLock }

func lockSteps(body *ast.BlockStmt, classify func(call string) string) []string {
	var steps []string
	ast.Inspect(body, func(n ast.Node) bool {
		switch x := n.(type) {
		case *ast.DeferStmt:
			if c := dotted(x.Call.Fun); strings.HasSuffix(c, ".Unlock") || strings.HasSuffix(c, ".RUnlock") {
				parts := strings.Split(c, ".")
				steps = append(steps, "defer"+parts[len(parts)-1]+":"+parts[len(parts)-2])
			}
			return false
		case *ast.GoStmt:
			steps = append(steps, "go")
		case *ast.CallExpr:
			c := dotted(x.Fun)
			parts := strings.Split(c, ".")
			last := parts[len(parts)-1]
			switch last {
			case "Lock", "RLock", "Unlock", "RUnlock", "TryLock":
				if len(parts) >= 2 {
					steps = append(steps, last+":"+parts[len(parts)-2])
					return true
				}
			}
			if s := classify(c); s != "" {
				steps = append(steps, s)
			}
		}
		return true
	})
	return steps
}

func genSrvLock(e *env) (string, error) {
	fset := token.NewFileSet()
	find := func(file, recvless, name string) (*ast.FuncDecl, error) {
		af, err := parser.ParseFile(fset, filepath.Join(e.Repo, filepath.FromSlash(file)), nil, 0)
		if err != nil {
			return nil, err
		}
		for _, d := range af.Decls {
			if fd, ok := d.(*ast.FuncDecl); ok && fd.Body != nil && fd.Name.Name == name && (fd.Recv == nil) == (recvless == "func") {
				return fd, nil
			}
		}
		return nil, fmt.Errorf("%s: no %s %s", file, recvless, name)
	}
	acc, err := find("hap/http/accessories.go", "method", "Accessories")
	if err != nil {
		return "", err
	}
	accPath := lockSteps(acc.Body, func(c string) string {
		switch {
		case c == "JSONEncode" || strings.HasSuffix(c, ".Marshal"):
			return "encode"
		case c == "WriteJSON" || c == "http.Error" || strings.HasSuffix(c, ".Write") || strings.HasSuffix(c, ".WriteHeader") || strings.HasSuffix(c, ".Flush"):
			return "write"
		}
		return ""
	})
	ctxOps := func(c string) string {
		switch {
		case strings.HasSuffix(c, ".SetSessionForConnection"):
			return "set"
		case strings.HasSuffix(c, ".GetSessionForConnection"):
			return "get"
		case strings.HasSuffix(c, ".DeleteSessionForConnection"):
			return "delete"
		case strings.HasSuffix(c, ".connection.Close"):
			return "close"
		}
		return ""
	}
	nc, err := find("hap/connection.go", "func", "NewConnection")
	if err != nil {
		return "", err
	}
	cl, err := find("hap/connection.go", "method", "Close")
	if err != nil {
		return "", err
	}
	// ---- request bodies: every use of `<request>.Body` in the handlers of hap/endpoint and hap/http
	var readers []string
	for _, pkg := range []string{"endpoint", "http"} {
		files, _ := filepath.Glob(filepath.Join(e.Repo, "hap", pkg, "*.go"))
		var parsed []*ast.File
		for _, f := range files {
			if strings.HasSuffix(f, "_test.go") {
				continue
			}
			af, err := parser.ParseFile(fset, f, nil, 0)
			if err != nil {
				return "", err
			}
			parsed = append(parsed, af)
		}
		consts := map[string]string{} // package-level integer constants of the package
		for _, af := range parsed {
			for _, d := range af.Decls {
				gd, ok := d.(*ast.GenDecl)
				if !ok || gd.Tok != token.CONST {
					continue
				}
				for _, sp := range gd.Specs {
					vs := sp.(*ast.ValueSpec)
					for i, nm := range vs.Names {
						if i < len(vs.Values) {
							if tv, err := types.Eval(fset, nil, token.NoPos, exprText(fset, vs.Values[i])); err == nil && tv.Value != nil && tv.Value.Kind() == constant.Int {
								consts[nm.Name] = tv.Value.ExactString()
							}
						}
					}
				}
			}
		}
		for _, af := range parsed {
			name := filepath.Base(fset.Position(af.Pos()).Filename)
			var stack []ast.Node
			ast.Inspect(af, func(n ast.Node) bool {
				if n == nil {
					stack = stack[:len(stack)-1]
					return true
				}
				stack = append(stack, n)
				sel, ok := n.(*ast.SelectorExpr)
				if !ok || sel.Sel.Name != "Body" {
					return true
				}
				if id, ok := sel.X.(*ast.Ident); !ok || (id.Name != "request" && id.Name != "req" && id.Name != "r") {
					return true
				}
				kind := "unlimited"
				if len(stack) >= 2 {
					if in, ok := stack[len(stack)-2].(*ast.CallExpr); ok && dotted(in.Fun) == "http.MaxBytesReader" && len(in.Args) == 3 && in.Args[1] == ast.Expr(sel) {
						if v, ok := consts[dotted(in.Args[2])]; ok {
							kind = "limited " + v
						} else if tv, err := types.Eval(fset, nil, token.NoPos, exprText(fset, in.Args[2])); err == nil && tv.Value != nil {
							kind = "limited " + tv.Value.ExactString()
						}
					}
				}
				readers = append(readers, pkg+"/"+name+": "+kind)
				return true
			})
		}
	}
	q := func(l []string) string {
		var o []string
		for _, s := range l {
			o = append(o, leanString(s))
		}
		return strings.Join(o, ", ")
	}
	return fmt.Sprintf("/- GENERATED by harness/cmd/extract (target SrvLock) from /repo's hap/http/accessories.go and hap/connection.go — do not edit.\n   Lock / Unlock steps are `<op>:<mutex>`; see harness/cmd/extract/srvlock.go for the other step names. -/\nnamespace Hc.Generated\n\ndef accessoriesPath : List String := [%s]\n\ndef newConnectionPath : List String := [%s]\n\ndef closePath : List String := [%s]\n\ndef bodyReaders : List String := [%s]\n\nend Hc.Generated\n",
		q(accPath), q(lockSteps(nc.Body, ctxOps)), q(lockSteps(cl.Body, ctxOps)), q(readers)), nil
}
