// extract: regenerates lean/HcModel/Generated/<Target>.lean from the working tree of brutella/hc.
//
//	extract -repo <hc checkout> -out <…/lean/HcModel/Generated> -verif <verif dir> <target>…
//
// Targets are registered in `targets`; ./check passes the ones listed for the property in generated_map.json.
// The harness module already replaces github.com/brutella/hc by the checkout (go.mod written by ./check),
// and the extractor is run with the harness directory as working directory.
package main

import (
	"flag"
	"fmt"
	"io/ioutil"
	"os"
	"path/filepath"
	"sort"
)

type env struct {
	repo, out, verif string
}

var targets = map[string]func(e *env) (string, error){}

func main() {
	repo := flag.String("repo", "/repo", "checkout of brutella/hc")
	out := flag.String("out", "", "directory of the generated Lean files")
	verif := flag.String("verif", "/verif", "verification directory (scratch space below .scratch)")
	flag.Parse()
	if *out == "" {
		*out = filepath.Join(*verif, "lean", "HcModel", "Generated")
	}
	e := &env{*repo, *out, *verif}
	if flag.NArg() == 0 {
		var ns []string
		for n := range targets {
			ns = append(ns, n)
		}
		sort.Strings(ns)
		fmt.Println("targets:", ns)
		return
	}
	os.MkdirAll(*out, 0755)
	for _, t := range flag.Args() {
		fn, ok := targets[t]
		if !ok {
			fmt.Fprintf(os.Stderr, "extract: unknown target %q\n", t)
			os.Exit(2)
		}
		dst := filepath.Join(*out, t+".lean")
		src, err := fn(e)
		if err != nil {
			os.Remove(dst) // never leave a stale table behind
			fmt.Fprintf(os.Stderr, "extract %s: %v\n", t, err)
			os.Exit(1)
		}
		if old, err := ioutil.ReadFile(dst); err == nil && string(old) == src {
			continue // unchanged: keep the time stamp so lake does not rebuild
		}
		if err := ioutil.WriteFile(dst, []byte(src), 0644); err != nil {
			fmt.Fprintf(os.Stderr, "extract %s: %v\n", t, err)
			os.Exit(1)
		}
	}
}

func leanString(s string) string {
	out := "\""
	for _, r := range s {
		switch {
		case r == '"':
			out += "\\\""
		case r == '\\':
			out += "\\\\"
		case r == '\n':
			out += "\\n"
		case r < 0x20 || r == 0x7f:
			out += fmt.Sprintf("\\x%02x", r)
		default:
			out += string(r)
		}
	}
	return out + "\""
}
