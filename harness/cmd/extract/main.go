// extract regenerates lean/HcModel/Generated/<Target>.lean from the working tree of brutella/hc.
//
//	extract -repo <dir> -out <lean/HcModel/Generated dir> -verif <dir> <targets…>
//
// Each target is a function registered in `targets` (one file per target family, e.g. catalog.go);
// the stale generated file of a target is deleted before it is regenerated.
package main

import (
	"flag"
	"fmt"
	"io/ioutil"
	"os"
	"path/filepath"
	"sort"
)

type env struct {
	Repo, Out, Verif string
	scratch          string
}

// targets maps a target name to its generator; a generator returns the text of Generated/<name>.lean.
var targets = map[string]func(e *env) (string, error){}

// Scratch returns a fresh directory under $VERIF/.scratch (removed when extract exits).
func (e *env) Scratch(name string) string {
	if e.scratch == "" {
		e.scratch = filepath.Join(e.Verif, ".scratch", fmt.Sprintf("extract-%d", os.Getpid()))
	}
	d := filepath.Join(e.scratch, name)
	os.MkdirAll(d, 0755)
	return d
}

func main() {
	e := &env{}
	flag.StringVar(&e.Repo, "repo", "/repo", "working tree of brutella/hc")
	flag.StringVar(&e.Out, "out", "", "directory lean/HcModel/Generated")
	flag.StringVar(&e.Verif, "verif", "/verif", "verification directory (scratch files go to <verif>/.scratch)")
	flag.Parse()
	if e.Out == "" {
		e.Out = filepath.Join(e.Verif, "lean", "HcModel", "Generated")
	}
	if flag.NArg() == 0 {
		var ns []string
		for n := range targets {
			ns = append(ns, n)
		}
		sort.Strings(ns)
		fmt.Fprintln(os.Stderr, "extract: no target given; known targets:", ns)
		os.Exit(2)
	}
	code := 0
	defer func() {
		if e.scratch != "" {
			os.RemoveAll(e.scratch)
		}
		os.Exit(code)
	}()
	os.MkdirAll(e.Out, 0755)
	for _, t := range flag.Args() {
		gen, ok := targets[t]
		if !ok {
			fmt.Fprintf(os.Stderr, "extract: unknown target %q\n", t)
			code = 2
			return
		}
		file := filepath.Join(e.Out, t+".lean")
		os.Remove(file) // never leave a stale table behind
		txt, err := gen(e)
		if err != nil {
			fmt.Fprintf(os.Stderr, "extract %s: %v\n", t, err)
			code = 1
			return
		}
		tmp := file + fmt.Sprintf(".%d", os.Getpid())
		if err := ioutil.WriteFile(tmp, []byte(txt), 0644); err != nil {
			fmt.Fprintf(os.Stderr, "extract %s: %v\n", t, err)
			code = 1
			return
		}
		if err := os.Rename(tmp, file); err != nil {
			fmt.Fprintf(os.Stderr, "extract %s: %v\n", t, err)
			code = 1
			return
		}
		fmt.Printf("extract: wrote %s (%d bytes)\n", file, len(txt))
	}
}
