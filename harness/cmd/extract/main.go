package main

// extract — the translator: regenerates /verif/lean/HcModel/Generated/<Target>.lean from /repo's working tree.
// Usage: extract -repo /repo -out /verif/lean/HcModel/Generated -verif /verif <Target>...
// Each target lives in its own file and registers itself in `targets`.

import (
	"flag"
	"fmt"
	"os"
	"path/filepath"
)

type env struct {
	Repo, Out, Verif string
}

var targets = map[string]func(e env) error{}

func main() {
	repo := flag.String("repo", "/repo", "repository under test")
	out := flag.String("out", "/verif/lean/HcModel/Generated", "output directory for generated Lean files")
	verif := flag.String("verif", "/verif", "verification directory (scratch space under <verif>/.scratch)")
	flag.Parse()
	e := env{*repo, *out, *verif}
	os.MkdirAll(e.Out, 0755)
	for _, t := range flag.Args() {
		f, ok := targets[t]
		if !ok {
			fmt.Fprintf(os.Stderr, "extract: unknown target %q\n", t)
			os.Exit(2)
		}
		// delete the stale file first: a failing extraction must not leave an old table behind
		os.Remove(filepath.Join(e.Out, t+".lean"))
		if err := f(e); err != nil {
			fmt.Fprintf(os.Stderr, "extract %s: %v\n", t, err)
			os.Exit(1)
		}
	}
}

func leanString(s string) string {
	out := "\""
	for _, r := range s {
		switch {
		case r == '"':
			out += "\\\""
		case r == '\\':
			out += "\\\\"
		case r == '\n':
			out += "\\n"
		case r < 0x20 || r == 0x7f:
			out += fmt.Sprintf("\\x%02x", r)
		default:
			out += string(r)
		}
	}
	return out + "\""
}
