package main

import "fmt"

// leanString renders s as a Lean string literal.
func leanString(s string) string {
	out := "\""
	for _, r := range s {
		switch {
		case r == '"':
			out += "\\\""
		case r == '\\':
			out += "\\\\"
		case r == '\n':
			out += "\\n"
		case r < 0x20 || r == 0x7f:
			out += fmt.Sprintf("\\x%02x", r)
		default:
			out += string(r)
		}
	}
	return out + "\""
}
