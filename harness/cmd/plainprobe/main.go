// plainprobe: requests on a plaintext hap.Connection whose Content-Length does not fit a 32-bit int. The connection frames
// plaintext requests itself (header, then Content-Length body bytes); a length of 2^31 … 2^63-1 is legal HTTP and must be
// handled on every platform the library is built for: the reads return what arrived (or an error), nothing panics, nothing
// spins. One line per length, ending in " ok"; the C13 check runs this for the host, GOARCH=386 and js/wasm.
package main

import (
	"fmt"
	"io"
	"net"
	"os"
	"time"

	"github.com/brutella/hc/hap"
)

type scripted struct {
	chunks [][]byte
	hold   chan struct{}
}

func (s *scripted) Read(b []byte) (int, error) {
	if len(s.chunks) == 0 {
		<-s.hold
		return 0, io.EOF
	}
	n := copy(b, s.chunks[0])
	s.chunks = s.chunks[1:]
	return n, nil
}
func (s *scripted) Write(b []byte) (int, error)        { return len(b), nil }
func (s *scripted) Close() error                       { return nil }
func (s *scripted) LocalAddr() net.Addr                { return addr("127.0.0.1:1") }
func (s *scripted) RemoteAddr() net.Addr               { return addr("10.1.2.3:4") }
func (s *scripted) SetDeadline(t time.Time) error      { return nil }
func (s *scripted) SetReadDeadline(t time.Time) error  { return nil }
func (s *scripted) SetWriteDeadline(t time.Time) error { return nil }

type addr string

func (a addr) Network() string { return "tcp" }
func (a addr) String() string  { return string(a) }

func main() {
	lengths := []string{"5", "2147483647", "2147483648", "3000000000", "4294967295", "4294967296", "4294967303", "8589934593", "9223372036854775807"}
	for _, l := range lengths {
		head := []byte("POST /pair-setup HTTP/1.1\r\nHost: x\r\nContent-Type: application/pairing+tlv8\r\nContent-Length: " + l + "\r\n\r\nx")
		raw := &scripted{chunks: [][]byte{head, []byte("yz"), []byte("w")}, hold: make(chan struct{})}
		conn := hap.NewConnection(raw, hap.NewContextForSecuredDevice(nil))
		type res struct {
			s string
		}
		done := make(chan string, 1)
		go func() {
			out := ""
			defer func() {
				if r := recover(); r != nil {
					done <- fmt.Sprintf("%s PANIC %v", out, r)
				}
			}()
			buf := make([]byte, 4096)
			for k := 0; k < 3; k++ {
				n, err := conn.Read(buf)
				out += fmt.Sprintf(" read%d=%d,%v", k+1, n, err)
			}
			done <- out
		}()
		want := fmt.Sprintf(" read1=%d,<nil> read2=2,<nil> read3=1,<nil>", len(head))
		select {
		case got := <-done:
			verdict := "ok"
			if got != want {
				verdict = "FAIL (want" + want + ")"
			}
			fmt.Printf("content-length=%s%s %s\n", l, got, verdict)
		case <-time.After(3 * time.Second):
			fmt.Printf("content-length=%s: the reads have not returned after 3 s (the connection spins or blocks with bytes delivered) FAIL\n", l)
			os.Exit(0)
		}
	}
}
