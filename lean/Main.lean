import HcModel.Drv.Tlv8
import HcModel.Drv.Pair
import HcModel.Drv.Http
import HcModel.Drv.Storage
import HcModel.Drv.Spec
import HcModel.Drv.Handover
import HcModel.Drv.SessLookup
import HcModel.Drv.PlainFraming
import HcModel.Drv.Tlv8Struct
import HcModel.Drv.CharHttp
import HcModel.Drv.Notify
import HcModel.Drv.ConnWrite
import HcModel.Drv.ConnRead
import HcModel.Drv.Characteristic
import HcModel.Drv.Ids
import HcModel.Drv.Framing
import HcModel.Drv.PinXhm
import HcModel.Drv.Config
import HcModel.Drv.CloseRace
/-
  Line-protocol driver of the executable models: one operation per input line
  (`<module> <op> <args…>`), one result per output line. Core Lean only, so it links as `lean_exe`.
-/
open Hc.Drv

def step (line : String) : String :=
  match splitTok line with
  | "tlv8" :: rest => Hc.Drv.Tlv8.handle rest
  | "pairsetup" :: rest => Hc.Drv.Pair.handleSetup rest
  | "pairverify" :: rest => Hc.Drv.Pair.handleVerify rest
  | "http" :: rest => Hc.Drv.Http.handle rest
  | "connwrite" :: rest => Hc.Drv.ConnWrite.handle rest
  | "connread" :: rest => Hc.Drv.ConnRead.handle rest
  | "char" :: rest => Hc.Drv.Characteristic.handle rest
  | "ids" :: rest => Hc.Drv.Ids.handle rest
  | "frame" :: rest => Hc.Drv.Framing.handle rest
  | "pin" :: rest => Hc.Drv.PinXhm.handlePin rest
  | "xhm" :: rest => Hc.Drv.PinXhm.handleXhm rest
  | "config" :: rest => Hc.Drv.Config.handle rest
  | "notify" :: rest => Hc.Drv.Notify.handle rest
  | "charhttp" :: rest => Hc.Drv.CharHttp.handle rest
  | "chunkw" :: rest => Hc.Drv.CharHttp.handleChunkw rest
  | "tlvs" :: rest => Hc.Drv.Tlv8Struct.handle rest
  | "plain" :: rest => Hc.Drv.PlainFraming.handle rest
  | "sess" :: rest => Hc.Drv.SessLookup.handle rest
  | "closerace" :: rest => Hc.Drv.CloseRace.handle rest
  | "handover" :: rest => Hc.Drv.Handover.handle rest
  | "spec" :: rest => Hc.Drv.Spec.handle rest
  | "storage" :: rest => Hc.Drv.Storage.handle rest
  | "fs" :: rest => Hc.Drv.Storage.handleFs rest
  | _ => "bad-op"

partial def loop (hin hout : IO.FS.Stream) : IO Unit := do
  let line ← hin.getLine
  if line.isEmpty then return ()
  hout.putStrLn (step (line.trimAscii.toString))
  hout.flush
  loop hin hout

def main : IO Unit := do
  loop (← IO.getStdin) (← IO.getStdout)
