import HcModel.Generated.Catalog
import HcProofs.Lemmas.Catalog
/-
  C15 — the characteristic and service catalog matches the HomeKit metadata.

  The model is the regenerated table `HcModel/Generated/Catalog.lean` (see the header of `HcModel/Catalog.lean`
  for how each column is obtained from the working tree). Every theorem below is a statement about *all* rows of
  those tables: the Boolean checker is evaluated by the kernel (`decide +kernel`, a genuinely finite table) and
  lifted to the ∀/∃ form by the lemmas of `HcProofs/Lemmas/Catalog.lean`.

  Conventions: `typ`/`uuid` are the short HAP type ids as numbers (`some n` only for the canonical short form);
  `boundEq v m = true` means: the constructor's Go value `v` and the metadata constraint `m` are both absent, or
  `v` is a number exactly equal to the metadata literal; `nargs = 0` rows are the parameterless constructors.
  Not compared: `MaximumLength` (2 metadata entries; the library never sets `maxLen`), `ValidBits`; `ValidValues`
  only constrain the default value (the library has no valid-values field), the metadata key `stepValue` (lower case, one entry, ignored by gen/golang too).
-/
namespace Hc.Props.C15
open Hc.Catalog Hc.Generated.Catalog

/-- No exported constructor of the three packages panics, every one yields a well-formed type id, every
    characteristic constructor — the generated parameterless ones AND the generic `NewBool / NewInt / NewFloat / NewString /
    NewBytes / NewCharacteristic(typ)` (F67: the earlier form of this theorem was about the parameterless ones only, and
    the generic ones returned objects without permissions, two of them without a format) — a known unit, a non-empty
    duplicate-free list of known permissions and, except the untyped base `NewCharacteristic`, a known format; every
    service only well-typed characteristics; every accessory starts with the Accessory
    Information service and contains only well-typed services without a repeated characteristic type. -/
theorem every_ctor_usable :
    (∀ c ∈ charRows, c.panicked = false ∧ c.typ ≠ none ∧ c.unit ≠ .unknown ∧
      c.perms ≠ [] ∧ (∀ p ∈ c.perms, p ≠ Perm.unknown) ∧ c.perms.Nodup ∧ (c.untyped = false → c.format ≠ .unknown)) ∧
    (∀ s ∈ svcRows, s.panicked = false ∧ s.typ ≠ none ∧ ∀ t ∈ s.chars, t ≠ none) ∧
    (∀ a ∈ accRows, a.panicked = false ∧ (a.isAccessory = true →
      (∃ cs rest, a.services = (some accessoryInformation, cs) :: rest) ∧
      ∀ s ∈ a.services, s.1 ≠ none ∧ (∀ t ∈ s.2, t ≠ none) ∧ s.2.Nodup)) :=
  ⟨fun c hc => CharRow.usable_spec (all_lift charRows _ (by decide +kernel) c hc),
   fun s hs => SvcRow.usable_spec (all_lift svcRows _ (by decide +kernel) s hs),
   fun a ha => AccRow.usable_spec (all_lift accRows _ (by decide +kernel) a ha)⟩

/-- Every characteristic of gen/metadata.json has a parameterless constructor yielding exactly its type id, format,
    permissions, unit, minimum, maximum and step. -/
theorem metadata_chars_covered :
    ∀ m ∈ metaChars, ∃ c ∈ charRows,
      c.nargs = 0 ∧ c.panicked = false ∧ c.typ = some m.uuid ∧ c.format = m.format ∧ (∀ p, p ∈ c.perms ↔ p ∈ m.perms) ∧
      c.unit = m.unit ∧ boundEq c.min m.min = true ∧ boundEq c.max m.max = true ∧ boundEq c.step m.step = true := by
  intro m hm
  obtain ⟨c, hc, h⟩ := all_any_lift metaChars charRows CharRow.realises (by decide +kernel) m hm
  exact ⟨c, hc, CharRow.realises_spec h⟩

/-- Every parameterless characteristic constructor (in the metadata or not): a readable one has a default value of
    the Go type the library uses for its format (int formats additionally inside the format's range) within
    [min, max]; a non-readable one has no value; min / max / step are absent or typed like the format, min ≤ max. -/
theorem defaults_typed_in_bounds :
    ∀ c ∈ charRows, c.nargs = 0 →
      (if c.perms.contains Perm.pr then
          typedFor c.format c.value = true ∧ leVal c.min c.value = true ∧ leVal c.value c.max = true
        else c.value = Val.none) ∧
      boundTyped c.format c.min = true ∧ boundTyped c.format c.max = true ∧ boundTyped c.format c.step = true ∧
      leVal c.min c.max = true := by
  intro c hc h0
  have h := all_lift charRows (fun c => c.nargs != 0 || (c.defaultOk && c.boundsOk)) (by decide +kernel) c hc
  simp only [Bool.or_eq_true, bne_iff_ne, ne_eq, Bool.and_eq_true] at h
  rcases h with h | ⟨hd, hb⟩
  · exact absurd h0 h
  · unfold CharRow.boundsOk at hb
    simp only [Bool.and_eq_true] at hb
    refine ⟨?_, hb.1.1.1, hb.1.1.2, hb.1.2, hb.2⟩
    unfold CharRow.defaultOk at hd
    split
    · rename_i hp; rw [if_pos hp] at hd; simpa [Bool.and_eq_true, and_assoc] using hd
    · rename_i hp; rw [if_neg hp] at hd
      cases hv : c.value <;> simp [hv, Val.isNone] at hd ⊢

/-- A readable characteristic whose metadata enumerates `ValidValues` starts at one of the enumerated values. -/
theorem defaults_are_valid_values :
    ∀ m ∈ metaChars, m.validValues ≠ [] → ∀ c ∈ charRows, c.nargs = 0 → c.typ = some m.uuid →
      c.perms.contains Perm.pr = true → ∃ n ∈ m.validValues, c.value = Val.int n := by
  intro m hm hv c hc
  have h := all_lift metaChars (fun m => charRows.all (fun c => c.defaultValidFor m)) (by decide +kernel) m hm
  exact CharRow.defaultValidFor_spec ((List.all_eq_true.mp h) c hc) hv

/-- Every constructor `New<Name>` for which its package declares a constant `Type<Name>` returns an object of
    exactly that type and names that constant in its body; every parameterless characteristic constructor has one. -/
theorem ctor_uses_own_type_constant :
    (∀ c ∈ charRows, (c.nargs = 0 → c.ownConst ≠ none) ∧ ∀ v, c.ownConst = some v → c.typ = some v ∧ c.namesOwnConst = true) ∧
    (∀ s ∈ svcRows, ∀ v, s.ownConst = some v → s.typ = some v ∧ s.namesOwnConst = true) := by
  refine ⟨fun c hc => ⟨fun h0 => ?_, ?_⟩, fun s hs => ?_⟩
  · have h := all_lift charRows (fun c => c.nargs != 0 || c.ownConst.isSome) (by decide +kernel) c hc
    simp only [Bool.or_eq_true, bne_iff_ne, ne_eq] at h
    rcases h with h | h
    · exact absurd h0 h
    · exact isSome_ne_none h
  · exact ownConstOk_spec (all_lift charRows (fun c => ownConstOk c.typ c.ownConst c.namesOwnConst) (by decide +kernel) c hc)
  · exact ownConstOk_spec (all_lift svcRows (fun s => ownConstOk s.typ s.ownConst s.namesOwnConst) (by decide +kernel) s hs)

/-- Every service of gen/metadata.json has a parameterless constructor of its type containing (at least) every
    required characteristic. -/
theorem metadata_services_covered :
    ∀ m ∈ metaSvcs, ∃ s ∈ svcRows,
      s.nargs = 0 ∧ s.panicked = false ∧ s.typ = some m.uuid ∧ ∀ r ∈ m.required, some r ∈ s.chars := by
  intro m hm
  obtain ⟨s, hs, h⟩ := all_any_lift metaSvcs svcRows SvcRow.realises (by decide +kernel) m hm
  exact ⟨s, hs, SvcRow.realises_spec h⟩

/-- No service constructor puts two characteristics of the same type into its service. -/
theorem no_duplicate_char_types : ∀ s ∈ svcRows, s.chars.Nodup :=
  fun s hs => nodupB_spec (all_lift svcRows (fun s => nodupB s.chars) (by decide +kernel) s hs)

/-- A service constructor whose type the metadata defines contains only characteristics the metadata lists as
    required or optional for that service. -/
theorem service_chars_allowed :
    ∀ s ∈ svcRows, ∀ m ∈ metaSvcs, s.typ = some m.uuid →
      ∀ t ∈ s.chars, ∃ u, t = some u ∧ (u ∈ m.required ∨ u ∈ m.optional) := by
  intro s hs m hm
  have h := all_lift svcRows (fun s => metaSvcs.all (fun m => s.allowedBy m)) (by decide +kernel) s hs
  exact SvcRow.allowedBy_spec ((List.all_eq_true.mp h) m hm)

/-- Every service assembled by an accessory constructor has the characteristics the metadata requires for its type. -/
theorem accessory_services_complete :
    ∀ a ∈ accRows, ∀ s ∈ a.services, ∀ m ∈ metaSvcs, s.1 = some m.uuid → ∀ r ∈ m.required, some r ∈ s.2 :=
  fun a ha => AccRow.servicesComplete_spec (all_lift accRows (fun a => a.servicesComplete metaSvcs) (by decide +kernel) a ha)

/-- Every accessory category of the metadata has an `AccessoryType` constant with its number. -/
theorem categories_covered : ∀ c ∈ metaCats, ∃ t ∈ accTypes, t.2 = c.2 := by
  intro c hc
  obtain ⟨t, ht, h⟩ := all_any_lift metaCats accTypes (fun t c => t.2 == c.2) (by decide +kernel) c hc
  exact ⟨t, ht, by simpa using h⟩

-- non-vacuity: the tables are not empty and the guarded statements have instances
example : metaChars.length ≥ 100 ∧ metaSvcs.length ≥ 30 ∧ charRows.length ≥ 100 ∧ svcRows.length ≥ 30 ∧ accRows.length ≥ 10 := by
  decide +kernel
example : (charRows.any fun c => c.nargs == 0 && c.perms.contains Perm.pr && !c.min.isNone && !c.max.isNone) = true := by
  decide +kernel
example : (charRows.any fun c => c.nargs == 0 && !c.perms.contains Perm.pr) = true := by decide +kernel
example : (svcRows.any fun s => metaSvcs.any fun m => s.typ == some m.uuid && s.chars.length > m.required.length) = true := by
  decide +kernel
example : (accRows.any fun a => a.isAccessory && a.services.length ≥ 3) = true := by decide +kernel

end Hc.Props.C15
