import HcProofs.Lemmas.Characteristic
import HcModel.Generated.CtorTable
/-
  C12 — a characteristic's value always has its declared type and range.
  Property theorems only; helper lemmas live in HcProofs/Lemmas/Characteristic.lean.

  Quantification: `cfg` ranges over every declared format (the ten HAP formats of constants.go), every
  subset of {pr,pw,ev,hd,wr}, every pair of bounds and both values of `updateOnSameValue`; `ops` over
  every finite sequence of `updateValue(v, conn?, checkPerms?)`, reads with or without a get function
  and PUT requests; the values `v` over *all* dynamic values: nil, bools, Go ints, every float64
  including NaN and ±Inf, all strings, arbitrarily nested arrays and objects.
  Hypotheses (decidable, instances below): the format is a declared one, `boundsOk` (float bounds
  finite, min ≤ max), and — only for "no panic" — `tcbMatches` (a typed OnValueRemoteUpdate callback
  was registered through the wrapper type that belongs to the format).
-/
namespace Hc.Props.C12
open Hc Hc.Charac Hc.Generated

/-- After every step of every operation sequence the stored value is `nil` (nothing stored: the
    characteristic is unreadable or was never set) or has the Go type of the format, lies within
    the declared `[min, max]`, is finite; and no step panics. -/
theorem value_well_typed (cfg : Config) (hf : cfg.format ≠ .other) (hb : boundsOk cfg = true) (ops : List Op) :
    ∀ so ∈ trace (start cfg) ops,
      wellTyped cfg so.1.char.value = true ∧ inRange cfg so.1.char.value = true ∧
      finiteV so.1.char.value = true ∧ (tcbMatches cfg = true → so.2.outcome = .ok) := by
  intro so hso
  have h := trace_inv cfg hf hb ops (start cfg) (start_inv cfg) so hso
  have hv := h.1.val
  simp only [good, Bool.and_eq_true] at hv
  exact ⟨hv.1.1, hv.1.2, hv.2, h.2⟩

/-- Corollary: the typed getter of the format's Go type (`Int.GetValue`, `Float.GetValue`, `String.GetValue` /
    `Bytes.GetValue`, `Bool.GetValue`) never panics — also when nothing is stored (a write-only characteristic such as
    Identify; F37 repair) — and whenever a value is stored it returns exactly that value. -/
theorem typed_getters_total (cfg : Config) (hf : cfg.format ≠ .other) (hb : boundsOk cfg = true) (ops : List Op)
    (t : GType) (ht : cfg.format.gtype = some t) :
    ∀ so ∈ trace (start cfg) ops, typedGet so.1.char t = .ok ∧
      (so.1.char.value.isNil = false → typedGetVal so.1.char t = so.1.char.value) := by
  intro so hso
  refine ⟨rfl, fun hnn => ?_⟩
  have h := (value_well_typed cfg hf hb ops so hso).1
  simp [wellTyped, hnn, ht] at h
  simp [typedGetVal, h]

/-- the getter as it was (`c.Value.(T)`): on a characteristic that stores nothing it panics -/
theorem typed_getter_unfixed_refuted :
    typedGetOld (start ⟨.bool, ⟨false, true, false, false, false⟩, .nil, .nil, false, none⟩).char .bool = .panic := by decide

/-- Corollary: what a GET response, an EVENT body or `/accessories` carries for the characteristic
    is always encodable by `encoding/json` (no NaN, no ±Inf). -/
theorem value_encodable (cfg : Config) (hf : cfg.format ≠ .other) (hb : boundsOk cfg = true) (ops : List Op) :
    ∀ so ∈ trace (start cfg) ops, encodable (carried so.1.char) = true := by
  intro so hso
  obtain ⟨hw, _, hfin, _⟩ := value_well_typed cfg hf hb ops so hso
  unfold carried
  cases hv : so.1.char.value with
  | float x => simpa [encodable, finiteV, hv] using hfin
  | comp j =>
    cases hg : cfg.format.gtype with
    | none => simp [wellTyped, hv, hg, GVal.isNil] at hw
    | some t => cases t <;> simp [wellTyped, hv, hg, GVal.isNil, GVal.hasType] at hw
  | _ => rfl

/-- Every invocation of an application callback (local or remote) receives a new value of the
    format's Go type, so the typed `OnValueRemoteUpdate` wrappers' assertion `new.(T)` holds (F10). -/
theorem callbacks_typed (cfg : Config) (hf : cfg.format ≠ .other) (hb : boundsOk cfg = true) (ops : List Op)
    (t : GType) (ht : cfg.format.gtype = some t) :
    ∀ so ∈ trace (start cfg) ops, ∀ e ∈ so.1.char.log, e.new.hasType t = true := by
  intro so hso e he
  have h := (trace_inv cfg hf hb ops (start cfg) (start_inv cfg) so hso).1.log
  simp only [logTyped, List.all_eq_true, ht] at h
  exact h e he

/-- The hypotheses hold for every constructor of package characteristic (table regenerated from the
    tree on every run): declared format, usable bounds, and the value the constructor leaves behind
    is itself of the declared type, in range and finite. -/
theorem catalog_meets_hypotheses :
    ctorTable.all (fun r => decide (r.cfg.format ≠ .other) && boundsOk r.cfg && good r.cfg r.initial) = true := by
  decide +kernel

/-- When the application changes the declared range (Int/Float `SetMinValue` / `SetMaxValue`, F32 repair), the setter runs
    the stored value through the same clamp under the NEW bounds: for every new configuration with usable bounds and every
    value that can be stored (any Go int; any finite float), the result lies within the new range and is finite. (The path
    setter → `updateValue(current)` itself is tied by the correspondence stream `rebound`.) -/
theorem reclamped_value_in_new_range (cfg' : Config) (hb : boundsOk cfg' = true) :
    (∀ i : Int, inRange cfg' (.int (clampInt cfg' i)) = true) ∧
    (∀ x : F64, x.isFinite = true → inRange cfg' (.float (clampFloat cfg' x)) = true ∧ (clampFloat cfg' x).isFinite = true) :=
  ⟨fun i => clampInt_good cfg' hb i, fun x hx => clampFloat_good cfg' hb x hx⟩

/-- Every value a characteristic ever stores is the one it was constructed with or what `convert` + clamp made of a
    supplied value — for EVERY configuration (no hypothesis on the format or the bounds) and every operation sequence.
    Nothing else writes the value. -/
theorem stored_values_are_converted (cfg : Config) (ops : List Op) :
    ∀ so ∈ trace (start cfg) ops, Produced cfg so.1.char.value := fun so hso =>
  (trace_invP cfg ops (start cfg) (start_invP cfg) so hso).val

/-- "…has the type its format declares": a uint8 characteristic holds 0..255, uint16 0..65535, uint32 0..2^32-1, int32
    -2^31..2^31-1, uint64 0..2^63-1 (what an int holds) — whatever is supplied (also -1, 300, 1e30, "18446744073709551615",
    NaN) and whatever operations follow each other, provided the declared integer bounds lie within that range themselves
    (`boundsInFormat`; every constructor of the catalog: `catalog_bounds_in_format`). F53 repair. -/
theorem value_within_format (cfg : Config) (hbf : boundsInFormat cfg = true) (ops : List Op) :
    ∀ so ∈ trace (start cfg) ops, inFormat cfg so.1.char.value = true := by
  intro so hso
  rcases stored_values_are_converted cfg ops so hso with h | ⟨w, hw⟩
  · rw [h]; rfl
  · unfold boundsInFormat at hbf
    unfold convertClamp at hw
    cases hfm : cfg.format <;> simp only [hfm, convert] at hw hbf
    case float => split at hw <;> (try split at hw) <;> simp at hw <;> rw [← hw] <;> rfl
    case bool => simp at hw; rw [← hw]; rfl
    case string => simp at hw; rw [← hw]; rfl
    case tlv8 => simp at hw; rw [← hw]; rfl
    case data => simp at hw; rw [← hw]; rfl
    case other => simp at hw; rw [← hw]; simp [inFormat, hfm, Format.range]; cases w <;> rfl
    all_goals
      simp only [Option.some.injEq] at hw
      rw [← hw]
      simp only [Format.range, Bool.and_eq_true] at hbf
      simp only [inFormat, hfm, Format.range, Bool.and_eq_true, decide_eq_true_eq]
      refine clampSat_range cfg _ _ (by decide) w (fun mn h => ?_) (fun mx h => ?_)
      · have := hbf.1; simp [h] at this; exact this
      · have := hbf.2; simp [h] at this; exact this

/-- the hypothesis of `value_within_format` holds for every constructor of package characteristic, and the value each
    constructor leaves behind is within the range of its format (table regenerated from the tree on every run) -/
theorem catalog_bounds_in_format :
    ctorTable.all (fun r => boundsInFormat r.cfg && inFormat r.cfg r.initial) = true := by
  decide +kernel

/-- before F53: a controller writes 300 (or -1) to a uint8 characteristic without declared bounds and that is what it
    holds; with the repair 255 (or 0) -/
theorem value_within_format_unfixed_refuted :
    convertOld .uint8 (.float (.fin false 300 0)) = .int 300 ∧ convertOld .uint8 (.float (.fin true 1 0)) = .int (-1) ∧
    convert .uint8 (.float (.fin false 300 0)) = .int 255 ∧ convert .uint8 (.float (.fin true 1 0)) = .int 0 :=
  ⟨rfl, rfl, rfl, rfl⟩

/-- The float range setters never leave a bound that cannot be encoded: whatever they are given — a number, NaN, ±Inf —,
    the three bounds they store satisfy the first two conjuncts of `boundsOk` (finite or absent), which is what
    `value_encodable` and the JSON of the attribute database need of them. F63 repair: "a thermometer without bounds"
    (`NewTemperatureSensor(info, 20, -Inf, +Inf, 0.1)`) made `/accessories` answer 500 for every accessory and
    `NewIPTransport` panic in the content hash. -/
theorem range_setters_store_encodable_bounds (x : F64) :
    (match setBound x with | .float y => y.isFinite = true | .nil => True | _ => False) ∧
    (x.isFinite = true → setBound x = .float x) := by
  unfold setBound
  cases h : x.isFinite <;> simp [h]

theorem range_setter_unfixed_refuted :
    setBoundOld (.inf false) = .float (.inf false) ∧ setBound (.inf false) = .nil ∧ setBound .nan = .nil := by
  refine ⟨rfl, rfl, rfl⟩

-- non-vacuity: instances of the hypotheses, and what fails without them ---------------------------------

/-- The comparison of the stored with the new value never panics, whatever the two dynamic values are (also slices and
    maps, which only a characteristic without a format stores): F50 repair. Before it, two arrays (or two objects) did. -/
theorem value_comparison_total (a b : GVal) : (goEq a b).isSome = true := by
  cases a <;> cases b <;> simp [goEq]

/-- … hence a characteristic WITHOUT a format (what `NewCharacteristic`, `NewInt`, `NewFloat`, … yield until the
    application sets one) and without a typed remote-update callback can be sent anything, any number of times, through
    every operation: no step of any operation sequence panics. (Its values are not typed or clamped — that is the price of
    having no format, and outside C12; that a controller cannot take the handler down with it is C13's concern.) -/
theorem formatless_never_panics (cfg : Config) (hf : cfg.format = .other) (ht : cfg.tcb = none) (ops : List Op) :
    ∀ so ∈ trace (start cfg) ops, so.2.outcome = .ok :=
  trace_plain ops (start cfg) ⟨hf, ht⟩

theorem value_comparison_unfixed_refuted :
    goEqOld (.comp (.arr [])) (.comp (.arr [])) = none ∧ goEq (.comp (.arr [])) (.comp (.arr [])) = some true := by
  decide

/-- The range getters of the typed wrappers (`GetMinValue`, `GetMaxValue`, `GetStepValue`) never panic, whether the
    characteristic declares that bound or not (F51 repair; 182 getter calls on freshly constructed catalog
    characteristics panicked before). -/
theorem range_getters_total (bound : GVal) (t : GType) : rangeGet bound t = .ok := rfl

theorem range_getter_unfixed_refuted : rangeGetOld .nil .int = .panic := by decide

/-- Brightness: int32, pr+pw+ev, [0,100], typed Int callback -/
def brightness : Config := ⟨.int32, ⟨true, true, true, false, false⟩, .int 0, .int 100, false, some .int⟩

example : brightness.format ≠ .other ∧ boundsOk brightness = true ∧ tcbMatches brightness = true := by decide

/-- remote 101 is clamped to 100, "50" is converted, an array becomes 0; never a panic -/
example : (trace (start brightness) [.update (.float (.fin false 101 0)) true true, .update (.str "50") true true,
      .update (.comp (.arr [])) true true]).map (fun so => ((match so.1.char.value with | .int i => some i | _ => none), so.2.outcome))
    = [(some 100, .ok), (some 50, .ok), (some 0, .ok)] := by decide

/-- an undeclared format (convert's `default:` branch — what a bare `NewCharacteristic` / `NewInt` / `NewFloat` yields
    until the application sets a format) is outside the typing theorem, but no longer a way to make a handler panic:
    the second write of the same array is compared with `reflect.DeepEqual` (F50 repair) -/
example : (trace (start ⟨.other, ⟨true, true, true, false, false⟩, .nil, .nil, false, none⟩)
      [.update (.comp (.arr [])) true true, .update (.comp (.arr [])) true true]).map (·.2.outcome)
    = [.ok, .ok] := by decide

/-- without `boundsOk` (max < min) the range claim fails -/
example : (trace (start ⟨.uint8, ⟨true, true, true, false, false⟩, .int 10, .int 5, false, none⟩)
      [.update (.int 7) false false]).map (fun so => inRange ⟨.uint8, ⟨true, true, true, false, false⟩, .int 10, .int 5, false, none⟩ so.1.char.value)
    = [false] := by decide

/-- without `tcbMatches` (Int wrapper's callback on a float format) the remote write panics -/
example : (trace (start ⟨.float, ⟨true, true, true, false, false⟩, .nil, .nil, false, some .int⟩)
      [.update (.bool true) true true]).map (·.2.outcome) = [.panic] := by decide

end Hc.Props.C12
