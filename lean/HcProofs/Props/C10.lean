import HcProofs.Lemmas.Notify
import HcModel.NotifyWire
/-
  C10 — each change is notified exactly once to exactly the subscribed others.
  Model: HcModel/Notify.lean (fan-out loop of ip_transport.go over the context's sessions, updateValue of
  characteristic.go, the `ev` branch of the PUT handler behind the middleware).
-/
namespace Hc.Props.C10
open Hc.Notify

/-- the state reached by a history from no connections -/
def reach (chars : Nat → Notify.Char) (h : List In) : St := stAfter (init chars) h

/-- what a step does to a characteristic: `some (ch, origin, checkPerms, v)` for the two kinds of value updates -/
def updateOf : In → Option (Nat × Option Nat × Bool × Nat)
  | .localSet ch v => some (ch, none, false, v)
  | .remoteWrite c ch v => some (ch, some c, true, v)
  | _ => none

/-- the update takes effect: the value differs (or the characteristic notifies on the same value), a remote
    writer is a verified open connection and the characteristic is writable -/
def takesEffect (s : St) : In → Bool
  | .localSet ch v => !((s.chars ch).value == some v && !(s.chars ch).updateOnSame)
  | .remoteWrite c ch v =>
    (match findConn s c with | some k => k.verified | none => false) &&
    !((s.chars ch).value == some v && !(s.chars ch).updateOnSame) && (s.chars ch).writable
  | _ => false

/-- Exact fan-out of one step, in every reachable state (any history, any order in which connections were
    established): steps that are not an effective value update emit nothing; an effective update of `ch` emits, for
    every connection `d`, exactly one event if `d` is an open session other than the originator that is subscribed to
    `ch`, and none otherwise; every emitted event is for `ch` and carries the value now stored. -/
theorem fanout_exact (chars : Nat → Notify.Char) (h : List In) (i : In) :
    let s := reach chars h
    let out := step s i
    (takesEffect s i = false → out.2 = []) ∧
    (takesEffect s i = true → ∀ ch o cp v, updateOf i = some (ch, o, cp, v) →
      (∀ d, (out.2.filter (·.to == d)).length =
          if ∃ k ∈ out.1.conns, k.id = d ∧ some d ≠ o ∧ ch ∈ k.subs then 1 else 0) ∧
      (∀ e ∈ out.2, e.ch = ch ∧ e.value = (out.1.chars ch).value)) := by
  intro s out
  have hwf : Wf s := wf_after _ h (wf_init chars)
  constructor
  · intro hte
    cases i with
    | localSet ch v =>
      simp only [takesEffect, Bool.not_eq_false'] at hte
      simp [out, step, update, hte]
    | remoteWrite c ch v =>
      simp only [out, step]
      cases hf : findConn s c with
      | none => rfl
      | some k =>
        simp only [takesEffect, hf] at hte
        by_cases hv : k.verified = true
        · simp only [hv, ↓reduceIte, update]
          simp only [hv, Bool.true_and] at hte
          by_cases h1 : ((s.chars ch).value == some v && !(s.chars ch).updateOnSame) = true
          · simp [h1]
          · have h1' : ((s.chars ch).value == some v && !(s.chars ch).updateOnSame) = false := by simpa using h1
            simp only [h1', Bool.not_false, Bool.true_and] at hte
            simp [h1', hte]
        · simp [hv]
    | connect c => rfl
    | verify c => rfl
    | close c => rfl
    | subscribe c ch =>
      simp only [out, step]
      split
      · split <;> rfl
      · rfl
    | unsubscribe c ch =>
      simp only [out, step]
      split
      · split <;> rfl
      · rfl
  · intro hte ch o cp v hu
    -- both update kinds reduce to `update s ch v o cp` with the equality / permission tests passed
    have key : out = update s ch v o cp ∧
        ((s.chars ch).value == some v && !(s.chars ch).updateOnSame) = false ∧ (cp && !(s.chars ch).writable) = false := by
      cases i with
      | localSet ch' v' =>
        simp only [updateOf, Option.some.injEq, Prod.mk.injEq] at hu
        obtain ⟨rfl, rfl, rfl, rfl⟩ := hu
        simp only [takesEffect, Bool.not_eq_true'] at hte
        exact ⟨rfl, hte, by simp⟩
      | remoteWrite c ch' v' =>
        simp only [updateOf, Option.some.injEq, Prod.mk.injEq] at hu
        obtain ⟨rfl, rfl, rfl, rfl⟩ := hu
        simp only [takesEffect] at hte
        cases hf : findConn s c with
        | none => simp [hf] at hte
        | some k =>
          simp only [hf, Bool.and_eq_true, Bool.not_eq_true'] at hte
          refine ⟨by simp [out, step, hf, hte.1.1], hte.1.2, by simp [hte.2]⟩
      | connect c => simp [updateOf] at hu
      | verify c => simp [updateOf] at hu
      | close c => simp [updateOf] at hu
      | subscribe c ch => simp [updateOf] at hu
      | unsubscribe c ch => simp [updateOf] at hu
    obtain ⟨hout, h1, h2⟩ := key
    obtain ⟨s', hconns, hupd⟩ := update_effective s ch v o cp h1 h2
    rw [hout, hupd]
    constructor
    · intro d
      have := notify_count s'.conns s'.chars ch o d (by rw [hconns]; exact hwf.nodup)
      simpa using this
    · intro e he
      have := notify_mem s' ch o e he
      exact ⟨this.1, this.2.1⟩

/-- the values a subscriber of `ch` is told while the updates `us` are made, in order: the value stored after each update
    that takes effect -/
def toldValues (s : St) (ch : Nat) : List In → List (Option Nat)
  | [] => []
  | i :: r =>
    let s' := (step s i).1
    (if takesEffect s i then [(s'.chars ch).value] else []) ++ toldValues s' ch r

theorem update_keeps_conns (s : St) (i : In) (u : Nat × Option Nat × Bool × Nat) (hu : updateOf i = some u) :
    (step s i).1.conns = s.conns := by
  cases i with
  | localSet ch v =>
    simp only [step, update]
    split
    · rfl
    · split
      · rfl
      · split <;> rfl
  | remoteWrite c ch v =>
    simp only [step]
    split
    · split
      · simp only [update]
        split
        · rfl
        · split
          · rfl
          · split <;> rfl
      · rfl
    · rfl
  | connect c => simp [updateOf] at hu
  | verify c => simp [updateOf] at hu
  | close c => simp [updateOf] at hu
  | subscribe c ch => simp [updateOf] at hu
  | unsubscribe c ch => simp [updateOf] at hu

theorem reach_snoc (chars : Nat → Notify.Char) (pre : List In) (i : In) :
    reach chars (pre ++ [i]) = (step (reach chars pre) i).1 := by
  simp [reach, stAfter, List.foldl_append]

/-- Whole histories: a connection `d` that is subscribed to `ch` — after any history `pre` — is told, while any sequence of
    updates of `ch` by others follows (local sets, writes of other controllers, several in one request or in many, changing
    and non-changing), exactly the values of the updates that took effect, once each and in the order in which they were
    made. (One-step exactness is `fanout_exact`; this is its closure under repetition: nothing is lost, doubled or reordered
    over a run — what the streams `entries` and `churn` observe on the wire.) -/
theorem subscriber_told_every_change_in_order (chars : Nat → Notify.Char) (d ch : Nat) (us : List In) :
    ∀ (pre : List In),
    (∃ k ∈ (reach chars pre).conns, k.id = d ∧ ch ∈ k.subs) →
    (∀ i ∈ us, ∃ o cp v, updateOf i = some (ch, o, cp, v) ∧ o ≠ some d) →
    (((run (reach chars pre) us).2.flatten).filter (·.to == d)).map (·.value) = toldValues (reach chars pre) ch us := by
  induction us with
  | nil => intro pre _ _; simp [run, toldValues]
  | cons i r ih =>
    intro pre hsub hus
    obtain ⟨o, cp, v, hu, ho⟩ := hus i List.mem_cons_self
    have hconns := update_keeps_conns (reach chars pre) i _ hu
    have hsub' : ∃ k ∈ (reach chars (pre ++ [i])).conns, k.id = d ∧ ch ∈ k.subs := by
      rw [reach_snoc, hconns]; exact hsub
    have ihr := ih (pre ++ [i]) hsub' (fun j hj => hus j (List.mem_cons_of_mem _ hj))
    rw [reach_snoc] at ihr
    have hf := fanout_exact chars pre i
    simp only at hf
    simp only [run, toldValues, List.flatten_cons, List.filter_append, List.map_append]
    rw [ihr]
    congr 1
    by_cases hte : takesEffect (reach chars pre) i = true
    · obtain ⟨hcount, hev⟩ := hf.2 hte ch o cp v hu
      have hc := hcount d
      have hex : ∃ k ∈ (step (reach chars pre) i).1.conns, k.id = d ∧ some d ≠ o ∧ ch ∈ k.subs := by
        rw [hconns]
        obtain ⟨k, hk, h1, h2⟩ := hsub
        exact ⟨k, hk, h1, fun h => ho h.symm, h2⟩
      rw [if_pos hex] at hc
      simp only [hte, if_true]
      obtain ⟨e, hl⟩ := List.length_eq_one_iff.mp hc
      have hmem : e ∈ (step (reach chars pre) i).2 := by
        have : e ∈ ((step (reach chars pre) i).2.filter (·.to == d)) := by rw [hl]; exact List.mem_singleton.mpr rfl
        exact (List.mem_filter.mp this).1
      rw [hl]
      simp [(hev e hmem).2]
    · have hte' : takesEffect (reach chars pre) i = false := by simpa using hte
      simp [hf.1 hte', hte']

/-- the connection that made the change receives no event -/
theorem originator_excluded (chars : Nat → Notify.Char) (h : List In) (c ch v : Nat) :
    ∀ e ∈ (step (reach chars h) (.remoteWrite c ch v)).2, e.to ≠ c := by
  intro e he
  simp only [step] at he
  split at he
  · split at he
    · simp only [update] at he
      split at he
      · simp at he
      · split at he
        · simp at he
        · have := (notify_mem _ ch (some c) e he).2.2.1
          intro hc; apply this; rw [hc]
    · simp at he
  · simp at he

/-- events go only to open, verified connections that are subscribed to an observable characteristic; hence a
    characteristic without the event permission never produces an event, and neither does a connection that is
    closed, never subscribed, or unverified -/
theorem events_only_to_verified_subscribers (chars : Nat → Notify.Char) (h : List In) (i : In) :
    ∀ e ∈ (step (reach chars h) i).2,
      ∃ k ∈ (step (reach chars h) i).1.conns, k.id = e.to ∧ k.verified = true ∧ e.ch ∈ k.subs ∧
        ((step (reach chars h) i).1.chars e.ch).observable = true := by
  intro e he
  have hwf' : Wf (step (reach chars h) i).1 := wf_step _ i (wf_after _ h (wf_init chars))
  have hmem : ∃ k ∈ (step (reach chars h) i).1.conns, k.id = e.to ∧ e.ch ∈ k.subs := by
    cases i with
    | localSet ch v =>
      simp only [step, update] at he ⊢
      split at he
      · simp at he
      · split at he
        · simp at he
        · rename_i h1 h2
          simp only [h1, h2]
          have := notify_mem _ ch none e he
          obtain ⟨hch, _, _, k, hk, hid, hs⟩ := this
          exact ⟨k, hk, hid, hch ▸ hs⟩
    | remoteWrite c ch v =>
      simp only [step] at he ⊢
      split at he
      · rename_i k0 hf
        split at he
        · rename_i hv
          simp only [update] at he ⊢
          simp only [hf, hv, ↓reduceIte]
          split at he
          · simp at he
          · split at he
            · simp at he
            · rename_i h1 h2
              simp only [update, h1, h2]
              have := notify_mem _ ch (some c) e he
              obtain ⟨hch, _, _, k, hk, hid, hs⟩ := this
              exact ⟨k, hk, hid, hch ▸ hs⟩
        · simp at he
      · simp at he
    | connect c => simp [step] at he
    | verify c => simp [step] at he
    | close c => simp [step] at he
    | subscribe c ch =>
      simp only [step] at he
      split at he
      · split at he <;> simp at he
      · simp at he
    | unsubscribe c ch =>
      simp only [step] at he
      split at he
      · split at he <;> simp at he
      · simp at he
  obtain ⟨k, hk, hid, hs⟩ := hmem
  have := hwf'.subsOk k hk e.ch hs
  exact ⟨k, hk, hid, this.1, hs, this.2⟩

/-- no event when the value did not change (characteristics that do not notify on the same value) -/
theorem unchanged_value_no_event (chars : Nat → Notify.Char) (h : List In) (ch v : Nat)
    (hsame : ((reach chars h).chars ch).value = some v) (hflag : ((reach chars h).chars ch).updateOnSame = false) :
    (step (reach chars h) (.localSet ch v)).2 = [] ∧ ∀ c, (step (reach chars h) (.remoteWrite c ch v)).2 = [] := by
  constructor
  · simp [step, update, hsame, hflag]
  · intro c
    simp only [step]
    split
    · split
      · simp [update, hsame, hflag]
      · rfl
    · rfl

-- non-vacuity: a concrete history with two subscribers and an originator ------------------------------------
def demoChars : Nat → Notify.Char := fun _ => ⟨true, true, true, false, some 0⟩
def demoHist : List In :=
  [.connect 1, .connect 2, .connect 3, .verify 1, .verify 2, .verify 3, .subscribe 1 7, .subscribe 2 7, .subscribe 3 7, .unsubscribe 3 7]
example : (step (reach demoChars demoHist) (.remoteWrite 1 7 5)).2 = [⟨2, 7, some 5⟩] := by decide
example : (step (reach demoChars demoHist) (.localSet 7 5)).2 = [⟨2, 7, some 5⟩, ⟨1, 7, some 5⟩] := by decide
example : (step (reach demoChars demoHist) (.localSet 7 0)).2 = [] := by decide

open Hc.NotifyWire in
/-- On the wire: the serialised notification starts with net/http's status line "HTTP/1.0 …"; the protocol fix turns
    exactly that into "EVENT/1.0 …" and carries everything behind it — header fields and the JSON body with the new
    value, whatever text the value contains (also "HTTP/1.0") — unchanged. -/
theorem event_wire_only_status_line_changes (rest : Bytes) :
    fixProto (http10 ++ rest) = event10 ++ rest := by
  simp [fixProto, http10, event10, replaceFirst]

open Hc.NotifyWire in
/-- … and the body is never touched on its own: bytes without "HTTP/1.0" in front of them stay as they are up to the
    first occurrence (non-vacuity of "only the first": a value that itself contains the specifier) -/
example : fixProto (http10 ++ [32] ++ http10) = event10 ++ [32] ++ http10 := by decide

end Hc.Props.C10
