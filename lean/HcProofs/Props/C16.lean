import HcProofs.Lemmas.Tlv8
/-
  C16 — TLV8 containers round-trip and fragment correctly.
  Property theorems only; helper lemmas live in HcProofs/Lemmas/{Chunks,Tlv8}.lean.
-/
namespace Hc.Props.C16
open Hc Hc.Tlv8

/-- Serialising any container reachable by set operations and parsing it back yields the very same
    item list (hence the same value for every tag). -/
theorem parse_serialize_reachable (ops : List (UInt8 × Bytes)) :
    parse (serialize (runSets ops)) = .ok (runSets ops) :=
  parse_serialize _ (runSets_ok ops)

/-- For any sequence of set operations (repeated and interleaved tags, any lengths) and every tag:
    the value read after serialise→parse is the value read before, and it is the concatenation in
    order of everything that was set for that tag. -/
theorem get_after_roundtrip (ops : List (UInt8 × Bytes)) (t : UInt8) :
    (parse (serialize (runSets ops))).map (getBytes · t) = .ok (specGet ops t) := by
  rw [parse_serialize_reachable]; simp [Except.map, getBytes_runSets]

/-- A set appends exactly the fragments `chunks 255 v`, as consecutive items of the same tag;
    each fragment is non-empty and at most 255 bytes, all but the last are exactly 255 bytes, and
    their concatenation is the value. (An empty value appends nothing.) -/
theorem fragments (c : Container) (t : UInt8) (v : Bytes) :
    ∃ frs : List Bytes, setBytes c t v = c ++ frs.map (Item.mk t) ∧
      frs.flatten = v ∧ (∀ f ∈ frs, f.length ≤ 255 ∧ f ≠ []) ∧ (∀ f ∈ frs.dropLast, f.length = 255) ∧
      frs.length = (v.length + 254) / 255 :=
  ⟨chunks 255 v, rfl, chunks_flatten _ _, chunks_len_le 255 (by omega) v, chunks_init_full 255 v,
    by rw [chunks_length 255 (by omega)]; rfl⟩

/-- A standard TLV8 reader (merging a fragment into a 255-byte predecessor of the same tag)
    reassembles the serialised form of one set of a non-empty value into exactly that value. -/
theorem stdParse_reassembles (t : UInt8) (v : Bytes) (hv : v ≠ []) :
    stdParse (serialize (setBytes [] t v)) = .ok [⟨t, v⟩] := by
  unfold stdParse
  rw [parse_serialize _ (setBytes_ok [] t v itemsOk_nil)]
  simp only [setBytes, List.nil_append]
  rw [chunks_cons_eq 255 v hv (by omega)]
  simp only [List.map_cons, stdMerge]
  rw [stdMerge_fragments]
  · simp
  · intro hne
    have : (v.drop 255).length ≠ 0 := fun h1 => hne (List.eq_nil_of_length_eq_zero h1)
    simp [List.length_drop] at this
    simp [List.length_take]; omega

/-- Parsing arbitrary bytes yields only data that was in the input: a successful parse is inverted
    by `serialize`, so the items are exactly the consecutive slices of the input. There is no panic
    outcome: `parse` is a total function into `Except Err`. -/
theorem parse_exact (bs : Bytes) (is : Container) (h : parse bs = .ok is) :
    serialize is = bs ∧ ItemsOk is :=
  ⟨serialize_parse bs is h, parse_ok_itemsOk bs is h⟩

/-- A container that was READ (a request) and is then written to (a handler that adds items to what it received and sends
    it on): what it serialises to is the bytes it was read from followed by the encoding of what was added — for every
    input that parses, every tag and every value; nothing that was set is lost, nothing is sent twice. -/
theorem set_after_parse (bs : Bytes) (is : Container) (h : parse bs = .ok is) (ops : List (UInt8 × Bytes)) :
    serialize (ops.foldl (fun c op => setBytes c op.1 op.2) is) = bs ++ serialize (runSets ops) := by
  have hs : serialize is = bs := serialize_parse bs is h
  have key : ∀ (ops : List (UInt8 × Bytes)) (c d : Container),
      ops.foldl (fun c op => setBytes c op.1 op.2) (c ++ d) = c ++ ops.foldl (fun c op => setBytes c op.1 op.2) d := by
    intro ops
    induction ops with
    | nil => intro c d; rfl
    | cons o os ih =>
      intro c d
      simp only [List.foldl_cons, setBytes, List.append_assoc]
      exact ih c (d ++ (chunks 255 o.2).map (Item.mk o.1))
  have := key ops is []
  simp only [List.append_nil] at this
  rw [this, serialize_append, hs]; rfl

/-- totality, stated: every input is either parsed or rejected with one of the two error kinds -/
theorem parse_total (bs : Bytes) :
    (∃ is, parse bs = .ok is) ∨ parse bs = .error .eof ∨ parse bs = .error .unexpectedEof := by
  cases h : parse bs with
  | ok is => exact .inl ⟨is, rfl⟩
  | error e => cases e <;> simp

-- non-vacuity: the theorems have no hypotheses beyond `v ≠ []`; concrete instances ---------------
example : specGet [(1, [7,7,7]), (2, [1,2]), (1, [9])] 1 = [7,7,7,9] := by decide
example : (parse (serialize (runSets [(6, [1]), (3, List.replicate 600 0), (6, [2])]))).map (getBytes · 6)
    = .ok [1, 2] := by
  rw [get_after_roundtrip]; congr 1
example : stdParse (serialize (setBytes [] 3 (List.replicate 600 1))) = .ok [⟨3, List.replicate 600 1⟩] :=
  stdParse_reassembles 3 _ (by decide)

end Hc.Props.C16
