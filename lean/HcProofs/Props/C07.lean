import HcProofs.Lemmas.ConnRead
/-
  C07 — reads on an encrypted connection deliver exactly the bytes sent.
  Property theorems only (helper lemmas: HcProofs/Lemmas/ConnRead.lean). They are about the model of the
  REPAIRED DecryptedRead (HcModel/ConnRead.lean) and quantify over every stream of frames `fs` (any number, any
  plaintext lengths including empty frames), every network behaviour `net` (segments of arbitrary byte counts —
  several frames per segment, frames cut at any offset —, read deadlines firing anywhere, close) and every
  sequence of caller buffer sizes `bufs`. The plaintext alphabet `α` is arbitrary.
  Hypothesis `allOk fs`: every frame authenticates (a well-formed peer); altered frames are C05's subject.
  The four failures of the unrepaired code (F6 a–d) are replayed on the real code by the correspondence driver
  (corpus cases of harness/cmd/drive/c07.go); a Lean model of the old per-call reader is not kept.
-/
namespace Hc.Props.C07
open Hc.ConnRead
variable {α : Type}

/-- Exactness, every run: what the reads returned so far, followed by what is decrypted but not handed out yet
    and by the plaintexts of the frames not yet consumed, is exactly the concatenation of the sent plaintexts.
    Hence the returned data is a prefix of what was sent: nothing lost, duplicated or reordered — across
    segment boundaries, buffer sizes, timeouts and close. -/
theorem delivers_exactly (fs : List (Frame α)) (net : List Ev) (bufs : List Nat) (hok : allOk fs = true) :
    dataOf (run (init fs) net bufs).2.2 ++ ((run (init fs) net bufs).1.rem ++ plainOf (run (init fs) net bufs).1.todo)
      = plainOf fs := by
  have := (run_exact (init fs) net bufs (good_init fs hok)).1
  simpa [pending, init] using this

/-- …in particular the returned data is a prefix of the sent plaintext. -/
theorem delivers_prefix (fs : List (Frame α)) (net : List Ev) (bufs : List Nat) (hok : allOk fs = true) :
    ∃ rest, dataOf (run (init fs) net bufs).2.2 ++ rest = plainOf fs :=
  ⟨_, delivers_exactly fs net bufs hok⟩

/-- Completeness: if the network eventually delivers the whole stream (`streamSize fs ≤ segBytes net`) and the
    caller keeps reading until a read can only block (the last result is `block`: every event was consumed),
    then the returned data equals the concatenation of the sent plaintexts. -/
theorem delivers_all (fs : List (Frame α)) (net : List Ev) (bufs : List Nat) (hok : allOk fs = true)
    (hnet : streamSize fs ≤ segBytes net)
    (hlast : (run (init fs) net bufs).2.2.getLast? = some .block) :
    dataOf (run (init fs) net bufs).2.2 = plainOf fs := by
  have g := good_init fs hok
  have h1 := (run_exact (init fs) net bufs g).1
  have h2 := run_complete (init fs) net bufs g (by simpa [init] using hnet) hlast
  rw [h2] at h1
  simpa [pending, init] using h1

/-- Promptness: if undelivered plaintext is at hand — a decrypted remainder, or buffered bytes covering a complete
    frame with non-empty plaintext (after any number of complete empty frames) — a read with a buffer of at
    least one byte returns n > 0 bytes and consumes no network event (it cannot wait, time out or fail). -/
theorem prompt (s : St α) (net : List Ev) (b : Nat) (hb : 1 ≤ b) (h : ready s = true) :
    (read s net b).2.1 = net ∧ ∃ bs, bs ≠ [] ∧ (read s net b).2.2 = .data bs :=
  read_prompt s net b hb h

/-- Promptness across one segment: if the buffered bytes plus the next segment contain such a complete frame,
    the read returns n > 0 bytes and consumes exactly that segment, no further event. -/
theorem prompt_after_segment (s : St α) (n : Nat) (net' : List Ev) (b : Nat) (hb : 1 ≤ b)
    (hc : s.closed = false) (h0 : ready s = false) (h1 : readyAux (s.buf + min n s.flight) s.todo = true) :
    (read s (.seg n :: net') b).2.1 = net' ∧ ∃ bs, bs ≠ [] ∧ (read s (.seg n :: net') b).2.2 = .data bs :=
  read_prompt_after_seg s n net' b hb hc h0 h1

/-- No spurious error, every run with a well-formed peer: a read reports end-of-stream (io.EOF) or fails only if
    the network reported `closed` (so never because of an empty-plaintext frame or a caller buffer that exactly
    drains the remainder); a timeout is reported only if a deadline fired. -/
theorem no_spurious_error (fs : List (Frame α)) (net : List Ev) (bufs : List Nat) (hok : allOk fs = true) :
    ∀ r ∈ (run (init fs) net bufs).2.2,
      (r = .eof → Ev.closed ∈ net) ∧ (∀ a, r = .closed a → Ev.closed ∈ net) ∧ (r = .timeout → Ev.idle ∈ net) := by
  intro r hr
  have := run_errors (init fs) net bufs (good_init fs hok) r hr
  refine ⟨this.1, ?_, this.2.2⟩
  intro a ha
  rcases this.2.1 a ha with h | h
  · simp [init] at h
  · exact h

theorem data_nonempty (fs : List (Frame α)) (net : List Ev) (bufs : List Nat) (hok : allOk fs = true)
    (hb : ∀ b ∈ bufs, 1 ≤ b) : ∀ r ∈ (run (init fs) net bufs).2.2, ∀ bs, r = .data bs → bs ≠ [] :=
  run_nonempty (init fs) net bufs (good_init fs hok) hb

/-- A timeout loses no byte: whatever the state (well-formed peer), a read that reports a timeout — or any other
    result — leaves `returned ++ pending` unchanged; for a timeout nothing is returned, so everything received
    or in flight is still pending, in order. -/
theorem timeout_loses_nothing (s : St α) (net : List Ev) (b : Nat) (g : Good s)
    (ht : (read s net b).2.2 = .timeout) : pending (read s net b).1 = pending s ∧ Good (read s net b).1 := by
  have R := read_spec s net b g
  refine ⟨?_, R.2.1⟩
  have := R.1
  rw [ht] at this
  simpa [out] using this

-- non-vacuity: concrete instances of the hypotheses ------------------------------------------------------
/-- two messages coalesced into one segment, an empty frame, a longer frame, a frame cut by an idle
    period; buffer sizes 1, exactly-the-remainder, larger -/
def fsEx : List (Frame Nat) :=
  [⟨[1, 2, 3], true⟩, ⟨[4, 5], true⟩, ⟨[], true⟩, ⟨List.replicate 30 7, true⟩, ⟨[8], true⟩]
def netEx : List Ev := [.seg 44, .idle, .seg 10, .seg 60, .idle, .seg 5, .seg 100]
def bufsEx : List Nat := [1, 2, 2, 4096, 1000, 24, 9, 9, 9, 9]
example : allOk fsEx = true := by decide
example : streamSize fsEx ≤ segBytes netEx := by decide
example : ready (init fsEx) = false ∧ readyAux ((init fsEx).buf + min 44 (init fsEx).flight) (init fsEx).todo = true := by
  decide
-- (closed computations through the well-founded `fetchAux`: evaluated by the kernel)
example : (run (init fsEx) netEx bufsEx).2.2.getLast? = some .block := by decide +kernel
example : dataOf (run (init fsEx) netEx bufsEx).2.2 = plainOf fsEx := by decide +kernel
example : (run (init fsEx) netEx bufsEx).2.2.filter (· = .timeout) = [.timeout, .timeout] := by decide +kernel

end Hc.Props.C07
