import HcProofs.Lemmas.Tlv8Struct
import HcProofs.Lemmas.Tlv8StructRt
import HcModel.Generated.RtpTypes
/-
  C17 — struct TLV8 marshalling round-trips and matches the wire encoding.
  Property theorems only; helper lemmas live in HcProofs/Lemmas/Tlv8Struct.lean.
  The model (HcModel/Tlv8Struct.lean) describes tlv8/*.go as repaired by the five `fix:` commits of F12.
-/
namespace Hc.Props.C17
open Hc Hc.Tlv8 Hc.Tlv8Struct

/-- Per kind, at every value of the kind: the reader applied to what the writer hands to `writeBytes`
    returns the value (little-endian fixed width for the integers, two's complement for the signed ones,
    the raw bits for float32 unless they are a signalling NaN, one byte for bool, the bytes of a string). -/
theorem scalar_roundtrip (t : Ty) (v : Val) (hs : isScalar t = true) (h : wfVal t v = true) :
    decScalar t (scalarPayload t v) = .ok v :=
  decScalar_payload t v hs h

/-- The round trip, for every type and value in the domain `WF` (nested structs, tagged and inline lists,
    values of any length incl. > 255 bytes — fragmentation —, any number of list elements):
    `Unmarshal (Marshal v) = v`. `WF ty v` is the decidable predicate: `ty` is a struct; within each struct
    (and each list element struct) the tags under which values are read are pairwise distinct; elements of an
    inline list have exactly one field and it is not a list; integers are in the range of their kind and a
    float32 is not a signalling NaN; no list element encodes to zero bytes. Each excluded shape is run on the
    real code by the harness and reported under `excluded_by_WF_run_on_real_code` in the evidence. -/
theorem struct_roundtrip (ty : Ty) (v : Val) (h : WF ty v = true) : unmarshal ty (marshal ty v) = .ok v :=
  unmarshal_marshal ty v h

/-- The bytes produced by `Marshal` are exactly the reference encoding, for every type and value
    (no hypothesis): little-endian integers, one item per ≤ 255 bytes of value, nested structs as the
    value of their tag, `00 00` between list elements. -/
theorem wire_is_le_tlv8 (ty : Ty) (v : Val) : marshal ty v = refEncode ty v :=
  marshal_eq_ref ty v

/-- `Unmarshal` of ANY byte string into ANY struct type returns a value or an error: the model's panic
    outcome (an index out of range in a reader) and the exhaustion of the inline-list loop bound are
    unreachable. -/
theorem unmarshal_total (fs : Fields) (bs : Bytes) :
    unmarshal (.struct fs) bs ≠ .panic ∧ unmarshal (.struct fs) bs ≠ .fuel :=
  unmarshal_good fs bs

/-- every struct type of package rtp (regenerated from the working tree on every run) is well-formed -/
theorem rtp_types_wf : ∀ p ∈ Hc.Generated.RtpTypes.all,
    isStruct p.2 = true ∧ wfTy p.2 = true := by decide

/-- For the library's own RTP message types the value-level part of `WF` that concerns lists holds
    automatically when the element type has a field of a kind that always writes bytes; the type-level
    part is `rtp_types_wf`. Stated for the round trip: every RTP type round-trips every value of its shape. -/
theorem rtp_roundtrip : ∀ p ∈ Hc.Generated.RtpTypes.all, ∀ v, wfVal p.2 v = true →
    unmarshal p.2 (marshal p.2 v) = .ok v := by
  intro p hp v hv
  obtain ⟨h1, h2⟩ := rtp_types_wf p hp
  exact struct_roundtrip p.2 v (by unfold WF; rw [h1, h2, hv]; rfl)

-- non-vacuity / concrete instances
/-- a value of rtp.VideoCodecParameters with zero-valued elements in its inline lists (the shape that the
    unrepaired decoder cut short) satisfies WF -/
example : WF Hc.Generated.RtpTypes.tyVideoCodecParameters
    (.struct [.list [.struct [.nat 0], .struct [.nat 1], .struct [.nat 0]], .list [.struct [.nat 0]], .list []]) = true := by
  simp [WF, isStruct, Hc.Generated.RtpTypes.tyVideoCodecParameters, wfTy, wfFields, wfVal, wfVals, allB, distinct, ownTags, ownTag,
    isList, encFields, encField, scalarPayload, frag_short]
/-- a tagged list with an element of any non-zero length (e.g. 300 bytes: two fragments) -/
example (b : Bytes) (hb : b ≠ []) : WF (.struct (.cons 5 (.list false (.cons 1 .bytes .nil)) .nil))
    (.struct [.list [.struct [.bytes [1, 2, 3]], .struct [.bytes b], .struct [.bytes [9]]]]) = true := by
  have h : frag 1 b ≠ [] := frag_ne_nil _ _ hb
  simp [WF, isStruct, wfTy, wfFields, wfVal, wfVals, allB, distinct, ownTags, ownTag, encFields, encField, scalarPayload,
    frag_short, h]
/-- excluded: an empty list element; two fields with the same tag -/
example : WF (.struct (.cons 5 (.list false (.cons 1 .bytes .nil)) .nil)) (.struct [.list [.struct [.bytes []]]]) = false := by
  simp [WF, isStruct, wfTy, wfFields, wfVal, wfVals, allB, distinct, ownTags, ownTag, encFields, encField, scalarPayload, frag_nil]
example : WF (.struct (.cons 1 .u8 (.cons 1 .u16 .nil))) (.struct [.nat 1, .nat 2]) = false := by decide
example : wfVal .i64 (.int (-9223372036854775808)) = true := by decide
example : scalarPayload .i64 (.int (-2)) = [0xfe, 0xff, 0xff, 0xff, 0xff, 0xff, 0xff, 0xff] := by decide
example : decScalar .i32 [0xff, 0xff] = .ok (.int (-1)) := by rfl      -- promotion of a 2-byte value: sign-extended
example : decScalar .i32 [0xff] = .ok (.int 255) := by rfl            -- promotion of a 1-byte value: zero-extended
example : decScalar .u64 [1, 2, 3] = .ok (.nat 513) := by rfl         -- a 3-byte value is read as 16 bits
example : decScalar .f32 [7] = .err := by rfl                         -- repaired: was an index panic

end Hc.Props.C17
