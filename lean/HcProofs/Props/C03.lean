import HcProofs.Lemmas.PairVerify
import HcProofs.Lemmas.Handover
import HcProofs.Lemmas.PlainFraming
/-
  C03 — a connection becomes verified only by a valid long-term-key signature.
  Model: HcModel/PairVerify.lean (symbolic; the repaired controller + endpoint is `step true`).
  `St.installed` is the endpoint's effect: `some shared` = secure session installed (connection verified).
-/
namespace Hc.Props.C03
open Hc.PairVerify

/-- the only finish message that verifies connection `c` after an accepted start with ephemeral key `e`, in the exchange
    for which the accessory drew its `k`-th ephemeral key: sealed under this exchange's key, right nonce, untampered,
    naming `name`, signed by key pair `pk` over (ctrlEph e ‖ name ‖ the accessory's `k`-th ephemeral key on connection c) -/
def finishFor (c k e name pk : Nat) : In :=
  .v3 (.sealed (.ofEph c k e) true true (.tlv name (.valid pk (some e) name c k)))

/-- the number of the accessory's ephemeral key that is current after `hist` (a new one for every accepted start) -/
def epochAfter (c : Nat) (hist : List (Store × In)) : Nat := (stAfter true c init hist).epoch

/-- For every history (with the pairing store possibly changing between messages) and every next message:
    if that message installs a secure session (verifies the connection) or is answered with the success response
    (state 4, no error), then an accepted start request with ephemeral key `e` precedes it in the same exchange,
    the store maps the claimed name to `pk`, and the message is exactly the finish signed with `pk`'s secret key
    over this exchange's material — the controller's ephemeral key AND the ephemeral key the accessory drew for THIS
    exchange, so a finish recorded in an earlier exchange of the connection does not count. The installed session is the
    one of that exchange. -/
theorem verified_only_by_valid_finish (c : Nat) (hist : List (Store × In)) (db : Store) (i : In) :
    let st := stAfter true c init hist
    ((step true c db st i).1.installed ≠ st.installed ∨ (step true c db st i).2 = .tlv 4 none false false) →
    ∃ e name pk, StartedNow hist e ∧ db name = .key pk ∧ i = finishFor c (epochAfter c hist) e name pk ∧
      (step true c db st i).1.installed = some (some e) ∧ (step true c db st i).1.instEpoch = epochAfter c hist := by
  intro st hs
  obtain ⟨name, pk, hstep, hdb, hi, hinst, hie⟩ := step_install_iff c db st i hs
  have hinv := inv_after c [] hist init (inv_init c)
  obtain ⟨e, hp, ho, hK⟩ := hinv hstep
  refine ⟨e, name, pk, by simpa using hp, hdb, ?_, ?_, hie⟩
  · rw [hi]; simp only [finishFor, epochAfter]
    rw [show st.K = KRef.ofEph c st.epoch e from hK, show st.other = some e from ho]
  · rw [hinst]; exact congrArg some ho

/-- Every other outcome — unknown name, entity without key, bad signature, undecryptable / tampered / wrong-nonce
    / short / malformed finish, rejected start, out-of-order step, unknown state or method — leaves the
    connection's verification status exactly as it was, and a finish request among them is answered with an
    error (HTTP 500 or a TLV error code). -/
theorem failure_never_verifies (c : Nat) (hist : List (Store × In)) (db : Store) (i : In)
    (h : ¬ ∃ e name pk, StartedNow hist e ∧ db name = .key pk ∧ i = finishFor c (epochAfter c hist) e name pk) :
    let st := stAfter true c init hist
    (step true c db st i).1.installed = st.installed ∧
    (∀ d, i = .v3 d → (step true c db st i).2 = .http500 ∨ ∃ s e, (step true c db st i).2 = .tlv s (some e) false false) := by
  intro st
  have hno : ¬ ((step true c db st i).1.installed ≠ st.installed ∨ (step true c db st i).2 = .tlv 4 none false false) := by
    intro hs
    obtain ⟨e, name, pk, h1, h2, h3, _⟩ := verified_only_by_valid_finish c hist db i hs
    exact h ⟨e, name, pk, h1, h2, h3⟩
  constructor
  · exact Classical.byContradiction fun hne => hno (.inl hne)
  · intro d hd
    subst hd
    have hout : (step true c db st (.v3 d)).2 ≠ .tlv 4 none false false := fun he => hno (.inr he)
    revert hout
    simp only [step, stepR]
    split
    · simp
    · cases d with
      | short n => simp
      | sealed k nonceOk intact pt =>
        simp only
        split
        · intro _; right; exact ⟨4, 2, rfl⟩
        · simp
        · split
          · simp
          · simp
          · simp
          · intro _; right; exact ⟨4, 4, rfl⟩
          · split
            · simp
            · intro _; right; exact ⟨4, 4, rfl⟩

/-- completeness: the honest exchange verifies (non-vacuity of the statements above) -/
theorem honest_exchange_verifies (c e name pk : Nat) (db : Store) (hdb : db name = .key pk) :
    (step true c db (stAfter true c init [(db, .v1 (.good e))]) (finishFor c 1 e name pk)).1.installed = some (some e) := by
  simp [stAfter, step, stepR, init, finishFor, openSealed, sigOk, hdb]

/-- an unverified connection stays unverified under any history that contains no valid finish -/
theorem unverified_stays_unverified (c : Nat) (hist : List (Store × In))
    (h : ∀ pre x post, hist = pre ++ [x] ++ post →
      ¬ ∃ e name pk, StartedNow pre e ∧ x.1 name = .key pk ∧ x.2 = finishFor c (epochAfter c pre) e name pk) :
    (stAfter true c init hist).installed = none := by
  have key : ∀ (pre rest : List (Store × In)), hist = pre ++ rest →
      (stAfter true c init pre).installed = none → (stAfter true c init (pre ++ rest)).installed = none := by
    intro pre rest
    induction rest generalizing pre with
    | nil => intro _ h0; simpa using h0
    | cons x xs ih =>
      intro hh h0
      have hx := (failure_never_verifies c pre x.1 x.2 (h pre x xs (by simpa using hh))).1
      have : stAfter true c init (pre ++ [x]) = (step true c x.1 (stAfter true c init pre) x.2).1 := by
        simp [stAfter, List.foldl_append]
      have h1 : (stAfter true c init (pre ++ [x])).installed = none := by rw [this, hx, h0]
      have := ih (pre ++ [x]) (by simpa using hh) h1
      simpa using this
  simpa using key [] hist rfl (by simp [stAfter, init])

-- hand-over to the encrypted session (hap/session.go, hap/connection.go) ------------------------------------------

open Hc.Handover in
/-- Hand-over to the encrypted session (hap/session.go, hap/connection.go), for EVERY interleaving of the handler's
    steps, the reads net/http starts, and what arrives on the wire: the answer to the finish request is never written
    encrypted, and the connection has a current cryptographer only after that answer went out in plaintext. -/
theorem hand_over_response_plaintext (strict : Bool) (ops : List Op) :
    (run true strict true ops).respEncrypted ≠ some true ∧
    ((run true strict true ops).cur = true → (run true strict true ops).respEncrypted = some false) := by
  obtain ⟨h1, h2, _⟩ := inv_run strict ops
  refine ⟨h1, fun hc => ?_⟩
  cases hr : (run true strict true ops).respEncrypted with
  | none => rw [h2 hr] at hc; cases hc
  | some b => cases b <;> simp_all

open Hc.Handover in
/-- …and bytes the controller sent after the answer are handed on as plaintext only if no cryptographer has been
    negotiated at all: a read that was already waiting when the cryptographer was negotiated re-classifies them. -/
theorem hand_over_reads_decrypted (strict queue : Bool) (s : Handover.St)
    (h : (Handover.step true strict queue s .readDone).delivered = some false) (hd : s.delivered ≠ some false) :
    s.cur = false ∧ s.next = false := by
  obtain ⟨cur, next, pending, resp, wire, del, aw, cl, fp, qd, eo, ed, wr⟩ := s
  cases cl
  · simp only [Handover.step, Bool.false_eq_true, if_false, if_true] at h
    (repeat' split at h) <;> first
      | exact absurd h hd
      | (cases cur <;> cases next <;> simp_all)
  · simp only [Handover.step, if_true] at h; exact absurd h hd

open Hc.Handover in
/-- "switches to the encrypted session": on a connection that is verified by this finish request (or is about to be),
    nothing that did not go through the session's Decrypt is ever handed to the HTTP layer — for every operation
    sequence. Foreign bytes reach the HTTP layer as plaintext only on a connection that has no cryptographer,
    negotiates none with this request and has already answered it (an ordinary unverified connection, where they are
    refused by C01). In particular a plaintext request glued behind the genuine finish request is never served. -/
theorem hand_over_no_foreign_plaintext (ops : List Op) :
    (run true true true ops).foreignPlain = true →
      (run true true true ops).cur = false ∧ (run true true true ops).next = false ∧ (run true true true ops).awaiting = false :=
  inv2_run ops

open Hc.Handover in
/-- Events of other goroutines (the application changes a value, a keep-alive) in the hand-over, for every operation
    sequence: no event is written between the request and its answer — so none is written into the middle of the answer
    and none is the write that activates the negotiated cryptographer (the answer stays plaintext, first theorem above) —
    and every event that was kept back has been written once the answer is out. -/
theorem hand_over_events_wait_for_the_answer (strict : Bool) (ops : List Op) :
    (run true strict true ops).evDuring = false ∧
    ((run true strict true ops).awaiting = false → (run true strict true ops).writing = false →
      (run true strict true ops).closed = false → (run true strict true ops).queued = 0) := by
  exact ⟨inv3_run strict ops, inv4_run strict ops⟩

open Hc.Handover in
/-- the four interleavings of one finish request (read start before the negotiation, between negotiation and answer,
    after the answer, after the controller's bytes arrived): answer in plaintext, controller's bytes decrypted -/
theorem hand_over_all_schedules :
    allSchedules.all (fun ops => (run true true true ops).respEncrypted == some false && (run true true true ops).delivered == some true
      && !(run true true true ops).closed) = true ∧
    allSchedules.length = 4 := by decide

open Hc.Handover in
/-- the code before the F18 repair fails on two of them: a read starting between negotiation and answer makes the answer
    go out ENCRYPTED (≈ 3 % of real handshakes, finding F18); a read already waiting hands ciphertext on as plaintext -/
theorem hand_over_unfixed_refuted :
    (run false false false [.setCrypt, .readStart, .writeResp, .peerSends, .readDone]).respEncrypted = some true ∧
    (run false false false [.readStart, .setCrypt, .writeResp, .peerSends, .readDone]).delivered = some false := by decide

open Hc.Handover in
/-- the code before the F19 repair: a plaintext request that arrives in the same read as the genuine finish request
    (or while the handler has not yet negotiated the cryptographer) sits in net/http's buffer and is served after the
    hand-over, on a connection that by then counts as verified -/
theorem hand_over_unstrict_refuted :
    ((run true false false [.excess, .setCrypt, .writeResp]).foreignPlain = true ∧ (run true false false [.excess, .setCrypt, .writeResp]).cur = true) ∧
    ((run true false false [.readStart, .foreign, .readDone, .setCrypt, .writeResp]).foreignPlain = true ∧
     (run true false false [.readStart, .foreign, .readDone, .setCrypt, .writeResp]).cur = true) ∧
    (run true true true [.excess, .setCrypt, .writeResp]).closed = true ∧
    (run true true true [.readStart, .foreign, .readDone, .setCrypt, .writeResp]).closed = true := by decide

open Hc.Handover in
/-- the code before the F31 repair: an event that another goroutine writes between the negotiation and the answer is the
    write that activates the new cryptographer — the answer to the finish request then goes out ENCRYPTED (the F18
    symptom again, through a second writer), and the event sits between request and answer -/
theorem hand_over_unqueued_refuted :
    (run true true false [.setCrypt, .event, .writeResp]).respEncrypted = some true ∧
    (run true true false [.event]).evDuring = true ∧
    (run true true true [.setCrypt, .event, .writeResp]).respEncrypted = some false ∧
    (run true true true [.setCrypt, .event, .writeResp]).evOut = 1 := by decide


-- byte level of the `strict` flag above: how a plaintext connection finds the end of a request (hap/connection.go
-- plainRequest, model HcModel/PlainFraming.lean). `cl` stands for net/http's own parser (ReadRequest(..).ContentLength).

open Hc.PlainFraming in
/-- How the peer's bytes are cut into TCP segments / raw reads does not matter: feeding `a` and then `b` is feeding
    `a ++ b` (for every parser, every state, all bytes). -/
theorem plain_framing_segmentation_independent (cl : Bytes → Option Nat) (m : Nat) (s : PlainFraming.St) (a b : Bytes) :
    feed cl m s (a ++ b) = (feed cl m s a).bind (fun s' => feed cl m s' b) :=
  feed_append cl m s a b

open Hc.PlainFraming in
/-- After a complete request, and until a response is written, every further byte is refused — whatever it is. -/
theorem plain_framing_nothing_after_complete (cl : Bytes → Option Nat) (m : Nat) (s : PlainFraming.St)
    (h : s.complete = true) (b : Bytes) (hb : b ≠ []) :
    feed cl m s b = none ∧ feed cl m (respond s) [] = some (respond s) ∧ (respond s).complete = false :=
  ⟨complete_refuses cl m s h b hb, rfl, rfl⟩

open Hc.PlainFraming in
/-- … and an interim response (`100 Continue`, which an on-path adversary can provoke by adding `Expect: 100-continue` to
    the header of the pair-verify finish — the header is not authenticated) does not open that window: after a complete
    request and ANY number of interim responses every further byte is still refused. Before the repair of F48 one
    interim response was enough for the next byte to be accepted as the beginning of a plaintext request. -/
theorem plain_framing_interim_is_no_response (cl : Bytes → Option Nat) (m : Nat) (s : PlainFraming.St)
    (h : s.complete = true) (k : Nat) (b : Bytes) (hb : b ≠ []) :
    runF true cl m s (List.replicate k .interim ++ [.read b]) = none := by
  induction k with
  | zero => simp [runF, complete_refuses cl m s h b hb]
  | succ n ih => simpa [List.replicate_succ, runF, interim] using ih

open Hc.PlainFraming in
theorem plain_framing_interim_unfixed_refuted :
    let cl : Bytes → Option Nat := fun _ => some 0
    let done : PlainFraming.St := ⟨[], 0, false, true⟩
    runF false cl 64 done [.interim, .read [88]] = some ⟨[88], 0, false, false⟩ ∧
    runF true cl 64 done [.interim, .read [88]] = none := by decide

open Hc.PlainFraming in
/-- Exactly one request: a header `hp ++ [z]` whose first header end is its own end, announcing `n` body bytes, followed
    by exactly `n` bytes, is accepted and leaves the connection waiting for the response; with ANY further byte glued
    behind it (the F19 attack: a plaintext request behind the pair-verify finish) the read is refused. -/
theorem plain_framing_one_request (cl : Bytes → Option Nat) (m : Nat) (hp : Bytes) (z : UInt8) (n : Nat) (body extra : Bytes)
    (hlen : hp.length ≤ m) (hno : ∀ p, p <+: hp → p ≠ [] → endsHeader p = false)
    (hend : endsHeader (hp ++ [z]) = true) (hcl : cl (hp ++ [z]) = some n) (hb : body.length = n) :
    feed cl m PlainFraming.init (hp ++ [z] ++ body) = some ⟨[], 0, false, true⟩ ∧
    (extra ≠ [] → feed cl m PlainFraming.init (hp ++ [z] ++ body ++ extra) = none) := by
  have h1 : feed cl m PlainFraming.init hp = some ⟨hp, 0, false, false⟩ := feed_header cl m hp hlen hno [] hp rfl
  have h2 : feed cl m ⟨hp, 0, false, false⟩ [z] = some ⟨[], n, decide (n > 0), decide (n = 0)⟩ := by
    simp [feed, byte, hend, hcl]
  have h3 : feed cl m ⟨[], n, decide (n > 0), decide (n = 0)⟩ body = some ⟨[], 0, false, true⟩ := by
    by_cases hn : n = 0
    · subst hn
      have : body = [] := by cases body <;> simp_all
      subst this
      simp [feed]
    · have hpos : 0 < n := by omega
      have e1 : decide (n > 0) = true := by simpa using hpos
      have e2 : decide (n = 0) = false := by simpa using hn
      rw [e1, e2]
      exact feed_body cl m n body hb hpos
  have hall : feed cl m PlainFraming.init (hp ++ [z] ++ body) = some ⟨[], 0, false, true⟩ := by
    rw [List.append_assoc, feed_append, h1]
    simp only [Option.bind_some]
    rw [feed_append, h2]
    simpa using h3
  refine ⟨hall, fun hx => ?_⟩
  rw [feed_append, hall]
  simpa using complete_refuses cl m ⟨[], 0, false, true⟩ rfl extra hx

open Hc.PlainFraming in
/-- non-vacuity: the header "P /\r\n\r\n" announcing 3 body bytes, three body bytes; a fourth byte is refused; after
    the response the next request is accepted again -/
example :
    let h : Bytes := [80, 32, 47, 13, 10, 13, 10]
    let cl : Bytes → Option Nat := fun _ => some 3
    feed cl 64 PlainFraming.init (h ++ [6, 1, 3]) = some ⟨[], 0, false, true⟩ ∧
    feed cl 64 PlainFraming.init (h ++ [6, 1, 3] ++ [80]) = none ∧
    run cl 64 PlainFraming.init [.read (h ++ [6, 1]), .read [3], .respond, .read h] = some ⟨[], 3, true, false⟩ := by decide


/-- store: name 1 ↦ key pair 5 (e.g. the accessory's own entity, which is always stored) -/
def db1 : Store := fun n => if n = 1 then .key 5 else .none

-- the accessory itself ---------------------------------------------------------------------------------------------------

/-- The accessory's own identity is stored in the same database as the pairings. A finish that names it — signed with
    whatever key, also the accessory's own long-term key — is answered with an error and verifies nothing: an entity
    that holds a private key is no controller (F16 repair). -/
theorem accessory_itself_is_no_controller (c : Nat) (db : Store) (st : St) (k : KRef) (no it : Bool) (name pk : Nat)
    (sig : SigRef) (hown : db name = .own pk) :
    (step true c db st (.v3 (.sealed k no it (.tlv name sig)))).1.installed = st.installed ∧
    (step true c db st (.v3 (.sealed k no it (.tlv name sig)))).2 ≠ .tlv 4 none false false := by
  simp only [step, stepR]
  split
  · simp
  · simp only [openSealed]
    split
    · simp
    · simp
    · rename_i n s hopen
      split at hopen
      · simp only [Option.some.injEq, Plain.tlv.injEq] at hopen
        obtain ⟨rfl, rfl⟩ := hopen; simp [hown]
      · simp at hopen

-- every exchange has its own accessory key ------------------------------------------------------------------------------

/-- A start request whose 32-byte key is a point of small order (the shared secret of X25519 is then all zero, whatever
    the accessory's key pair of this exchange is — the session keys would be the same for every session of that controller,
    with the frame counters starting at zero each time: a frame recorded in one session would be a frame of the next) is
    refused: no exchange is opened, nothing is installed, and a finish that follows is answered like a finish without a
    start. F61 repair. -/
theorem low_order_start_refused (c : Nat) (db : Store) (st : St) :
    (step true c db st (.v1 .lowOrder)).1.step = .waiting ∧
    (step true c db st (.v1 .lowOrder)).1.installed = st.installed ∧
    (step true c db st (.v1 .lowOrder)).1.epoch = st.epoch ∧
    (step true c db st (.v1 .lowOrder)).2 = .http500 := by
  simp only [step, stepR]
  split <;> simp

/-- A stored long-term key of a wrong size (anything but 32 bytes; `/pairings` add stores what it is given): whatever
    the finish carries — any signature, of any length —, it is answered with an error and verifies nothing. (A signature
    check that panics on such a key must not turn into "verified" either: seeded change C03-r5m1 recovered the panic in the
    handler and returned the half-built success response.) -/
theorem wrong_size_stored_key_never_verifies (c : Nat) (db : Store) (st : St) (k : KRef) (no it : Bool) (name : Nat)
    (sig : SigRef) (hbad : db name = .badKey) :
    (step true c db st (.v3 (.sealed k no it (.tlv name sig)))).1.installed = st.installed ∧
    (step true c db st (.v3 (.sealed k no it (.tlv name sig)))).2 ≠ .tlv 4 none false false := by
  simp only [step, stepR]
  split
  · simp
  · simp only [openSealed]
    split
    · simp
    · simp
    · rename_i n s hopen
      split at hopen
      · simp at hopen
        obtain ⟨rfl, rfl⟩ := hopen
        simp [hbad]
      · simp at hopen

/-- Every accepted start request draws a new ephemeral key of the accessory … -/
theorem new_exchange_new_accessory_key (c e : Nat) (db : Store) (st : St) (hw : st.step = .waiting) :
    (step true c db st (.v1 (.good e))).1.epoch = st.epoch + 1 ∧
    (step true c db st (.v1 (.good e))).1.K = .ofEph c (st.epoch + 1) e := by
  simp [step, stepR, hw]

/-- … so two exchanges on one connection with the SAME controller ephemeral key end in different shared secrets: the
    second session is not the first one with its frame counters set back to zero (a recorded frame of the first session
    is not a frame of the second; C05, C08). -/
theorem reverify_gets_fresh_keys (c e n1 p1 n2 p2 : Nat) (db : Store) (h1 : db n1 = .key p1) (h2 : db n2 = .key p2) :
    let s1 := stAfter true c init [(db, .v1 (.good e)), (db, finishFor c 1 e n1 p1)]
    let s2 := stAfter true c s1 [(db, .v1 (.good e)), (db, finishFor c 2 e n2 p2)]
    s1.installed = some (some e) ∧ s2.installed = some (some e) ∧ s1.instEpoch = 1 ∧ s2.instEpoch = 2 := by
  simp [stAfter, step, stepR, init, finishFor, openSealed, sigOk, h1, h2]

/-- … and the finish of an earlier exchange, sent again after a new start with the same controller key, is refused: the
    key it is sealed under and the material its signature covers belong to the accessory key of that earlier exchange. -/
theorem replayed_finish_refused (c e name pk : Nat) (db : Store) (hdb : db name = .key pk) :
    let hist := [(db, In.v1 (.good e)), (db, finishFor c 1 e name pk), (db, In.v1 (.good e))]
    (step true c db (stAfter true c init hist) (finishFor c 1 e name pk)).2 = .tlv 4 (some 2) false false ∧
    (step true c db (stAfter true c init hist) (finishFor c 1 e name pk)).1.instEpoch = 1 := by
  simp [stAfter, step, stepR, init, finishFor, openSealed, sigOk, hdb]

/-- With ONE accessory key per connection (before the repair of F42) the second exchange installs the very same shared
    secret: in the model without renewal both sessions are (key 0, e). -/
theorem one_key_per_connection_refuted :
    let fin : In := .v3 (.sealed (.ofEph 0 0 3) true true (.tlv 1 (.valid 5 (some 3) 1 0 0)))
    let run := fun (renew : Bool) => [(db1, In.v1 (.good 3)), (db1, fin), (db1, In.v1 (.good 3)), (db1, fin)].foldl
      (fun (acc : St × List Out) x => ((stepR true renew 0 x.1 acc.1 x.2).1, acc.2 ++ [(stepR true renew 0 x.1 acc.1 x.2).2])) (init, [])
    (run false).2 = [.tlv 2 none true true, .tlv 4 none false false, .tlv 2 none true true, .tlv 4 none false false] ∧
    (run false).1.instEpoch = 0 := by
  decide

-- the behaviour before the repair is refuted -----------------------------------------------------------

/-- accepted start, then a finish with a garbage signature for a stored name: before the repair the endpoint
    installs the session although the response carries error 4 -/
theorem unfixed_refuted :
    (stAfter false 0 init [(db1, .v1 (.good 3)), (db1, .v3 (.sealed (.ofEph 0 1 3) true true (.tlv 1 (.garbage 0))))]).installed
      = some (some 3) := by decide

/-- … and even without any accepted start (rejected wrong-length start, finish sealed under the all-zero key):
    the session is installed with the all-zero shared secret -/
theorem unfixed_refuted_zero_key :
    (stAfter false 0 init [(db1, .v1 (.wrongLen 0)), (db1, .v3 (.sealed .zero true true (.tlv 1 (.garbage 0))))]).installed
      = some none := by decide

theorem fixed_blocks_attacks :
    (stAfter true 0 init [(db1, .v1 (.good 3)), (db1, .v3 (.sealed (.ofEph 0 1 3) true true (.tlv 1 (.garbage 0))))]).installed = none ∧
    (stAfter true 0 init [(db1, .v1 (.wrongLen 0)), (db1, .v3 (.sealed .zero true true (.tlv 1 (.garbage 0))))]).installed = none := by
  decide

end Hc.Props.C03
