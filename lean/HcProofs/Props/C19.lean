import HcProofs.Lemmas.Db
import HcModel.Generated.SetTrace
import HcModel.Generated.SetLock
/-
  C19 — a crash during a storage write never corrupts the stored value.
  Property theorems only; helper lemmas live in HcProofs/Lemmas/{Fs,Crash,Storage,Db}.lean.
  `Generated.setTrace` is rewritten from the working tree of brutella/hc on every run (strace).
-/
namespace Hc.Props.C19
open Hc Hc.Fs Hc.Storage

/-- For ALL directories `d`, keys, temporary names, new values and operation lists: if the list has
    the atomic-write shape, then after EVERY prefix (= every crash point `k`, no bound)
    1. the whole observable directory (every name except the temporary sibling) is either exactly the
       old one or exactly the old one with `key ↦ new`;  hence
    2. `key` holds its old content (absent stays absent) or `new` in full — never a mixture, an empty
       or a truncated value;
    3. every other name that is not the temporary sibling is untouched;
    4. every listing by a suffix the temporary name does not end in (e.g. ".entity") is the old
       listing, or the old listing plus `key` (when the write completed and `key` has the suffix). -/
theorem crash_safe_of_shape (d : Dir) (key tmp : Name) (new : Bytes) (ops : List FsOp)
    (h : AtomicWriteShape key tmp new ops) (k : Nat) :
    ((∀ n, n ≠ tmp → lookup (apply d (ops.take k)) n = lookup d n) ∨
     (∀ n, n ≠ tmp → lookup (apply d (ops.take k)) n = if n = key then some new else lookup d n)) ∧
    (lookup (apply d (ops.take k)) key = lookup d key ∨ lookup (apply d (ops.take k)) key = some new) ∧
    (∀ n, n ≠ key → n ≠ tmp → lookup (apply d (ops.take k)) n = lookup d n) ∧
    (∀ s : Bytes, ¬ s <:+ tmp →
      (∀ n, n ∈ listSuffix (apply d (ops.take k)) s ↔ n ∈ listSuffix d s) ∨
      (∀ n, n ∈ listSuffix (apply d (ops.take k)) s ↔ (n ∈ listSuffix d s ∨ (n = key ∧ s <:+ key)))) := by
  obtain ⟨hne, _, fill, hops, hfill, hnew⟩ := h
  have hkey : key ≠ tmp := fun e => hne e.symm
  have hstate : (∀ n, n ≠ tmp → lookup (apply d (ops.take k)) n = lookup d n) ∨
      (∀ n, n ≠ tmp → lookup (apply d (ops.take k)) n = if n = key then some new else lookup d n) := by
    have hsplit : ops = (FsOp.create tmp :: FsOp.truncate tmp :: fill) ++ [FsOp.rename tmp key] := by
      rw [hops]; simp
    rcases take_cases (FsOp.create tmp :: FsOp.truncate tmp :: fill) (FsOp.rename tmp key) k with hk | hk
    · left
      intro n hn
      rw [hsplit, hk]
      exact eqOff_apply tmp _ d (fun op hop => pre_touch tmp fill hfill op (List.mem_of_mem_take hop)) n hn
    · right
      intro n hn
      rw [hsplit, hk, ← hsplit, hops, lookup_atomic_write d key tmp new fill hne hfill hnew n]
      simp [hn]
  refine ⟨hstate, ?_, ?_, ?_⟩
  · rcases hstate with hs | hs
    · exact .inl (hs key hkey)
    · exact .inr (by rw [hs key hkey]; simp)
  · intro n hnk hnt
    rcases hstate with hs | hs
    · exact hs n hnt
    · rw [hs n hnt]; simp [hnk]
  · intro s hsuf
    rcases hstate with hs | hs
    · left
      intro n
      simp only [mem_listSuffix]
      by_cases hn : n = tmp
      · subst hn; simp [hsuf]
      · rw [hs n hn]
    · right
      intro n
      simp only [mem_listSuffix]
      by_cases hn : n = tmp
      · subst hn; simp [hsuf, hne]
      · rw [hs n hn]
        by_cases hk : n = key
        · subst hk; simp
        · simp [hk]

/-- The executable checker applied to regenerated traces is sound: what it accepts has the shape
    (with the temporary name it read off the first operation). -/
theorem checkTrace_sound (key : Name) (new : Bytes) (ops : List FsOp) (h : checkTrace key new ops = true) :
    ∃ tmp, traceTmp ops = some tmp ∧ AtomicWriteShape key tmp new ops :=
  checkTrace_shape key new ops h

/-- The trace REGENERATED from the working tree (strace on fileStorage.Set and database.SaveEntity, old
    value absent / longer / equal / shorter / empty, new value empty, key with ':') has the shape. -/
theorem set_trace_ok : checkTraces Generated.setTrace = true := by decide

/-- … and is, call for call, the sequence the C18 model of `Set` executes (`setOps`), so the map
    refinement of C18 is about the recorded write sequence. -/
theorem setOps_matches_trace :
    Generated.setTrace.all (fun r => decide (r.ops = setOps r.key r.new)) = true := by decide

/-- Storage API level, for EVERY key `k` (usable or not), every directory, value and crash point `i`
    of the write sequence of `Set k v`: `Get k` returns the old result or the new value in full;
    `Get` of every key stored in another file (and not in the reserved sibling) is unchanged;
    every listing by a suffix that ".tmp"-names do not end in is the old one or the old one plus
    the key's file. -/
theorem set_crash_safe (d : Dir) (k : Key) (v : Bytes) (i : Nat) :
    (get (apply d ((setOps (fileName k) v).take i)) k = get d k ∨
      get (apply d ((setOps (fileName k) v).take i)) k = .val v) ∧
    (∀ k', fileName k' ≠ fileName k → fileName k' ≠ tmpName (fileName k) →
      get (apply d ((setOps (fileName k) v).take i)) k' = get d k') ∧
    (∀ s : Bytes, ¬ s <:+ tmpName (fileName k) →
      (∀ n, n ∈ listSuffix (apply d ((setOps (fileName k) v).take i)) s ↔ n ∈ listSuffix d s) ∨
      (∀ n, n ∈ listSuffix (apply d ((setOps (fileName k) v).take i)) s ↔
        (n ∈ listSuffix d s ∨ (n = fileName k ∧ s <:+ fileName k)))) := by
  obtain ⟨_, h2, h3, h4⟩ := crash_safe_of_shape d (fileName k) (tmpName (fileName k)) v _
    (setOps_shape (fileName k) v) i
  refine ⟨?_, ?_, h4⟩
  · unfold Storage.get
    rcases h2 with h | h
    · left; simp only [h]
    · by_cases ht : isTempName (fileName k) = true
      · left; simp only [ht, ↓reduceIte]
      · by_cases hs : (fileName k).contains 47 = true
        · left; simp only [hs, ↓reduceIte]
        · by_cases hd : isDirName (fileName k) = true
          · left; simp only [hd, ↓reduceIte]
          · right; simp only [ht, hs, hd, h]; simp
  · intro k' hk1 hk2
    unfold Storage.get
    simp only [h3 (fileName k') hk1 hk2]

/-- The database write built on `Set` inherits it: at every crash point of `SaveEntity e` the entity
    read under `e.name` is the old result or what a completed save yields; entities under other names
    are unchanged; the files listed for `Entities` (suffix ".entity") are the old ones or the old
    ones plus this entity's file. For EVERY name (arbitrary bytes). -/
theorem save_entity_crash_safe (C : Codec) (d : Dir) (e : Entity) (i : Nat) :
    (entityWithName C (apply d ((setOps (toEntityKey e.name) (C.enc e)).take i)) e.name = entityWithName C d e.name ∨
      entityWithName C (apply d ((setOps (toEntityKey e.name) (C.enc e)).take i)) e.name =
        (match C.dec (C.enc e) with | some e' => .entity e' | none => .err)) ∧
    (∀ name, name ≠ e.name →
      entityWithName C (apply d ((setOps (toEntityKey e.name) (C.enc e)).take i)) name = entityWithName C d name) ∧
    ((∀ n, n ∈ listSuffix (apply d ((setOps (toEntityKey e.name) (C.enc e)).take i)) entitySuffix ↔
        n ∈ listSuffix d entitySuffix) ∨
     (∀ n, n ∈ listSuffix (apply d ((setOps (toEntityKey e.name) (C.enc e)).take i)) entitySuffix ↔
        (n ∈ listSuffix d entitySuffix ∨ n = toEntityKey e.name))) := by
  have hfile : ∀ name : Bytes, fileName (toEntityKey name) = toEntityKey name := by
    intro name
    apply stripColon_eq_self
    intro hm
    simp only [toEntityKey, List.mem_append] at hm
    rcases hm with hm | hm
    · exact (hexEnc_plain name 58 hm).1 rfl
    · simp [entitySuffix] at hm
  have hsc := set_crash_safe d (toEntityKey e.name) (C.enc e) i
  rw [hfile] at hsc
  obtain ⟨h1, h2, h3⟩ := hsc
  refine ⟨?_, ?_, ?_⟩
  · unfold entityWithName entityForKey
    rcases h1 with h | h
    · left; rw [h]
    · right; rw [h]; cases hdec : C.dec (C.enc e) <;> simp [hdec]
  · intro name hne
    have hk : toEntityKey name ≠ toEntityKey e.name := fun hh => hne (toEntityKey_injective _ _ hh)
    have ht : toEntityKey name ≠ tmpName (toEntityKey e.name) := by
      intro hh
      have := not_temp_entityKey name
      rw [hh, isTempName_tmpName] at this
      exact absurd this (by decide)
    unfold entityWithName entityForKey
    rw [h2 (toEntityKey name) (by rwa [hfile]) (by rwa [hfile])]
  · have hsuf : ¬ entitySuffix <:+ tmpName (toEntityKey e.name) := by
      intro ⟨t, ht⟩
      have := congrArg List.getLast? ht
      simp [tmpName, toEntityKey, tmpSuffix, entitySuffix, List.getLast?_append] at this
    rcases h3 entitySuffix hsuf with h | h
    · exact .inl h
    · right
      intro n
      rw [h n]
      constructor
      · rintro (hh | ⟨hh, _⟩)
        · exact .inl hh
        · exact .inr hh
      · rintro (hh | hh)
        · exact .inl hh
        · exact .inr ⟨hh, hh ▸ toEntityKey_suffix e.name⟩

/-- the unrepaired write sequence (trace recorded from the unrepaired tree: open without O_TRUNC, write
    in place, close) is rejected by the checker, and its crash points do corrupt: after the first
    call a new key holds the empty value, and a shorter overwrite ends as a mixture -/
theorem unrepaired_trace_refuted :
    checkTrace [107] [115] [.create [107], .write [107] 0 [115], .close] = false ∧
    lookup (apply [] ([.create [107], .write [107] 0 [115], .close].take 1)) [107] = some [] ∧
    lookup (apply [([107], [108, 111, 110, 103])] [.create [107], .write [107] 0 [115], .close]) [107]
      = some [115, 111, 110, 103] := by decide

-- non-vacuity ----------------------------------------------------------------------------------------
example : AtomicWriteShape [107] [107, 46, 116, 109, 112] [1, 2, 3] (setOps [107] [1, 2, 3]) := setOps_shape _ _
example : checkTrace [107] [1, 2, 3] (setOps [107] [1, 2, 3]) = true := by decide
/-- a stale, longer temporary file left by an earlier crash does not shine through -/
example : lookup (apply [([107], [9, 9]), ([107, 46, 116, 109, 112], [7, 7, 7, 7, 7, 7])] (setOps [107] [1])) [107]
    = some [1] := by decide
/-- without the truncation of the sibling the checker says no -/
example : checkTrace [107] [1] [.create [107, 46, 116, 109, 112], .write [107, 46, 116, 109, 112] 0 [1], .close,
    .rename [107, 46, 116, 109, 112] [107]] = false := by decide

/-- What the recorded system-call trace and the crash walks show, they show for the code that was compiled for this
    platform. The storage is the same code on every platform the library is built for: no file of package util carries a
    build constraint (Generated/SetLock.lean, regenerated from the tree), and `Set` itself commits with the rename — it is
    not handed to a helper that a platform could replace (seeded change C19-r5m2 did that for `!unix`, i.e. js/wasm: remove,
    then rename). -/
theorem storage_is_one_source_on_every_platform :
    Hc.Generated.utilConstrainedFiles = [] ∧ Hc.Generated.setPath.contains "rename" = true ∧
    Hc.Generated.setPath.getLast? = some "remove" := by decide

end Hc.Props.C19
