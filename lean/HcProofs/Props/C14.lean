import HcModel.Ids
import HcModel.Generated.Catalog
import HcModel.Generated.JsonShape
import HcProofs.Lemmas.Ids
import HcProofs.Lemmas.Catalog
/-
  C14 — accessory and instance ids are unique, stable and well-formed.

  Model: `HcModel/Ids.lean` (UpdateIDs, AddAccessory, RemoveAccessory; objects are values, the heap is a pool of
  accessory objects). Hypothesis of the whole property, built into the model's types: a service / characteristic
  object belongs to exactly one accessory and is listed once (all library constructors satisfy it; the excluded case
  is executed on the real code by the driver and reported in the evidence).
  The JSON part is over the regenerated tables `Generated/JsonShape.lean` (struct tags by reflection / go/ast and the
  observed key sets of marshalled objects) and `Generated/Catalog.lean` (permission lists of every constructor).

  Behaviour of the real code that the model reproduces and the theorems are compatible with (reported, not hidden):
  an accessory with automatic id (0) is *rejected* with "duplicate accessory id" when the container counter has
  reached a value that an earlier explicit id already uses; the counter still advances, the rejected object keeps the
  colliding id, and `hc.NewIPTransport` ignores the error, so that accessory is silently not served (see
  `auto_id_collides_with_explicit_id`). Uniqueness and non-zero-ness of the served ids are not affected.
-/
namespace Hc.Props.C14
open Hc.Ids

/-- UpdateIDs numbers service, its characteristics, next service, … consecutively from 1 — whatever the accessory's
    counter was (however often it was numbered before; F49 repair). -/
theorem instance_ids_sequential (a : Acc) :
    flatIds a.updateIDs.svcs = List.range' 1 (size a.svcs) ∧
    a.updateIDs.idCount = 1 + size a.svcs ∧
    shape a.updateIDs.svcs = shape a.svcs := by
  have h := updateIDs_seq a
  have hs : shape a.updateIDs.svcs = shape a.svcs := assignSvcs_shape _ _
  exact ⟨by rw [h.1, size_eq_of_shape hs], h.2, hs⟩

/-- … hence all instance ids of the accessory are pairwise different and non-zero. -/
theorem instance_ids_unique_nonzero (a : Acc) :
    (flatIds a.updateIDs.svcs).Nodup ∧ ∀ i ∈ flatIds a.updateIDs.svcs, i ≠ 0 := by
  rw [(instance_ids_sequential a).1]
  exact range'_nodup_nonzero _ _ (Nat.le_refl 1)

/-- The ids depend on the construction order only: two accessories with the same number of characteristics per
    service (in order) get identical service and characteristic ids — whatever the types, values, flags or links of
    the services are, and whatever happened to either object before (no hypothesis on the counters: the earlier form of
    this theorem assumed them equal, which is exactly what a refused or repeated `AddAccessory` broke). -/
theorem ids_deterministic (a b : Acc) (hs : shape a.svcs = shape b.svcs) :
    a.updateIDs.svcs.map (fun s => (s.id, s.chars)) = b.updateIDs.svcs.map (fun s => (s.id, s.chars)) := by
  simp only [Acc.updateIDs]
  exact assignSvcs_ids_of_shape _ _ _ hs

/-- Numbering an accessory again changes nothing: `AddAccessory` on an accessory that is already in the container (the
    call is refused), or a second container built from the same objects, leaves every instance id as it was. -/
theorem renumbering_is_idempotent (a : Acc) :
    a.updateIDs.updateIDs.svcs.map (fun s => (s.id, s.chars)) = a.updateIDs.svcs.map (fun s => (s.id, s.chars)) :=
  ids_deterministic a.updateIDs a (assignSvcs_shape _ _)

/-- Before the repair the second numbering went on from the counter the first one had left: the ids of a live accessory
    changed when a duplicate `AddAccessory` was refused. -/
theorem renumbering_unfixed_refuted :
    let a : Acc := { id := 1, idCount := 1, svcs := [{ id := 0, chars := [0, 0] }] }
    flatIds a.updateIDsOld.svcs = [1, 2, 3] ∧ flatIds a.updateIDsOld.updateIDsOld.svcs = [4, 5, 6] ∧
    flatIds a.updateIDs.updateIDs.svcs = [1, 2, 3] := by decide

/-- A newly constructed accessory gets, when it is first added, the ids 1, 2, 3, … — the same after every restart. -/
theorem fresh_accessory_ids_from_one (s : AccSpec) :
    flatIds s.build.updateIDs.svcs = List.range' 1 (size s.build.svcs) :=
  (instance_ids_sequential s.build).1

/-- The instance ids of an accessory do not depend on the container it is added to, on the accessories added before
    it, or on whether the add is accepted: a newly constructed accessory has the ids 1, 2, 3, … after AddAccessory. -/
theorem instance_ids_independent_of_container (m : Container) (k : Nat) (s : AccSpec) (hk : m.pool[k]? = some s.build) :
    ∃ a, (m.add k).1.pool[k]? = some a ∧ flatIds a.svcs = List.range' 1 (size s.build.svcs) := by
  have hlt : k < m.pool.length := (List.getElem?_eq_some_iff.mp hk).1
  refine ⟨s.build.updateIDs.autoId (nextFree m.keys (m.keys.length + 1) m.idCount), ?_, ?_⟩
  · unfold Container.add
    rw [hk]
    simp only []
    split <;> simp [List.getElem?_set_self hlt]
  · rw [autoId_svcs]
    exact fresh_accessory_ids_from_one s

/-- For every set of accessory objects (explicit or automatic ids, any services) and every sequence of AddAccessory /
    RemoveAccessory calls (including re-adding the same or a rejected object), the accessory ids served by the
    container are pairwise different and non-zero. -/
theorem container_ids_nodup_nonzero (specs : List AccSpec) (ops : List Op) :
    let m := ((Container.init (specs.map AccSpec.build)).run ops).1
    m.listedIds.Nodup ∧ ∀ i ∈ m.listedIds, i ≠ 0 := by
  intro m
  have hinv : Inv m := Inv_run _ ops (Inv_init _ (by
    intro a ha
    obtain ⟨s, _, rfl⟩ := List.mem_map.mp ha
    exact build_idCount s))
  refine ⟨hinv.nodupIds, fun i hi => ?_⟩
  obtain ⟨k, hk, rfl⟩ := List.mem_map.mp hi
  exact hinv.nz k hk

/-- … and every served accessory has pairwise different, non-zero instance ids that are consecutive numbers
    (also after the object went through AddAccessory several times). -/
theorem served_instance_ids_unique_nonzero (specs : List AccSpec) (ops : List Op) :
    let m := ((Container.init (specs.map AccSpec.build)).run ops).1
    ∀ k ∈ m.accs, ∀ a, m.pool[k]? = some a →
      (∃ c, 1 ≤ c ∧ flatIds a.svcs = List.range' c (size a.svcs)) ∧
      (flatIds a.svcs).Nodup ∧ ∀ i ∈ flatIds a.svcs, i ≠ 0 := by
  intro m k hk a ha
  have hinv : Inv m := Inv_run _ ops (Inv_init _ (by
    intro a ha
    obtain ⟨s, _, rfl⟩ := List.mem_map.mp ha
    exact build_idCount s))
  obtain ⟨c, hc, hf⟩ := hinv.seq k hk a ha
  refine ⟨⟨c, hc, hf⟩, ?_⟩
  rw [hf]
  exact range'_nodup_nonzero _ _ hc

/-- A service the application adds to an accessory — before the accessory has seen a container, while it is being served,
    after it was removed — has instance ids from that moment on: `AddService` numbers the accessory (F60 repair; before it a
    service added to a served accessory appeared in `/accessories` with `"iid":0`, and all its characteristics too, until
    something else numbered the accessory — which the library's own `TestContentHash` sequence never does). With the
    operation in the alphabet, `served_instance_ids_unique_nonzero` and `container_ids_nodup_nonzero` hold for every
    history that contains it; this is the one-step statement, from ANY accessory object. -/
theorem added_service_is_numbered (a : Acc) (s : SvcSpec) :
    flatIds (a.addService s.build).svcs = List.range' 1 (size a.svcs + 1 + s.nchars) ∧
    (flatIds (a.addService s.build).svcs).Nodup ∧ ∀ i ∈ flatIds (a.addService s.build).svcs, i ≠ 0 := by
  have h := updateIDs_seq ({ a with svcs := a.svcs ++ [s.build] } : Acc)
  have hsz : size (Acc.updateIDs ({ a with svcs := a.svcs ++ [s.build] } : Acc)).svcs = size a.svcs + 1 + s.nchars := by
    have : size (Acc.updateIDs ({ a with svcs := a.svcs ++ [s.build] } : Acc)).svcs = size (a.svcs ++ [s.build]) :=
      size_eq_of_shape (assignSvcs_shape _ _)
    rw [this]
    simp [size, SvcSpec.build, List.sum_append]
    omega
  have hf : flatIds (a.addService s.build).svcs = List.range' 1 (size a.svcs + 1 + s.nchars) := by
    show flatIds (Acc.updateIDs _).svcs = _
    rw [h.1, hsz]
  refine ⟨hf, ?_⟩
  rw [hf]
  exact range'_nodup_nonzero _ _ (Nat.le_refl 1)

/-- before the repair: the added service and its characteristics kept id 0 -/
theorem added_service_unfixed_refuted :
    let a : Acc := (AccSpec.build ⟨0, [⟨2, [], false, false⟩]⟩)
    flatIds (a.addServiceOld (SvcSpec.build ⟨2, [], false, false⟩)).svcs = [1, 2, 3, 0, 0, 0] ∧
    flatIds (a.addService (SvcSpec.build ⟨2, [], false, false⟩)).svcs = [1, 2, 3, 4, 5, 6] := by decide

/-- "…with explicit or automatic accessory ids": an accessory that leaves its id to the container is never refused,
    whatever ids the accessories before it brought along — from ANY state of the container (F54 repair; before it the
    counter alone decided and `[explicit 1, automatic]` lost its second accessory, which `hc.NewIPTransport` did not even
    report). -/
theorem automatic_id_never_refused (m : Container) (k : Nat) (a : Acc) (hk : m.pool[k]? = some a) (h0 : a.id = 0) :
    (m.add k).2 = .ok := by
  have hfree : ¬ nextFree m.keys (m.keys.length + 1) m.idCount ∈ m.keys := nextFree_add_free m
  simp [Container.add, hk, autoId_id, updateIDs_id, h0, hfree]

/-- an accessory with an explicit id is refused exactly when an accessory of the container has that id already -/
theorem explicit_id_refused_iff_taken (m : Container) (k : Nat) (a : Acc) (hk : m.pool[k]? = some a) (h1 : a.id ≠ 0) :
    ((m.add k).2 = .duplicate a.id ↔ a.id ∈ m.keys) ∧ ((m.add k).2 = .ok ↔ a.id ∉ m.keys) := by
  by_cases hm : a.id ∈ m.keys
  · simp [Container.add, hk, autoId_id, updateIDs_id, h1, hm]
  · simp [Container.add, hk, autoId_id, updateIDs_id, h1, hm]

/-- explicit id 1 first, then two automatic ids: before the repair the second accessory was refused ("duplicate
    accessory id 1") and only two of three were served; now all three are, with ids 1, 2, 3 -/
theorem auto_id_collision_unfixed_refuted :
    let specs : List AccSpec := [⟨1, [⟨6, [], false, false⟩]⟩, ⟨0, [⟨6, [], false, false⟩]⟩, ⟨0, [⟨6, [], false, false⟩]⟩]
    let m0 := Container.init (specs.map AccSpec.build)
    let o1 := m0.addOld 0
    let o2 := o1.1.addOld 1
    let o3 := o2.1.addOld 2
    let r := m0.run [.add 0, .add 1, .add 2]
    [o1.2, o2.2, o3.2] = [.ok, .duplicate 1, .ok] ∧ o3.1.listedIds = [1, 2] ∧
    r.2 = [.ok, .ok, .ok] ∧ r.1.listedIds = [1, 2, 3] := by
  decide

-- ------------------------------------------------------------------------------------------------
open Hc.Catalog Hc.Generated.JsonShape Hc.Generated.Catalog in
/-- HAP JSON shape: every characteristic object carries iid, type, perms, format; every service object iid, type,
    characteristics; every accessory object aid and services; the container "accessories" — each key is printed even
    for a zero-valued object (observed) and its struct field is declared without `omitempty` (reflection / go/ast),
    so no value of the object can make it disappear. (HAP accessory objects have no type.) -/
theorem json_wellformed :
    (∀ k ∈ ["iid", "type", "perms", "format"], k ∈ zeroCharKeys ∧ ∃ f ∈ charFields, f.key = k ∧ f.omitEmpty = false) ∧
    (∀ k ∈ ["iid", "type", "characteristics"], k ∈ zeroSvcKeys ∧ ∃ f ∈ svcFields, f.key = k ∧ f.omitEmpty = false) ∧
    (∀ k ∈ ["aid", "services"], k ∈ zeroAccKeys ∧ ∃ f ∈ accFields, f.key = k ∧ f.omitEmpty = false) ∧
    (∀ k ∈ ["accessories"], k ∈ zeroContKeys ∧ ∃ f ∈ contFields, f.key = k ∧ f.omitEmpty = false) :=
  ⟨requiredKeys_spec (by decide +kernel), requiredKeys_spec (by decide +kernel),
   requiredKeys_spec (by decide +kernel), requiredKeys_spec (by decide +kernel)⟩

open Hc.Catalog Hc.Generated.JsonShape Hc.Generated.Catalog in
/-- Every parameterless characteristic constructor of the library has a non-empty, duplicate-free permission list
    made of the declared permission strings only; and those strings are the HAP ones. -/
theorem ctor_perms_valid :
    (∀ c ∈ charRows, c.nargs = 0 → c.perms ≠ [] ∧ (∀ p ∈ c.perms, p ≠ Perm.unknown) ∧ c.perms.Nodup) ∧
    permConsts = [("PermRead", "pr"), ("PermWrite", "pw"), ("PermEvents", "ev"), ("PermHidden", "hd"), ("PermWriteResponse", "wr")] := by
  refine ⟨fun c hc h0 => ?_, by decide +kernel⟩
  have h := all_lift charRows (fun c => c.nargs != 0 || permsValid c.perms) (by decide +kernel) c hc
  simp only [Bool.or_eq_true, bne_iff_ne, ne_eq] at h
  rcases h with h | h
  · exact absurd h0 h
  · exact permsValid_spec h

open Hc.Catalog Hc.Generated.Catalog in
/-- Every accessory constructor of the library builds an accessory whose services are all distinct objects with
    well-formed types, the first being Accessory Information, without a repeated characteristic type. -/
theorem library_accessories_wellformed :
    ∀ a ∈ accRows, a.panicked = false ∧ (a.isAccessory = true →
      (∃ cs rest, a.services = (some accessoryInformation, cs) :: rest) ∧
      ∀ s ∈ a.services, s.1 ≠ none ∧ (∀ t ∈ s.2, t ≠ none) ∧ s.2.Nodup) :=
  fun a ha => AccRow.usable_spec (all_lift accRows _ (by decide +kernel) a ha)

end Hc.Props.C14
