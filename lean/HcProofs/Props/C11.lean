import HcProofs.Lemmas.CharPerms
import HcModel.Generated.CtorTable
/-
  C11 — read, write and event permissions are enforced for remote peers.
  Property theorems only; helper lemmas live in HcProofs/Lemmas/CharPerms.lean.

  All statements hold for every format (including an undeclared one), every bounds / flags / typed
  callback, every permission set with the named permission missing, and every dynamic value (nil,
  bools, ints, every float64, strings, nested arrays and objects); the Go API path is
  `Op.update _ _ true` (UpdateValueFromConnection), the HTTP path is `Op.put`.
-/
namespace Hc.Props.C11
open Hc Hc.Charac Hc.Generated

/-- Go API: without `pw`, a permission-checked update leaves the whole characteristic — stored value
    and callback log — exactly as it was, whatever the value and the connection. -/
theorem remote_write_needs_pw (c : Chr) (h : c.cfg.perms.pw = false) (v : GVal) (fromConn : Bool) :
    (updateValue c v fromConn true).1 = c :=
  updateValue_no_pw c h v fromConn

/-- Both paths, whole histories: through any sequence of remote operations (permission-checked
    updates and PUT requests with any entries) a characteristic without `pw` never changes its value
    and never invokes a callback. -/
theorem remote_history_needs_pw (s : St) (h : s.char.cfg.perms.pw = false) (ops : List Op)
    (hr : ops.all Op.remote = true) :
    ∀ so ∈ trace s ops, so.1.char = s.char := by
  induction ops generalizing s with
  | nil => intro so hso; simp [trace] at hso
  | cons o os ih =>
    intro so hso
    simp only [List.all_cons, Bool.and_eq_true] at hr
    have h1 := step_no_pw s h o hr.1
    simp only [trace, List.mem_cons] at hso
    rcases hso with rfl | hso
    · exact h1
    · rw [ih (step s o).1 (by rw [h1]; exact h) hr.2 so hso, h1]

/-- Without `pr` nothing is ever stored and nothing is ever revealed: after every step of every
    operation sequence (local and remote updates, reads with arbitrary get functions, PUTs) the
    value is `nil`, the value returned by a read is `nil`, and what a GET response or an EVENT body
    would carry is `nil` (the `value` field is omitted). -/
theorem unreadable_never_stores (cfg : Config) (h : cfg.perms.pr = false) (ops : List Op) :
    ∀ so ∈ trace (start cfg) ops,
      so.1.char.value = .nil ∧ so.2.read = .nil ∧ carried so.1.char = .nil := by
  intro so hso
  have := trace_unread cfg h ops (start cfg) ⟨rfl, rfl⟩ so hso
  exact ⟨this.1.2, this.2, this.1.2⟩

/-- Without `ev`, one PUT entry never touches the subscription, and if it carries an `ev` member
    (of any JSON type) and is processed, it is answered with status −70406. -/
theorem subscribe_needs_ev (s : St) (h : s.char.cfg.perms.ev = false) (e : PutEntry)
    (hev : JVal.isNull e.ev = false) :
    (putEntry s e).1.sub = s.sub ∧
    ((putEntry s e).2.1 = .ok → (putEntry s e).2.2 = some (-70406)) := by
  have := putEntry_no_ev s h e
  simp only [failStatus, hev, Bool.not_false, if_true] at this
  exact this

/-- A value for a characteristic that is not writable is answered with status −70404 (F75: it was skipped without a
    word, the request answered like a successful write), and — `remote_write_needs_pw` — changes nothing. -/
theorem write_without_pw_is_answered (s : St) (hev : s.char.cfg.perms.ev = false) (hpw : s.char.cfg.perms.pw = false)
    (e : PutEntry) (hv : JVal.isNull e.value = false) (he : JVal.isNull e.ev = true) :
    (putEntry s e).2.1 = .ok → (putEntry s e).2.2 = some (-70404) := by
  intro hok
  have := (putEntry_no_ev s hev e).2 hok
  simpa [failStatus, he, hv, hpw, statusReadOnly] using this

/-- Whole request (F75): the response of a completed PUT has no content exactly when no entry failed — none asked for
    events, none carried a value for a characteristic that is not writable —, and otherwise it carries a status for EVERY
    entry of the request, in order (0 for the ones that succeeded). -/
theorem put_statuses_without_ev (s : St) (h : s.char.cfg.perms.ev = false) (es : List PutEntry) :
    (step s (.put es)).2.outcome = .ok →
      ((step s (.put es)).2.statuses = [] ↔ evStatuses s.char.cfg.perms.pw es = []) ∧
      ((step s (.put es)).2.statuses ≠ [] → (step s (.put es)).2.statuses.length = es.length) := by
  intro hok
  have hf := (putEntries_no_ev es s [] h).2 hok
  simp only [List.nil_append] at hf
  simp only [step, hf]
  cases hl : evStatuses s.char.cfg.perms.pw es with
  | nil => simp
  | cons x xs =>
    simp only [List.isEmpty_cons, Bool.false_eq_true, if_false]
    have hlen := putStatuses_length es s
    have hes : es ≠ [] := by
      intro he; subst he; simp [evStatuses] at hl
    refine ⟨⟨fun h1 => ?_, fun h1 => by cases h1⟩, fun _ => hlen⟩
    rw [h1] at hlen
    exact absurd (List.length_eq_zero_iff.mp hlen.symm) hes

/-- Whole histories: a characteristic without `ev` is never subscribed, hence (C10: events go to
    subscribed sessions only) never produces an event. -/
theorem never_subscribed_without_ev (cfg : Config) (h : cfg.perms.ev = false) (ops : List Op) :
    ∀ so ∈ trace (start cfg) ops, so.1.sub = false :=
  fun so hso => trace_no_ev ops (start cfg) h so hso

/-- Every constructor of package characteristic (regenerated table) declares its permissions with
    the five known strings, each at most once — so `Perms` (a subset of {pr,pw,ev,hd,wr}) is a
    faithful reading of the Go slice. -/
theorem catalog_perms_wellformed : ctorTable.all (fun r => !r.permsIrregular) = true := by
  decide +kernel

-- non-vacuity -------------------------------------------------------------------------------------

/-- Identify: bool, write-only -/
def identify : Config := ⟨.bool, ⟨false, true, false, false, false⟩, .nil, .nil, false, some .bool⟩
/-- a read-only sensor value with events -/
def sensor : Config := ⟨.float, ⟨true, false, true, false, false⟩, .float (.fin false 0 0), .float (.fin false 25 2), false, none⟩

example : identify.perms.pr = false ∧ identify.perms.ev = false ∧ sensor.perms.pw = false := by decide

/-- the write-only characteristic still runs its callback on a remote write (log grows), stores nothing,
    and its subscription request is refused -/
example : (trace (start identify) [.put [⟨.bool true, .bool true⟩]]).map
      (fun so => (so.1.char.value.isNil, so.1.char.log.length, so.2.statuses, so.1.sub))
    = [(true, 1, [-70406], false)] := by decide

/-- with `pw` the same remote write does change the state, so `remote_write_needs_pw` is not vacuous;
    with `ev` the subscription is recorded -/
example : (trace (start ⟨.bool, ⟨true, true, true, false, false⟩, .nil, .nil, false, none⟩)
      [.put [⟨.bool true, .bool true⟩]]).map (fun so => (so.1.char.value.isNil, so.2.statuses, so.1.sub))
    = [(false, [], true)] := by decide

example : (trace (start sensor) [.update (.float (.fin false 5 0)) false false, .update (.float (.fin false 7 0)) true true,
      .put [⟨.num (.fin false 9 0), .null⟩]]).map (fun so => so.1.char.log.length) = [1, 1, 1] := by decide

end Hc.Props.C11
