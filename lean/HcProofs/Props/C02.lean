import HcProofs.Lemmas.PairSetup
/-
  C02 — pair-setup stores a controller key only after a valid setup-code proof.
  Model: HcModel/PairSetup.lean (symbolic; the repaired controller is `step true`).
-/
namespace Hc.Props.C02
open Hc.PairSetup

/-- the only message that can cause a save after history `hist` on connection `c`: sealed under the key derived
    from the SRP session key of the proof accepted in this exchange, untampered, right nonce, carrying exactly
    `name`, `key` and a signature by `key` over (HKDF(S) ‖ name ‖ key) -/
def keyExchangeFor (c a name key : Nat) : In :=
  .m5 (.sealed (.ofS (.srp c a)) true true (.tlv name (.pk key) (.valid key (.srp c a) name key)))

/-- Every history on a connection, every next message: if that message makes the accessory store
    `(name, key)`, then earlier in the same exchange (only state-neutral rejected messages in between) the
    controller proved knowledge of the setup code (`m3` with the proof for this connection's challenge and the
    right code), and the message is exactly the authenticated, signed key exchange for that name and key. -/
theorem save_requires_proof (c : Nat) (hist : List In) (i : In) (name key : Nat)
    (hs : (step true c (stAfter true c init hist) i).2.2 = some (name, key)) :
    ∃ a, ProvedNow c hist a ∧ i = keyExchangeFor c a name key := by
  obtain ⟨hstep, hi⟩ := (step_save_iff c _ i name key).mp hs
  have hinv := inv_after c [] hist init (inv_init c)
  obtain ⟨a, hp, hS, hK⟩ := hinv hstep
  refine ⟨a, by simpa using hp, ?_⟩
  rw [hi, hS, hK]; rfl

/-- …and every other message (wrong code, reordered, repeated, truncated, malformed, forged, sealed under a key
    that does not come from a completed proof, unknown state or method) leaves the store as it was. -/
theorem otherwise_store_unchanged (c : Nat) (hist : List In) (i : In)
    (h : ¬ ∃ a name key, ProvedNow c hist a ∧ i = keyExchangeFor c a name key) :
    (step true c (stAfter true c init hist) i).2.2 = none := by
  cases hs : (step true c (stAfter true c init hist) i).2.2 with
  | none => rfl
  | some nk =>
    obtain ⟨n, k⟩ := nk
    obtain ⟨a, hp, hi⟩ := save_requires_proof c hist i n k hs
    exact absurd ⟨a, n, k, hp, hi⟩ h

/-- completeness (the honest exchange does store): after `m1`, an accepted proof and the matching key exchange,
    the pair is saved — so the two theorems above are not vacuous. -/
theorem honest_exchange_saves (c a name key : Nat) :
    (step true c (stAfter true c init [.m1, .m3 (.good a) (.validFor c a true)]) (keyExchangeFor c a name key)).2.2
      = some (name, key) := by
  simp [stAfter, step, init, keyExchangeFor, openSealed, sigOk]

/-- the observations of `run` are those one-step observations (ties the statements above to whole runs) -/
theorem run_last_observation (c : Nat) (hist : List In) (i : In) :
    (run true c init (hist ++ [i])).2 = (run true c init hist).2 ++ [(step true c (stAfter true c init hist) i).2] :=
  run_snoc true c init hist i

-- several connections, one database -----------------------------------------------------------------

/-- Interleaving any number of connections: each connection's controller state depends only on its own messages,
    and a step changes the shared store only if it is that connection's proved key exchange. -/
theorem store_changes_only_by_proved_exchange (h : List (Nat × In)) (c : Nat) (i : In) :
    let g := (grun true Global.init h).1
    (gstep true g (c, i)).1.store = g.store ∨
    ∃ a name key, ProvedNow c (proj c h) a ∧ i = keyExchangeFor c a name key ∧
      (gstep true g (c, i)).1.store = (name, key) :: g.store := by
  intro g
  have hc : g.conns c = stAfter true c init (proj c h) := by
    have := conn_state_is_projection Global.init h c
    simpa [Global.init, g] using this
  cases hs : (step true c (g.conns c) i).2.2 with
  | none => left; simp [gstep, hs]
  | some nk =>
    obtain ⟨n, k⟩ := nk
    right
    rw [hc] at hs
    obtain ⟨a, hp, hi⟩ := save_requires_proof c _ i n k hs
    refine ⟨a, n, k, hp, hi, ?_⟩
    rw [← hc] at hs
    simp [gstep, hs]

/-- two connections are independent: what connection `c` observes in any interleaving is what it observes alone -/
theorem two_connections_independent (h : List (Nat × In)) (c : Nat) (i : In) :
    (gstep true (grun true Global.init h).1 (c, i)).2 = (step true c (stAfter true c init (proj c h)) i).2.1 := by
  have hc := conn_state_is_projection Global.init h c
  simp only [Global.init] at hc
  simp [gstep, hc, Global.init]

-- the behaviour before the repair is refuted ---------------------------------------------------------

/-- three messages, no proof anywhere: `m1`, `m3` with `A ≡ 0 (mod N)`, key exchange sealed under the all-zero key
    and signed over HKDF(nil) -/
def attack : List In :=
  [.m1, .m3 (.bad 0) .empty, .m5 (.sealed .zero true true (.tlv 7 (.pk 9) (.valid 9 .nil 7 9)))]

theorem unfixed_refuted :
    ((run false 0 init attack).2.map (·.2)) = [none, none, some (7, 9)] ∧
    attack.all (fun i => match i with | .m3 _ (.validFor _ _ true) => false | _ => true) = true := by
  decide

theorem fixed_blocks_attack : ((run true 0 init attack).2.map (·.2)) = [none, none, none] := by decide

-- non-vacuity of the hypotheses -------------------------------------------------------------------------
example : ProvedNow 3 [.m1, .m3 (.good 5) (.validFor 3 5 true), .badMethod] 5 :=
  ⟨[.m1], [.badMethod], rfl, by simp [In.noop]⟩

end Hc.Props.C02
