import HcProofs.Lemmas.PairSetup
/-
  C02 — pair-setup stores a controller key only after a valid setup-code proof.
  Model: HcModel/PairSetup.lean (symbolic; the repaired controller is `step true`).
-/
namespace Hc.Props.C02
open Hc.PairSetup

/-- the only message that can cause a save after history `hist` on connection `c`: sealed under the key derived
    from the SRP session key of the proof accepted in this exchange, untampered, right nonce, carrying exactly
    `name`, `key` and a signature by `key` over (HKDF(S) ‖ name ‖ key) -/
def keyExchangeFor (c e a name key : Nat) : In :=
  .m5 (.sealed (.ofS (.srp c e a)) true true (.tlv name (.pk key) (.valid key (.srp c e a) name key)))

/-- the number of the SRP session that is current after `hist` (a new one for every start request accepted after the first) -/
def epochAfter (c : Nat) (hist : List In) : Nat := (stAfter true c init hist).epoch

/-- Every history on a connection, every next message: if that message makes the accessory store
    `(name, key)`, then earlier in the same exchange (only state-neutral rejected messages in between) the
    controller proved knowledge of the setup code (`m3` with the proof for the challenge of THIS exchange's SRP session
    — `ProvedNow` pins the proof's session to the one current when it was sent, so a proof recorded in an earlier
    exchange on the same connection does not count — and the right code), and the message is exactly the
    authenticated, signed key exchange for that name and key under that session's secret. -/
theorem save_requires_proof (c : Nat) (hist : List In) (i : In) (name key : Nat)
    (hs : (step true c (stAfter true c init hist) i).2.2 = some (name, key)) :
    ∃ a, ProvedNow c hist a ∧ i = keyExchangeFor c (epochAfter c hist) a name key ∧ name ≠ ownName := by
  obtain ⟨hstep, hown, hi⟩ := (step_save_iff c _ i name key).mp hs
  have hinv := inv_after c [] hist init (inv_init c)
  obtain ⟨a, hp, hS, hK⟩ := hinv.2 hstep
  refine ⟨a, by simpa using hp, ?_, hown⟩
  rw [hi, hS, hK]; rfl

/-- …and every other message (wrong code, reordered, repeated, truncated, malformed, forged, sealed under a key
    that does not come from a completed proof, unknown state or method) leaves the store as it was. -/
theorem otherwise_store_unchanged (c : Nat) (hist : List In) (i : In)
    (h : ¬ ∃ a name key, ProvedNow c hist a ∧ i = keyExchangeFor c (epochAfter c hist) a name key) :
    (step true c (stAfter true c init hist) i).2.2 = none := by
  cases hs : (step true c (stAfter true c init hist) i).2.2 with
  | none => rfl
  | some nk =>
    obtain ⟨n, k⟩ := nk
    obtain ⟨a, hp, hi, _⟩ := save_requires_proof c hist i n k hs
    exact absurd ⟨a, n, k, hp, hi⟩ h

/-- What an answer gives away. The accessory's own proof H(A | M1 | K) depends on the setup code; whoever holds it can try
    codes offline until one explains it. It is sent in exactly one kind of answer: the one that ACCEPTS the controller's
    proof (state 4, no error) — from every state, for every message: an answer that carries an error, and every answer to
    anything else, carries no proof. (Seeded change C02-r5m1 returned it together with the error.) -/
theorem accessory_proof_only_in_accepting_answer (c : Nat) (st : St) (i : In) (state : Nat) (err : Option Nat) (hk he : Bool)
    (h : (step true c st i).2.1 = .tlv state err hk true he) :
    state = 4 ∧ err = none ∧ ∃ a p, i = .m3 (.good a) p ∧ proofOk true c st a p = true := by
  cases i with
  | malformedTlv => simp [step, stepR] at h
  | badMethod => simp [step, stepR] at h
  | badState n => simp [step, stepR] at h
  | m1 => simp only [step, stepR] at h; split at h <;> simp at h
  | m3 A p =>
    simp only [step, stepR] at h
    split at h
    · simp at h
    · cases A with
      | bad n => simp at h
      | good a =>
        simp only at h
        split at h
        · rename_i hp
          simp at h
          exact ⟨h.1.symm, h.2.1.symm, a, p, rfl, hp⟩
        · simp at h
  | m5 d =>
    simp only [step, stepR] at h
    split at h
    · simp at h
    · cases d with
      | short n => simp at h
      | sealed k no it pt =>
        simp only at h
        split at h
        · simp at h
        · simp at h
        · split at h
          · simp at h
          · split at h
            · split at h <;> simp at h
            · simp at h

/-- completeness (the honest exchange does store): after `m1`, an accepted proof and the matching key exchange,
    the pair is saved — so the two theorems above are not vacuous. -/
theorem honest_exchange_saves (c a name key : Nat) (hn : name ≠ ownName) :
    (step true c (stAfter true c init [.m1, .m3 (.good a) (.validFor c 0 a true)]) (keyExchangeFor c 0 a name key)).2.2
      = some (name, key) := by
  simp [stAfter, step, stepR, init, keyExchangeFor, openSealed, sigOk, proofOk, hn]

/-- the observations of `run` are those one-step observations (ties the statements above to whole runs) -/
theorem run_last_observation (c : Nat) (hist : List In) (i : In) :
    (run true c init (hist ++ [i])).2 = (run true c init hist).2 ++ [(step true c (stAfter true c init hist) i).2] :=
  run_snoc true c init hist i

-- several connections, one database -----------------------------------------------------------------

/-- Interleaving any number of connections: each connection's controller state depends only on its own messages,
    and a step changes the shared store only if it is that connection's proved key exchange. -/
theorem store_changes_only_by_proved_exchange (h : List (Nat × In)) (c : Nat) (i : In) :
    let g := (grun true Global.init h).1
    (gstep true g (c, i)).1.store = g.store ∨
    ∃ a name key, ProvedNow c (proj c h) a ∧ i = keyExchangeFor c (epochAfter c (proj c h)) a name key ∧
      (gstep true g (c, i)).1.store = (name, key) :: g.store := by
  intro g
  have hc : g.conns c = stAfter true c init (proj c h) := by
    have := conn_state_is_projection Global.init h c
    simpa [Global.init, g] using this
  cases hs : (step true c (g.conns c) i).2.2 with
  | none => left; simp [gstep, hs]
  | some nk =>
    obtain ⟨n, k⟩ := nk
    right
    rw [hc] at hs
    obtain ⟨a, hp, hi, _⟩ := save_requires_proof c _ i n k hs
    refine ⟨a, n, k, hp, hi, ?_⟩
    rw [← hc] at hs
    simp [gstep, hs]

/-- two connections are independent: what connection `c` observes in any interleaving is what it observes alone -/
theorem two_connections_independent (h : List (Nat × In)) (c : Nat) (i : In) :
    (gstep true (grun true Global.init h).1 (c, i)).2 = (step true c (stAfter true c init (proj c h)) i).2.1 := by
  have hc := conn_state_is_projection Global.init h c
  simp only [Global.init] at hc
  simp [gstep, hc, Global.init]

-- the accessory's own name --------------------------------------------------------------------------------------------

/-- No message whatever, in no state, stores a pairing under the accessory's own name (its key pair lives in the same
    database under that name): a controller that proved the setup code and signed a key exchange naming itself like the
    accessory is answered with an error (F16 repair — before it the accessory's key pair was replaced, and after the next
    restart nobody could pair or verify any more). -/
theorem own_name_never_stored (c : Nat) (st : St) (i : In) (key : Nat) :
    (step true c st i).2.2 ≠ some (ownName, key) := by
  intro hs
  exact ((step_save_iff c st i ownName key).mp hs).2.1 rfl

-- every exchange has its own SRP session ------------------------------------------------------------------------------

/-- A start request that is accepted after an earlier one had been draws a new SRP session … -/
theorem new_exchange_new_session (c : Nat) (st : St) (hw : st.step = .waiting) (hs : st.started = true) :
    (step true c st .m1).1.epoch = st.epoch + 1 ∧ (step true c st .m1).1.step = .startResp := by
  simp [step, stepR, hw, hs]

/-- … the number of the session in use never goes down … -/
theorem session_number_monotone (c : Nat) (st : St) (hist : List In) : st.epoch ≤ (stAfter true c st hist).epoch := by
  induction hist generalizing st with
  | nil => simp [stAfter]
  | cons i is ih =>
    have h1 := ih (step true c st i).1
    have h2 := epoch_step c st i
    simp only [stAfter, List.foldl_cons] at h1 ⊢
    rcases h2 with h | ⟨_, _, _, h⟩ <;> omega

/-- … and a proof made for another session of the connection (recorded in an earlier exchange and sent again, by
    whoever) is never accepted, whatever the state: the answer is the authentication error or HTTP 500, the controller
    is not at `verifyResp` afterwards, nothing is stored. -/
theorem replayed_proof_refused (c : Nat) (st : St) (A : ARef) (e a : Nat) (ok : Bool) (he : e ≠ st.epoch) :
    let r := step true c st (.m3 A (.validFor c e a ok))
    (r.2.1 = .http500 ∨ r.2.1 = .tlv 4 (some 2) false false false) ∧ r.1.step = .waiting ∧ r.2.2 = none := by
  simp only [step, stepR]
  split
  · simp [reset]
  · cases A with
    | bad n => simp [reset]
    | good a' =>
      have : proofOk true c st a' (.validFor c e a ok) = false := by
        simp only [proofOk, Bool.not_true, Bool.false_or]
        have : (e == st.epoch) = false := by simpa using he
        simp [this]
      simp [this]

/-- With ONE SRP session per connection (the code before the repair of F43) the messages of a completed exchange are
    valid again after a new start request on the same connection: nobody proves the setup code in the second exchange,
    yet the pairing is stored a second time (in between it may have been removed). With a session per exchange the same
    seven messages store once. -/
def replayHistory : List In :=
  [.m1, .m3 (.good 5) (.validFor 0 0 5 true), keyExchangeFor 0 0 5 7 9,
   .m1,        -- in the wrong step: rejected, the controller goes back to waiting
   .m1, .m3 (.good 5) (.validFor 0 0 5 true), keyExchangeFor 0 0 5 7 9]

def runR (renew : Bool) (c : Nat) : St → List In → List Save
  | _, [] => []
  | st, i :: is => (stepR true renew c st i).2.2 :: runR renew c (stepR true renew c st i).1 is

theorem one_session_per_connection_refuted :
    runR false 0 init replayHistory = [none, none, some (7, 9), none, none, none, some (7, 9)] ∧
    runR true 0 init replayHistory = [none, none, some (7, 9), none, none, none, none] := by
  decide

-- the behaviour before the repair is refuted ---------------------------------------------------------

/-- three messages, no proof anywhere: `m1`, `m3` with `A ≡ 0 (mod N)`, key exchange sealed under the all-zero key
    and signed over HKDF(nil) -/
def attack : List In :=
  [.m1, .m3 (.bad 0) .empty, .m5 (.sealed .zero true true (.tlv 7 (.pk 9) (.valid 9 .nil 7 9)))]

theorem unfixed_refuted :
    ((run false 0 init attack).2.map (·.2)) = [none, none, some (7, 9)] ∧
    attack.all (fun i => match i with | .m3 _ (.validFor _ _ _ true) => false | _ => true) = true := by
  decide

theorem fixed_blocks_attack : ((run true 0 init attack).2.map (·.2)) = [none, none, none] := by decide

-- non-vacuity of the hypotheses -------------------------------------------------------------------------
example : ProvedNow 3 [.m1, .m3 (.good 5) (.validFor 3 0 5 true), .badMethod] 5 :=
  ⟨[.m1], [.badMethod], by simp [stAfter, step, stepR, init], by simp [In.noop]⟩
/-- a second exchange on the same connection: its proof is one for session 1 -/
example : ProvedNow 3 [.m1, .m1, .m1, .m3 (.good 5) (.validFor 3 1 5 true)] 5 :=
  ⟨[.m1, .m1, .m1], [], by simp [stAfter, step, stepR, init, reset], by simp⟩

end Hc.Props.C02
