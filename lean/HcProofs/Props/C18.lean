import HcProofs.Lemmas.Db
import HcModel.Generated.SetLock
/-
  C18 — storage and pairing database behave like a persistent map.
  Property theorems only; helper lemmas live in HcProofs/Lemmas/{Fs,Crash,Storage,Db}.lean.
  The model (HcModel/Storage.lean) is the repaired util/file_storage.go (temporary sibling + rename).
-/
namespace Hc.Props.C18
open Hc Hc.Fs Hc.Storage

/-- One step: on a directory reached by operations on `KeyOk` keys (`Inv`: no duplicate names, every
    file name is a `KeyOk` key), any operation on a `KeyOk` key returns what the map says, the
    abstraction commutes with the step, and the invariant is kept. Listing (`Op.list s`, any suffix)
    returns exactly the live keys ending in `s`, each once. -/
theorem step_refines_map (d : Dir) (h : Inv d) (op : Op) (hop : OpOk op = true) :
    Inv (step d op).1 ∧ abs (step d op).1 = specStep (abs d) op ∧ ResOk (abs d) op (step d op).2 :=
  step_refines d h op hop

/-- For every history of set / overwrite (longer, shorter, equal, empty) / delete / reopen / get /
    list over keys satisfying `KeyOk`, starting from the empty directory: every concrete result is the
    one the map `Key → Option Bytes` prescribes (`Conforms`: get = last value set or not-found,
    delete succeeds iff live, listing = exactly the live keys with the suffix, without repetition), and
    the final directory denotes the final map. No bound on the history, the number of keys or the
    value sizes. -/
theorem refines_map (ops : List Op) (h : ∀ op ∈ ops, OpOk op = true) :
    Conforms Spec.empty ops (run [] ops).2 ∧ abs (run [] ops).1 = specRun Spec.empty ops := by
  have := run_refines ops [] inv_nil h
  rw [abs_nil] at this
  exact ⟨this.2.2, this.2.1⟩

/-- the same from any directory satisfying the invariant (e.g. the one left by an earlier history:
    the store object holds only the path, so a restart continues from the same directory) -/
theorem refines_map_from (d : Dir) (hd : Inv d) (ops : List Op) (h : ∀ op ∈ ops, OpOk op = true) :
    Inv (run d ops).1 ∧ Conforms (abs d) ops (run d ops).2 ∧ abs (run d ops).1 = specRun (abs d) ops :=
  let r := run_refines ops d hd h
  ⟨r.1, r.2.2, r.2.1⟩

/-- re-opening changes nothing: `NewFileStorage` on an existing directory only records the path -/
theorem reopen_is_identity (d : Dir) : reopen d = d := rfl

/-- overwriting with a value of any length (in particular a shorter one, F13) reads back exactly the
    new value -/
theorem overwrite_reads_back (d : Dir) (k : Key) (hk : KeyOk k = true) (old new : Bytes) :
    get (set (set d k old).1 k new).1 k = .val new := by
  rw [set_eq d k old hk, set_eq _ k new hk, get_eq _ k hk]
  simp [lookup_setOps]

/-- Under `KeyOk` keys do not alias: distinct keys are distinct files and no key is the temporary
    sibling of another. -/
theorem keys_do_not_alias (k1 k2 : Key) (h1 : KeyOk k1 = true) (h2 : KeyOk k2 = true) :
    (fileName k1 = fileName k2 ↔ k1 = k2) ∧ tmpName (fileName k1) ≠ fileName k2 := by
  rw [(keyFacts k1 h1).file, (keyFacts k2 h2).file]
  exact ⟨Iff.rfl, fun h => keyOk_ne_tmpName k1 k2 h2 h.symm⟩

/-- Why `KeyOk` excludes ':' — `removeInvalidFileNameCharacters` makes "a:b" and "ab" one file
    (modelled; the correspondence stream exercises it), so on such keys the storage is a map on the
    stripped keys only. -/
theorem colon_keys_alias :
    get (set [] [97, 58, 98] [1]).1 [97, 98] = .val [1] ∧ KeyOk [97, 58, 98] = false := by decide

/-- Keys of the reserved temporary form (file name ending in ".tmp"; writing "k" goes through the file "k.tmp") are
    REFUSED by every operation, for every directory and value, and nothing changes (F21 repair; before it,
    `Set "k"` silently destroyed the value of a key named "k.tmp"). So `KeyOk` excludes them from the map
    statements not because they misbehave but because they are never stored. -/
theorem reserved_keys_refused (d : Dir) (k : Key) (v : Bytes) (h : isTempName (fileName k) = true) :
    set d k v = (d, .err) ∧ get d k = .err ∧ delete d k = (d, .err) := by
  simp [Storage.set, Storage.get, Storage.delete, h]

/-- … and a listing never shows a temporary sibling (e.g. one left behind by a crash, C19) as a key -/
theorem listing_hides_temporaries (d : Dir) (s : Bytes) (l : List Name) (n : Name)
    (h : keysWithSuffix d s = .keys l) (hn : n ∈ l) : isTempName (stripColon n) = false := by
  simp only [keysWithSuffix, Res.keys.injEq] at h
  subst h
  simpa using (List.mem_filter.1 hn).2

/-- Keys whose file would be the storage directory itself or its parent ("", ".", "..", and their spellings with ':',
    which is stripped) are no keys: `Set`, `Get` and `Delete` refuse them and leave the directory as it is (F52 repair —
    before it `Get` "found" an empty value for them and `Delete` removed the directory of an empty store). -/
theorem directory_names_refused (d : Dir) (k : Key) (v : Bytes) (h : isDirName (fileName k) = true) :
    set d k v = (d, .err) ∧ get d k = .err ∧ delete d k = (d, .err) := by
  have hnt : isTempName (fileName k) = false := by
    simp only [isDirName, Bool.or_eq_true, beq_iff_eq] at h
    rcases h with (h | h) | h <;> rw [h] <;> decide
  have hns : (fileName k).contains 47 = false := by
    simp only [isDirName, Bool.or_eq_true, beq_iff_eq] at h
    rcases h with (h | h) | h <;> rw [h] <;> decide
  have hnok : fileNameOk (fileName k) = false := by simp [fileNameOk, h]
  refine ⟨?_, ?_, ?_⟩
  · simp only [Storage.set, hnt, hns, hnok]; simp
  · simp only [Storage.get, hnt, hns, h]; simp
  · simp only [Storage.delete, hnt, hns, h]; simp

example : isDirName (fileName [58]) = true ∧ isDirName (fileName [46, 58, 46]) = true := by decide

/-- For EVERY name (arbitrary bytes): the entity key `hex name ++ ".entity"` is a `KeyOk` key when the
    name has at most 122 bytes (file name + ".tmp" within NAME_MAX), and `toEntityKey` is injective
    on all names, so distinct names never share a file. -/
theorem entityKey_ok_injective :
    (∀ name : Bytes, name.length ≤ 122 → KeyOk (toEntityKey name) = true) ∧
    (∀ a b : Bytes, toEntityKey a = toEntityKey b → a = b) :=
  ⟨keyOk_entityKey, toEntityKey_injective⟩

/-- the length bound is sharp: a 123-byte name gives a key whose temporary sibling exceeds NAME_MAX -/
theorem entityKey_bound_sharp (name : Bytes) (h : 122 < name.length) : KeyOk (toEntityKey name) = false := by
  cases hk : KeyOk (toEntityKey name) with
  | false => rfl
  | true =>
    have := (keyFacts _ hk).ok
    simp [fileNameOk, toEntityKey_length] at this
    omega

/-- The database is a map on names: for every history of SaveEntity / EntityWithName / DeleteEntity /
    Entities / reopen over names that are valid UTF-8 (and ≤ 122 bytes), under the assumption that the
    JSON codec round-trips such entities, every result is the one the map `name → entity`
    prescribes; `Entities` lists exactly the live entities, each once. Starting from any directory in
    which every `*.entity` file holds an entity under its own name (`DbInv`; other keys such as
    "uuid", "version", "configHash" may be present). -/
theorem db_refines_map (C : Codec) (hC : C.RoundTrips) (d : Dir) (hd : DbInv C d) (ops : List DbOp)
    (h : ∀ op ∈ ops, DbOpOk op = true) :
    DbInv C (dbRun C d ops).1 ∧ DbConforms (dbAbs C d) ops (dbRun C d ops).2 :=
  db_run_refines C hC ops d hd h

/-- … in particular from the empty directory, where the map is empty -/
theorem db_refines_map_empty (C : Codec) (hC : C.RoundTrips) (ops : List DbOp)
    (h : ∀ op ∈ ops, DbOpOk op = true) :
    DbConforms (fun _ => none) ops (dbRun C [] ops).2 := by
  have := (db_run_refines C hC ops [] (dbInv_nil C) h).2
  have e : dbAbs C [] = fun _ => none := by funext n; simp [dbAbs]
  rwa [e] at this

/-- F15 (known finding), stated on the model of encoding/json's string handling: a name that is not
    valid UTF-8 does not survive (`sanitize` replaces the ill-formed byte by U+FFFD), so `NameOk`
    cannot be dropped from `db_refines_map`. -/
theorem invalid_utf8_name_refuted :
    validUtf8 [97, 0xFF, 98] = false ∧ sanitize [97, 0xFF, 98] = [97, 0xEF, 0xBF, 0xBD, 98] ∧
    entityWithName modelCodec (saveEntity modelCodec [] ⟨[97, 0xFF, 98], [1], [2]⟩).1 [97, 0xFF, 98]
      = .entity ⟨[97, 0xEF, 0xBF, 0xBD, 98], [1], [2]⟩ := by decide

/-- the unrepaired `Set` (open without truncation, write in place) refuted on the same file-system
    model: "longvalue" then "s" reads back "songvalue" -/
theorem unrepaired_set_refuted :
    lookup (apply [] [.create [107], .write [107] 0 [108, 111, 110, 103], .close,
                      .create [107], .write [107] 0 [115], .close]) [107] = some [115, 111, 110, 103] := by
  decide

-- non-vacuity: the hypotheses are satisfiable by non-trivial instances --------------------------------
example : KeyOk [117, 117, 105, 100] = true := by decide                       -- "uuid"
example : OpOk (.set [117, 117, 105, 100] [1, 2, 3]) = true := by decide
example : NameOk [90, 111, 195, 171] = true := by decide                       -- "Zoë"
example : KeyOk (toEntityKey [90, 111, 195, 171]) = true := by decide
example : Inv (run [] [.set [107] [1, 2, 3], .set [107] [9], .set [108] [], .delete [108]]).1 :=
  (run_refines _ [] inv_nil (by decide)).1
example : (run [] [.set [107] [1, 2, 3], .set [107] [9], .reopen, .get [107], .list []]).2
    = [.ok, .ok, .ok, .val [9], .keys [[107]]] := by decide
example : DbInv modelCodec [([117, 117, 105, 100], [1])] :=
  ⟨⟨by simp [names], by decide⟩, by
    intro n hn hs
    simp [names] at hn
    subst hn
    exact absurd hs (by decide)⟩

-- concurrent writers ------------------------------------------------------------------------------------------

/-- Why `Set` must not run twice at the same time: two writers of the same key share the temporary sibling. The
    interleaving "both open and empty `k.tmp`, A writes AAAA, B writes B, A renames" publishes `BAAA` — a value nobody
    set (F23; observed on the real code before the repair as a mix of 100 'B' and 3996 'A'). -/
theorem concurrent_sets_unlocked_refuted :
    let k : Name := [107]
    let t := tmpName k
    get (apply [] [.create t, .truncate t, .create t, .truncate t, .write t 0 [65, 65, 65, 65], .write t 0 [66], .close,
                   .rename t k]) k = .val [66, 65, 65, 65] := by decide

/-- shape of `Set` as it is in the source now (Generated/SetLock.lean, go/ast): one acquisition of the package-level
    mutex first, released only by a deferred unlock (at return), and every file operation — open, write, rename, the
    clean-up remove — after it; nothing spawned. So the write sequences of two `Set` calls of one process never
    interleave, and every history of concurrent calls is one of the sequential histories `refines_map` speaks about. -/
def setLockOk : List String → Bool
  | "Lock:setMutex" :: "deferUnlock:setMutex" :: rest =>
      rest.contains "open" && rest.contains "rename" &&
      rest.all (fun s => s == "open" || s == "write" || s == "rename" || s == "remove")
  | _ => false

theorem set_serialised_regenerated :
    setLockOk Hc.Generated.setPath = true ∧ Hc.Generated.setMutexIsPackageLevel = true := by decide

end Hc.Props.C18
