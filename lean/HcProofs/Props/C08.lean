import HcModel.Generated.WritePath
import HcModel.Generated.EventLock
import HcModel.SessLookup
import HcProofs.Lemmas.ConnWrite
/-
  C08 — concurrent writers never corrupt the encrypted stream.
  Property theorems only; the invariant and its preservation live in HcProofs/Lemmas/ConnWrite.lean.
  All statements quantify over every assignment `t0` of payload-length lists to writers (any number of
  writers, any number of writes each, any payload sizes) and over **every schedule** (any list of thread ids).
-/
namespace Hc.Props.C08
open Hc.ConnWrite

/-- Every schedule: the socket content is the concatenation of whole per-write blocks (`wire`: the block of a
    write of `len` bytes has `nframes len` frames with consecutive counters and starts where the previous block
    ended), and the counters on the wire are `0,1,2,…` without gap, repetition or reordering. -/
theorem serialised (t0 : Nat → List Nat) (sched : List Nat) :
    let s := run (init t0) sched
    s.sock = wire 0 s.log ∧ s.sock.map (·.ctr) = List.range' 0 s.sock.length := by
  intro s
  have h := inv_run t0 _ sched (inv_init t0)
  refine ⟨h.wire, ?_⟩
  rw [h.wire, wire_ctr, wire_length]

/-- Every schedule: the peer, which opens the n-th frame it receives with nonce n, authenticates every frame on
    the socket in arrival order, and what it releases is frame for frame what the writers sealed. -/
theorem peer_decrypts_all (t0 : Nat → List Nat) (sched : List Nat) :
    let s := run (init t0) sched
    recv 0 s.sock = some (s.sock.map fun f => (f.tid, f.w, f.j)) :=
  recv_of_ctr 0 _ (serialised t0 sched).2

/-- Every schedule: each payload reaches the socket intact and contiguous — the frames of a write are exactly
    chunk 0,1,…,k-1 of that write, adjacent, in order. -/
theorem payload_contiguous (t0 : Nat → List Nat) (sched : List Nat) (pre post : List Wr) (x : Wr)
    (hlog : (run (init t0) sched).log = pre ++ x :: post) :
    ∃ a b, (run (init t0) sched).sock = a ++ block x.tid x.w (total pre) (nframes x.len) ++ b ∧
      (block x.tid x.w (total pre) (nframes x.len)).map (fun f => (f.tid, f.w, f.j)) =
        (List.range (nframes x.len)).map (fun j => (x.tid, x.w, j)) := by
  have h : (run (init t0) sched).sock = wire 0 (run (init t0) sched).log := (serialised t0 sched).1
  rw [hlog] at h
  have hw : ∀ (c : Nat) (pre : List Wr), wire c (pre ++ x :: post) =
      wire c pre ++ block x.tid x.w (c + total pre) (nframes x.len) ++ wire (c + total pre + nframes x.len) post := by
    intro c pre
    induction pre generalizing c with
    | nil => simp [wire, total]
    | cons y r ih => simp [wire, total, ih, Nat.add_assoc]
  refine ⟨wire 0 pre, wire (0 + total pre + nframes x.len) post, ?_, block_id _ _ _ _⟩
  rw [h, hw]; simp

/-- Every schedule, every writer: its writes reach the socket in program order, each at most once, none invented
    (the payload lengths of its completed socket writes are a prefix of its program, numbered 0,1,2,…). -/
theorem writes_in_program_order (t0 : Nat → List Nat) (sched : List Nat) (i : Nat) :
    let s := run (init t0) sched
    (∃ rest, (writesOf i s.log).map (·.len) ++ rest = t0 i) ∧
      (writesOf i s.log).map (·.w) = List.range (writesOf i s.log).length := by
  intro s
  have h := inv_run t0 _ sched (inv_init t0)
  refine ⟨⟨_, h.order i⟩, ?_⟩
  have := h.idx i
  have hl := congrArg List.length this
  simp at hl
  rw [this, hl]

/-- A writer that has finished its program has all its payloads on the socket. -/
theorem all_delivered (t0 : Nat → List Nat) (sched : List Nat) (i : Nat)
    (hpc : (run (init t0) sched).pc i = .idle) (htd : (run (init t0) sched).todo i = []) :
    (writesOf i (run (init t0) sched).log).map (·.len) = t0 i := by
  have h := (inv_run t0 _ sched (inv_init t0)).order i
  simpa [restG, hpc, htd] using h

/-- Every schedule: at most one writer is between `Lock` and `Unlock`. -/
theorem mutual_exclusion (t0 : Nat → List Nat) (sched : List Nat) (i j : Nat)
    (hi : (run (init t0) sched).pc i ≠ .idle) (hj : (run (init t0) sched).pc j ≠ .idle) : i = j := by
  have h := inv_run t0 _ sched (inv_init t0)
  have h1 := (h.cs i).mp (by cases hp : (run (init t0) sched).pc i <;> simp_all [inCS])
  have h2 := (h.cs j).mp (by cases hp : (run (init t0) sched).pc j <;> simp_all [inCS])
  rw [h1] at h2; simpa using h2

/-- The event acceptor used by the correspondence check only ever follows runs of the model: a trace of observed
    events that it accepts ends in a state reached by some schedule (so all theorems above apply to it). -/
theorem accepted_trace_is_run (t0 : Nat → List Nat) (evs : List Ev) (a : Acc)
    (h : accept ⟨init t0, []⟩ evs 0 = .ok a) : ∃ sched, a.s = run (init t0) sched := by
  have run_snoc : ∀ (s : St) (l : List Nat) (i : Nat), run s (l ++ [i]) = step (run s l) i := by
    intro s l i; simp [run, List.foldl_append]
  have auto : ∀ a : Acc, (∃ sched, a.s = run (init t0) sched) → ∃ sched, (autoRelease a).s = run (init t0) sched := by
    intro a ⟨sc, hs⟩
    unfold autoRelease
    split
    · split
      · rename_i h' _ _; exact ⟨sc ++ [h'], by simp [run_snoc, hs]⟩
      · exact ⟨sc, hs⟩
    · exact ⟨sc, hs⟩
  have one : ∀ (a a' : Acc) (e : Ev), (∃ sched, a.s = run (init t0) sched) → accept1 a e = some a' →
      ∃ sched, a'.s = run (init t0) sched := by
    intro a a' e ha he
    cases e with
    | enter t =>
      simp only [accept1] at he
      split at he
      · obtain ⟨sc, hs⟩ := auto a ha
        cases he; exact ⟨sc ++ [t], by simp [run_snoc, hs]⟩
      · cases he
    | sealed t =>
      obtain ⟨sc, hs⟩ := ha
      simp only [accept1] at he
      split at he
      · cases he; exact ⟨sc ++ [t], by simp [run_snoc, hs]⟩
      · cases he
    | sock t =>
      obtain ⟨sc, hs⟩ := ha
      simp only [accept1] at he
      split at he
      · cases he; exact ⟨sc ++ [t], by simp [run_snoc, hs]⟩
      · cases he
    | ret t =>
      obtain ⟨sc, hs⟩ := ha
      simp only [accept1] at he
      split at he
      · cases he; exact ⟨sc ++ [t], by simp [run_snoc, hs]⟩
      · split at he
        · cases he; exact ⟨sc, hs⟩
        · cases he
    | blocked t =>
      obtain ⟨sc, hs⟩ := ha
      simp only [accept1] at he
      split at he
      · cases he; exact ⟨sc, hs⟩
      · cases he
  have gen : ∀ (evs : List Ev) (a0 : Acc) (n : Nat), (∃ sched, a0.s = run (init t0) sched) →
      accept a0 evs n = .ok a → ∃ sched, a.s = run (init t0) sched := by
    intro evs
    induction evs with
    | nil => intro a0 n h0 h1; simp [accept] at h1; subst h1; exact h0
    | cons e r ih =>
      intro a0 n h0 h1
      simp only [accept] at h1
      split at h1
      · rename_i a' he; exact ih a' (n+1) (one a0 a' e h0 he) h1
      · cases h1
  exact gen evs _ 0 ⟨[], rfl⟩ h

/-- The code before the repair (no mutual exclusion; counter read and written back in two steps): two writers
    of one frame each. One 6-step schedule puts the counters on the wire out of order, another repeats a
    counter — so `serialised` fails for the lock-free program, and the peer rejects the stream. -/
theorem unlocked_refuted :
    (runU (initU fun _ => 1) [0, 0, 1, 1, 1, 0]).sock.map (·.ctr) = [1, 0] ∧
    (runU (initU fun _ => 1) [0, 1, 0, 1, 0, 1]).sock.map (·.ctr) = [0, 0] ∧
    recv 0 (runU (initU fun _ => 1) [0, 0, 1, 1, 1, 0]).sock = none ∧
    recv 0 (runU (initU fun _ => 1) [0, 1, 0, 1, 0, 1]).sock = none ∧
    ¬ ∀ (len : Nat → Nat) (sched : List Nat),
        (runU (initU len) sched).sock.map (·.ctr) = List.range' 0 (runU (initU len) sched).sock.length := by
  refine ⟨by decide, by decide, by decide, by decide, ?_⟩
  intro h
  exact absurd (h (fun _ => 1) [0, 0, 1, 1, 1, 0]) (by decide)

-- non-vacuity ---------------------------------------------------------------------------------------
/-- three writers (two writes of 1 and 3 frames; one write of 2 frames; one empty payload), a schedule with
    blocked attempts: everything is delivered, counters 0..5 -/
def t0ex : Nat → List Nat := fun i => if i = 0 then [5, 2500] else if i = 1 then [2048] else if i = 2 then [0] else []
def schedEx : List Nat := [1, 0, 1, 0, 2, 1, 1, 0, 0, 0, 1, 0, 2, 2, 2, 2, 0, 0, 0, 0, 0]
example : ((run (init t0ex) schedEx).sock.map (·.ctr)) = [0, 1, 2, 3, 4, 5] := by decide
example : (run (init t0ex) schedEx).log = [⟨1, 0, 2048⟩, ⟨0, 0, 5⟩, ⟨2, 0, 0⟩, ⟨0, 1, 2500⟩] := by decide
example : (run (init t0ex) schedEx).pc 0 = .idle ∧ (run (init t0ex) schedEx).todo 0 = [] := by decide
example : ((accept ⟨init t0ex, []⟩ [.enter 1, .blocked 0, .sealed 1, .sock 1, .enter 0, .ret 1, .sealed 0] 0).toOption.map
    (·.s.ctr)) = some 3 := by decide


/-- shape of the critical section: one lock acquisition first, released only by a deferred unlock (i.e. at return),
    nonce allocation (Encrypt) and the socket write both inside, nothing spawned -/
def lockRegionOk : List String → Bool
  | "Lock" :: "deferUnlock" :: rest => rest.contains "Encrypt" && rest.contains "Write" &&
      rest.all (fun s => s == "Encrypt" || s == "Write")
  | _ => false

/-- The source as it is now (Generated/WritePath.lean, go/ast over (*Connection).EncryptedWrite) has exactly the shape
    of the locked writer program the theorems above are about: `Lock`, deferred `Unlock`, then Encrypt and the socket
    write and nothing else — in particular no unlock before the write, no read-lock, no try-lock, no goroutine. -/
theorem lock_region_regenerated : lockRegionOk Hc.Generated.writePath = true := by decide

open Hc.SessLookup in
/-- A connection that is closed while something is being written to it (the application sends a notification from its
    own goroutine; net/http's goroutine closes the connection and deletes its session): wherever the deletion falls
    among the write's session lookups, the write does not panic, and on a verified connection nothing goes out
    unencrypted — the payload is sealed, or the write is refused. -/
theorem close_during_write (verified : Bool) (d : Option Nat) :
    write true verified d ≠ .panic ∧
    (verified = true → write true verified d = .sealed ∨ write true verified d = .refused) ∧
    (d = none → verified = true → write true verified d = .sealed) := by
  cases verified <;> cases d <;> simp [write, present] <;> (try split) <;> (try simp) <;> (try omega)

open Hc.SessLookup in
/-- the same for a read that finds a complete frame while the connection is being closed -/
theorem close_during_read (verified : Bool) (d : Option Nat) : SessLookup.read true verified d ≠ .panic := by
  cases verified <;> cases d <;> simp [SessLookup.read, present] <;> (repeat' split) <;> simp

open Hc.SessLookup in
/-- before the F20 repair: session deleted between Write's test and EncryptedWrite's use ⇒ nil dereference in the
    application's goroutine (the whole accessory process dies); deleted before the test ⇒ the notification goes out in
    PLAINTEXT on a verified connection; and the same dereference in a background read -/
theorem close_race_unfixed_refuted :
    write false true (some 1) = .panic ∧ write false true (some 0) = .raw ∧ SessLookup.read false true (some 1) = .panic := by decide

/-- the source as it is now performs exactly one session lookup per `Write` (Generated/WritePath.lean), which is what
    `write true` models -/
theorem write_looks_session_up_once : Hc.Generated.writeLookups = 1 := by decide

-- events and the request that is being served (regenerated) -------------------------------------------------------------

/-- shape of a method that does everything under the connection's event lock: the exclusive lock is the first step, its
    release is deferred (so it covers whatever follows, also the socket write), and no step releases it earlier, takes
    it again, takes it shared or conditionally, or hands work to another goroutine -/
def underEventLock : List String → Bool
  | "Lock" :: "deferUnlock" :: rest => rest.all (fun s => s == "queue" || s == "write" || s == "setServing")
  | _ => false

/-- `WriteEvent` and `SetServing` in the source now (Generated/EventLock.lean): the event lock is a plain mutex (two event
    writers never hold it together: appends to the queue of kept-back events do not race), both methods run entirely under
    it — `WriteEvent` from the test "is a request being served?" to the end of the socket write (when `SetServing(true)`
    returns, no event is in flight), `SetServing(false)` from the first kept-back event to the last (an event reported
    meanwhile waits and is written after them, it is not queued behind a flush that is already over). -/
theorem event_paths_under_one_lock :
    Hc.Generated.eventMutexKind = "sync.Mutex" ∧
    underEventLock Hc.Generated.writeEventPath = true ∧ Hc.Generated.writeEventPath.contains "write" = true ∧
    Hc.Generated.writeEventPath.contains "queue" = true ∧
    underEventLock Hc.Generated.setServingPath = true ∧ Hc.Generated.setServingPath.contains "write" = true ∧
    Hc.Generated.setServingPath.contains "setServing" = true := by decide

/-- the shapes of three plausible "improvements" are not accepted: the lock released before the write, a shared lock, the
    flush outside the lock -/
theorem event_lock_shapes_refuted :
    underEventLock ["Lock", "queue", "Unlock", "Unlock", "write"] = false ∧
    underEventLock ["RLock", "deferRUnlock", "queue", "write"] = false ∧
    underEventLock ["Lock", "queue", "Unlock", "write", "Lock", "setServing", "Unlock"] = false := by decide

end Hc.Props.C08
