import HcModel.Generated.PairLabels
import HcProofs.Lemmas.Framing
/-
  C06 — secure framing round-trips every payload in the specified wire format.
  Property theorems only; helper lemmas live in HcProofs/Lemmas/{Chunks,Framing}.lean.
  All theorems are parametric in the primitives (`Crypto`: HKDF, AEAD seal/open); the round-trip
  theorems use the single hypothesis `C.Correct` (open ∘ seal = id, tag = 16 bytes).
-/
namespace Hc.Props.C06
open Hc Hc.Framing

/-- Wire format of one Encrypt call, for every session state and every reader (every chunking of every
    payload): the output is the concatenation, over the frames `ds`, of
    `le16 len ++ seal key (0,0,0,0 ++ le64 counter) (le16 len) chunk`, where the chunks are
    `chunks 1024 payload` (independent of how the reader delivered the payload), the counters are
    consecutive from the session's counter, the session counter advances by the number of frames, there
    are ⌈len/1024⌉ frames (0 bytes ↦ no frame), every chunk is non-empty and ≤ 1024 bytes and all but the
    last are exactly 1024 bytes. -/
theorem wire_format (C : Crypto) (s : Sess) (r : Reader) :
    ∃ ds : List FrameD,
      (encrypt C s r).2 = (ds.map fun d =>
          le16 d.chunk.length ++ C.sealB s.encKey ([0, 0, 0, 0] ++ le64 d.ctr) (le16 d.chunk.length) d.chunk).flatten ∧
      ds.map (·.chunk) = chunks 1024 (payload r) ∧
      ds.map (·.ctr) = List.range' s.encCnt ds.length ∧
      (encrypt C s r).1 = { s with encCnt := s.encCnt + ds.length } ∧
      ds.length = ((payload r).length + 1023) / 1024 ∧
      (∀ d ∈ ds, d.chunk ≠ [] ∧ d.chunk.length ≤ 1024) ∧
      (∀ d ∈ ds.dropLast, d.chunk.length = 1024) := by
  refine ⟨frameDescs s.encCnt (chunks 1024 (payload r)), ?_, frameDescs_chunk _ _, ?_, ?_, ?_, ?_, ?_⟩
  · simp only [encrypt, packets_eq_chunks, renderFrames, packetMax]; rfl
  · rw [frameDescs_ctr, frameDescs_length]
  · simp only [encrypt, packets_eq_chunks, frameDescs_length, packetMax]
  · rw [frameDescs_length, chunks_length 1024 (by omega)]; rfl
  · intro d hd
    have hm : d.chunk ∈ (frameDescs s.encCnt (chunks 1024 (payload r))).map (·.chunk) := List.mem_map_of_mem hd
    rw [frameDescs_chunk] at hm
    have := chunks_len_le 1024 (by omega) (payload r) d.chunk hm
    exact ⟨this.2, this.1⟩
  · intro d hd
    have hm : d.chunk ∈ ((frameDescs s.encCnt (chunks 1024 (payload r))).dropLast).map (·.chunk) := List.mem_map_of_mem hd
    rw [List.map_dropLast, frameDescs_chunk] at hm
    exact chunks_init_full 1024 (payload r) d.chunk hm

/-- an empty payload produces no frame at all and leaves the counter alone -/
theorem wire_format_empty (C : Crypto) (s : Sess) (r : Reader) (h : payload r = []) :
    encrypt C s r = (s, []) := by
  simp [encrypt, packets_eq_chunks, h, chunks_nil, frameDescs, renderFrames]

/-- a payload of exactly `k·1024` bytes is sent as exactly `k` full frames: no trailing short frame -/
theorem wire_format_exact_multiple (r : Reader) (k : Nat) (h : (payload r).length = k * 1024) :
    packets r = chunks 1024 (payload r) ∧ (packets r).length = k ∧ ∀ c ∈ packets r, c.length = 1024 := by
  have e := packets_eq_chunks r
  simp only [packetMax] at e
  refine ⟨e, ?_, ?_⟩
  · rw [e, chunks_length 1024 (by omega), h]; omega
  · rw [e]; exact chunks_exact 1024 (by omega) _ k h

/-- the total size on the wire: 18 bytes of overhead per frame -/
theorem wire_length (C : Crypto) (hC : C.Correct) (s : Sess) (r : Reader) :
    (encrypt C s r).2.length = (payload r).length + 18 * (((payload r).length + 1023) / 1024) := by
  have hlen : ∀ (c : Nat) (ps : List Bytes),
      (renderFrames C s.encKey (frameDescs c ps)).length = ps.flatten.length + 18 * ps.length := by
    intro c ps
    induction ps generalizing c with
    | nil => simp [frameDescs, renderFrames]
    | cons p ps ih =>
      simp only [frameDescs, renderFrames_cons, List.length_append, ih, renderFrame, (hC _ _ _ _).2, le16,
        List.length_cons, List.length_nil, List.flatten_cons]
      omega
  simp only [encrypt, packets_eq_chunks, hlen, chunks_flatten, packetMax]
  rw [chunks_length 1024 (by omega)]; rfl

/-- Round trip, for every payload and EVERY way the reader delivers it (any list of bursts, including
    one byte at a time, empty reads, bursts larger than a frame), from every session state: the peer
    (same key, same counter) gets the payload back, consumes the whole input — also when the payload is an
    exact multiple of 1024 and the frame loop runs to the end of the input — and ends with the sender's counter. -/
theorem roundtrip (C : Crypto) (hC : C.Correct) (s peer : Sess) (r : Reader)
    (hk : peer.decKey = s.encKey) (hc : peer.decCnt = s.encCnt) :
    decrypt C peer (encrypt C s r).2 = ({ peer with decCnt := (encrypt C s r).1.encCnt }, .ok (payload r), []) :=
  decrypt_encrypt C hC s peer r hk hc

/-- the two constructors give matching sessions: what the accessory encrypts the controller decrypts, and
    vice versa (fresh sessions, any shared secret) -/
theorem roundtrip_sessions (C : Crypto) (hC : C.Correct) (shared : Bytes) (r : Reader) :
    (decrypt C (clientSess C shared) (encrypt C (serverSess C shared) r).2).2.1 = .ok (payload r) ∧
    (decrypt C (serverSess C shared) (encrypt C (clientSess C shared) r).2).2.1 = .ok (payload r) := by
  constructor
  · rw [roundtrip C hC _ _ r rfl rfl]
  · rw [roundtrip C hC _ _ r rfl rfl]

/-- Counter continuity over any sequence of messages: the frames of all messages together carry the
    consecutive counters `c, c+1, …` (the `i`-th frame overall carries `c + i`), the sender's counter ends
    at `c + number of frames`, and a peer decrypting message by message returns every payload and ends with
    the same counter. -/
theorem counter_continuity (C : Crypto) (hC : C.Correct) (s peer : Sess) (rs : List Reader)
    (hk : peer.decKey = s.encKey) (hc : peer.decCnt = s.encCnt) :
    ∃ ds : List FrameD,
      (encryptSeq C s rs).2.flatten = renderFrames C s.encKey ds ∧
      ds.map (·.chunk) = rs.flatMap (fun r => chunks 1024 (payload r)) ∧
      ds.map (·.ctr) = List.range' s.encCnt ds.length ∧
      (encryptSeq C s rs).1 = { s with encCnt := s.encCnt + ds.length } ∧
      decryptSeq C peer (encryptSeq C s rs).2 =
        ({ peer with decCnt := s.encCnt + ds.length }, rs.map fun r => .ok (payload r)) := by
  have hp : rs.flatMap packets = rs.flatMap (fun r => chunks 1024 (payload r)) := by
    congr 1; funext r; exact packets_eq_chunks r
  obtain ⟨h1, h2⟩ := encryptSeq_spec C s rs
  refine ⟨frameDescs s.encCnt (rs.flatMap packets), h2, ?_, ?_, ?_, ?_⟩
  · rw [frameDescs_chunk, hp]
  · rw [frameDescs_ctr, frameDescs_length]
  · rw [h1, frameDescs_length]
  · rw [decryptSeq_encryptSeq C hC s peer rs hk hc, h1, frameDescs_length]

/-- The session keys are the specification's: the accessory encrypts with
    HKDF-SHA-512(shared, "Control-Salt", "Control-Read-Encryption-Key") and decrypts with the
    "Control-Write-Encryption-Key" key, the controller the other way round; both start at counter 0.
    (The labels are model constants; they are tied to the code by the byte-for-byte comparison of hc's output
    with frames sealed under keys the harness derives from these very labels, and independently by the
    reference oracle that uses the labels of the HAP specification.) -/
theorem session_keys_spec (C : Crypto) (shared : Bytes) :
    serverSess C shared = ⟨C.kdf shared (ascii "Control-Salt") (ascii "Control-Read-Encryption-Key"),
      C.kdf shared (ascii "Control-Salt") (ascii "Control-Write-Encryption-Key"), 0, 0⟩ ∧
    clientSess C shared = ⟨C.kdf shared (ascii "Control-Salt") (ascii "Control-Write-Encryption-Key"),
      C.kdf shared (ascii "Control-Salt") (ascii "Control-Read-Encryption-Key"), 0, 0⟩ :=
  ⟨rfl, rfl⟩

/-- The same labels, read from the source on every run (Generated/PairLabels.lean, go/ast over
    crypto/secure_session.go): the two HKDF calls of the accessory-side constructor use, in this order, the model's
    (salt, read info) for the encrypt key and (salt, write info) for the decrypt key; the controller-side constructor
    the other way round; length and counter are written little-endian; the AEAD calls of Encrypt / Decrypt take the
    counter nonce and the length bytes as associated data. -/
theorem session_labels_regenerated :
    ((Hc.Generated.labelRows.filter (fun r => r.file == "crypto/secure_session.go" && r.func == "NewSecureSessionFromSharedKey" && r.kind == "hkdf")).map
        (fun r => (r.a, r.b)) = [(saltControlS, infoReadS), (saltControlS, infoWriteS)]) ∧
    ((Hc.Generated.labelRows.filter (fun r => r.file == "crypto/secure_session.go" && r.func == "NewSecureClientSessionFromSharedKey" && r.kind == "hkdf")).map
        (fun r => (r.a, r.b)) = [(saltControlS, infoWriteS), (saltControlS, infoReadS)]) ∧
    ((Hc.Generated.labelRows.filter (fun r => r.file == "crypto/secure_session.go" && r.kind == "endian")).all
        (fun r => r.a == "binary.LittleEndian.PutUint64" || r.a == "binary.LittleEndian.PutUint16") = true) ∧
    ((Hc.Generated.labelRows.filter (fun r => r.file == "crypto/secure_session.go" && (r.kind == "EncryptAndSeal" || r.kind == "DecryptAndVerify"))).map
        (fun r => (r.func, r.a, r.b)) =
      [("*secureSession.Decrypt", "<nonce[:]>", "lengthBytes"), ("*secureSession.Encrypt", "<nonce[:]>", "bLength[:]")]) := by
  decide

/-- Go's counter is a uint64 that wraps; the only place it is observable is the nonce, and the nonce
    depends on the counter modulo 2^64 only — so the unbounded counter of the model is faithful. -/
theorem nonce_wraps (c : Nat) : nonce12 (c + 2 ^ 64) = nonce12 c := by
  have h : ∀ (k n : Nat), leN k (n + 256 ^ k) = leN k n := by
    intro k
    induction k with
    | zero => intro n; rfl
    | succ k ih =>
      intro n
      simp only [leN, Nat.pow_succ]
      rw [show (n + 256 ^ k * 256) / 256 = n / 256 + 256 ^ k by omega, ih]
      congr 2
      omega
  simp only [nonce12, le64]
  rw [show (2 : Nat) ^ 64 = 256 ^ 8 by decide, h]

/-- Before F5 the property failed: a reader that delivers one byte at a time had only its first byte
    encrypted (`"hello world"` ↦ `"h"`). -/
theorem one_read_per_packet_refuted :
    ¬ ∀ r : Reader, (packetsPreFix r).flatten = payload r := by
  intro h
  have := h [[104], [101], [108]]
  simp [packetsPreFix, payload, packetMax] at this

-- non-vacuity ------------------------------------------------------------------------------------

example : toyId.Correct := by
  intro k n ad m
  simp [toyId]

example : payload [[1, 2], [], [3]] = [1, 2, 3] := by decide
example : packets [[1, 2], [], [3]] = [[1, 2, 3]] := by
  rw [packets_eq_chunks, chunks_of_short] <;> simp [payload, packetMax]

/-- "…however the source reader delivers it": also a source that FAILS (F70). Whatever it delivered before — any chunks —
    `Encrypt` returns its error, seals nothing and counts no frame: the peer is never sent the part of a message as if it
    were the message; and a source that does not fail is encrypted as before. -/
theorem failing_source_seals_nothing (C : Crypto) (s : Sess) (chunks : Reader) :
    encryptF C s ⟨chunks, true⟩ = (s, none) ∧
    encryptF C s ⟨chunks, false⟩ = ((encrypt C s chunks).1, some (encrypt C s chunks).2) := by
  simp [encryptF]

/-- F70 before the repair (`encryptFOld`): the source fails after 500 of its bytes; no error is reported, and the peer
    decrypts an authentic message of exactly those 500 bytes. -/
theorem failing_source_unfixed_refuted (C : Crypto) (hC : C.Correct) (s peer : Sess)
    (hk : peer.decKey = s.encKey) (hc : peer.decCnt = s.encCnt) :
    ∃ r : FReader, r.fails = true ∧ ∃ out, (encryptFOld C s r).2 = some out ∧
      (decrypt C peer out).2.1 = .ok (List.replicate 500 7) := by
  refine ⟨⟨[List.replicate 500 7], true⟩, rfl, _, rfl, ?_⟩
  rw [roundtrip C hC s peer [List.replicate 500 7] hk hc]
  simp only [payload, List.flatten_cons, List.flatten_nil, List.append_nil]

end Hc.Props.C06
