import HcProofs.Lemmas.CharHttp
import HcModel.Framing
import HcProofs.Lemmas.Chunks
import HcProofs.Lemmas.Framing
import HcProofs.Lemmas.Characteristic
import HcProofs.Props.C06
import HcProofs.Lemmas.Reentrant
import HcProofs.Lemmas.ChunkedWriter
/-
  C09 — what the application sets is what a controller reads, and vice versa.
  Models: HcModel/CharHttp.lean (id dispatch and response shape of GET / PUT /characteristics),
  HcModel/Characteristic.lean (one characteristic, C12), HcModel/Framing.lean (session framing, C06).
-/
namespace Hc.Props.C09
open Hc Hc.Charac Hc.CharHttp

/-- GET with any well-formed id list (existing, missing, unreadable ids in any mix, repeated ids): the answer has
    exactly one entry per requested id, in order, with that aid/iid. An existing readable id carries the stored
    value; a missing id the status −70402; an existing unreadable one −70405. The answer is 207 exactly when some
    entry is an error, and then EVERY entry carries a status (0 for the successful ones); otherwise it is 200 and no
    entry carries a status. -/
theorem get_answers_each_id_once_in_order (db : Db) (toks : List IdTok) (h : wellFormed toks = true) :
    ∃ es, ∃ multi : Bool, (getChars db toks = (if multi then .multi207 es else .ok200 es)) ∧
      es.map (fun e => (e.aid, e.iid)) = idsOf toks ∧
      (∀ e ∈ es, entryOk db multi e) ∧
      (multi = true ↔ ∃ e ∈ es, e.status ≠ some 0 ∧ e.status ≠ none) ∧
      (multi = true → ∀ e ∈ es, e.status.isSome = true) := by
  obtain ⟨es, h1, h2, h3⟩ := getEntries_spec db toks h
  by_cases hm : es.any (·.status.isSome) = true
  · refine ⟨es.map (fun e => { e with status := some (e.status.getD 0) }), true, ?_, ?_, ?_, ?_, ?_⟩
    · simp [getChars, h1, hm]
    · simpa [List.map_map, Function.comp_def] using h2
    · intro e he
      simp only [List.mem_map] at he
      obtain ⟨e0, he0, rfl⟩ := he
      have := h3 e0 he0
      simp only [entryOk]
      cases hl : lookup db e0.aid e0.iid with
      | none => simp only [hl] at this; simp [this]
      | some c =>
        simp only [hl] at this ⊢
        by_cases hp : c.chr.cfg.perms.pr = true
        · simp only [hp, ↓reduceIte] at this ⊢; simp [this]
        · simp only [hp, Bool.false_eq_true, ↓reduceIte] at this ⊢; simp [this]
    · constructor
      · intro _
        simp only [List.any_eq_true] at hm
        obtain ⟨e0, he0, hs⟩ := hm
        refine ⟨{ e0 with status := some (e0.status.getD 0) }, List.mem_map.mpr ⟨e0, he0, rfl⟩, ?_, by simp⟩
        have := h3 e0 he0
        cases hl : lookup db e0.aid e0.iid with
        | none => simp only [hl] at this; simp [this.1, statusNotFound]
        | some c =>
          simp only [hl] at this
          by_cases hp : c.chr.cfg.perms.pr = true
          · simp only [hp, ↓reduceIte] at this; simp [this.2] at hs
          · simp only [hp, Bool.false_eq_true, ↓reduceIte] at this; simp [this.1, statusWriteOnly]
      · intro _; rfl
    · intro _ e he
      simp only [List.mem_map] at he
      obtain ⟨e0, _, rfl⟩ := he
      rfl
  · have hm' : es.any (·.status.isSome) = false := by simpa using hm
    refine ⟨es, false, ?_, h2, ?_, ?_, ?_⟩
    · simp [getChars, h1, hm']
    · intro e he
      have := h3 e he
      have hnone : e.status = none := by
        have := List.any_eq_false.mp hm' e he
        cases hs : e.status <;> simp_all
      simp only [entryOk]
      cases hl : lookup db e.aid e.iid with
      | none => simp only [hl] at this; simp [this.1] at hnone
      | some c =>
        simp only [hl] at this ⊢
        by_cases hp : c.chr.cfg.perms.pr = true
        · simp only [hp, ↓reduceIte] at this ⊢; simpa using this
        · simp only [hp, Bool.false_eq_true, ↓reduceIte] at this; simp [this.1] at hnone
    · constructor
      · intro h; cases h
      · rintro ⟨e, he, h1', h2'⟩
        have := List.any_eq_false.mp hm' e he
        cases hs : e.status <;> simp_all
    · intro h; cases h

/-- a malformed id list (an element that is not `aid.iid`) is answered with HTTP 500 and no body -/
theorem get_malformed_ids (db : Db) (toks : List IdTok) (h : wellFormed toks = false) : getChars db toks = .http500 := by
  have : getEntries db toks = none := by
    induction toks with
    | nil => simp [wellFormed] at h
    | cons t ts ih =>
      cases t with
      | bad => rfl
      | pair a i => simp only [getEntries]; rw [ih (by simpa [wellFormed] using h)]; rfl
  simp [getChars, this]

-- values --------------------------------------------------------------------------------------------------------

/-- `v` is a valid value for the characteristic: conversion and clamping leave it as it is (right Go type for the
    format, inside the declared bounds, finite) -/
def ValidFor (cfg : Config) (v : GVal) : Prop := convertClamp cfg v = some (some v)

/-- What a verified controller writes is what the application reads: for a readable, writable characteristic and a
    valid value `v`, after the PUT the stored value (what every typed getter returns) is `v`; the remote-update callback
    received `v` exactly once if the value changed (or the characteristic notifies on the same value) and was not
    called otherwise. -/
theorem put_then_getter (c : Chr) (v : GVal) (hv : ValidFor c.cfg v) (hr : c.cfg.perms.pr = true)
    (hw : c.cfg.perms.pw = true) (same : Bool) (hs : goEq c.value v = some same) :
    let r := updateValue c v true true
    r.2 = cbOutcome c.cfg true v ∨ (same = true ∧ c.cfg.updateOnSameValue = false ∧ r.2 = .ok) →
    (same = true ∧ c.cfg.updateOnSameValue = false → r.1 = c) ∧
    (¬(same = true ∧ c.cfg.updateOnSameValue = false) → r.1.value = v ∧ r.1.log = c.log ++ [⟨true, v, c.value⟩]) := by
  intro r _
  have hr' : r = commit c v true true := by unfold ValidFor at hv; simp only [r, updateValue, hv]
  constructor
  · rintro ⟨h1, h2⟩
    rw [hr']; simp [commit, hs, h1, h2]
  · intro hn
    rw [hr']
    have : (same && !c.cfg.updateOnSameValue) = false := by
      cases same <;> cases hu : c.cfg.updateOnSameValue <;> simp_all
    simp [commit, hs, this, hw, hr]

/-- What the application sets is what a controller reads: after `UpdateValue v` (no permission check) with a valid
    value on a readable characteristic, a read returns `v`, and GET for any id list containing its id — as well as
    /accessories, which serialises the same `Value` field — carries `v` for it. -/
theorem set_then_get (db : Db) (a i : Nat) (e : Entry) (he : lookup db a i = some e) (v : GVal)
    (hv : ValidFor e.chr.cfg v) (hr : e.chr.cfg.perms.pr = true) (same : Bool) (hs : goEq e.chr.value v = some same) :
    let c' := (updateValue e.chr v false false).1
    -- the stored value is v — or it was left as it is because it already compares equal to v (Go's `==`)
    (c'.value = v ∨ (same = true ∧ c'.value = e.chr.value)) ∧ (getValue c' true none).2.2 = c'.value ∧
    ∀ db', lookup db' a i = some { e with chr := c' } →
      ∀ pre post, wellFormed (pre ++ [.pair a i] ++ post) = true →
        ∃ es, ∃ multi : Bool, getChars db' (pre ++ [.pair a i] ++ post) = (if multi then .multi207 es else .ok200 es) ∧
          ∃ r ∈ es, r.aid = a ∧ r.iid = i ∧ r.value = c'.value := by
  intro c'
  have hc' : c' = (commit e.chr v false false).1 := by unfold ValidFor at hv; simp only [c', updateValue, hv]
  have hval : c'.value = v ∨ (same = true ∧ c'.value = e.chr.value) := by
    rw [hc']
    simp only [commit, hs]
    by_cases h1 : (same && !e.chr.cfg.updateOnSameValue) = true
    · right
      simp only [h1, ↓reduceIte]
      simp at h1; exact ⟨h1.1, trivial⟩
    · left
      have : (same && !e.chr.cfg.updateOnSameValue) = false := by simpa using h1
      simp [this, hr]
  have hcfg : c'.cfg = e.chr.cfg := by
    rw [hc']; simp only [commit, hs]
    split
    · rfl
    · split <;> rfl
  refine ⟨hval, by simp [getValue], ?_⟩
  intro db' hl pre post hwf
  obtain ⟨es, multi, h1, h2, h3, _, _⟩ := get_answers_each_id_once_in_order db' _ hwf
  refine ⟨es, multi, h1, ?_⟩
  have hmem : (a, i) ∈ idsOf (pre ++ [.pair a i] ++ post) := by
    have : ∀ (l r : List IdTok), idsOf (l ++ r) = idsOf l ++ idsOf r := by
      intro l r
      induction l with
      | nil => rfl
      | cons t ts ih => cases t <;> simp [idsOf, ih]
    simp [this, idsOf]
  rw [← h2] at hmem
  obtain ⟨r, hr1, hr2⟩ := List.mem_map.mp hmem
  simp only [Prod.mk.injEq] at hr2
  refine ⟨r, hr1, hr2.1, hr2.2, ?_⟩
  have := h3 r hr1
  simp only [entryOk, hr2.1, hr2.2, hl, hcfg, hr, ↓reduceIte] at this
  exact this.1

-- bytes: JSON text → 2048-byte pieces → HTTP → session frames → controller ------------------------------------------

/-- The body is written in pieces of at most 2048 bytes whose concatenation is the body; and whatever the response
    writer turns those into (any list of writes `ws` on the connection), the peer session decrypting write by write
    gets back exactly those writes, in order, with counters in step — so the HTTP byte stream the controller parses
    is the one the accessory produced. (JSON encode/decode and HTTP chunked coding are library behaviour: trusted.) -/
theorem pipeline_identity (C : Framing.Crypto) (hC : C.Correct) (s peer : Framing.Sess)
    (hk : peer.decKey = s.encKey) (hc : peer.decCnt = s.encCnt) (body : Bytes) (ws : List Bytes) :
    (chunkedWrite 2048 body).flatten = body ∧
    (∀ p ∈ chunkedWrite 2048 body, p.length ≤ 2048 ∧ p ≠ []) ∧
    (Framing.decryptSeq C peer (Framing.encryptSeq C s (ws.map fun w => [w])).2).2 = ws.map (fun w => .ok w) := by
  refine ⟨chunks_flatten _ _, chunks_len_le 2048 (by omega) body, ?_⟩
  obtain ⟨ds, _, _, _, _, h5⟩ := C06.counter_continuity C hC s peer (ws.map fun w => [w]) hk hc
  rw [h5]
  simp [List.map_map, Function.comp_def, Framing.payload]

def brightnessCfg : Config :=
  { format := .int32, perms := ⟨true, true, true, false, false⟩, min := .int 0, max := .int 100, updateOnSameValue := false, tcb := some .int }

-- updates made while callbacks run --------------------------------------------------------------------------------------

/-- Updates of a characteristic that arrive while the callbacks of another update of the same characteristic are running
    (an application that corrects what a controller wrote, a value that moves on, a PUT that arrives while the
    application's own update has not returned): for EVERY behaviour `react` of the application's callbacks, every call
    depth and every first update (from a controller or local), a run that ends without panic either called no callback at
    all — then nothing changed and the first update itself was a no-op — or ends in a state where the value given to the
    LAST callback invocation is the value stored (what every getter and every GET returns), and what that invocation
    asked for is nothing, or is already in effect (carrying it out again changes nothing). No update asked for from a
    callback is dropped. -/
theorem reentrant_updates_settle (react : React) (fuel : Nat) (c : Chr) (v : GVal) (fc cp : Bool)
    (hok : (updateRe false react fuel c v fc cp).2 = .ok) :
    let c' := (updateRe false react fuel c v fc cp).1
    c'.cfg = c.cfg ∧
    (c'.log.length = c.log.length → c' = c ∧ (updateValue c v fc cp).1 = c) ∧
    (c'.log.length ≠ c.log.length → ∃ e, c'.log.getLast? = some e ∧ (c'.cfg.perms.pr = true → c'.value = e.new) ∧
      (react e.new = none ∨ ∃ w, react e.new = some w ∧ (updateValue c' w false false).1 = c')) := by
  obtain ⟨h1, h2, h3, h4⟩ := Lemmas.Reentrant.updateRe_spec react fuel c v fc cp hok
  exact ⟨h1, h3, fun hne => h4 (by omega)⟩

/-- The variant with a "don't recurse" flag (updates that arrive while callbacks run are ignored) does not have that
    property: the controller writes 10, the application's callback corrects it to 20, and the run ends with 10 stored
    although the last callback asked for 20 and carrying that out would change the value. -/
theorem reentrant_guard_refuted :
    let c0 : Chr := (updateValue (init brightnessCfg) (.int 5) false false).1
    let react := reactOf [(10, 20)]
    let r := updateRe true react 4 c0 (.int 10) true true
    r.2 = .ok ∧ (r.1.log.getLast?.map (·.new)) = some (.int 10) ∧ react (.int 10) = some (.int 20) ∧
    (updateValue r.1 (.int 20) false false).1.value = .int 20 ∧ r.1.value = .int 10 := by
  refine ⟨rfl, rfl, rfl, rfl, rfl⟩

-- non-vacuity -------------------------------------------------------------------------------------------------------
/-- the same scenario on the model of the code: the run is ok, two callbacks were called and 20 is stored -/
example :
    let c0 : Chr := (updateValue (init brightnessCfg) (.int 5) false false).1
    let r := updateRe false (reactOf [(10, 20)]) 4 c0 (.int 10) true true
    r.2 = .ok ∧ r.1.value = .int 20 ∧ r.1.log.length = c0.log.length + 2 := by
  refine ⟨rfl, rfl, rfl⟩
example : ValidFor brightnessCfg (.int 42) := by unfold ValidFor; rfl
example : wellFormed [.pair 1 9, .pair 1 999, .pair 1 2] = true := by decide

/-! ### the answer of a write request (F75; `putLoop` / `putChars` in HcModel/CharHttp.lean) -/

/-- the loop answers every entry, in order, with a status -/
theorem putLoop_covers (rs : List PutReq) : ∀ (db : Db) (acc : List RespEntry) (db' : Db) (es : List RespEntry),
    putLoop db rs acc = (db', some es) →
      es.map (fun e => (e.aid, e.iid)) = acc.map (fun e => (e.aid, e.iid)) ++ rs.map (fun r => (r.aid, r.iid)) ∧
      ((∀ e ∈ acc, e.status.isSome) → ∀ e ∈ es, e.status.isSome) := by
  induction rs with
  | nil =>
    intro db acc db' es h
    simp only [putLoop, Prod.mk.injEq, Option.some.injEq] at h
    obtain ⟨_, rfl⟩ := h
    simp
  | cons r rs ih =>
    intro db acc db' es h
    unfold putLoop at h
    split at h
    · obtain ⟨h1, h2⟩ := ih _ _ _ _ h
      refine ⟨by simpa [List.map_append, List.append_assoc] using h1, fun ha => h2 ?_⟩
      intro e he
      rcases List.mem_append.mp he with he | he
      · exact ha e he
      · simp only [List.mem_singleton] at he; subst he; rfl
    · split at h
      · simp at h
      · obtain ⟨h1, h2⟩ := ih _ _ _ _ h
        refine ⟨by simpa [List.map_append, List.append_assoc] using h1, fun ha => h2 ?_⟩
        intro e he
        rcases List.mem_append.mp he with he | he
        · exact ha e he
        · simp only [List.mem_singleton] at he; subst he; rfl

/-- "…and a multi-status answer carries a status for every entry": for every database and every write request, an answer
    with a body has exactly one entry per entry of the request — same ids, same order, also for ids that are not served
    and for entries that succeeded — and every one of them carries a status. -/
theorem put_answer_carries_a_status_for_every_entry (db db' : Db) (rs : List PutReq) (es : List RespEntry)
    (h : putChars db rs = (db', .body es)) :
    es.map (fun e => (e.aid, e.iid)) = rs.map (fun r => (r.aid, r.iid)) ∧ ∀ e ∈ es, e.status.isSome := by
  unfold putChars at h
  split at h
  · simp at h
  · rename_i db'' es' hl
    split at h
    · simp at h
    · simp only [Prod.mk.injEq, PutResp.body.injEq] at h
      obtain ⟨_, rfl⟩ := h
      obtain ⟨h1, h2⟩ := putLoop_covers rs db [] db'' es' hl
      exact ⟨by simpa using h1, h2 (by simp)⟩

/-- F75 before the repair (`putLoopOld`): a good write, an id that is not served and a subscription to a characteristic
    without event permission in one request — the answer has ONE entry for three. -/
theorem put_answer_unfixed_refuted :
    let c (r w e : Bool) : Chr := { cfg := { format := .bool, perms := ⟨r, w, e, false, false⟩, min := .nil, max := .nil,
                                             updateOnSameValue := false, tcb := none }, value := .bool false, log := [] }
    let db : Db := [⟨1, 9, c true true true, false⟩, ⟨1, 10, c true false false, false⟩]
    let rs : List PutReq := [⟨1, 9, .bool true, .null⟩, ⟨1, 999, .bool true, .null⟩, ⟨1, 10, .null, .bool true⟩]
    ((putLoopOld db rs []).2.map fun es => es.map fun e => (e.aid, e.iid, e.status)) = some [(1, 10, some (-70406))] ∧
    ((putLoop db rs []).2.map fun es => es.map fun e => (e.aid, e.iid, e.status))
      = some [(1, 9, some 0), (1, 999, some (-70409)), (1, 10, some (-70406))] := by
  decide

-- hap.chunkedWriter.Write as a loop over any response writer -------------------------------------------------------

open Hc.ChunkedWriter in
/-- `chunkedWrite` (the abstract behaviour used by `pipeline_identity`) IS the loop of hap/chunked_writer.go over a
    writer that keeps the io.Writer contract: the slices handed on are `chunks n body`, all of them are taken, and the
    count returned is the length of the body. For every chunk size > 0 and every body. -/
theorem chunked_loop_is_chunks (n : Nat) (hn : 0 < n) (body : Bytes) :
    write n hn body [] = ⟨body.length, false, chunkedWrite n body, chunkedWrite n body⟩ := by
  have := Lemmas.ChunkedWriter.loop_contract n hn body 0 [] [] (Nat.zero_le _)
  simpa [write, chunkedWrite] using this

open Hc.ChunkedWriter in
/-- Whatever the response writer does (any script of short writes and failures, then contract-keeping): every slice it
    is handed is non-empty and at most `n` bytes; the bytes it took, in order, are exactly the first `nn` bytes of the
    body, where `nn` is the count `Write` returns (no byte skipped, none handed over twice after a short write); without
    an error that is the whole body; and a failing call is the last call (nothing is written after an error). -/
theorem chunked_writer_loses_and_repeats_nothing (n : Nat) (hn : 0 < n) (body : Bytes) (script : List Resp) :
    let o := write n hn body script
    (∀ c ∈ o.offered, c.length ≤ n ∧ c ≠ []) ∧
    o.accepted.flatten = body.take o.nn ∧
    o.nn ≤ body.length ∧
    (o.err = false → o.nn = body.length ∧ o.accepted.flatten = body ∧ o.offered.length = o.accepted.length) ∧
    (o.err = true → o.offered.length = o.accepted.length + 1) := by
  intro o
  have h1 := Lemmas.ChunkedWriter.loop_offered n hn body 0 script [] [] rfl (by simp)
  have h2 := Lemmas.ChunkedWriter.loop_accepted n hn body 0 script [] [] (by simp)
  have h3 := Lemmas.ChunkedWriter.loop_nn_le n hn body 0 script [] [] (Nat.zero_le _)
  refine ⟨h1.1, h2, h3, ?_, h1.2.2⟩
  intro hok
  have h4 := Lemmas.ChunkedWriter.loop_ok_all n hn body 0 script [] [] (Nat.zero_le _) hok
  refine ⟨h4, ?_, h1.2.1 hok⟩
  show (write n hn body script).accepted.flatten = body
  rw [show (write n hn body script).accepted.flatten = body.take (write n hn body script).nn from h2]
  rw [show (write n hn body script).nn = body.length from h4, List.take_length]

open Hc.ChunkedWriter in
/-- non-vacuity: a body of 5 bytes in chunks of 2 over a writer that takes 1 byte of the first slice, then fails on the
    third call: slices [0,1] [1,2] [3,4]; 3 bytes taken; the failing slice is the last one handed over. -/
example :
    write 2 (by decide) [0, 1, 2, 3, 4] [⟨1, false⟩, ⟨7, false⟩, ⟨0, true⟩]
      = ⟨3, true, [[0, 1], [1, 2], [3, 4]], [[0], [1, 2]]⟩ := by
  simp [write, loop]

end Hc.Props.C09
