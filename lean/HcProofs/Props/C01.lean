import HcProofs.Lemmas.Http
/-
  C01 — protected endpoints serve only pair-verified connections.
  Model: HcModel/Http.lean; route table: HcModel/Generated/Routes.lean (regenerated from /repo on every run).
  The handlers behind the middleware are arbitrary (`Handlers`), so "changes nothing / discloses nothing" is proved
  for every possible handler behaviour.
-/
namespace Hc.Props.C01
open Hc.Http Hc.Generated

/-- the regenerated route table: every registration that is not one of the three public endpoints is wrapped by
    the authentication middleware -/
theorem routes_protected : routesOk Hc.Generated.routes = true := by decide

theorem routes_protected_forall :
    ∀ r ∈ Hc.Generated.routes, r.path ∉ publicPaths → r.auth = true := by
  intro r hr hp
  have h := routes_protected
  simp only [routesOk, List.all_eq_true] at h
  have := h r hr
  simp only [Bool.or_eq_true, List.contains_iff_mem] at this
  rcases this with h1 | h1
  · exact absurd h1 hp
  · exact h1

/-- A request to a protected endpoint on a connection that is not verified is refused (470 with the constant
    error body; or 404 when the endpoint is not registered at all) and leaves the whole world — characteristic
    values, callbacks, subscriptions (`app`), the pairing store, every connection's handshake state — exactly as
    it was. Holds for every handler behaviour behind the middleware and every route table passing `routesOk`. -/
theorem refused_when_unverified {App P R} (rs : Routes) (hrs : routesOk rs = true) (H : Handlers App P R)
    (w : World App) (c : Nat) (ep : Endpoint) (p : P)
    (hep : ep.isProtected = true) (hv : (w.conns c).verified = false) :
    serve rs H w c (.plain ep p) = (w, .refused) ∨ serve rs H w c (.plain ep p) = (w, .notFound) := by
  simp only [serve]
  cases hl : lookup rs ep.path with
  | none => right; rfl
  | some r =>
    left
    obtain ⟨hp, hm⟩ := lookup_path hl
    have hauth : r.auth = true := by
      simp only [routesOk, List.all_eq_true] at hrs
      have := hrs r hm
      simp only [Bool.or_eq_true, List.contains_iff_mem] at this
      rcases this with h1 | h1
      · rw [hp] at h1; exact absurd h1 (protected_not_public ep hep)
      · exact h1
    simp [hauth, hv]

/-- …in particular with the route table of the current source tree -/
theorem refused_when_unverified_current {App P R} (H : Handlers App P R) (w : World App) (c : Nat) (ep : Endpoint)
    (p : P) (hep : ep.isProtected = true) (hv : (w.conns c).verified = false) :
    serve Hc.Generated.routes H w c (.plain ep p) = (w, .refused) ∨
    serve Hc.Generated.routes H w c (.plain ep p) = (w, .notFound) :=
  refused_when_unverified _ routes_protected H w c ep p hep hv

/-- A refused request discloses nothing: the answer does not depend on the application state or the store. -/
theorem no_disclosure {App P R} (rs : Routes) (hrs : routesOk rs = true) (H : Handlers App P R)
    (w₁ w₂ : World App) (c : Nat) (ep : Endpoint) (p : P) (hep : ep.isProtected = true)
    (h1 : (w₁.conns c).verified = false) (h2 : (w₂.conns c).verified = false) :
    (serve rs H w₁ c (.plain ep p)).2 = (serve rs H w₂ c (.plain ep p)).2 := by
  simp only [serve]
  cases hl : lookup rs ep.path with
  | none => rfl
  | some r =>
    obtain ⟨hp, hm⟩ := lookup_path hl
    have hauth : r.auth = true := by
      simp only [routesOk, List.all_eq_true] at hrs
      have := hrs r hm
      simp only [Bool.or_eq_true, List.contains_iff_mem] at this
      rcases this with h | h
      · rw [hp] at h; exact absurd h (protected_not_public ep hep)
      · exact h
    simp [hauth, h1, h2]

/-- One connection's verification never carries over: whatever happens on connection `c` (any request, or its
    close) leaves every other connection's session state untouched. -/
theorem verification_is_per_connection {App P R} (rs : Routes) (H : Handlers App P R) (w : World App)
    (c d : Nat) (hd : d ≠ c) (e : Ev P) (he : e = .close c ∨ ∃ r, e = .req c r) :
    (stepEv rs H w e).1.conns d = w.conns d :=
  other_conn_untouched rs H w c d hd e he

/-- A connection's verification status changes only through the pair-verify endpoint, and then only by the
    message characterised in C03: a finish sealed under the current exchange key carrying a signature by the key
    stored for the claimed name over (controller ephemeral key, name, this connection's accessory key of this exchange). -/
theorem verified_only_by_valid_finish {App P R} (rs : Routes) (H : Handlers App P R) (w : World App) (c : Nat)
    (r : Req P) (hch : ((serve rs H w c r).1.conns c).pv.installed ≠ (w.conns c).pv.installed) :
    ∃ name pk, (w.conns c).pv.step = .startResp ∧ w.store name = .key pk ∧
      r = .verify (.v3 (.sealed (w.conns c).pv.K true true (.tlv name (.valid pk (w.conns c).pv.other name c (w.conns c).pv.epoch)))) := by
  cases r with
  | setup m =>
    exfalso; apply hch
    simp only [serve]
    split <;> simp [setConn]
  | plain ep p =>
    exfalso; apply hch
    simp only [serve]
    split
    · rfl
    · split
      · rfl
      · split <;> rfl
  | verify m =>
    have hs : (Hc.PairVerify.step true c w.store (w.conns c).pv m).1.installed ≠ (w.conns c).pv.installed := by
      simpa [serve, setConn] using hch
    obtain ⟨name, pk, h1, h2, h3, _⟩ := Hc.PairVerify.step_install_iff c w.store (w.conns c).pv m (.inl hs)
    exact ⟨name, pk, h1, h2, by rw [h3]⟩

-- histories ------------------------------------------------------------------------------------------------

/-- Safety over whole histories, any number of connections, any interleaving, any handler behaviour: if the
    adversary's connections start unverified and never submit a finish that verifies (`Quiet`), then after the
    history they are still unverified, and the final world — every characteristic value, callback effect,
    subscription and stored pairing — is exactly what it would be had their requests to protected endpoints never
    been sent: each of them was refused without any effect. -/
theorem history_safety {App P R} (rs : Routes) (hrs : routesOk rs = true) (H : Handlers App P R) (adv : Nat → Bool)
    (w : World App) (evs : List (Ev P)) (hu : AllUnverified adv w) (hq : Quiet rs H adv w evs) :
    AllUnverified adv (runEv rs H w evs) ∧
    runEv rs H w evs = runEv rs H w (evs.filter (fun e => !advProtected adv e)) := by
  induction evs generalizing w with
  | nil => exact ⟨by simpa [runEv] using hu, rfl⟩
  | cons e es ih =>
    have hq1 : Quiet rs H adv w [e] := ⟨hq.1, trivial⟩
    have hu' := step_keeps_unverified rs H adv w e hu hq1
    have ⟨h1, h2⟩ := ih (stepEv rs H w e).1 hu' hq.2
    refine ⟨by simpa [runEv] using h1, ?_⟩
    by_cases hp : advProtected adv e = true
    · -- refused: the step is the identity on the world
      have hid : (stepEv rs H w e).1 = w := by
        cases e with
        | close c => simp [advProtected] at hp
        | req a r =>
          cases r with
          | setup m => simp [advProtected] at hp
          | verify m => simp [advProtected] at hp
          | plain ep p =>
            simp only [advProtected, Bool.and_eq_true] at hp
            have := refused_when_unverified rs hrs H w a ep p hp.2 (hu a hp.1)
            rcases this with h | h <;> simp [stepEv, h]
      simp only [runEv, List.foldl_cons, List.filter_cons, hp, Bool.not_true, Bool.false_eq_true, ↓reduceIte] at h2 ⊢
      rw [hid] at h2
      rw [hid]; exact h2
    · have hp' : advProtected adv e = false := by simpa using hp
      simp only [runEv, List.foldl_cons, List.filter_cons, hp', Bool.not_false, ↓reduceIte] at h2 ⊢
      exact h2

-- non-vacuity: a world with an unverified connection 0 and a verified connection 1 -------------------------
example : (Conn.init).verified = false := by decide
example : ({ pv := { Hc.PairVerify.init with installed := some (some 3) }, ps := Hc.PairSetup.init } : Conn).verified = true := by
  decide

end Hc.Props.C01
