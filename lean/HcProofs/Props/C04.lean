import HcModel.SpecController
import HcProofs.Lemmas.Srp
/-
  C04 — a specification-conformant controller can pair, verify and talk.
  The accessory procedure is parameterised by the labels / nonces / material orders regenerated from /repo
  (Generated/PairLabels.lean); the controller is the specification (HcModel/SpecController.lean).
-/
namespace Hc.Props.C04
open Hc.Spec Hc.Sym Hc.Sym.Term

/-- every HKDF salt/info, AEAD nonce, SRP parameter, session-key label and signature-material order found at the
    accessory's call sites in the current source equals the specification's -/
theorem labels_eq_spec : labelsOf Hc.Generated.labelRows = some specLabels := by decide

/-- every TLV8 tag, state, error and method constant of the specification has the specified value in the source -/
theorem tags_eq_spec : specConsts.all (fun c => Hc.Generated.pairConsts.contains c) = true := by decide

/-- the frame counter and length are little-endian on both paths of the session (C06 relies on the same rows) -/
theorem session_is_little_endian :
    ((Hc.Generated.labelRows.filter (fun r => r.kind == "endian")).all
      (fun r => r.a == "binary.LittleEndian.PutUint64" || r.a == "binary.LittleEndian.PutUint16")) = true := by decide

/-- For every setup code, controller identifier and key pair, accessory identity, SRP secrets, salt and ephemeral
    keys (all symbolic): the specification controller that knows the code completes pair-setup (its proof is accepted,
    the accessory's proof M2 verifies, exactly its name and key are stored, M6 opens and the accessory's signature
    verifies), then pair-verify (the accessory's signature verifies, its own is accepted against the stored key), and
    both sides derive the same two distinct direction keys. Stated for the accessory labels `specLabels`, which by
    `labels_eq_spec` are the labels of the current source. -/
theorem honest_run_succeeds (p : Params) (hcode : p.ctrlCode = p.code) :
    honestRun specLabels p =
      { m4Accepted := true, m4ProofOk := true, stored := some (p.ctrlName, edpub p.ctrlSk), m6Ok := true,
        v2Ok := true, v4Ok := true, keysAgree := true } := by
  simp [honestRun, specLabels, hcode, srpClientK, srpServerK, openAead, verifySig, material, catL, dhAcc, dhCtrl, S]

/-- the same, literally over the regenerated labels -/
theorem honest_run_succeeds_current (p : Params) (hcode : p.ctrlCode = p.code) (L : Labels)
    (hL : labelsOf Hc.Generated.labelRows = some L) :
    (honestRun L p).stored = some (p.ctrlName, edpub p.ctrlSk) ∧ (honestRun L p).v4Ok = true ∧
    (honestRun L p).keysAgree = true ∧ (honestRun L p).m6Ok = true ∧ (honestRun L p).v2Ok = true := by
  have : L = specLabels := by rw [labels_eq_spec] at hL; exact (Option.some.inj hL).symm
  subst this
  rw [honest_run_succeeds p hcode]; simp

/-- with a wrong setup code the same controller is refused at M4 and nothing is stored -/
theorem wrong_code_rejected (p : Params) (hcode : p.ctrlCode ≠ p.code) :
    (honestRun specLabels p).m4Accepted = false ∧ (honestRun specLabels p).stored = none := by
  have h : ¬ p.code = p.ctrlCode := fun h => hcode h.symm
  simp [honestRun, specLabels, srpClientK, srpServerK, S, h, hcode]

/-- Why the symbolic `srpK a b x` may be one term for both parties: the arithmetic of SRP-6a. With A = g^a, verifier
    v = g^x and B − k·v ≡ g^b, the accessory's (A·v^u)^b and the controller's (B − k·v)^(a+u·x) coincide mod N, for
    every group, all secrets and every u. (That nobody can compute it without x or b is the SRP assumption.) -/
theorem srp_key_agreement (g a b x u N : Nat) :
    (((g ^ a % N) * ((g ^ x % N) ^ u % N)) % N) ^ b % N = ((g ^ b % N) ^ (a + u * x)) % N :=
  Hc.Srp.key_agreement g a b x u N

-- non-vacuity: a concrete parameter set -----------------------------------------------------------------------------
def sample : Params :=
  { code := atom 1, ctrlCode := atom 1, ctrlName := atom 2, ctrlSk := atom 3, accName := atom 4, accSk := atom 5,
    salt := atom 6, a := atom 7, b := atom 8, ctrlEphSk := atom 9, accEphSk := atom 10 }
example : (honestRun specLabels sample).keysAgree = true := by decide
example : (honestRun specLabels { sample with ctrlCode := atom 99 }).stored = none := by decide

end Hc.Props.C04
