import HcProofs.Lemmas.PinXhm
import HcProofs.Lemmas.Config
import HcModel.FirstStart
import HcModel.Generated.ReachLock
import HcModel.Generated.CfgSave
import HcProofs.Lemmas.EntitiesRace
/-
  C20 — identity, configuration number and discoverability persist correctly; setup-code acceptance;
  setup URI round trip.
  Property theorems only; helper lemmas live in HcProofs/Lemmas/{PinXhm,Config}.lean.
-/
namespace Hc.Props.C20
open Hc Hc.Pin Hc.Xhm

/-! ## setup codes -/

/-- For every byte string: `ValidatePin` accepts it exactly when it has length 8, consists of ASCII digits only and
    is not one of the twelve trivial codes; and the accepted result is the `XXX-XX-XXX` formatting of the very same
    digits. (All strings — not an enumeration of codes.) -/
theorem pin_accept_iff (pin : Bytes) :
    (∃ r, validatePin pin = .ok r) ↔
      (pin.length = 8 ∧ (∀ b ∈ pin, 48 ≤ b.toNat ∧ b.toNat ≤ 57) ∧ pin ∉ trivialCodes) := by
  constructor
  · intro ⟨r, h⟩
    obtain ⟨h1, h2, h3, _⟩ := (validatePin_ok_iff pin r).mp h
    exact ⟨h2, fun b hb => (isDigit_iff b).mp (h3 b hb), h1⟩
  · intro ⟨h2, h3, h1⟩
    exact ⟨format pin, (validatePin_ok_iff pin _).mpr ⟨h1, h2, fun b hb => (isDigit_iff b).mpr (h3 b hb), rfl⟩⟩

/-- the accepted result is `abc-de-fgh` for the eight input bytes `abcdefgh` -/
theorem pin_format (pin r : Bytes) (h : validatePin pin = .ok r) :
    ∃ a b c d e f g i, pin = [a, b, c, d, e, f, g, i] ∧ r = [a, b, c, 45, d, e, 45, f, g, i] := by
  obtain ⟨_, h2, _, h4⟩ := (validatePin_ok_iff pin r).mp h
  obtain ⟨a, b, c, d, e, f, g, i, rfl⟩ := eight_of_length h2
  exact ⟨a, b, c, d, e, f, g, i, rfl, by rw [h4]; rfl⟩

/-- every rejection has exactly one of three reasons, tested in the order of the Go code (no panic outcome exists) -/
theorem pin_reject_reason (pin : Bytes) :
    (validatePin pin = .error .trivial ↔ pin ∈ trivialCodes) ∧
    (validatePin pin = .error .length ↔ pin ∉ trivialCodes ∧ pin.length ≠ 8) ∧
    (validatePin pin = .error .nondigit ↔ pin ∉ trivialCodes ∧ pin.length = 8 ∧ ∃ b ∈ pin, isDigit b = false) := by
  unfold validatePin
  by_cases h1 : pin ∈ trivialCodes
  · simp [h1]
  · have h1' : trivialCodes.contains pin = false := by
      simpa using fun h => h1 (List.contains_iff_mem.mp h)
    by_cases h2 : pin.length = 8
    · by_cases h3 : pin.all isDigit = true
      · have : ∀ b ∈ pin, isDigit b = true := List.all_eq_true.mp h3
        simp [h1, h2, h3]
        intro b hb; simp [this b hb]
      · have : ∃ b ∈ pin, isDigit b = false := by
          simpa [List.all_eq_true] using h3
        simp [h1, h2, h3, this]
    · simp [h1, h2]

/-- Over the whole code space: the eight-digit rendering of every number `n < 10^8` (leading zeros included) is
    accepted iff `n` is not one of the twelve trivial numbers. -/
theorem pin_accept_code (n : Nat) (h : n < 10 ^ 8) :
    (∃ r, validatePin (dec8 n) = .ok r) ↔ n ∉ trivialNums := by
  rw [pin_accept_iff]
  constructor
  · intro ⟨_, _, h3⟩ hn; exact h3 ((dec8_mem_trivial n h).mpr hn)
  · intro hn
    exact ⟨dec8_length n, fun b hb => (isDigit_iff b).mp (dec8_digits n b hb),
      fun hm => hn ((dec8_mem_trivial n h).mp hm)⟩

example : validatePin (dec8 102003) = .ok [48,48,49,45,48,50,45,48,48,51] := by rfl
example : validatePin [0xEF,0xBC,0x91,0xEF,0xBC,0x92,0x33,0x34] = .error .nondigit := by rfl  -- "１２34": 8 bytes, full-width digits

/-! ## setup URI -/

/-- For all codes below 10^8 (indeed below 2^27), all categories and all 4-bit flag sets, decoding the nine base-36
    digits of the packed payload returns code, category and flags. -/
theorem xhm_roundtrip (code cat flags : Nat) (hc : code < 10 ^ 8) (hcat : cat < 256) (hf : flags < 16) :
    fields (unbase36 (base36Digits 9 (payload code cat flags))) = { code := code, cat := cat, flags := flags } := by
  have hp := payload_lt code cat flags hcat
  have h27 : code < 2 ^ 27 := by simp only [Nat.reducePow] at *; omega
  rw [unbase36_digits, Nat.mod_eq_of_lt (by simp only [Nat.reducePow] at *; omega), fields_payload _ _ _ hcat,
    Nat.mod_eq_of_lt h27, Nat.mod_eq_of_lt hf]

/-- the digits survive the character encoding `0-9A-Z` -/
theorem xhm_chars_roundtrip (p : Nat) :
    optAll (((base36Digits 9 p).map b36char).map b36val) = some (base36Digits 9 p) :=
  optAll_map_b36 _ (base36Digits_lt 9 p)

/-- String level, for every accepted setup code, every setup id, category and list of flags: the raw code and its
    `XXX-XX-XXX` form produce the same URI, and a decoder recovers the numeric code, the category, the low four bits
    of the merged flags and the setup id from it. -/
theorem xhm_uri_roundtrip (pin r sid : Bytes) (cat : UInt8) (flags : List UInt8) (h : validatePin pin = .ok r) :
    ∃ u, xhmUri pin sid cat flags = some u ∧ xhmUri r sid cat flags = some u ∧
      decodeUri u = some ({ code := decVal pin, cat := cat.toNat, flags := mergeFlags flags % 16 }, sid) ∧
      decVal pin < 10 ^ 8 := by
  obtain ⟨_, h2, h3, h4⟩ := (validatePin_ok_iff pin r).mp h
  have hlt := decVal_eight_lt pin h2 h3
  have hcat : cat.toNat < 256 := cat.toNat_lt
  refine ⟨scheme ++ (base36Digits 9 (payload (decVal pin) cat.toNat (mergeFlags flags))).map b36char ++ sid, ?_, ?_, ?_, hlt⟩
  · simp [xhmUri, stripDash_digits pin h3, parseUint64_digits8 pin h2 h3]
  · simp [xhmUri, h4, stripDash_format pin h2 h3, parseUint64_digits8 pin h2 h3]
  · rw [decodeUri_build _ _ (base36Digits_length 9 _) (base36Digits_lt 9 _), unbase36_digits]
    have hp := payload_lt (decVal pin) cat.toNat (mergeFlags flags) hcat
    rw [Nat.mod_eq_of_lt (by simp only [Nat.reducePow] at *; omega), fields_payload _ _ _ hcat,
      Nat.mod_eq_of_lt (by simp only [Nat.reducePow] at *; omega)]

-- the documented example of util/xhmurl_test.go style: code 00102003, category 5 (lightbulb), flag IP, setup id HOME
example : (xhmUri (dec8 102003) [72,79,77,69] 5 [2]).map (String.fromUTF8! ∘ ByteArray.mk ∘ List.toArray)
    = some "X-HM://00520NTRNHOME" := by decide

/-! ## restart histories (model: HcModel/Config.lean; invariant `Identity` and the history folds `ctlOp`, `cfgOp`
      are defined in HcProofs/Lemmas/Config.lean)

  `H : J → β` is the content hash, an arbitrary function. A history is any `List Step` of
  start / pair / unpair / setValue / stop; a start is *accepted* when the accessory name is non-empty and
  `ValidatePin` accepts the setup code, otherwise it changes nothing (`start_rejected`). -/

section restart
open Hc.Config
variable {β : Type} [DecidableEq β] (H : J → β)

/-- The first accepted start on an empty storage directory creates the identity: the fresh device id and key pair
    are stored, and the transport runs under them, discoverable. -/
theorem first_start_creates_identity (c : StartCfg) (h : c.accepted = true) :
    Identity c.freshId c.freshKey (step H ({} : St β) (.start c)).1 ∧
    ∃ r, (step H ({} : St β) (.start c)).1.run = some r ∧ r.discoverable = true ∧ r.version = 1 := by
  simp only [step]
  rw [start_accepted H _ c h]
  refine ⟨⟨rfl, ?_, ?_, ?_, ?_⟩, _, rfl, ?_, ?_⟩
  · simp [ensureDevice, lookup, upsert]
  · simp [ensureDevice, lookup, upsert, names]
  · intro n hn
    have : ¬ c.freshId = n := fun e => hn e.symm
    simp [ownEntity, ensureDevice, lookup, upsert, this]
  · intro r hr; cases hr
    simp [ensureDevice, lookup, upsert, paired, controllers]
  · simp [ensureDevice, lookup, upsert, paired]
  · simp [bump]

/-- Over EVERY history of start / pair / unpair / value change / stop — also pairings and removals that name the
    accessory's own device id, which are refused (F16 repair; the earlier form of this theorem had to assume there are
    none): a restart runs under the same device id and the same long-term key pair, leaves the stored entities as they
    were before the restart, and the stored controller pairings are exactly the pair / unpair operations of the history
    applied, in order, to the pairings stored at the beginning (nothing else touches them). -/
theorem identity_persists (s : St β) (id key : Nat) (hi : Identity id key s) (hist : List Step)
    (c : StartCfg) (hc : c.accepted = true) :
    (∃ r, (step H (run H s hist) (.start c)).1.run = some r ∧ r.id = id ∧ r.devPub = key ∧ r.devPriv = some key) ∧
    (step H (run H s hist) (.start c)).1.store.uuid = some id ∧
    lookup id (step H (run H s hist) (.start c)).1.store.entities = some ⟨id, key, some key⟩ ∧
    (step H (run H s hist) (.start c)).1.store.entities = (run H s hist).store.entities ∧
    controllers id (run H s hist).store.entities = hist.foldl (ctlOp id) (controllers id s.store.entities) := by
  have h1 := run_identity H hi hist
  refine ⟨?_, ?_, ?_, ?_, run_controllers H hi hist⟩
  all_goals simp only [step]; rw [start_identity H h1 c hc]
  · exact ⟨_, rfl, rfl, rfl, rfl⟩
  · exact h1.dev

/-- The same from an empty storage directory: whatever happens between the first start and a later restart — including
    pairings and removals under the device id —, the restart runs under the id and key pair created by the first start. -/
theorem identity_persists_from_fresh (c0 c : StartCfg) (h0 : c0.accepted = true) (hc : c.accepted = true)
    (hist : List Step) :
    ∃ r, (run H ({} : St β) (.start c0 :: hist ++ [.start c])).run = some r ∧
      r.id = c0.freshId ∧ r.devPub = c0.freshKey ∧ r.devPriv = some c0.freshKey := by
  have hi := (first_start_creates_identity H c0 h0).1
  have := (identity_persists H _ _ _ hi hist c hc).1
  simpa only [run, run_append] using this

/-- the history of F16 on the model of the repaired code: a pairing under the device id between two starts changes
    nothing -/
example : ((run (fun _ => 0) ({} : St Nat)
      [.start ⟨dec8 102003, [], 8, false, 10000, 20000, .obj []⟩, .pair 10000 501, .unpair 10000,
       .start ⟨dec8 102003, [], 8, false, 10000, 20000, .obj []⟩]).run.map
        fun r => (r.devPub, r.devPriv)) = some (20000, some 20000) := by rfl

/-- F16 before the repair (`stepOld`: no guard): a pairing stored under the accessory's own device id replaces the
    accessory's entity; the next start runs under the controller's key and has no private key. -/
theorem identity_lost_when_pairing_name_is_device_id_refuted :
    ∃ (c : StartCfg) (k : Nat), c.accepted = true ∧ k ≠ c.freshKey ∧
      (([Step.start c, .pair c.freshId k, .start c].foldl (fun s st => (stepOld (fun _ => 0) s st).1) ({} : St Nat)).run.map
        fun r => (r.devPub, r.devPriv)) = some (k, none) :=
  ⟨{ pin := dec8 102003, setupId := [], cat := 8, nameEmpty := false, freshId := 10000, freshKey := 20000, db := .obj [] },
   501, by rfl, by decide, by rfl⟩

/-- One start: the stored (and advertised) configuration number is the previous one plus one if the hash of the
    value-stripped new database differs from the stored hash, else the previous one; the new hash is stored. -/
theorem config_number (s : St β) (c : StartCfg) (hc : c.accepted = true) (v : Nat) (old : J)
    (hv : s.store.version = some v) (hh : s.store.configHash = some (H (strip old))) :
    (step H s (.start c)).1.store.version = some (if H (strip c.db) ≠ H (strip old) then v + 1 else v) ∧
    (step H s (.start c)).1.store.configHash = some (H (strip c.db)) ∧
    ∃ r, (step H s (.start c)).1.run = some r ∧ r.version = (if H (strip c.db) ≠ H (strip old) then v + 1 else v) := by
  simp only [step]
  rw [start_accepted H s c hc]
  have hb : bump s.store.configHash (H (strip c.db)) (s.store.version.getD 1)
      = if H (strip c.db) ≠ H (strip old) then v + 1 else v := by
    simp only [bump, hh, hv, Option.getD_some]
    by_cases e : H (strip old) = H (strip c.db)
    · simp [e]
    · have e' : ¬ H (strip c.db) = H (strip old) := fun x => e x.symm
      simp [e, e']
  exact ⟨by simp only [hb], rfl, _, rfl, hb⟩

/-- With a hash that separates the two databases at hand, "hash differs" is "structure differs": the number goes up
    by one exactly when the value-stripped databases differ. -/
theorem config_number_iff_structure (s : St β) (c : StartCfg) (hc : c.accepted = true) (v : Nat) (old : J)
    (hv : s.store.version = some v) (hh : s.store.configHash = some (H (strip old)))
    (hinj : H (strip c.db) = H (strip old) → strip c.db = strip old) :
    ((step H s (.start c)).1.store.version = some (v + 1) ↔ strip c.db ≠ strip old) ∧
    ((step H s (.start c)).1.store.version = some v ↔ strip c.db = strip old) := by
  rw [(config_number H s c hc v old hv hh).1]
  by_cases e : strip c.db = strip old
  · simp [e]
  · have : H (strip c.db) ≠ H (strip old) := fun x => e (hinj x)
    simp [e, this]

-- the injectivity hypothesis is satisfiable (the driver instantiates H by the canonical text, here by the identity)
example (a b : J) : (fun t : J => t) (strip a) = (fun t : J => t) (strip b) → strip a = strip b := id

/-- Changing characteristic values — any number of them, anywhere in the database — does not change the
    value-stripped database, hence not its hash. -/
theorem strip_ignores_values (cs : List (List Nat × J)) (db : J) : strip (setMany cs db) = strip db :=
  strip_setMany cs db

/-- the value-stripped database contains no value any more: stripping again changes nothing -/
theorem strip_idempotent (db : J) : strip (strip db) = strip db := strip_idem db

/-- Over every history: the stored (content hash, configuration number) after the history is the fold of the
    accepted starts over the stored pair at the beginning — each accepted start stores its hash and applies the
    increment rule of `config_number`; an emptied `version` file reads as 1, an emptied `configHash` file as "no hash"
    (no increment at the next start); pairings, removals, value changes, stops and rejected starts never touch them. -/
theorem config_number_history (s : St β) (hist : List Step) :
    ((run H s hist).store.configHash, (run H s hist).store.version.getD 1)
      = hist.foldl (cfgOp H) (s.store.configHash, s.store.version.getD 1) :=
  run_cfg H s hist

/-- Value changes never increment: after a start with database `db`, any history without a start (and without loss of the `version` / `configHash` files), then a restart
    with the same database up to characteristic values, keeps the configuration number. -/
theorem values_never_increment (s : St β) (v : Nat) (db : J) (hv : s.store.version = some v)
    (hh : s.store.configHash = some (H (strip db))) (hist : List Step)
    (hns : ∀ st ∈ hist, st.touchesConfig = false) (cs : List (List Nat × J)) (c : StartCfg) (hc : c.accepted = true)
    (hdb : c.db = setMany cs db) :
    (step H (run H s hist) (.start c)).1.store.version = some v := by
  have hfold : ∀ (p : Option β × Nat), hist.foldl (cfgOp H) p = p := by
    intro p
    induction hist generalizing p with
    | nil => rfl
    | cons x xs ih =>
      simp only [List.foldl_cons]
      have : cfgOp H p x = p := by
        cases x with
        | start c' => exact absurd (hns (.start c') (by simp)) (by simp [Step.touchesConfig])
        | wipe k => exact absurd (hns (.wipe k) (by simp)) (by simp [Step.touchesConfig])
        | _ => rfl
      rw [this]; exact ih (fun st hst => hns st (by simp [hst])) p
  have h1 := run_cfg H s hist
  rw [hfold] at h1
  simp only [cfgOf, hv, hh, Option.getD_some, Prod.mk.injEq] at h1
  have hc1 := step_cfg H (run H s hist) (.start c)
  simp only [cfgOf, cfgOp, hc, if_true, h1.1, h1.2, Prod.mk.injEq] at hc1
  have hver := hc1.2
  rw [hdb, strip_setMany] at hver
  simp only [bump, ne_eq, not_true_eq_false, if_false] at hver
  simp only [step] at hver ⊢
  rw [start_accepted H _ c hc] at hver ⊢
  simpa using hver

example : ∀ st ∈ [Step.pair 1 500, .stop, .unpair 1, .setValue [0] (.leaf 3), .pair 2 501], st.touchesConfig = false := by decide

/-- After every step of EVERY history: a live transport advertises itself as discoverable exactly when no controller
    pairing is stored — and that is what the Go criterion "at most one stored entity" amounts to. -/
theorem discoverable_iff_unpaired (s : St β) (id key : Nat) (hi : Identity id key s) (hist : List Step) :
    ∀ r, (run H s hist).run = some r →
      (r.discoverable = (controllers id (run H s hist).store.entities).isEmpty ∧
       r.discoverable = !paired (run H s hist).store.entities) := by
  intro r hr
  have h1 := run_identity H hi hist
  have h2 := (h1.run r hr).2.2.2
  refine ⟨h2, ?_⟩
  rw [h2, paired_iff id _ _ h1.nodup h1.dev]; simp

/-- the setup URI of a running transport decodes to its setup code, category, the IP flag and its setup id -/
theorem running_uri_roundtrip (s : St β) (c : StartCfg) (hc : c.accepted = true) :
    ∃ r u, (step H s (.start c)).1.run = some r ∧ r.uri = some u ∧
      decodeUri u = some ({ code := decVal c.pin, cat := c.cat.toNat, flags := 2 }, c.setupId) := by
  have hp : ∃ f, validatePin c.pin = .ok f := by
    unfold StartCfg.accepted at hc
    cases h : validatePin c.pin with
    | ok f => exact ⟨f, rfl⟩
    | error e => simp [h] at hc
  obtain ⟨f, hf⟩ := hp
  obtain ⟨u, hu, _, hd, _⟩ := xhm_uri_roundtrip c.pin f c.setupId c.cat [2] hf
  simp only [step]
  rw [start_accepted H s c hc]
  exact ⟨_, u, rfl, hu, hd⟩

/-! ### restarts during which stored values cannot be read (F64; model `startF`, `runF` in HcModel/Config.lean) -/

/-- One restart during which ANY of the four reads (id, configuration number, content hash, the accessory's own entity)
    fail with an error other than "no such value": nothing stored changes — the id, the key pair, every pairing, the
    configuration number and the hash are what they were —, and the constructor returns the error instead of a transport.
    Without a failing read the restart is the ordinary one. -/
theorem restart_with_read_errors_changes_nothing (s : St β) (id key : Nat) (hi : Identity id key s)
    (c : StartCfg) (hc : c.accepted = true) (f : Faults) :
    (f.load = true ∨ f.entity = true →
      (startF H s c f).1 = s ∧ (startF H s c f).2 = none) ∧
    (f.load = false ∧ f.entity = false → startF H s c f = ((start H s c).1, some .started)) := by
  have hs := (start_out_started H s c).mpr hc
  constructor
  · intro hf
    refine ⟨?_, ?_⟩
    · rw [startF_identity H hi c f]
      rcases hf with h | h <;> simp [h]
    · unfold startF
      rw [if_pos hs]
      rcases hf with h | h
      · simp [h]
      · by_cases hl : f.load = true <;> simp [hl, h]
  · intro ⟨hl, he⟩
    unfold startF
    simp [hs, hl, he]

/-- Over EVERY history of restarts — each with any set of failing reads —, pairings, removals, value changes and stops:
    the stored device id and key pair are the ones of the beginning, the stored controller pairings are exactly the
    pair / unpair operations of the history applied in order (no restart, faulty or not, touches them), and a later
    restart whose reads succeed runs under that id and key pair and is discoverable exactly when no pairing is stored. -/
theorem identity_persists_under_read_errors (s : St β) (id key : Nat) (hi : Identity id key s)
    (hist : List (Step × Faults)) (c : StartCfg) (hc : c.accepted = true) :
    (runF H s hist).store.uuid = some id ∧
    lookup id (runF H s hist).store.entities = some ⟨id, key, some key⟩ ∧
    controllers id (runF H s hist).store.entities
      = (hist.map (·.1)).foldl (ctlOp id) (controllers id s.store.entities) ∧
    ∃ r, (startF H (runF H s hist) c {}).1.run = some r ∧ r.id = id ∧ r.devPub = key ∧ r.devPriv = some key ∧
      r.discoverable = (controllers id (runF H s hist).store.entities).isEmpty := by
  have h1 := runF_identity H hi hist
  refine ⟨h1.uuid, h1.dev, runF_controllers H hi hist, ?_⟩
  rw [startF_identity H h1 c {}]
  simp only [hc, Faults.load, Bool.or_self, and_self, if_true]
  rw [start_identity H h1 c hc]
  exact ⟨_, rfl, rfl, rfl, rfl, rfl⟩

/-- a restart never lowers the stored configuration number, whichever reads fail -/
theorem config_number_never_decreases_under_read_errors (s : St β) (id key : Nat) (hi : Identity id key s)
    (c : StartCfg) (f : Faults) (v : Nat) (hv : s.store.version = some v) :
    ∃ v', (startF H s c f).1.store.version = some v' ∧ v ≤ v' := by
  rw [startF_identity H hi c f]
  split
  · rename_i h
    rw [start_identity H hi c h.1]
    exact ⟨_, rfl, by simpa [hv] using bump_ge s.store.configHash (H (strip c.db)) v⟩
  · exact ⟨v, hv, Nat.le_refl v⟩

-- the hypotheses are met by the state a first start and a pairing leave behind, and a faulty restart is refused there
example :
    let c : StartCfg := ⟨dec8 102003, [], 8, false, 10000, 20000, .obj []⟩
    let s := run (fun _ => 0) ({} : St Nat) [.start c, .pair 1 501]
    (startF (fun _ => 0) s { c with freshId := 10001, freshKey := 20001 } { uuid := true }).2 = none ∧
    (startF (fun _ => 0) s { c with freshId := 10001, freshKey := 20001 } { uuid := true }).1.store.uuid = some 10000 := by
  decide

/-- F64 before the repair (`startFOld`: an unreadable value is a missing value). One restart during which the id cannot
    be read stores a NEW id and a new key pair; the old entity stays behind and counts as a controller pairing, so the
    accessory is no longer discoverable though no controller was ever paired. One restart during which only the entity
    cannot be read stores a new key pair over the old one. One during which the number cannot be read starts again at 1. -/
theorem restart_read_error_unfixed_refuted :
    let c : StartCfg := ⟨dec8 102003, [], 8, false, 10000, 20000, .obj []⟩
    let c' : StartCfg := { c with freshId := 10001, freshKey := 20001 }
    let s := run (fun _ => 0) ({} : St Nat) [.start c]
    let Hh : J → Nat := fun | .obj [] => 0 | _ => 1
    ((startFOld (fun _ => 0) s c' { uuid := true }).1.store.uuid = some 10001 ∧
     (startFOld (fun _ => 0) s c' { uuid := true }).1.run.map (·.discoverable) = some false) ∧
    (lookup 10000 (startFOld (fun _ => 0) s c' { entity := true }).1.store.entities = some ⟨10000, 20001, some 20001⟩) ∧
    ((run Hh (run Hh ({} : St Nat) [.start c]) [.start { c with db := .obj [(1, .leaf 0)] }]).store.version = some 2 ∧
     (startFOld Hh (run Hh ({} : St Nat) [.start c, .start { c with db := .obj [(1, .leaf 0)] }])
        { c with db := .obj [(1, .leaf 0)] } { version := true }).1.store.version = some 1) := by
  decide

/-! ### the advertisement when the pairings cannot be listed (F66; `advertised` in HcModel/Config.lean) -/

/-- Whatever is stored and whether or not the listing of the entities succeeds: the accessory advertises itself as
    discoverable only when no controller pairing is stored; and when the listing succeeds, exactly then. -/
theorem never_discoverable_while_paired (es : List Entity) (id : Nat) (d : Entity)
    (hn : (names es).Nodup) (hd : lookup id es = some d) (listingFails : Bool) :
    (advertised listingFails es = true → controllers id es = []) ∧
    (listingFails = false → (advertised listingFails es = true ↔ controllers id es = [])) := by
  have hp := paired_iff id es d hn hd
  constructor
  · intro h
    simp only [advertised, Bool.not_eq_true', Bool.or_eq_false_iff] at h
    have : (controllers id es).isEmpty = true := by
      have := congrArg (!·) hp; simp [h.2] at this; simpa using this
    simpa using this
  · intro hf
    subst hf
    simp only [advertised, Bool.false_or]
    rw [hp]; simp

/-- F66 before the repair (`advertisedOld`): one pairing is stored, the listing fails, and the accessory announces that
    it can be paired. -/
theorem discoverable_while_paired_unfixed_refuted :
    advertisedOld true [⟨10000, 20000, some 20000⟩, ⟨1, 501, none⟩] = true ∧
    controllers 10000 [⟨10000, 20000, some 20000⟩, ⟨1, 501, none⟩] ≠ [] := by
  decide

end restart

open Hc.FirstStart in
/-- A first start that ends after any number `k` of its identity writes (killed, or an early error return such as a
    failing mDNS responder), followed by a complete start, for all ids the two starts may draw: exactly one entity is
    stored, it is stored under the id in `uuid`, and the accessory is discoverable (F28 repair). -/
theorem first_start_crash_keeps_one_identity (k f1 f2 : Nat) :
    let d := crashThenStart true k f1 f2
    (∃ i, d.ents = [i] ∧ d.uuid = some i) ∧ discoverable d = true := by
  match k with
  | 0 => simp [crashThenStart, startWrites, FirstStart.apply, applyW, Disk.empty, discoverable]
  | 1 => simp [crashThenStart, startWrites, FirstStart.apply, applyW, Disk.empty, discoverable]
  | 2 => simp [crashThenStart, startWrites, FirstStart.apply, applyW, Disk.empty, discoverable]
  | k + 3 => simp [crashThenStart, startWrites, FirstStart.apply, applyW, Disk.empty, discoverable]

open Hc.FirstStart in
/-- before the repair (entity first, uuid last): killed after the first write, the next start draws a new id and stores a
    second entity — the orphan counts as a controller pairing, the accessory is never discoverable again -/
theorem first_start_crash_unfixed_refuted :
    (crashThenStart false 1 1 2).ents = [1, 2] ∧ discoverable (crashThenStart false 1 1 2) = false := by decide

/-- Two handlers of different connections update the discoverable flag at the same time ("read the pairing store, then
    assign"). Without a lock: connection 1 reads "no pairing" (it has just removed the last one), connection 2 adds a
    pairing, reads "paired" and assigns false, then connection 1 assigns its stale true — the accessory advertises itself
    as discoverable although a pairing is stored. `lostUpdate` is that interleaving on a two-variable model. -/
def lostUpdate : Bool :=
  let paired0 := false          -- after connection 1's removal
  let read1 := !paired0         -- connection 1 evaluates "discoverable = not paired" …
  let paired1 := true           -- connection 2 adds a pairing
  let read2 := !paired1         -- … connection 2 evaluates and assigns
  let flagAfter2 := read2
  let flagAfter1 := read1       -- connection 1 assigns its stale result last
  let _ := flagAfter2
  flagAfter1 && paired1         -- advertised discoverable while paired

theorem reachability_unlocked_refuted : lostUpdate = true := by decide

/-- shape of `updateMDNSReachability` in the source now (Generated/ReachLock.lean): one lock acquisition first, released
    by a deferred unlock, and the read of the pairing store, the assignment and the advertisement all inside — two
    updates never interleave, the later one reads the store after the earlier one has assigned (F29 repair). -/
def reachLockOk : List String → Bool
  | "Lock" :: "deferUnlock" :: rest =>
      rest.contains "readPairings" && rest.contains "assignDiscoverable" &&
      rest.all (fun s => s == "readPairings" || s == "assignDiscoverable" || s == "advertise")
  | _ => false

theorem reachability_update_serialised : reachLockOk Hc.Generated.reachPath = true := by decide

-- the configuration number across a killed start ---------------------------------------------------------------------
open Hc.CfgCrash in
/-- The structure of the accessory database changed (the stored hash `h0` differs from the new structure's hash `h`) and
    the start that notices it is killed after ANY number `k` of its configuration writes. The next complete start with
    the new structure announces a configuration number greater than the one controllers saw before the change (by one, or
    by two when the killed start had already stored its number), stores the new hash, and every later start with that
    structure announces the same number again. -/
theorem restructure_crash_still_increases (v h0 h k : Nat) (hne : h0 ≠ h) :
    let d := crashThenStart false ⟨some v, some h0⟩ h k
    (d.version = some (v + 1) ∨ d.version = some (v + 2)) ∧ d.hash = some h ∧
    announced d h = d.version.getD 1 ∧ apply d (startWrites false d h) = d := by
  match k with
  | 0 => simp [crashThenStart, startWrites, CfgCrash.apply, CfgCrash.applyW, announced, hne]
  | 1 => simp [crashThenStart, startWrites, CfgCrash.apply, CfgCrash.applyW, announced, hne]
  | k + 2 => simp [crashThenStart, startWrites, CfgCrash.apply, CfgCrash.applyW, announced, hne]

open Hc.CfgCrash in
/-- With the hash stored BEFORE the number, a start killed between the two leaves the new hash next to the old number:
    the next start sees nothing to announce and controllers keep their cached database for good. -/
theorem restructure_crash_hash_first_refuted :
    (crashThenStart true ⟨some 4, some 10⟩ 11 1).version = some 4 ∧ (crashThenStart true ⟨some 4, some 10⟩ 11 1).hash = some 11 := by
  decide

/-- `(*Config).save` in the source now (Generated/CfgSave.lean) stores the configuration number before the hash of the
    structure it announces — the order `restructure_crash_still_increases` is about — and nothing it stores is computed
    from something other than a literal key. -/
theorem config_save_order_regenerated :
    Hc.Generated.cfgSaveOrder.idxOf "version" < Hc.Generated.cfgSaveOrder.idxOf "configHash" ∧
    Hc.Generated.cfgSaveOrder.idxOf "configHash" < Hc.Generated.cfgSaveOrder.length ∧
    Hc.Generated.cfgSaveOrder.all (· != "?") = true := by decide

/-! ## the listing of the pairings while another connection removes one (F55) -/

open Hc.Storage Hc.Fs in
/-- `isPaired` (discoverability) and every pair-verify lookup go through `Entities()`: the keys are listed, then each is
    read. When other connections REMOVE pairings in between — any number of them, at any of the reads —, the listing still
    succeeds, returns nothing that was not stored, and returns every entity whose file was not touched: as long as one
    controller pairing remains, the accessory does not advertise itself as unpaired (F55 repair: a vanished file is
    skipped; before it the whole listing failed and `isPaired` read the failure as "not paired"). -/
theorem listing_survives_concurrent_removal (C : Codec) (d0 : Dir) (at_ : Key → Dir) (l0 : List Entity)
    (hq : entities C d0 = .entities l0)
    (hr : ∀ k ∈ listSuffix d0 entitySuffix, OnlyRemovals d0 at_ k) :
    ∃ l, entitiesRace C true d0 at_ = .entities l ∧ l.Sublist l0 ∧
      ∀ k ∈ listSuffix d0 entitySuffix, lookup (at_ k) (fileName k) = lookup d0 (fileName k) →
        ∀ e, entityForKey C d0 k = some e → e ∈ l := by
  unfold entities at hq
  cases ha : allSome ((listSuffix d0 entitySuffix).map (entityForKey C d0)) with
  | none => simp [ha] at hq
  | some l1 =>
    simp [ha] at hq
    subst hq
    obtain ⟨l, hl, hsub, hmem⟩ := race_list C d0 at_ _ l1 ha hr
    exact ⟨l, by simp [entitiesRace, hl], hsub, hmem⟩

open Hc.Storage Hc.Fs in
/-- `ipTransport.isPaired`: a listing that succeeds with more than one entity (the accessory's own is one of them) -/
def isPairedOf : DbRes → Bool
  | .entities l => decide (1 < l.length)
  | _ => false

open Hc.Storage Hc.Fs in
/-- Discoverability while pairings are removed: as long as two entities are left alone by whatever is removed during the
    listing — the accessory's own and one controller's —, the accessory finds itself paired, whenever the listing runs and
    however the removals fall between its reads. (Before F55 one removal in the wrong moment made it advertise `sf=1`.) -/
theorem still_paired_while_others_are_removed (C : Codec) (d0 : Dir) (at_ : Key → Dir) (l0 : List Entity)
    (hq : entities C d0 = .entities l0)
    (hr : ∀ k ∈ listSuffix d0 entitySuffix, OnlyRemovals d0 at_ k)
    (k1 k2 : Key) (e1 e2 : Entity) (hne : e1 ≠ e2)
    (h1 : k1 ∈ listSuffix d0 entitySuffix) (h2 : k2 ∈ listSuffix d0 entitySuffix)
    (hs1 : lookup (at_ k1) (fileName k1) = lookup d0 (fileName k1)) (hs2 : lookup (at_ k2) (fileName k2) = lookup d0 (fileName k2))
    (he1 : entityForKey C d0 k1 = some e1) (he2 : entityForKey C d0 k2 = some e2) :
    isPairedOf (entitiesRace C true d0 at_) = true := by
  obtain ⟨l, hl, _, hmem⟩ := listing_survives_concurrent_removal C d0 at_ l0 hq hr
  have m1 := hmem k1 h1 hs1 e1 he1
  have m2 := hmem k2 h2 hs2 e2 he2
  rw [hl]
  simp only [isPairedOf, decide_eq_true_eq]
  match l, m1, m2 with
  | [], m1, _ => simp at m1
  | [x], m1, m2 =>
    simp at m1 m2
    exact absurd (m1.trans m2.symm) hne
  | _ :: _ :: _, _, _ => simp

open Hc.Storage Hc.Fs in
/-- two pairings stored; the second is removed after the keys were listed: the unrepaired listing fails as a whole (and
    the accessory would announce itself as unpaired although the first pairing is untouched), the repaired one returns the
    first -/
theorem listing_concurrent_removal_unfixed_refuted :
    let e1 : Entity := ⟨[97], [1], []⟩
    let e2 : Entity := ⟨[98], [2], []⟩
    let d0 : Dir := [(toEntityKey [97], modelCodec.enc e1), (toEntityKey [98], modelCodec.enc e2)]
    let at_ : Key → Dir := fun k => if k = toEntityKey [98] then [(toEntityKey [97], modelCodec.enc e1)] else d0
    entities modelCodec d0 = .entities [e1, e2] ∧
    entitiesRace modelCodec false d0 at_ = .err ∧ entitiesRace modelCodec true d0 at_ = .entities [e1] := by
  decide

end Hc.Props.C20
