import HcModel.Generated.PairLabels
import HcProofs.Lemmas.Framing
import HcProofs.Lemmas.ConnRead
/-
  C05 — any alteration of the encrypted stream is detected.
  Property theorems only; helper lemmas live in HcProofs/Lemmas/Framing.lean.

  Frame level (`rxCall`, `DFrame`): the adversary delivers any list of frames, each either the sender's
  unmodified `i`-th frame (`genuine i`), anything else that is a complete frame (`forged`: bit flips, frames
  of the other direction or another session, garbage — by the AEAD assumption these open under no counter of
  the receiver's key), or a cut frame (`truncated`), in any batches (= Decrypt calls).
  Byte level (`decrypt`): arbitrary bytes, AEAD idealised only by `Crypto.Sound` (what opens was sealed).
-/
namespace Hc.Props.C05
open Hc Hc.Framing

/-- For every sender history `sent` (the chunks of all frames ever sealed in this direction, any number of
    messages) and every delivered frame list split into every sequence of Decrypt calls: everything released
    so far is `0, 1, …, k-1` — as bytes, exactly the first `k` chunks of what was sent — where `k` is the
    receiver's counter, and `k` never exceeds the number of frames sent. -/
theorem released_is_prefix (sent : List Bytes) (calls : List (List DFrame)) :
    let s := rxCalls sent ⟨0, []⟩ calls
    s.released = List.range' 0 s.cnt ∧ s.cnt ≤ sent.length ∧
      releasedBytes sent s.released = (sent.take s.cnt).flatten := by
  have h := rxCalls_good sent ⟨0, []⟩ calls ⟨by simp, by simp⟩
  refine ⟨h.1, h.2, ?_⟩
  rw [h.1, releasedBytes_range]

/-- The same from any reachable receiver state, call by call: a call either fails — then it releases
    nothing and leaves the state (counter included) exactly as it was — or releases exactly the next chunks
    `cnt, cnt+1, …` and consumed exactly the frames `genuine cnt, genuine (cnt+1), …` from the front of its input. -/
theorem call_releases_next_or_nothing (sent : List Bytes) (s : Rx) (batch : List DFrame) :
    (∃ e, rxCall sent s batch = (s, .error e)) ∨
    (∃ is rest, rxCall sent s batch = (⟨s.cnt + is.length, s.released ++ is⟩, .ok is rest) ∧
        is = List.range' s.cnt is.length ∧ batch = is.map .genuine ++ rest) := by
  unfold rxCall
  split
  · rename_i c is r hl
    obtain ⟨h1, h2, h3, _⟩ := rxLoop_ok sent s.cnt batch c is r hl
    exact .inr ⟨is, r, by rw [h2], h1, h3⟩
  · rename_i e _; exact .inl ⟨e, rfl⟩

/-- An error is reported no later than the first altered frame: if the frames of a call before `f` are the
    next genuine ones (all full, so the call goes on) and `f` is anything but the next genuine frame — forged,
    cut, out of order, a replay, a frame the sender never produced — then this very call returns an error
    (`short` for a cut frame, otherwise `auth`), releases nothing and leaves the state unchanged. -/
theorem error_at_first_alteration (sent : List Bytes) (s : Rx) (pre : List DFrame) (f : DFrame) (post : List DFrame)
    (hpre : InOrderFull sent s.cnt pre) (hf : ¬ IsNext sent (s.cnt + pre.length) f) :
    rxCall sent s (pre ++ f :: post) = (s, .error (if f = .truncated then .short else .auth)) := by
  unfold rxCall
  rw [rxLoop_error sent s.cnt pre f post hpre hf]

/-- Pure truncation at a frame boundary (nothing altered, the input just ends): the call succeeds and
    releases exactly the delivered prefix. -/
theorem truncation_at_boundary (sent : List Bytes) (s : Rx) (pre : List DFrame) (hpre : InOrderFull sent s.cnt pre) :
    rxCall sent s pre = (⟨s.cnt + pre.length, s.released ++ List.range' s.cnt pre.length⟩,
      .ok (List.range' s.cnt pre.length) []) := by
  have h : ∀ (c : Nat) (pre : List DFrame), InOrderFull sent c pre →
      rxLoop sent c pre = .ok (c + pre.length, List.range' c pre.length, []) := by
    intro c pre
    induction pre generalizing c with
    | nil => intro _; simp [rxLoop]
    | cons p ps ih =>
      intro hp
      obtain ⟨h0, ch, hch, hfull⟩ := hp 0 (by simp)
      simp only [List.getElem_cons_zero, Nat.add_zero] at h0 hch
      subst h0
      have hp' : InOrderFull sent (c + 1) ps := by
        intro j hj
        have := hp (j + 1) (by simp; omega)
        simp only [List.getElem_cons_succ] at this
        rw [show c + (j + 1) = c + 1 + j by omega] at this
        exact this
      simp only [rxLoop, hch, if_true, hfull, if_false, ih (c + 1) hp', List.length_cons, List.range'_succ]
      congr 2; omega
  unfold rxCall
  rw [h s.cnt pre hpre]

/-! ### truncation inside a frame, at the connection (model: HcModel/ConnRead.lean, C07's; F65) -/

section cut
open Hc.ConnRead
variable {α : Type}

/-- Whatever is buffered, in flight and still to come, and however the network delivers it: when the loop of
    `DecryptedRead` reports the clean end of the stream (`io.EOF`), nothing of a frame is left in its buffer — the stream
    ended between two frames, which no receiver can tell from an orderly close —; and when the stream ends while part of
    a frame is buffered it reports `io.ErrUnexpectedEOF` and closes the connection. So a frame that was cut in the middle
    is reported as an error, never as the end of the stream. -/
theorem truncation_inside_frame_is_reported (buf flight : Nat) (closed : Bool) (todo : List (Frame α)) (net : List Ev) :
    ((fetchAux buf flight closed todo net).2.2 = some .eof → (fetchAux buf flight closed todo net).1.buf = 0) ∧
    ((fetchAux buf flight closed todo net).2.2 = some .cut →
      0 < (fetchAux buf flight closed todo net).1.buf ∧ (fetchAux buf flight closed todo net).1.closed = true) := by
  fun_induction fetchAux buf flight closed todo net with
  | case1 buf flight net f r h1 h2 h3 ih => exact ih
  | case6 buf flight f r h1 h2 n net' ih => exact ih
  | case11 buf flight h n net' ih => exact ih
  | _ => first | (simp; done) | (split <;> simp_all <;> omega)

/-- the same for one `Read` of a connection whose decrypted buffer is empty -/
theorem read_eof_only_between_frames (s : St α) (net : List Ev) (b : Nat) (hrem : s.rem = []) :
    (ConnRead.read s net b).2.2 = .eof → (ConnRead.read s net b).1.buf = 0 ∨ (fetch s net).2.2 = none := by
  intro h
  unfold ConnRead.read at h ⊢
  simp only [hrem, List.isEmpty_nil, Bool.not_true, Bool.false_eq_true, if_false] at h ⊢
  rcases hf : fetch s net with ⟨s', net', r⟩
  rw [hf] at h
  cases r with
  | none => exact .inr rfl
  | some r =>
    simp only at h ⊢
    subst h
    have := (truncation_inside_frame_is_reported s.buf s.flight s.closed s.todo net).1
    unfold fetch at hf
    rw [hf] at this
    exact .inl (this rfl)


/-- (round 9, C05-r9m2) A frame that does not authenticate is reported — `Read` returns the decryption error and the
    connection is closed — as soon as it is completely buffered, WHATEVER its length: also the frame without data
    (`00 00` + 16 bytes), for which "there is nothing to decrypt" but a tag to verify. -/
theorem forged_frame_reported_whatever_its_length (buf flight : Nat) (closed : Bool) (f : Frame α) (r : List (Frame α))
    (net : List Ev) (hsz : f.size ≤ buf) (hbad : f.ok = false) :
    fetchAux buf flight closed (f :: r) net = (⟨[], 0, 0, [], true⟩, net, some (.closed closed)) := by
  unfold fetchAux
  simp [hsz, hbad]

/-- …and that error is final (`readErr` is kept): from the state the error leaves, every later `Read` fails again without
    releasing anything, whatever arrives — also the sender's next frame, which WOULD authenticate under the counter
    the refused frame did not use up. For every sequence of reads and every network behaviour. -/
theorem nothing_released_after_a_decryption_error (net : List Ev) (bs : List Nat) :
    (run (⟨[], 0, 0, [], true⟩ : St α) net bs).2.2 = bs.map fun _ => .closed true := by
  induction bs with
  | nil => simp [run]
  | cons b bs ih =>
    have h1 : ConnRead.read (⟨[], 0, 0, [], true⟩ : St α) net b = (⟨[], 0, 0, [], true⟩, net, .closed true) := by
      have h0 : fetchAux (α := α) 0 0 true [] net = (⟨[], 0, 0, [], true⟩, net, some (.closed true)) := by
        unfold fetchAux; simp
      simp [ConnRead.read, fetch, h0]
    simp [run, h1, ih]

/-- …and the only frames the loop of `DecryptedRead` ever passes over (consumes without reporting a decryption error)
    are authentic ones: if a call does not end in that error, what is left to do is the old list without its first `k`
    frames, and each of those `k` authenticated. For every buffer state, frame list and network behaviour. -/
theorem frames_passed_over_are_authentic (buf flight : Nat) (closed : Bool) (todo : List (Frame α)) (net : List Ev)
    (h : ∀ c, (fetchAux buf flight closed todo net).2.2 ≠ some (.closed c)) :
    ∃ k, (fetchAux buf flight closed todo net).1.todo = todo.drop k ∧ ∀ f ∈ todo.take k, f.ok = true := by
  fun_induction fetchAux buf flight closed todo net with
  | case1 buf flight net f r h1 h2 h3 ih =>
    obtain ⟨k, hk, hall⟩ := ih h
    refine ⟨k + 1, by simpa using hk, ?_⟩
    intro g hg
    simp only [List.take_succ_cons, List.mem_cons] at hg
    rcases hg with rfl | hg
    · exact h2
    · exact hall g hg
  | case2 buf flight closed net f r h1 h2 =>
    refine ⟨1, by simp, ?_⟩
    intro g hg
    simp only [List.take_succ_cons, List.take_zero, List.mem_cons, List.not_mem_nil, or_false] at hg
    subst hg; assumption
  | case3 => simp at h
  | case6 buf flight f r h1 h2 n net' ih =>
    obtain ⟨k, hk, hall⟩ := ih h
    exact ⟨k, hk, hall⟩
  | case11 buf flight h' n net' ih =>
    obtain ⟨k, hk, hall⟩ := ih h
    exact ⟨k, hk, hall⟩
  | _ => first | exact ⟨0, by simp, by simp⟩ | exact absurd rfl (h _) | (exfalso; exact h closed rfl) | (exfalso; exact h true rfl) | (exfalso; exact h false rfl)

/-- non-vacuity: [3 bytes ok] [no data, not authentic] [2 bytes ok], all 60 bytes arrive at once: the first read gives the
    3 bytes, the second the error; nothing of the third frame is ever released. -/
example : (run (init [⟨[1, 2, 3], true⟩, ⟨[], false⟩, ⟨[4, 5], true⟩]) [.seg 60, .closed] [8, 8, 8]).2.2
    = [.data [1, 2, 3], .closed false, (.closed true : Res Nat)] := by
  simp [run, ConnRead.read, fetch, fetchAux, init, streamSize, Frame.size, bufRead]

-- a frame of 3 plaintext bytes (21 on the wire) of which 10 arrive before the connection ends: reported as cut …
example : (ConnRead.read (init [⟨[1, 2, 3], true⟩]) [.seg 10, .closed] 8).2.2 = (.cut : Res Nat) := by
  simp [ConnRead.read, fetch, fetchAux, init, streamSize, Frame.size]
-- … and the end after the whole frame (and after its plaintext was read) as the end
example : (run (init [⟨[1, 2, 3], true⟩]) [.seg 21, .closed] [8, 8]).2.2 = [.data [1, 2, 3], (.eof : Res Nat)] := by
  simp [run, ConnRead.read, fetch, fetchAux, init, streamSize, Frame.size, bufRead]

/-- F65 before the repair (`Res.unfixed`: both ends are `io.EOF`): the reader is told "end of stream" while ten bytes of
    a frame sit in the buffer. -/
theorem truncation_inside_frame_unfixed_refuted :
    ∃ (fs : List (Frame Nat)) (net : List Ev) (b : Nat),
      (ConnRead.read (init fs) net b).2.2.unfixed = .eof ∧ (ConnRead.read (init fs) net b).1.buf ≠ 0 :=
  ⟨[⟨[1, 2, 3], true⟩], [.seg 10, .closed], 8, by simp [ConnRead.read, fetch, fetchAux, init, streamSize, Frame.size, Res.unfixed]⟩

end cut

/-- Byte level, arbitrary input (F70b): `Decrypt` never reports the plain end of the data (`io.EOF`) for an input that
    ends inside a frame — behind the length field, inside the ciphertext, in front of or inside the tag. Whatever the
    bytes, an input that does not parse as whole frames is `io.ErrUnexpectedEOF` (or fails authentication). -/
theorem decrypt_never_reports_plain_eof (C : Crypto) (s : Sess) (inp : Bytes) :
    (decrypt C s inp).2.1 ≠ .error .eof := by
  have hp : ∀ i : Bytes, parseFrame i ≠ .err .eof := by
    intro i
    match i with
    | [] => simp [parseFrame]
    | [_] => simp [parseFrame]
    | a :: b :: r1 =>
      simp only [parseFrame]
      split
      · simp
      · split <;> simp
  have hl : ∀ (n : Nat) (cnt : Nat) (i : Bytes), i.length ≤ n → decryptLoop C s.decKey cnt i ≠ .error .eof := by
    intro n
    induction n with
    | zero =>
      intro cnt i hi
      have : i = [] := List.length_eq_zero_iff.mp (by omega)
      subst this
      unfold decryptLoop; simp [parseFrame]
    | succ n ih =>
      intro cnt i hi
      unfold decryptLoop
      split
      · simp
      · rename_i e he; intro h; simp only [Except.error.injEq] at h; subst h; exact hp i he
      · rename_i len body tag rest hf
        have hlt := parseFrame_rest_lt hf
        split
        · simp
        · split
          · simp
          · have := ih (cnt + 1) rest (by omega)
            split
            · simp
            · rename_i e he; intro h; simp only [Except.error.injEq] at h; subst h; exact this he
  unfold decrypt
  have := hl inp.length s.decCnt inp (Nat.le_refl _)
  split
  · simp
  · rename_i e he; intro h; simp only [Except.error.injEq] at h; subst h; exact this he

/-- Byte level, arbitrary input bytes: if Decrypt accepts, the input begins with frames sealed under the
    receiver's key with the consecutive counters from the receiver's counter — the wire format of C06 — and
    what is released is exactly their plaintext; if it fails, nothing is released and the session is unchanged.
    (With an injective AEAD these are the sender's own frames number `decCnt, decCnt+1, …`.) -/
theorem accepted_only_sealed (C : Crypto) (hS : C.Sound) (s : Sess) (inp : Bytes) :
    (∃ e, decrypt C s inp = (s, .error e, [])) ∨
    (∃ cs rest, decrypt C s inp = ({ s with decCnt := s.decCnt + cs.length }, .ok cs.flatten, rest) ∧
        inp = renderFrames C s.decKey (frameDescs s.decCnt cs) ++ rest) := by
  unfold decrypt
  split
  · rename_i c out rest h
    obtain ⟨cs, h1, h2, h3⟩ := decryptLoop_accepts C hS _ _ _ _ _ _ h
    exact .inr ⟨cs, rest, by rw [h2, h3], h1⟩
  · rename_i e _; exact .inl ⟨e, rfl⟩

/-- Refinement: the frame-level receiver is what the byte-level Decrypt does. For every delivery whose frames
    are on the wire either the sender's own sealed frames (`genuine i`) or complete frames that open under no
    counter (`forged`) — `EncAll` — and an AEAD under which the sender's frame `i` opens under no other
    reachable counter (`NonceBound`), one Decrypt call on the bytes returns exactly what `rxCall` says:
    the same released chunks, the same counter, the bytes of the unread frames — or an error with the session
    unchanged. Hence `released_is_prefix` and `error_at_first_alteration` hold for the bytes Decrypt releases. -/
theorem bytes_refine_frames (C : Crypto) (hC : C.Correct) (s : Sess) (sent : List Bytes)
    (hsent : ∀ ch ∈ sent, ch.length ≤ 1024) (hN : NonceBound C s.decKey sent)
    (batch : List DFrame) (bs : List Bytes) (henc : EncAll C s.decKey sent batch bs)
    (hc : s.decCnt ≤ sent.length) (rel : List Nat) :
    decrypt C s bs.flatten =
      match rxCall sent ⟨s.decCnt, rel⟩ batch with
      | (rx, .ok is r) => ({ s with decCnt := rx.cnt }, .ok (releasedBytes sent is), (bs.drop (batch.length - r.length)).flatten)
      | (_, .error _) => (s, .error .auth, []) := by
  unfold decrypt rxCall
  rw [decryptLoop_refines C hC s.decKey sent hsent hN batch bs henc s.decCnt hc]
  cases rxLoop sent s.decCnt batch with
  | error e => rfl
  | ok v => obtain ⟨c', is, r⟩ := v; rfl

/-- The two directions use different HKDF info labels, the accessory's encryption label is the
    controller's decryption label and vice versa; hence with an injective KDF the two direction keys of a
    session differ (a reflected frame is sealed under the other key). -/
theorem directions_distinct :
    infoRead ≠ infoWrite ∧
    (∀ (C : Crypto) (k : Bytes), (serverSess C k).encKey = (clientSess C k).decKey ∧
        (serverSess C k).decKey = (clientSess C k).encKey) ∧
    (∀ (C : Crypto) (k : Bytes), (∀ i i', C.kdf k saltControl i = C.kdf k saltControl i' → i = i') →
        (serverSess C k).encKey ≠ (serverSess C k).decKey ∧ (clientSess C k).encKey ≠ (clientSess C k).decKey) := by
  have hne : infoRead ≠ infoWrite := by decide
  refine ⟨hne, fun C k => ⟨rfl, rfl⟩, fun C k hinj => ⟨fun h => hne (hinj _ _ h), fun h => hne (hinj _ _ h).symm⟩⟩

/-- …and in the source as it is now (Generated/PairLabels.lean): within each constructor the two HKDF calls use
    the same salt and different info labels, and the accessory's pair is the controller's pair swapped. -/
theorem directions_distinct_regenerated :
    let rows := fun f => (Hc.Generated.labelRows.filter (fun r => r.file == "crypto/secure_session.go" && r.func == f && r.kind == "hkdf")).map (fun r => (r.a, r.b))
    (match rows "NewSecureSessionFromSharedKey", rows "NewSecureClientSessionFromSharedKey" with
     | [(s1, e), (s2, d)], [(s3, e'), (s4, d')] => s1 == s2 && s2 == s3 && s3 == s4 && e != d && e == d' && d == e'
     | _, _ => false) = true := by
  decide

/-- The original code (counter incremented before verification, F4) violates the property: after one
    forged frame the receiver accepts the sender's frame 1 and releases it without frame 0. -/
theorem counter_before_verify_refuted :
    ¬ ∀ (sent : List Bytes) (calls : List (List DFrame)),
        ∃ k, (rxCallsPreFix true sent ⟨0, []⟩ calls).released = List.range' 0 k := by
  intro h
  obtain ⟨k, hk⟩ := h [[1], [2]] [[.forged], [.genuine 1]]
  have : (rxCallsPreFix true [[1], [2]] ⟨0, []⟩ [[.forged], [.genuine 1]]).released = [1] := by decide
  rw [this] at hk
  cases k with
  | zero => simp at hk
  | succ k => simp [List.range'_succ] at hk

/-- Counting a frame right after its verification is still not enough (F4b): a call that fails at a later
    frame releases nothing but would keep the count of the frames it had verified; the next call then
    releases frame 1 without frame 0. -/
theorem count_kept_by_failed_call_refuted :
    ¬ ∀ (sent : List Bytes) (calls : List (List DFrame)),
        ∃ k, (rxCallsPreFix false sent ⟨0, []⟩ calls).released = List.range' 0 k := by
  intro h
  obtain ⟨k, hk⟩ := h [List.replicate 1024 0, [2]] [[.genuine 0, .forged], [.genuine 1]]
  have : (rxCallsPreFix false [List.replicate 1024 0, [2]] ⟨0, []⟩ [[.genuine 0, .forged], [.genuine 1]]).released = [1] := by
    simp only [rxCallsPreFix, List.foldl_cons, List.foldl_nil, rxLoopPreFix, List.getElem?_cons_zero,
      List.getElem?_cons_succ, List.length_replicate, packetMax, Nat.lt_irrefl, if_true, if_false,
      Bool.false_eq_true, List.length_cons, List.length_nil, Nat.zero_add, Nat.reduceAdd, Nat.reduceLT, List.nil_append]
  rw [this] at hk
  cases k with
  | zero => simp at hk
  | succ k => simp [List.range'_succ] at hk

-- non-vacuity ------------------------------------------------------------------------------------

example : toyChecked.Sound := by
  intro k n ad c m h
  simp only [toyChecked] at h ⊢
  split at h
  · rename_i hc
    simp only [Option.some.injEq] at h
    subst h
    constructor
    · conv => lhs; rw [← List.take_append_drop (c.length - 16) c, hc.1]
    · simp [List.length_take]; omega
  · simp at h

/-- hypotheses of `error_at_first_alteration` on a concrete delivery: a full frame in order, then a replay -/
example : InOrderFull [List.replicate 1024 0, [7]] 0 [.genuine 0] ∧ ¬ IsNext [List.replicate 1024 0, [7]] 1 (.genuine 0) := by
  constructor
  · intro j hj
    have : j = 0 := by simpa using hj
    subst this
    exact ⟨rfl, List.replicate 1024 0, rfl, by simp only [List.length_replicate, packetMax, Nat.lt_irrefl, not_false_eq_true]⟩
  · intro h; have := h.1; simp at this

example : toyN.Correct := by
  intro k n ad m
  simp [toyN]

example : NonceBound toyN [] [[1], [2]] := by
  intro i c ch hget hc hic
  have hi : i = 0 ∨ i = 1 := by
    rcases Nat.lt_or_ge i 2 with h | h
    · omega
    · rw [List.getElem?_eq_none (by simpa using h)] at hget; simp at hget
  have hc' : c = 0 ∨ c = 1 ∨ c = 2 := by simp at hc; omega
  rcases hi with rfl | rfl <;> rcases hc' with rfl | rfl | rfl <;> simp at hget hic <;> subst hget <;> decide

example : EncAll toyN [] [[1], [2]] [.genuine 0, .forged]
    [renderFrame toyN [] ⟨0, [1]⟩, le16 1 ++ [9] ++ List.replicate 16 1] := by
  refine .cons ⟨[1], rfl, rfl⟩ (.cons ⟨1, [9], List.replicate 16 1, rfl, by omega, rfl, rfl, ?_⟩ .nil)
  intro c
  simp only [toyN]
  split
  · rename_i h
    have := congrArg (fun l => l[0]?) h.1
    simp [nonce12] at this
  · rfl

example : rxCalls [[1], [2], [3]] ⟨0, []⟩ [[.genuine 0], [.genuine 2], [.forged, .genuine 1], [.genuine 1, .genuine 2]]
    = ⟨2, [0, 1]⟩ := by decide

end Hc.Props.C05
