import HcModel.Pairings
import HcModel.Http
import HcModel.Generated.PanicSites
import HcModel.Generated.CtxLock
import HcModel.PanicSitesExpected
import HcProofs.Lemmas.PairSetup
import HcProofs.Lemmas.PairVerify
/-
  C13 — no remote input panics or wedges the accessory.
  Models: PairSetup / PairVerify / Pairings (each with an explicit `panic` outcome that the pre-repair code reaches),
  Http (connection close ⇒ fresh session). The JSON endpoints' panic-freedom (typed callbacks, value comparison)
  is part of C12's model (`HcProofs/Props/C12.lean`); here: the pairing endpoints, recovery, and the static table of
  panic sites regenerated from the source.
-/
namespace Hc.Props.C13

-- no panic ---------------------------------------------------------------------------------------------------

/-- pair-setup: for every controller state (hence every reachable one) and every message of the alphabet
    (incl. malformed TLV, unknown state/method, < 16 bytes of encrypted data, data that does not authenticate,
    malformed sub-TLV, bad signatures) the handler answers; it never panics. -/
theorem setup_no_panic (c : Nat) (st : Hc.PairSetup.St) (i : Hc.PairSetup.In) :
    (Hc.PairSetup.step true c st i).2.1 ≠ .panic := by
  cases i with
  | m1 => simp only [Hc.PairSetup.step, Hc.PairSetup.stepR]; split <;> simp
  | m3 A p =>
    simp only [Hc.PairSetup.step, Hc.PairSetup.stepR]
    split
    · simp
    · cases A with
      | bad n => simp
      | good a => simp only; split <;> simp
  | m5 d =>
    simp only [Hc.PairSetup.step, Hc.PairSetup.stepR]
    split
    · simp
    · cases d with
      | short n => simp
      | sealed k nonceOk intact pt =>
        simp only
        split
        · simp
        · simp
        · rename_i name key sig _
          cases key with
          | badLen n => simp
          | pk kn => simp only; split <;> (try split) <;> simp
  | badMethod => simp [Hc.PairSetup.step, Hc.PairSetup.stepR]
  | badState n => simp [Hc.PairSetup.step, Hc.PairSetup.stepR]
  | malformedTlv => simp [Hc.PairSetup.step, Hc.PairSetup.stepR]

/-- pair-verify: same, for every state, pairing store and message -/
theorem verify_no_panic (c : Nat) (db : Hc.PairVerify.Store) (st : Hc.PairVerify.St) (i : Hc.PairVerify.In) :
    (Hc.PairVerify.step true c db st i).2 ≠ .panic := by
  cases i with
  | v1 key =>
    simp only [Hc.PairVerify.step, Hc.PairVerify.stepR]
    split
    · simp
    · cases key <;> simp
  | v3 d =>
    simp only [Hc.PairVerify.step, Hc.PairVerify.stepR]
    split
    · simp
    · cases d with
      | short n => simp
      | sealed k nonceOk intact pt =>
        simp only
        split
        · simp
        · simp
        · split
          · simp
          · simp
          · simp
          · split <;> simp
  | badMethod => simp [Hc.PairVerify.step, Hc.PairVerify.stepR]
  | badState n => simp [Hc.PairVerify.step, Hc.PairVerify.stepR]
  | malformedTlv => simp [Hc.PairVerify.step, Hc.PairVerify.stepR]

/-- /pairings: every request is answered, also an add that cannot be stored -/
theorem pairings_no_panic (s : Hc.Pairings.Store) (i : Hc.Pairings.In) :
    (Hc.Pairings.step true s i).2.1 ≠ .panic := by
  cases i with
  | add n k st => cases st <;> simp [Hc.Pairings.step]
  | delete n => simp [Hc.Pairings.step]
  | otherMethod n => simp [Hc.Pairings.step]
  | malformedTlv => simp [Hc.Pairings.step]
  | addOwn k => simp [Hc.Pairings.step]
  | deleteOwn => simp [Hc.Pairings.step]

/-- /pairings never touches the accessory's own identity (which is stored in the same database): an add or a removal
    that names it is refused, the store is left as it is and no pairing event is raised (F16 repair — before it an admin
    controller, or anybody who knew the setup code of an unpaired accessory, could replace the accessory's key pair by
    naming itself like the accessory: after the next start every pair-setup panicked and every pair-verify was
    answered with status 500). -/
theorem own_identity_not_a_pairing (s : Hc.Pairings.Store) (k : Nat) :
    Hc.Pairings.step true s (.addOwn k) = (s, .http500, none) ∧ Hc.Pairings.step true s .deleteOwn = (s, .http500, none) :=
  ⟨rfl, rfl⟩

/-- the code before the repair did panic: short / unauthenticated data at the right step, unstorable pairing -/
theorem unfixed_panics :
    (Hc.PairSetup.step false 0 { step := .verifyResp, S := .nil, K := .zero } (.m5 (.short 5))).2.1 = .panic ∧
    (Hc.PairSetup.step false 0 { step := .verifyResp, S := .nil, K := .zero } (.m5 (.sealed (.rand 1) true true .malformed))).2.1 = .panic ∧
    (Hc.PairVerify.step false 0 (fun _ => .none) { Hc.PairVerify.init with step := .startResp } (.v3 (.short 0))).2 = .panic ∧
    (Hc.PairVerify.step false 0 (fun _ => .none) { Hc.PairVerify.init with step := .startResp } (.v3 (.sealed (.rand 1) true true .malformed))).2 = .panic ∧
    (Hc.Pairings.step false [] (.add 1 2 false)).2.1 = .panic := by
  decide

-- not wedged: recovery on the same connection ------------------------------------------------------------------

/-- pair-verify on the same connection, from ANY controller state (whatever garbage came before): a correct start
    request is accepted after at most one rejected start request, and the matching finish then verifies. -/
theorem verify_recovers (c e name pk : Nat) (db : Hc.PairVerify.Store) (hdb : db name = .key pk)
    (st : Hc.PairVerify.St) :
    let r1 := Hc.PairVerify.step true c db st (.v1 (.good e))
    let st1 := if r1.2 = .http500 then (Hc.PairVerify.step true c db r1.1 (.v1 (.good e))).1 else r1.1
    let fin := Hc.PairVerify.step true c db st1
      (.v3 (.sealed (.ofEph c st1.epoch e) true true (.tlv name (.valid pk (some e) name c st1.epoch))))
    (r1.2 = .http500 ∨ r1.2 = .tlv 2 none true true) ∧
    fin.2 = .tlv 4 none false false ∧ fin.1.installed = some (some e) := by
  cases hs : st.step <;>
    simp [Hc.PairVerify.step, Hc.PairVerify.stepR, hs, Hc.PairVerify.openSealed, Hc.PairVerify.sigOk, hdb]

/-- pair-setup on the same connection, from ANY controller state: a start request is accepted after at most one
    rejected start request; then the right setup-code proof is accepted and the key exchange stores the pairing. -/
theorem setup_recovers (c a name key : Nat) (hn : name ≠ Hc.PairSetup.ownName) (st : Hc.PairSetup.St) :
    let r1 := Hc.PairSetup.step true c st .m1
    let st1 := if r1.2.1 = .http500 then (Hc.PairSetup.step true c r1.1 .m1).1 else r1.1
    let r3 := Hc.PairSetup.step true c st1 (.m3 (.good a) (.validFor c st1.epoch a true))
    let r5 := Hc.PairSetup.step true c r3.1
      (.m5 (.sealed (.ofS (.srp c st1.epoch a)) true true (.tlv name (.pk key) (.valid key (.srp c st1.epoch a) name key))))
    (r1.2.1 = .http500 ∨ r1.2.1 = .tlv 2 none true false false) ∧
    r3.2.1 = .tlv 4 none false true false ∧ r5.2.2 = some (name, key) := by
  cases hs : st.step <;> cases hst : st.started <;>
    simp [Hc.PairSetup.step, Hc.PairSetup.stepR, hs, hst, Hc.PairSetup.reset, Hc.PairSetup.openSealed, Hc.PairSetup.sigOk,
      Hc.PairSetup.proofOk, hn]

/-- a new connection (or one reopened after close) starts from the initial state whatever happened before,
    so by the two theorems above (with `st := init`) an honest handshake on it succeeds at once -/
theorem close_gives_fresh_session {App P R} (rs : Hc.Http.Routes) (H : Hc.Http.Handlers App P R)
    (w : Hc.Http.World App) (c : Nat) :
    ((Hc.Http.stepEv rs H w (.close c : Hc.Http.Ev P)).1.conns c).pv = Hc.PairVerify.init ∧
    ((Hc.Http.stepEv rs H w (.close c : Hc.Http.Ev P)).1.conns c).ps = Hc.PairSetup.init := by
  simp [Hc.Http.stepEv, Hc.Http.setConn, Hc.Http.Conn.init]

theorem fresh_connection_handshakes_at_once :
    (Hc.PairVerify.step true 0 (fun _ => .none) Hc.PairVerify.init (.v1 (.good 1))).2 = .tlv 2 none true true ∧
    (Hc.PairSetup.step true 0 Hc.PairSetup.init .m1).2.1 = .tlv 2 none true false false := by decide

-- the source's panic sites (regenerated) ---------------------------------------------------------------------------

/-- Every panic site the extractor finds in the packages the remote handlers live in or call is one the models
    account for (`Hc.PanicSite.expected`, each with the reason it cannot be reached by remote input);
    a new or moved site makes this obligation fail. -/
theorem panic_sites_accounted : Hc.Generated.panicSites.all (fun s => Hc.PanicSite.expected.contains s) = true := by
  decide

-- the map shared by all connections (regenerated) ------------------------------------------------------------------

/-- Two accesses to the context's map by different goroutines (connections are accepted, served and closed on goroutines
    of their own, so any two methods — also twice the same — can run at once) can overlap unless a lock keeps them
    apart: an exclusive lock keeps its holder apart from every other lock holder, two shared locks overlap, and a method
    that takes no lock overlaps with everything. -/
def canOverlap (l1 l2 : String) : Bool := l1 == "none" || l2 == "none" || (l1 == "RLock" && l2 == "RLock")

/-- Go's runtime ends the process ("concurrent map read and map write", "concurrent map writes" — not a panic a handler
    could recover from) when a map write overlaps with any other access. -/
def fatalPair (a b : String × String × String × Bool) : Bool :=
  a.2.1 != "none" && b.2.1 != "none" && (a.2.1 == "write" || b.2.1 == "write") && canOverlap a.2.2.1 b.2.2.1

/-- Every method of hap's context in the source now (Generated/CtxLock.lean) that touches the map holds the lock while
    it does (taken before the first access, released by `defer`), and no two of them — for whatever churn of connections
    a peer produces — can be in a fatal overlap. -/
theorem context_map_never_accessed_concurrently :
    (Hc.Generated.ctxLock.all fun a => Hc.Generated.ctxLock.all fun b => !fatalPair a b) = true ∧
    (Hc.Generated.ctxLock.all fun a => a.2.1 == "none" || a.2.2.2) = true ∧
    (Hc.Generated.ctxLock.any fun a => a.2.1 == "write") = true ∧
    (Hc.Generated.ctxLock.any fun a => a.2.1 == "read") = true := by decide

/-- the rule is not empty: a map written under the shared lock of a read-write mutex (which keeps readers apart from
    exclusive holders only) is a fatal overlap with a reader, and with itself -/
theorem context_shared_lock_write_refuted :
    fatalPair ("Delete", "write", "RLock", true) ("Get", "read", "RLock", true) = true ∧
    fatalPair ("Delete", "write", "RLock", true) ("Delete", "write", "RLock", true) = true := by decide

end Hc.Props.C13
