import HcModel.Pairings
import HcModel.Http
import HcModel.Generated.PanicSites
import HcModel.Generated.CtxLock
import HcModel.Generated.SrvLock
import HcModel.PanicSitesExpected
import HcProofs.Lemmas.PairSetup
import HcProofs.Lemmas.PairVerify
import HcProofs.Lemmas.CloseRace
import HcModel.PlainFraming
import HcProofs.Lemmas.Tlv8
/-
  C13 — no remote input panics or wedges the accessory.
  Models: PairSetup / PairVerify / Pairings (each with an explicit `panic` outcome that the pre-repair code reaches),
  Http (connection close ⇒ fresh session). The JSON endpoints' panic-freedom (typed callbacks, value comparison)
  is part of C12's model (`HcProofs/Props/C12.lean`); here: the pairing endpoints, recovery, and the static table of
  panic sites regenerated from the source.
-/
namespace Hc.Props.C13

-- no panic ---------------------------------------------------------------------------------------------------

/-- pair-setup: for every controller state (hence every reachable one) and every message of the alphabet
    (incl. malformed TLV, unknown state/method, < 16 bytes of encrypted data, data that does not authenticate,
    malformed sub-TLV, bad signatures) the handler answers; it never panics. -/
theorem setup_no_panic (c : Nat) (st : Hc.PairSetup.St) (i : Hc.PairSetup.In) :
    (Hc.PairSetup.step true c st i).2.1 ≠ .panic := by
  cases i with
  | m1 => simp only [Hc.PairSetup.step, Hc.PairSetup.stepR]; split <;> simp
  | m3 A p =>
    simp only [Hc.PairSetup.step, Hc.PairSetup.stepR]
    split
    · simp
    · cases A with
      | bad n => simp
      | good a => simp only; split <;> simp
  | m5 d =>
    simp only [Hc.PairSetup.step, Hc.PairSetup.stepR]
    split
    · simp
    · cases d with
      | short n => simp
      | sealed k nonceOk intact pt =>
        simp only
        split
        · simp
        · simp
        · rename_i name key sig _
          cases key with
          | badLen n => simp
          | pk kn => simp only; split <;> (try split) <;> simp
  | badMethod => simp [Hc.PairSetup.step, Hc.PairSetup.stepR]
  | badState n => simp [Hc.PairSetup.step, Hc.PairSetup.stepR]
  | malformedTlv => simp [Hc.PairSetup.step, Hc.PairSetup.stepR]

/-- pair-verify: same, for every state, pairing store and message -/
theorem verify_no_panic (c : Nat) (db : Hc.PairVerify.Store) (st : Hc.PairVerify.St) (i : Hc.PairVerify.In) :
    (Hc.PairVerify.step true c db st i).2 ≠ .panic := by
  cases i with
  | v1 key =>
    simp only [Hc.PairVerify.step, Hc.PairVerify.stepR]
    split
    · simp
    · cases key <;> simp
  | v3 d =>
    simp only [Hc.PairVerify.step, Hc.PairVerify.stepR]
    split
    · simp
    · cases d with
      | short n => simp
      | sealed k nonceOk intact pt =>
        simp only
        split
        · simp
        · simp
        · split
          · simp
          · simp
          · simp
          · simp
          · split <;> simp
  | badMethod => simp [Hc.PairVerify.step, Hc.PairVerify.stepR]
  | badState n => simp [Hc.PairVerify.step, Hc.PairVerify.stepR]
  | malformedTlv => simp [Hc.PairVerify.step, Hc.PairVerify.stepR]

/-- /pairings: every request is answered, also an add that cannot be stored -/
theorem pairings_no_panic (s : Hc.Pairings.Store) (i : Hc.Pairings.In) :
    (Hc.Pairings.step true s i).2.1 ≠ .panic := by
  cases i with
  | add n k st => cases st <;> simp [Hc.Pairings.step]
  | delete n => simp [Hc.Pairings.step]
  | otherMethod n => simp [Hc.Pairings.step]
  | malformedTlv => simp [Hc.Pairings.step]
  | addOwn k => simp [Hc.Pairings.step]
  | deleteOwn => simp [Hc.Pairings.step]

/-- /pairings never touches the accessory's own identity (which is stored in the same database): an add or a removal
    that names it is refused, the store is left as it is and no pairing event is raised (F16 repair — before it an admin
    controller, or anybody who knew the setup code of an unpaired accessory, could replace the accessory's key pair by
    naming itself like the accessory: after the next start every pair-setup panicked and every pair-verify was
    answered with status 500). -/
theorem own_identity_not_a_pairing (s : Hc.Pairings.Store) (k : Nat) :
    Hc.Pairings.step true s (.addOwn k) = (s, .http500, none) ∧ Hc.Pairings.step true s .deleteOwn = (s, .http500, none) :=
  ⟨rfl, rfl⟩

/-- the code before the repair did panic: short / unauthenticated data at the right step, unstorable pairing -/
theorem unfixed_panics :
    (Hc.PairSetup.step false 0 { step := .verifyResp, S := .nil, K := .zero } (.m5 (.short 5))).2.1 = .panic ∧
    (Hc.PairSetup.step false 0 { step := .verifyResp, S := .nil, K := .zero } (.m5 (.sealed (.rand 1) true true .malformed))).2.1 = .panic ∧
    (Hc.PairVerify.step false 0 (fun _ => .none) { Hc.PairVerify.init with step := .startResp } (.v3 (.short 0))).2 = .panic ∧
    (Hc.PairVerify.step false 0 (fun _ => .none) { Hc.PairVerify.init with step := .startResp } (.v3 (.sealed (.rand 1) true true .malformed))).2 = .panic ∧
    (Hc.Pairings.step false [] (.add 1 2 false)).2.1 = .panic := by
  decide

-- not wedged: recovery on the same connection ------------------------------------------------------------------

/-- pair-verify on the same connection, from ANY controller state (whatever garbage came before): a correct start
    request is accepted after at most one rejected start request, and the matching finish then verifies. -/
theorem verify_recovers (c e name pk : Nat) (db : Hc.PairVerify.Store) (hdb : db name = .key pk)
    (st : Hc.PairVerify.St) :
    let r1 := Hc.PairVerify.step true c db st (.v1 (.good e))
    let st1 := if r1.2 = .http500 then (Hc.PairVerify.step true c db r1.1 (.v1 (.good e))).1 else r1.1
    let fin := Hc.PairVerify.step true c db st1
      (.v3 (.sealed (.ofEph c st1.epoch e) true true (.tlv name (.valid pk (some e) name c st1.epoch))))
    (r1.2 = .http500 ∨ r1.2 = .tlv 2 none true true) ∧
    fin.2 = .tlv 4 none false false ∧ fin.1.installed = some (some e) := by
  cases hs : st.step <;>
    simp [Hc.PairVerify.step, Hc.PairVerify.stepR, hs, Hc.PairVerify.openSealed, Hc.PairVerify.sigOk, hdb]

/-- pair-setup on the same connection, from ANY controller state: a start request is accepted after at most one
    rejected start request; then the right setup-code proof is accepted and the key exchange stores the pairing. -/
theorem setup_recovers (c a name key : Nat) (hn : name ≠ Hc.PairSetup.ownName) (st : Hc.PairSetup.St) :
    let r1 := Hc.PairSetup.step true c st .m1
    let st1 := if r1.2.1 = .http500 then (Hc.PairSetup.step true c r1.1 .m1).1 else r1.1
    let r3 := Hc.PairSetup.step true c st1 (.m3 (.good a) (.validFor c st1.epoch a true))
    let r5 := Hc.PairSetup.step true c r3.1
      (.m5 (.sealed (.ofS (.srp c st1.epoch a)) true true (.tlv name (.pk key) (.valid key (.srp c st1.epoch a) name key))))
    (r1.2.1 = .http500 ∨ r1.2.1 = .tlv 2 none true false false) ∧
    r3.2.1 = .tlv 4 none false true false ∧ r5.2.2 = some (name, key) := by
  cases hs : st.step <;> cases hst : st.started <;>
    simp [Hc.PairSetup.step, Hc.PairSetup.stepR, hs, hst, Hc.PairSetup.reset, Hc.PairSetup.openSealed, Hc.PairSetup.sigOk,
      Hc.PairSetup.proofOk, hn]

/-- a new connection (or one reopened after close) starts from the initial state whatever happened before,
    so by the two theorems above (with `st := init`) an honest handshake on it succeeds at once -/
theorem close_gives_fresh_session {App P R} (rs : Hc.Http.Routes) (H : Hc.Http.Handlers App P R)
    (w : Hc.Http.World App) (c : Nat) :
    ((Hc.Http.stepEv rs H w (.close c : Hc.Http.Ev P)).1.conns c).pv = Hc.PairVerify.init ∧
    ((Hc.Http.stepEv rs H w (.close c : Hc.Http.Ev P)).1.conns c).ps = Hc.PairSetup.init := by
  simp [Hc.Http.stepEv, Hc.Http.setConn, Hc.Http.Conn.init]

theorem fresh_connection_handshakes_at_once :
    (Hc.PairVerify.step true 0 (fun _ => .none) Hc.PairVerify.init (.v1 (.good 1))).2 = .tlv 2 none true true ∧
    (Hc.PairSetup.step true 0 Hc.PairSetup.init .m1).2.1 = .tlv 2 none true false false := by decide

-- the source's panic sites (regenerated) ---------------------------------------------------------------------------

/-- Every panic site the extractor finds in the packages the remote handlers live in or call is one the models
    account for (`Hc.PanicSite.expected`, each with the reason it cannot be reached by remote input);
    a new or moved site makes this obligation fail. -/
theorem panic_sites_accounted : Hc.Generated.panicSites.all (fun s => Hc.PanicSite.expected.contains s) = true := by
  decide

-- the map shared by all connections (regenerated) ------------------------------------------------------------------

/-- Two accesses to the context's map by different goroutines (connections are accepted, served and closed on goroutines
    of their own, so any two methods — also twice the same — can run at once) can overlap unless a lock keeps them
    apart: an exclusive lock keeps its holder apart from every other lock holder, two shared locks overlap, and a method
    that takes no lock overlaps with everything. -/
def canOverlap (l1 l2 : String) : Bool := l1 == "none" || l2 == "none" || (l1 == "RLock" && l2 == "RLock")

/-- Go's runtime ends the process ("concurrent map read and map write", "concurrent map writes" — not a panic a handler
    could recover from) when a map write overlaps with any other access. -/
def fatalPair (a b : String × String × String × Bool) : Bool :=
  a.2.1 != "none" && b.2.1 != "none" && (a.2.1 == "write" || b.2.1 == "write") && canOverlap a.2.2.1 b.2.2.1

/-- Every method of hap's context in the source now (Generated/CtxLock.lean) that touches the map holds the lock while
    it does (taken before the first access, released by `defer`), and no two of them — for whatever churn of connections
    a peer produces — can be in a fatal overlap. -/
theorem context_map_never_accessed_concurrently :
    (Hc.Generated.ctxLock.all fun a => Hc.Generated.ctxLock.all fun b => !fatalPair a b) = true ∧
    (Hc.Generated.ctxLock.all fun a => a.2.1 == "none" || a.2.2.2) = true ∧
    (Hc.Generated.ctxLock.any fun a => a.2.1 == "write") = true ∧
    (Hc.Generated.ctxLock.any fun a => a.2.1 == "read") = true := by decide

/-- the rule is not empty: a map written under the shared lock of a read-write mutex (which keeps readers apart from
    exclusive holders only) is a fatal overlap with a reader, and with itself -/
theorem context_shared_lock_write_refuted :
    fatalPair ("Delete", "write", "RLock", true) ("Get", "read", "RLock", true) = true ∧
    fatalPair ("Delete", "write", "RLock", true) ("Delete", "write", "RLock", true) = true := by decide

/-- The same for the subscriptions of a session (Generated/CtxLock.lean, `sessLock`, hap/session.go): the PUT handler of
    the session's connection writes the map (`Subscribe` / `Unsubscribe`), the goroutine of whoever changes a value reads
    it (`IsSubscribedTo`, asked for every connection by `notifyListener`). Every method that touches the map does so
    between taking and giving back the session's exclusive mutex, so no subscribe request of one controller can meet a
    notification caused by another one in a fatal overlap. -/
theorem session_subscriptions_never_accessed_concurrently :
    Hc.Generated.sessMutexKind = "sync.Mutex" ∧
    (Hc.Generated.sessLock.all fun a => Hc.Generated.sessLock.all fun b => !fatalPair a b) = true ∧
    (Hc.Generated.sessLock.any fun a => a.2.1 == "write") = true ∧
    (Hc.Generated.sessLock.any fun a => a.2.1 == "read") = true := by decide

theorem session_unlocked_read_refuted :
    fatalPair ("IsSubscribedTo", "read", "none", false) ("Subscribe", "write", "Lock", false) = true := by decide

/-! ## a connection closes while its peer reconnects from the same port (F56) -/

open Hc.CloseRace in
/-- "…afterwards a correct handshake on a new connection still succeeds": a controller resets its connection and
    reconnects from the same port; net/http's goroutine of the old connection runs `Close` while the new connection is
    being accepted (any number of such reconnects, the close at any point among them). Whatever the schedule, the session
    registered for the address pair in the end is the one of the connection accepted last — the old connection's `Close`
    never takes a newer connection's session away (without a session every pairing handler of that connection fails).
    F56 repair: `Close` compares and deletes under one lock, which `NewConnection` takes too. -/
theorem reconnect_during_close_keeps_session (evs : List Ev) (hf : Fixed evs) (s : Nat) (hs : lastConnect evs = some s) :
    (run CloseRace.init evs).reg = some s := by
  rw [run_fixed evs CloseRace.init hf, hs]

open Hc.CloseRace in
/-- … and with no reconnect the close removes its own session -/
theorem close_removes_own_session (evs : List Ev) (hf : Fixed evs) (hn : lastConnect evs = none) (hc : Ev.closeAtomic ∈ evs) :
    (run CloseRace.init evs).reg = none := by
  rw [run_fixed evs CloseRace.init hf, hn]
  simp [hc, CloseRace.init]

open Hc.CloseRace in
/-- before the repair: lookup, then the new connection registers its session, then the delete — the NEW connection is
    left without a session -/
theorem reconnect_during_close_unfixed_refuted :
    (run CloseRace.init [.closeGet, .connect 1, .closeDel]).reg = none ∧
    (run CloseRace.init [.connect 1, .closeAtomic]).reg = some 1 ∧ (run CloseRace.init [.closeAtomic, .connect 1]).reg = some 1 := by
  decide

/-! ## lock regions that decide whether one peer can keep the others waiting (regenerated) -/

/-- the step names the extractor produces for the two mutexes concerned; a path with any other step (another mutex, a
    deferred unlock, a goroutine) is not accepted by the predicates below -/
def lockSteps : List String := ["Lock:mutex", "Lock:sessionMutex"]
def unlockSteps : List String := ["Unlock:mutex", "Unlock:sessionMutex"]
def plainSteps : List String := ["encode", "write", "set", "get", "delete", "close"]

def vocabOk (path : List String) : Bool :=
  path.all fun s => lockSteps.contains s || unlockSteps.contains s || plainSteps.contains s

/-- number of locks held after the steps so far -/
def heldAfter : List String → Nat → Nat
  | [], h => h
  | s :: r, h =>
    if lockSteps.contains s then heldAfter r (h + 1)
    else if unlockSteps.contains s then heldAfter r (h - 1)
    else heldAfter r h

/-- no `write` step happens while a lock is held -/
def writesOutsideLocks : List String → Nat → Bool
  | [], _ => true
  | s :: r, h =>
    if lockSteps.contains s then writesOutsideLocks r (h + 1)
    else if unlockSteps.contains s then writesOutsideLocks r (h - 1)
    else if s == "write" then h == 0 && writesOutsideLocks r h
    else writesOutsideLocks r h

/-- the part of a path between the first `lock` step and the next `unlock` step -/
def regionOf (lock unlock : String) : List String → List String
  | [] => []
  | s :: r => if s == lock then r.takeWhile (fun t => t != unlock) else regionOf lock unlock r

/-- `GET /accessories` in the source now (Generated/SrvLock.lean): the database is encoded under the server mutex and
    written to the connection after the mutex was released — a controller that does not read its answer blocks its own
    handler in the write, with no lock held, and every other controller's request goes on (F57 repair; before it the write
    happened under the mutex and one such peer kept `/accessories` from everybody). -/
theorem accessories_written_outside_the_lock :
    vocabOk Hc.Generated.accessoriesPath = true ∧
    writesOutsideLocks Hc.Generated.accessoriesPath 0 = true ∧ Hc.Generated.accessoriesPath.contains "write" = true ∧
    (regionOf "Lock:mutex" "Unlock:mutex" Hc.Generated.accessoriesPath).contains "encode" = true ∧
    heldAfter Hc.Generated.accessoriesPath 0 = 0 := by decide

theorem accessories_write_under_lock_refuted :
    writesOutsideLocks ["Lock:mutex", "write", "Unlock:mutex"] 0 = false ∧
    writesOutsideLocks ["Lock:mutex", "deferUnlock:mutex", "encode", "write"] 0 = false ∧
    vocabOk ["Lock:mutex", "deferUnlock:mutex", "encode", "write"] = false := by decide

/-- `NewConnection` and `Close` in the source now: the registration of a new connection's session and the
    compare-and-remove of a closing one happen under the same package-level mutex, each inside one region — which is the
    hypothesis `Fixed` (the close is ONE step among the connects) of `reconnect_during_close_keeps_session`. The socket is
    closed after the mutex was released. -/
theorem session_registration_serialised :
    vocabOk Hc.Generated.newConnectionPath = true ∧ vocabOk Hc.Generated.closePath = true ∧
    regionOf "Lock:sessionMutex" "Unlock:sessionMutex" Hc.Generated.newConnectionPath = ["set"] ∧
    regionOf "Lock:sessionMutex" "Unlock:sessionMutex" Hc.Generated.closePath = ["get", "delete"] ∧
    heldAfter Hc.Generated.closePath 0 = 0 ∧ heldAfter Hc.Generated.newConnectionPath 0 = 0 ∧
    Hc.Generated.closePath.getLast? = some "close" := by decide

theorem session_registration_unlocked_refuted :
    regionOf "Lock:sessionMutex" "Unlock:sessionMutex" ["get", "delete", "close"] ≠ ["get", "delete"] ∧
    regionOf "Lock:sessionMutex" "Unlock:sessionMutex" ["Lock:sessionMutex", "get", "Unlock:sessionMutex", "delete", "close"] ≠ ["get", "delete"] := by decide

/-! ## what a request body can cost (F59) -/

open Hc.Tlv8 in
/-- Whatever bytes a peer sends as the body of a pairing request: the container the accessory parses from them has at most
    one item per two bytes, and the values of its items are never more than the body. With the body cut at 64 KiB (below)
    that is at most 32768 items — before the F59 repair nothing cut it, and 96 MiB of empty items (two bytes each on the
    wire, a slice header and more each in memory) ended a process with a 2 GiB address space (stream `huge-body`). -/
theorem parsed_items_bounded_by_body (bs : Bytes) (is : Container) (h : parse bs = .ok is) :
    2 * is.length + (is.map (fun i => i.val.length)).sum ≤ bs.length :=
  parse_cost bs.length bs is (Nat.le_refl _) h

/-- every handler of hap/endpoint and hap/http that reads a request body reads it through `http.MaxBytesReader` in the
    source now (Generated/SrvLock.lean, go/ast: every use of a request's `Body`): 64 KiB for the pairing endpoints (their
    messages are below 1 KiB; F59) and `/resource`, 1 MiB for `PUT /characteristics` (F68: a verified controller could make
    the accessory buffer, copy and convert to a string a body of any size) -/
theorem request_bodies_limited :
    Hc.Generated.bodyReaders = ["endpoint/pair-setup.go: limited 65536", "endpoint/pair-verify.go: limited 65536",
      "endpoint/pairings.go: limited 65536", "endpoint/resource.go: limited 65536",
      "http/characteristics.go: limited 1048576", "http/json.go: limited 1048576"] := by
  decide

/-! ## plaintext requests the connection cannot frame (F62) -/

open Hc.PlainFraming in
/-- "…answered with a well-formed response (an error when it cannot be processed) rather than a dropped connection": a
    connection without a cryptographer frames the requests it receives itself (F19) and refuses what it cannot frame. Every
    such refusal is ANSWERED — the request's header does not parse, gives no length (chunked coding: a well-formed request),
    or does not end — with one exception, for every parser `cl`, header limit, state and byte: bytes that arrive behind a
    complete request before its response was written, which are refused without a word. (The bytes are the adversary's — C05 —,
    but the complete request in front of them then goes unanswered too: recorded as the known finding F69.) -/
theorem plaintext_refusal_answered_unless_excess (cl : Bytes → Option Nat) (maxHeader : Nat) (s : St) (x : UInt8)
    (h : byte cl maxHeader s x = none) : answered s = !s.complete := by
  unfold byte at h
  unfold answered
  cases hc : s.complete
  · cases hb : s.inBody
    · rfl
    · simp [hc, hb] at h
  · simp

open Hc.PlainFraming in
/-- the same for whole reads, from any state: a read that is refused silently was refused at a byte that found a complete,
    unanswered request in front of it -/
theorem plaintext_silent_refusal_is_excess (cl : Bytes → Option Nat) (maxHeader : Nat) :
    ∀ (b : Bytes) (s : St), refusal cl maxHeader s b = some false →
      ∃ (pre : Bytes) (x : UInt8) (post : Bytes) (s' : St), b = pre ++ x :: post ∧ feed cl maxHeader s pre = some s' ∧
        s'.complete = true ∧ byte cl maxHeader s' x = none := by
  intro b
  induction b with
  | nil => intro s h; simp [refusal] at h
  | cons x xs ih =>
    intro s h
    simp only [refusal] at h
    cases hb : byte cl maxHeader s x with
    | none =>
      simp only [hb, Option.some.injEq] at h
      have ha := plaintext_refusal_answered_unless_excess cl maxHeader s x hb
      rw [h] at ha
      refine ⟨[], x, xs, s, rfl, rfl, ?_, hb⟩
      cases hc : s.complete <;> simp [hc] at ha ⊢
    | some s1 =>
      simp only [hb] at h
      obtain ⟨pre, y, post, s', hsplit, hfeed, hcomp, hbyte⟩ := ih s1 h
      refine ⟨x :: pre, y, post, s', by simp [hsplit], ?_, hcomp, hbyte⟩
      simp [feed, hb, hfeed]

end Hc.Props.C13
