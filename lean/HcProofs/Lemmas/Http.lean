import HcModel.Http
import HcProofs.Lemmas.PairVerify
/- helper lemmas and specification-level definitions for C01 (HcProofs/Props/C01.lean) -/
namespace Hc.Http
open Hc.Generated

theorem protected_not_public (ep : Endpoint) (h : ep.isProtected = true) : ep.path ∉ publicPaths := by
  cases ep <;> simp [Endpoint.isProtected] at h <;> decide

theorem lookup_path {rs : Routes} {p : String} {r : Route} (h : lookup rs p = some r) : r.path = p ∧ r ∈ rs := by
  simp only [lookup] at h
  have h1 := List.find?_some h
  have h2 := List.mem_of_find?_eq_some h
  exact ⟨by simpa using h1, h2⟩


theorem other_conn_untouched {App P R} (rs : Routes) (H : Handlers App P R) (w : World App)
    (c d : Nat) (hd : d ≠ c) (e : Ev P) (he : e = .close c ∨ ∃ r, e = .req c r) :
    (stepEv rs H w e).1.conns d = w.conns d := by
  rcases he with rfl | ⟨r, rfl⟩
  · simp [stepEv, setConn, hd]
  · cases r with
    | setup m =>
      simp only [stepEv, serve]
      split <;> simp [setConn, hd]
    | verify m => simp [stepEv, serve, setConn, hd]
    | plain ep p =>
      simp only [stepEv, serve]
      split
      · rfl
      · split
        · rfl
        · split <;> rfl

/-- the adversary's connections never submit a finish that changes their session (by the theorem above: never a
    finish carrying a valid signature by a stored key for the running exchange) -/
def Quiet {App P R} (rs : Routes) (H : Handlers App P R) (adv : Nat → Bool) : World App → List (Ev P) → Prop
  | _, [] => True
  | w, e :: es =>
    (match e with
     | .req a (.verify m) => adv a = true →
        (Hc.PairVerify.step true a w.store (w.conns a).pv m).1.installed = (w.conns a).pv.installed
     | _ => True) ∧ Quiet rs H adv (stepEv rs H w e).1 es

def AllUnverified {App} (adv : Nat → Bool) (w : World App) : Prop :=
  ∀ a, adv a = true → (w.conns a).verified = false

/-- an adversary connection's request to a protected endpoint -/
def advProtected {P} (adv : Nat → Bool) : Ev P → Bool
  | .req a (.plain ep _) => adv a && ep.isProtected
  | _ => false

theorem step_keeps_unverified {App P R} (rs : Routes) (H : Handlers App P R) (adv : Nat → Bool) (w : World App)
    (e : Ev P) (hu : AllUnverified adv w) (hq : Quiet rs H adv w [e]) : AllUnverified adv (stepEv rs H w e).1 := by
  intro a ha
  have hua := hu a ha
  cases e with
  | close c =>
    simp only [stepEv, setConn]
    split
    · simp [Conn.verified, Conn.init, Hc.PairVerify.init]
    · exact hua
  | req c r =>
    by_cases hc : a = c
    · subst hc
      cases r with
      | setup m =>
        simp only [stepEv, serve]
        split <;> simpa [setConn, Conn.verified] using hua
      | plain ep p =>
        simp only [stepEv, serve]
        split
        · exact hua
        · split
          · exact hua
          · split <;> exact hua
      | verify m =>
        have := hq.1 ha
        simp only [stepEv, serve, setConn, Conn.verified, ↓reduceIte]
        rw [this]; exact hua
    · rw [other_conn_untouched rs H w c a hc (.req c r) (.inr ⟨r, rfl⟩)]
      exact hua


end Hc.Http
