import HcModel.Characteristic
/- helper lemmas for C11 / C12 (core Lean only) -/
namespace Hc.Charac
open Hc

theorem F64.lt_irrefl (a : F64) : F64.lt a a = false := by
  cases a with
  | nan => rfl
  | inf n => cases n <;> rfl
  | fin n m e => simp [F64.lt]

theorem F64.le_refl (a : F64) : F64.le a a = true := by simp [F64.le, F64.lt_irrefl]

/-- the invariant of C12 on one stored value -/
def good (cfg : Config) (v : GVal) : Bool := wellTyped cfg v && inRange cfg v && finiteV v

theorem clampFloat_good (cfg : Config) (hb : boundsOk cfg = true) (x : F64) (hx : x.isFinite = true) :
    inRange cfg (.float (clampFloat cfg x)) = true ∧ (clampFloat cfg x).isFinite = true := by
  unfold boundsOk at hb
  unfold clampFloat inRange
  cases hmx : cfg.max <;> cases hmn : cfg.min <;> simp [hmx, hmn] at hb ⊢ <;>
    (try split) <;> (try split) <;> simp_all [F64.le, F64.lt_irrefl]

theorem clampInt_good (cfg : Config) (hb : boundsOk cfg = true) (i : Int) :
    inRange cfg (.int (clampInt cfg i)) = true := by
  unfold boundsOk at hb
  unfold clampInt inRange
  cases hmx : cfg.max <;> cases hmn : cfg.min <;> simp [hmx, hmn] at hb ⊢ <;>
    (try split) <;> (try split) <;> (try simp) <;> omega

/-- what `convertClamp` hands on: a value of the declared type, in range, finite -/
theorem convertClamp_good (cfg : Config) (hf : cfg.format ≠ .other) (hb : boundsOk cfg = true) (v : GVal) :
    convertClamp cfg v = some none ∨
    ∃ v2 t, convertClamp cfg v = some (some v2) ∧ cfg.format.gtype = some t ∧ v2.hasType t = true ∧
      inRange cfg v2 = true ∧ finiteV v2 = true := by
  unfold convertClamp
  cases hfm : cfg.format <;> simp [hfm, convert, Format.gtype] at hf ⊢
  case float =>
    by_cases hx : (toFloat64 v).isFinite = true
    · right; refine ⟨_, by simp [hx]; rfl, ?_⟩
      have := clampFloat_good cfg hb _ hx
      simp [GVal.hasType, finiteV, this]
    · left; simp [hx]
  all_goals
    first
    | exact ⟨by simp [GVal.hasType], by simp [clampInt_good cfg hb], by simp [finiteV]⟩
    | simp [GVal.hasType, inRange, finiteV]

/-- invariant of a characteristic with configuration `cfg` -/
structure Inv (cfg : Config) (c : Chr) : Prop where
  cfg_eq : c.cfg = cfg
  val : good cfg c.value = true
  log : logTyped cfg c.log = true

theorem goEq_typed (a b : GVal) (t : GType) (h : b.hasType t = true) : ∃ r, goEq a b = some r := by
  cases b <;> cases t <;> simp [GVal.hasType] at h <;> cases a <;> simp [goEq]

theorem cbOutcome_ok (cfg : Config) (t : GType) (hg : cfg.format.gtype = some t) (hm : tcbMatches cfg = true)
    (fc : Bool) (v : GVal) (hv : v.hasType t = true) : cbOutcome cfg fc v = .ok := by
  unfold cbOutcome
  unfold tcbMatches at hm
  cases htc : cfg.tcb with
  | none => rfl
  | some t' =>
    simp [htc, hg] at hm
    subst hm
    simp [hv]

theorem commit_inv (cfg : Config) (c : Chr) (h : Inv cfg c) (v2 : GVal) (t : GType)
    (hg : cfg.format.gtype = some t) (ht : v2.hasType t = true) (hr : inRange cfg v2 = true)
    (hfin : finiteV v2 = true) (fc cp : Bool) :
    Inv cfg (commit c v2 fc cp).1 ∧ (tcbMatches cfg = true → (commit c v2 fc cp).2 = .ok) := by
  obtain ⟨rfl, hv, hl⟩ := h
  obtain ⟨same, hs⟩ := goEq_typed c.value v2 t ht
  unfold commit
  simp only [hs]
  split
  · exact ⟨⟨rfl, hv, hl⟩, fun _ => by first | rfl | trivial⟩
  · split
    · exact ⟨⟨rfl, hv, hl⟩, fun _ => by first | rfl | trivial⟩
    · refine ⟨⟨rfl, ?_, ?_⟩, fun hm => cbOutcome_ok _ t hg hm _ _ ht⟩
      · cases hpr : c.cfg.perms.pr
        · simpa using hv
        · have hnn : v2.isNil = false := by cases v2 <;> cases t <;> simp_all [GVal.hasType, GVal.isNil]
          simp [good, wellTyped, hg, ht, hr, hfin]
      · simp [logTyped, List.all_append, hg, ht] at hl ⊢
        exact hl

theorem updateValue_inv (cfg : Config) (hf : cfg.format ≠ .other) (hb : boundsOk cfg = true)
    (c : Chr) (h : Inv cfg c) (v : GVal) (fc cp : Bool) :
    Inv cfg (updateValue c v fc cp).1 ∧ (tcbMatches cfg = true → (updateValue c v fc cp).2 = .ok) := by
  have hc := h.cfg_eq
  unfold updateValue
  rw [hc]
  rcases convertClamp_good cfg hf hb v with h0 | ⟨v2, t, h1, hg, ht, hr, hfin⟩
  · simp only [h0]; exact ⟨h, fun _ => by first | rfl | trivial⟩
  · simp only [h1]; exact commit_inv cfg c h v2 t hg ht hr hfin fc cp

theorem getValue_inv (cfg : Config) (hf : cfg.format ≠ .other) (hb : boundsOk cfg = true)
    (c : Chr) (h : Inv cfg c) (fc : Bool) (gf : Option GVal) :
    Inv cfg (getValue c fc gf).1 ∧ (tcbMatches cfg = true → (getValue c fc gf).2.1 = .ok) := by
  cases gf with
  | none => exact ⟨h, fun _ => rfl⟩
  | some v =>
    have := updateValue_inv cfg hf hb c h v fc false
    unfold getValue
    cases ho : (updateValue c v fc false).2 <;> simp_all

theorem putEntry_inv (cfg : Config) (hf : cfg.format ≠ .other) (hb : boundsOk cfg = true)
    (s : St) (h : Inv cfg s.char) (e : PutEntry) :
    Inv cfg (putEntry s e).1.char ∧ (tcbMatches cfg = true → (putEntry s e).2.1 = .ok) := by
  unfold putEntry
  by_cases hn : JVal.isNull e.value = true
  · simp only [hn, if_true]
    split <;> (try split) <;> (try split) <;> exact ⟨h, fun _ => by first | rfl | trivial⟩
  · have := updateValue_inv cfg hf hb s.char h (ofJson e.value) true true
    simp only [hn]
    cases ho : (updateValue s.char (ofJson e.value) true true).2
    · simp only [ho] at this ⊢
      simp only [Bool.false_eq_true, if_false, ho]
      split <;> (try split) <;> (try split) <;> exact ⟨this.1, fun _ => by first | rfl | trivial⟩
    · simp only [ho] at this ⊢
      simp only [Bool.false_eq_true, if_false, ho]
      exact ⟨this.1, fun hm => by simpa using this.2 hm⟩

theorem putEntries_inv (cfg : Config) (hf : cfg.format ≠ .other) (hb : boundsOk cfg = true)
    (es : List PutEntry) : ∀ (s : St) (acc : List Int), Inv cfg s.char →
    Inv cfg (putEntries s es acc).1.char ∧ (tcbMatches cfg = true → (putEntries s es acc).2.1 = .ok) := by
  induction es with
  | nil => intro s acc h; exact ⟨h, fun _ => rfl⟩
  | cons e es ih =>
    intro s acc h
    have he := putEntry_inv cfg hf hb s h e
    unfold putEntries
    rcases hp : putEntry s e with ⟨s1, o, st⟩
    rw [hp] at he
    cases o with
    | panic => exact ⟨he.1, fun hm => by simpa using he.2 hm⟩
    | ok => exact ih s1 _ he.1

theorem step_inv (cfg : Config) (hf : cfg.format ≠ .other) (hb : boundsOk cfg = true)
    (s : St) (h : Inv cfg s.char) (o : Op) :
    Inv cfg (step s o).1.char ∧ (tcbMatches cfg = true → (step s o).2.outcome = .ok) := by
  cases o with
  | update v fc cp => exact updateValue_inv cfg hf hb s.char h v fc cp
  | get fc gf => exact getValue_inv cfg hf hb s.char h fc gf
  | put es => exact putEntries_inv cfg hf hb es s [] h

theorem trace_inv (cfg : Config) (hf : cfg.format ≠ .other) (hb : boundsOk cfg = true)
    (ops : List Op) : ∀ (s : St), Inv cfg s.char →
    ∀ so ∈ trace s ops, Inv cfg so.1.char ∧ (tcbMatches cfg = true → so.2.outcome = .ok) := by
  induction ops with
  | nil => intro s _ so hso; simp [trace] at hso
  | cons o os ih =>
    intro s h so hso
    have hs := step_inv cfg hf hb s h o
    simp only [trace, List.mem_cons] at hso
    rcases hso with rfl | hso
    · exact hs
    · exact ih _ hs.1 so hso

theorem start_inv (cfg : Config) : Inv cfg (start cfg).char :=
  ⟨rfl, by simp [start, init, good, wellTyped, inRange, finiteV, GVal.isNil], by simp [start, init, logTyped]⟩

-- characteristics without a format ---------------------------------------------------------------------------------

/-- a characteristic without a (known) format and without a typed remote-update callback: nothing is converted,
    clamped or asserted — and, since the comparison is total (F50 repair), nothing can panic -/
def Plain (c : Chr) : Prop := c.cfg.format = .other ∧ c.cfg.tcb = none

theorem updateValue_plain (c : Chr) (h : Plain c) (v : GVal) (fc cp : Bool) :
    (updateValue c v fc cp).2 = .ok ∧ Plain (updateValue c v fc cp).1 := by
  obtain ⟨hf, ht⟩ := h
  have hcc : convertClamp c.cfg v = some (some v) := by simp [convertClamp, convert, hf]
  simp only [updateValue, hcc]
  unfold commit
  have hg : ∃ b, goEq c.value v = some b := by
    cases c.value <;> cases v <;> exact ⟨_, rfl⟩
  obtain ⟨b, hb⟩ := hg
  simp only [hb]
  split
  · exact ⟨rfl, hf, ht⟩
  · split
    · exact ⟨rfl, hf, ht⟩
    · exact ⟨by simp [cbOutcome, ht], hf, ht⟩

theorem getValue_plain (c : Chr) (h : Plain c) (fc : Bool) (gf : Option GVal) :
    (getValue c fc gf).2.1 = .ok ∧ Plain (getValue c fc gf).1 := by
  cases gf with
  | none => exact ⟨rfl, h⟩
  | some v =>
    have := updateValue_plain c h v fc false
    simp only [getValue, this.1]
    exact ⟨trivial, this.2⟩

/-- the subscription half of the loop body: no panic, the characteristic is left alone -/
theorem putEntry_tail_plain (s1 : St) (e : PutEntry) (st0 : Option Int) (h : Plain s1.char) :
    let r : St × Outcome × Option Int :=
      if JVal.isNull e.ev then (s1, .ok, st0)
      else if !s1.char.cfg.perms.ev then (s1, .ok, some statusNotificationNotSupported)
      else match e.ev with
        | .bool b => ({ s1 with sub := b }, .ok, st0)
        | _ => (s1, .ok, st0)
    r.2.1 = .ok ∧ Plain r.1.char := by
  intro r
  simp only [r]
  split
  · exact ⟨rfl, h⟩
  · split
    · exact ⟨rfl, h⟩
    · split <;> exact ⟨rfl, h⟩

theorem putEntry_plain (s : St) (h : Plain s.char) (e : PutEntry) :
    (putEntry s e).2.1 = .ok ∧ Plain (putEntry s e).1.char := by
  unfold putEntry
  by_cases hn : JVal.isNull e.value = true
  · simp only [hn, if_true]
    exact putEntry_tail_plain ⟨s.char, s.sub⟩ e _ h
  · have := updateValue_plain s.char h (ofJson e.value) true true
    simp only [hn, Bool.false_eq_true, if_false, this.1]
    exact putEntry_tail_plain ⟨_, s.sub⟩ e _ this.2

theorem putEntries_plain (es : List PutEntry) : ∀ (s : St) (acc : List Int), Plain s.char →
    (putEntries s es acc).2.1 = .ok ∧ Plain (putEntries s es acc).1.char := by
  induction es with
  | nil => intro s acc h; exact ⟨rfl, h⟩
  | cons e es ih =>
    intro s acc h
    have he := putEntry_plain s h e
    unfold putEntries
    rcases hp : putEntry s e with ⟨s1, o, st⟩
    rw [hp] at he
    simp only at he
    obtain ⟨ho, h1⟩ := he
    subst ho
    exact ih s1 _ h1

theorem step_plain (s : St) (h : Plain s.char) (o : Op) : (step s o).2.outcome = .ok ∧ Plain (step s o).1.char := by
  cases o with
  | update v fc cp => exact updateValue_plain s.char h v fc cp
  | get fc gf => exact getValue_plain s.char h fc gf
  | put es => exact putEntries_plain es s [] h

theorem trace_plain (ops : List Op) : ∀ (s : St), Plain s.char → ∀ so ∈ trace s ops, so.2.outcome = .ok := by
  induction ops with
  | nil => intro s _ so hso; simp [trace] at hso
  | cons o os ih =>
    intro s h so hso
    have hs := step_plain s h o
    simp only [trace, List.mem_cons] at hso
    rcases hso with rfl | hso
    · exact hs.1
    · exact ih _ hs.2 so hso

end Hc.Charac

-- every stored value is an output of convert + clamp (F53) ----------------------------------------------------------
namespace Hc.Charac

/-- `v` is what the characteristic was constructed with (nothing) or what `convertClamp` made of some supplied value -/
def Produced (cfg : Config) (v : GVal) : Prop := v = (init cfg).value ∨ ∃ w, convertClamp cfg w = some (some v)

structure InvP (cfg : Config) (c : Chr) : Prop where
  cfg_eq : c.cfg = cfg
  val : Produced cfg c.value

theorem commit_val (c : Chr) (v2 : GVal) (fc cp : Bool) :
    (commit c v2 fc cp).1.cfg = c.cfg ∧ ((commit c v2 fc cp).1.value = c.value ∨ (commit c v2 fc cp).1.value = v2) := by
  unfold commit
  split
  · simp
  · split
    · simp
    · split
      · simp
      · cases c.cfg.perms.pr <;> simp

theorem updateValue_invP (cfg : Config) (c : Chr) (h : InvP cfg c) (v : GVal) (fc cp : Bool) :
    InvP cfg (updateValue c v fc cp).1 := by
  obtain ⟨rfl, hv⟩ := h
  unfold updateValue
  cases hc : convertClamp c.cfg v with
  | none => exact ⟨rfl, hv⟩
  | some o =>
    cases o with
    | none => exact ⟨rfl, hv⟩
    | some v2 =>
      have := commit_val c v2 fc cp
      refine ⟨this.1, ?_⟩
      rcases this.2 with h1 | h1
      · simp only [h1]; exact hv
      · simp only [h1]; exact Or.inr ⟨v, hc⟩

theorem getValue_invP (cfg : Config) (c : Chr) (h : InvP cfg c) (fc : Bool) (gf : Option GVal) :
    InvP cfg (getValue c fc gf).1 := by
  cases gf with
  | none => exact h
  | some v =>
    have := updateValue_invP cfg c h v fc false
    unfold getValue
    cases ho : (updateValue c v fc false).2 <;> simp_all

theorem putEntry_invP (cfg : Config) (s : St) (h : InvP cfg s.char) (e : PutEntry) :
    InvP cfg (putEntry s e).1.char := by
  unfold putEntry
  by_cases hn : JVal.isNull e.value = true
  · simp only [hn, if_true]
    split <;> (try split) <;> (try split) <;> exact h
  · have := updateValue_invP cfg s.char h (ofJson e.value) true true
    simp only [hn]
    cases ho : (updateValue s.char (ofJson e.value) true true).2
    · simp only [Bool.false_eq_true, if_false, ho]
      split <;> (try split) <;> (try split) <;> exact this
    · simp only [Bool.false_eq_true, if_false, ho]
      exact this

theorem putEntries_invP (cfg : Config) (es : List PutEntry) : ∀ (s : St) (acc : List Int), InvP cfg s.char →
    InvP cfg (putEntries s es acc).1.char := by
  induction es with
  | nil => intro s acc h; exact h
  | cons e es ih =>
    intro s acc h
    have he := putEntry_invP cfg s h e
    unfold putEntries
    rcases hp : putEntry s e with ⟨s1, o, st⟩
    rw [hp] at he
    cases o with
    | panic => exact he
    | ok => exact ih s1 _ he

theorem step_invP (cfg : Config) (s : St) (h : InvP cfg s.char) (o : Op) : InvP cfg (step s o).1.char := by
  cases o with
  | update v fc cp => exact updateValue_invP cfg s.char h v fc cp
  | get fc gf => exact getValue_invP cfg s.char h fc gf
  | put es => exact putEntries_invP cfg es s [] h

theorem trace_invP (cfg : Config) (ops : List Op) : ∀ (s : St), InvP cfg s.char →
    ∀ so ∈ trace s ops, InvP cfg so.1.char := by
  induction ops with
  | nil => intro s _ so hso; simp [trace] at hso
  | cons o os ih =>
    intro s h so hso
    have hs := step_invP cfg s h o
    simp only [trace, List.mem_cons] at hso
    rcases hso with rfl | hso
    · exact hs
    · exact ih _ hs so hso

theorem start_invP (cfg : Config) : InvP cfg (start cfg).char := ⟨rfl, Or.inl rfl⟩

/-- within the range of the format (integer formats; everything else has no such range) -/
def inFormat (cfg : Config) : GVal → Bool
  | .int i => match cfg.format.range with
    | some (lo, hi) => decide (lo ≤ i) && decide (i ≤ hi)
    | none => true
  | _ => true

/-- declared integer bounds lie within the range of the format themselves -/
def boundsInFormat (cfg : Config) : Bool :=
  match cfg.format.range with
  | some (lo, hi) =>
    (match cfg.min with | .int mn => decide (lo ≤ mn) && decide (mn ≤ hi) | _ => true) &&
    (match cfg.max with | .int mx => decide (lo ≤ mx) && decide (mx ≤ hi) | _ => true)
  | none => true

theorem satI_range (lo hi i : Int) (h : lo ≤ hi) : lo ≤ satI lo hi i ∧ satI lo hi i ≤ hi := by
  unfold satI; split <;> (try split) <;> omega

theorem truncSat_range (lo hi : Int) (h : lo ≤ hi) (x : F64) : lo ≤ x.truncSat lo hi ∧ x.truncSat lo hi ≤ hi := by
  cases x with
  | nan => simp only [F64.truncSat]; split <;> (try split) <;> omega
  | inf n => cases n <;> simp [F64.truncSat] <;> omega
  | fin n m e => simp only [F64.truncSat]; split <;> (try split) <;> omega

theorem toIntSat_range (lo hi : Int) (h : lo ≤ hi) (v : GVal) : lo ≤ toIntSat lo hi v ∧ toIntSat lo hi v ≤ hi := by
  cases v <;> first | exact truncSat_range lo hi h _ | exact satI_range lo hi _ h

theorem clampInt_between (cfg : Config) (lo hi i : Int) (hi1 : lo ≤ i) (hi2 : i ≤ hi)
    (hmn : ∀ mn, cfg.min = .int mn → lo ≤ mn ∧ mn ≤ hi) (hmx : ∀ mx, cfg.max = .int mx → lo ≤ mx ∧ mx ≤ hi) :
    lo ≤ clampInt cfg i ∧ clampInt cfg i ≤ hi := by
  unfold clampInt
  cases h1 : cfg.max <;> cases h2 : cfg.min <;> simp only [] <;>
    (try (have := hmn _ h2)) <;> (try (have := hmx _ h1)) <;> (try split) <;> (try split) <;> omega

theorem clampSat_range (cfg : Config) (lo hi : Int) (h : lo ≤ hi) (w : GVal)
    (hmn : ∀ mn, cfg.min = .int mn → lo ≤ mn ∧ mn ≤ hi) (hmx : ∀ mx, cfg.max = .int mx → lo ≤ mx ∧ mx ≤ hi) :
    lo ≤ clampInt cfg (toIntSat lo hi w) ∧ clampInt cfg (toIntSat lo hi w) ≤ hi :=
  have hr := toIntSat_range lo hi h w
  clampInt_between cfg lo hi _ hr.1 hr.2 hmn hmx

end Hc.Charac
