import HcModel.Reentrant
/- helper lemmas for the re-entrant update theorems (C09) -/
namespace Hc.Lemmas.Reentrant
open Hc Hc.Charac

/-- `commit` either leaves the characteristic alone or appends exactly one callback entry whose `new` is the stored
    value (when the characteristic is readable). -/
theorem commit_shape (c : Chr) (v2 : GVal) (fc cp : Bool) :
    (commit c v2 fc cp).1 = c ∨
    ((commit c v2 fc cp).1.log = c.log ++ [⟨fc, v2, c.value⟩] ∧ (commit c v2 fc cp).1.cfg = c.cfg ∧
     (c.cfg.perms.pr = true → (commit c v2 fc cp).1.value = v2)) := by
  unfold commit
  split
  · exact Or.inl rfl
  · split
    · exact Or.inl rfl
    · split
      · exact Or.inl rfl
      · refine Or.inr ⟨rfl, rfl, fun h => ?_⟩
        simp [h]

theorem update_shape (c : Chr) (v : GVal) (fc cp : Bool) :
    (updateValue c v fc cp).1 = c ∨
    ∃ v2, (updateValue c v fc cp).1.log = c.log ++ [⟨fc, v2, c.value⟩] ∧ (updateValue c v fc cp).1.cfg = c.cfg ∧
     (c.cfg.perms.pr = true → (updateValue c v fc cp).1.value = v2) := by
  unfold updateValue
  split
  · exact Or.inl rfl
  · exact Or.inl rfl
  · rename_i v2 _
    rcases commit_shape c v2 fc cp with h | h
    · exact Or.inl h
    · exact Or.inr ⟨v2, h⟩

/-- what a finished run that called callbacks looks like: the value given to the last callback invocation is the one
    stored, and what that invocation asked for is either nothing or already in effect (the update it asked for is a
    no-op on the final state) -/
def Settled (react : React) (c : Chr) : Prop :=
  ∃ e, c.log.getLast? = some e ∧ (c.cfg.perms.pr = true → c.value = e.new) ∧
    (react e.new = none ∨ ∃ w, react e.new = some w ∧ (updateValue c w false false).1 = c)

theorem updateRe_spec (react : React) (fuel : Nat) (c : Chr) (v : GVal) (fc cp : Bool)
    (hok : (updateRe false react fuel c v fc cp).2 = .ok) :
    (updateRe false react fuel c v fc cp).1.cfg = c.cfg ∧
    c.log.length ≤ (updateRe false react fuel c v fc cp).1.log.length ∧
    ((updateRe false react fuel c v fc cp).1.log.length = c.log.length →
      (updateRe false react fuel c v fc cp).1 = c ∧ (updateValue c v fc cp).1 = c) ∧
    (c.log.length < (updateRe false react fuel c v fc cp).1.log.length →
      Settled react (updateRe false react fuel c v fc cp).1) := by
  induction fuel generalizing c v fc cp with
  | zero => simp [updateRe] at hok
  | succ n ih =>
    unfold updateRe at hok ⊢
    simp only at hok ⊢
    rcases hu : (updateValue c v fc cp) with ⟨c1, o⟩
    rw [hu] at hok
    have hs := update_shape c v fc cp
    rw [hu] at hs
    simp only at hs hok ⊢
    cases o with
    | panic => simp at hok
    | ok =>
      simp only at hok ⊢
      by_cases hl : c1.log.length = c.log.length
      · simp only [hl, if_true] at hok ⊢
        rcases hs with h | ⟨v2, h1, h2, _⟩
        · subst h
          exact ⟨rfl, Nat.le_refl _, fun _ => ⟨rfl, rfl⟩, fun h => absurd h (Nat.lt_irrefl _)⟩
        · rw [h1] at hl; simp at hl
      · simp only [hl, if_false] at hok ⊢
        rcases hs with h | ⟨v2, h1, h2, h3⟩
        · exact absurd (by rw [h]) hl
        · have hlast : c1.log.getLast? = some ⟨fc, v2, c.value⟩ := by rw [h1]; simp
          have hlen : c.log.length < c1.log.length := by rw [h1]; simp
          rw [hlast] at hok ⊢
          simp only at hok ⊢
          cases hr : react v2 with
          | none =>
            simp only [hr] at hok ⊢
            refine ⟨h2, Nat.le_of_lt hlen, fun h => absurd h hl, fun _ => ⟨_, hlast, ?_, Or.inl hr⟩⟩
            intro hp; rw [h2] at hp; exact h3 hp
          | some w =>
            simp only [hr, Bool.false_eq_true, if_false] at hok ⊢
            obtain ⟨i1, i2, i3, i4⟩ := ih c1 w false false hok
            refine ⟨i1.trans h2, by omega, fun h => by omega, fun _ => ?_⟩
            by_cases hn : (updateRe false react n c1 w false false).1.log.length = c1.log.length
            · obtain ⟨e1, e2⟩ := i3 hn
              rw [e1]
              refine ⟨_, hlast, ?_, Or.inr ⟨w, hr, e2⟩⟩
              intro hp; rw [h2] at hp; exact h3 hp
            · exact i4 (by omega)

end Hc.Lemmas.Reentrant
