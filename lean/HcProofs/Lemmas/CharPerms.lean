import HcModel.Characteristic
/- helper lemmas for C11 (core Lean only) -/
namespace Hc.Charac
open Hc

/-- an operation that carries the remote permission check: UpdateValueFromConnection or a PUT -/
def Op.remote : Op → Bool
  | .update _ _ cp => cp
  | .put _ => true
  | .get _ _ => false

theorem commit_cfg (c : Chr) (v : GVal) (fc cp : Bool) : (commit c v fc cp).1.cfg = c.cfg := by
  unfold commit; split <;> (try split) <;> (try split) <;> rfl

theorem updateValue_cfg (c : Chr) (v : GVal) (fc cp : Bool) : (updateValue c v fc cp).1.cfg = c.cfg := by
  unfold updateValue; split <;> first | rfl | exact commit_cfg ..

theorem commit_no_pw (c : Chr) (h : c.cfg.perms.pw = false) (v : GVal) (fc : Bool) :
    (commit c v fc true).1 = c := by
  unfold commit; split <;> (try split) <;> (try split) <;> simp_all

theorem updateValue_no_pw (c : Chr) (h : c.cfg.perms.pw = false) (v : GVal) (fc : Bool) :
    (updateValue c v fc true).1 = c := by
  unfold updateValue; split <;> first | rfl | exact commit_no_pw c h ..

theorem putEntry_char (s : St) (e : PutEntry) :
    (putEntry s e).1.char = (if JVal.isNull e.value then s.char else (updateValue s.char (ofJson e.value) true true).1) := by
  unfold putEntry
  by_cases hn : JVal.isNull e.value = true
  · simp only [hn, if_true]; split <;> (try split) <;> (try split) <;> rfl
  · simp only [hn]
    cases ho : (updateValue s.char (ofJson e.value) true true).2 <;> simp only [Bool.false_eq_true, if_false, ho]
    · split <;> (try split) <;> (try split) <;> rfl

theorem putEntry_no_pw (s : St) (h : s.char.cfg.perms.pw = false) (e : PutEntry) :
    (putEntry s e).1.char = s.char := by
  rw [putEntry_char]; split
  · rfl
  · exact updateValue_no_pw _ h _ _

theorem putEntries_no_pw (es : List PutEntry) : ∀ (s : St) (acc : List Int), s.char.cfg.perms.pw = false →
    (putEntries s es acc).1.char = s.char := by
  induction es with
  | nil => intro s acc _; rfl
  | cons e es ih =>
    intro s acc h
    have he := putEntry_no_pw s h e
    unfold putEntries
    rcases hp : putEntry s e with ⟨s1, o, st⟩
    rw [hp] at he
    cases o with
    | panic => exact he
    | ok =>
      simp only at he ⊢
      rw [ih s1 _ (by rw [he]; exact h), he]

theorem step_no_pw (s : St) (h : s.char.cfg.perms.pw = false) (o : Op) (ho : o.remote = true) :
    (step s o).1.char = s.char := by
  cases o with
  | update v fc cp => simp only [Op.remote] at ho; subst ho; exact updateValue_no_pw _ h _ _
  | get fc gf => simp [Op.remote] at ho
  | put es => exact putEntries_no_pw es s [] h

-- unreadable -----------------------------------------------------------------------------------------

theorem commit_unreadable (c : Chr) (h : c.cfg.perms.pr = false) (v : GVal) (fc cp : Bool) :
    (commit c v fc cp).1.value = c.value := by
  unfold commit; split <;> (try split) <;> (try split) <;> simp_all

theorem updateValue_unreadable (c : Chr) (h : c.cfg.perms.pr = false) (v : GVal) (fc cp : Bool) :
    (updateValue c v fc cp).1.value = c.value := by
  unfold updateValue; split <;> first | rfl | exact commit_unreadable c h ..

/-- state invariant of an unreadable characteristic -/
def Unread (cfg : Config) (c : Chr) : Prop := c.cfg = cfg ∧ c.value = .nil

theorem updateValue_unread (cfg : Config) (hp : cfg.perms.pr = false) (c : Chr) (h : Unread cfg c)
    (v : GVal) (fc cp : Bool) : Unread cfg (updateValue c v fc cp).1 :=
  ⟨by rw [updateValue_cfg]; exact h.1, by rw [updateValue_unreadable c (by rw [h.1]; exact hp)]; exact h.2⟩

theorem putEntries_unread (cfg : Config) (hp : cfg.perms.pr = false) (es : List PutEntry) :
    ∀ (s : St) (acc : List Int), Unread cfg s.char → Unread cfg (putEntries s es acc).1.char := by
  induction es with
  | nil => intro s acc h; exact h
  | cons e es ih =>
    intro s acc h
    have he : Unread cfg (putEntry s e).1.char := by
      rw [putEntry_char]; split
      · exact h
      · exact updateValue_unread cfg hp _ h _ _ _
    unfold putEntries
    rcases hpe : putEntry s e with ⟨s1, o, st⟩
    rw [hpe] at he
    cases o with
    | panic => exact he
    | ok => exact ih s1 _ he

theorem step_unread (cfg : Config) (hp : cfg.perms.pr = false) (s : St) (h : Unread cfg s.char) (o : Op) :
    Unread cfg (step s o).1.char ∧ (step s o).2.read = .nil := by
  cases o with
  | update v fc cp => exact ⟨updateValue_unread cfg hp _ h _ _ _, rfl⟩
  | put es => exact ⟨putEntries_unread cfg hp es s [] h, rfl⟩
  | get fc gf =>
    cases gf with
    | none => exact ⟨h, h.2⟩
    | some v =>
      have hu := updateValue_unread cfg hp _ h v fc false
      simp only [step, getValue]
      cases ho : (updateValue s.char v fc false).2 <;> simp only [] <;> exact ⟨hu, by first | exact hu.2 | rfl | trivial⟩

theorem trace_unread (cfg : Config) (hp : cfg.perms.pr = false) (ops : List Op) :
    ∀ (s : St), Unread cfg s.char → ∀ so ∈ trace s ops, Unread cfg so.1.char ∧ so.2.read = .nil := by
  induction ops with
  | nil => intro s _ so hso; simp [trace] at hso
  | cons o os ih =>
    intro s h so hso
    have hs := step_unread cfg hp s h o
    simp only [trace, List.mem_cons] at hso
    rcases hso with rfl | hso
    · exact hs
    · exact ih _ hs.1 so hso

-- subscriptions ---------------------------------------------------------------------------------------

theorem putEntry_cfg (s : St) (e : PutEntry) : (putEntry s e).1.char.cfg = s.char.cfg := by
  rw [putEntry_char]; split
  · rfl
  · exact updateValue_cfg ..

/-- the status an entry of a request gets on a characteristic without `ev` (and with or without `pw`), if it fails -/
def failStatus (pw : Bool) (e : PutEntry) : Option Int :=
  if !JVal.isNull e.ev then some statusNotificationNotSupported
  else if !JVal.isNull e.value && !pw then some statusReadOnly
  else none

/-- without `ev`: the subscription flag is untouched, and an entry that is processed fails exactly when it carries `ev`
    or carries a value for a characteristic that is not writable -/
theorem putEntry_no_ev (s : St) (h : s.char.cfg.perms.ev = false) (e : PutEntry) :
    (putEntry s e).1.sub = s.sub ∧
    ((putEntry s e).2.1 = .ok → (putEntry s e).2.2 = failStatus s.char.cfg.perms.pw e) := by
  unfold putEntry failStatus
  by_cases hn : JVal.isNull e.value = true
  · simp only [hn, if_true]
    by_cases hev : JVal.isNull e.ev = true
    · simp [hev]
    · simp [hev, h]
  · have hc := updateValue_cfg s.char (ofJson e.value) true true
    simp only [hn]
    cases ho : (updateValue s.char (ofJson e.value) true true).2 <;> simp only [Bool.false_eq_true, if_false, ho]
    · by_cases hev : JVal.isNull e.ev = true
      · simp [hev]
      · simp [hev, hc, h]
    · simp

/-- the statuses of the entries that fail on an `ev`-less characteristic -/
def evStatuses (pw : Bool) (es : List PutEntry) : List Int := es.filterMap (failStatus pw)

theorem putEntries_no_ev (es : List PutEntry) : ∀ (s : St) (acc : List Int), s.char.cfg.perms.ev = false →
    (putEntries s es acc).1.sub = s.sub ∧
    ((putEntries s es acc).2.1 = .ok → (putEntries s es acc).2.2 = acc ++ evStatuses s.char.cfg.perms.pw es) := by
  induction es with
  | nil => intro s acc _; simp [putEntries, evStatuses]
  | cons e es ih =>
    intro s acc h
    have he := putEntry_no_ev s h e
    have hc := putEntry_cfg s e
    unfold putEntries
    rcases hp : putEntry s e with ⟨s1, o, st⟩
    rw [hp] at he hc
    cases o with
    | panic => exact ⟨he.1, by simp⟩
    | ok =>
      simp only at he hc ⊢
      have ih' := ih s1 (acc ++ st.toList) (by rw [hc]; exact h)
      refine ⟨by rw [ih'.1, he.1], fun hok => ?_⟩
      rw [ih'.2 hok, he.2 trivial, hc]
      cases hf : failStatus s.char.cfg.perms.pw e <;> simp [evStatuses, List.filterMap_cons, hf]

theorem putStatuses_length : ∀ (es : List PutEntry) (s : St), (putStatuses s es).length = es.length
  | [], _ => rfl
  | e :: es, s => by simp [putStatuses, putStatuses_length es]

theorem step_cfg (s : St) (o : Op) : (step s o).1.char.cfg = s.char.cfg := by
  cases o with
  | update v fc cp => exact updateValue_cfg ..
  | get fc gf =>
    cases gf with
    | none => rfl
    | some v =>
      simp only [step, getValue]
      cases ho : (updateValue s.char v fc false).2 <;> exact updateValue_cfg ..
  | put es =>
    simp only [step]
    generalize ([] : List Int) = acc
    induction es generalizing s acc with
    | nil => rfl
    | cons e es ih =>
      unfold putEntries
      have hc := putEntry_cfg s e
      rcases hp : putEntry s e with ⟨s1, o, st⟩
      rw [hp] at hc
      cases o with
      | panic => exact hc
      | ok => simp only at hc ⊢; rw [ih, hc]

theorem step_no_ev (s : St) (h : s.char.cfg.perms.ev = false) (o : Op) : (step s o).1.sub = s.sub := by
  cases o with
  | update v fc cp => rfl
  | get fc gf => rfl
  | put es => exact (putEntries_no_ev es s [] h).1

theorem trace_no_ev (ops : List Op) : ∀ (s : St), s.char.cfg.perms.ev = false →
    ∀ so ∈ trace s ops, so.1.sub = s.sub := by
  induction ops with
  | nil => intro s _ so hso; simp [trace] at hso
  | cons o os ih =>
    intro s h so hso
    simp only [trace, List.mem_cons] at hso
    rcases hso with rfl | hso
    · exact step_no_ev s h o
    · rw [ih (step s o).1 (by rw [step_cfg]; exact h) so hso, step_no_ev s h o]

end Hc.Charac
