import HcModel.ChunkedWriter
import HcProofs.Lemmas.Chunks
namespace Hc.Lemmas.ChunkedWriter
open Hc Hc.ChunkedWriter

theorem take_add_drop_take (p : List α) (nn k : Nat) :
    p.take (nn + k) = p.take nn ++ (p.drop nn).take k := by
  rw [List.take_add]

theorem piece_take (p : List α) (nn n a : Nat) :
    ((p.drop nn).take n).take a = (p.drop nn).take (min a ((p.drop nn).take n).length) := by
  rw [List.take_take, List.take_eq_take_iff]
  simp only [List.length_take, List.length_drop]
  omega

/-- the bytes the writer took are exactly the first `nn` bytes of the body, whatever the writer did -/
theorem loop_accepted (n : Nat) (hn : 0 < n) (p : Bytes) (nn : Nat) (s : List Resp) (off acd : List Bytes)
    (h : acd.flatten = p.take nn) :
    (loop n hn p nn s off acd).accepted.flatten = p.take (loop n hn p nn s off acd).nn := by
  fun_induction loop n hn p nn s off acd with
  | case1 nn off acd hlt piece ih =>
    apply ih
    rw [List.flatten_append, h, take_add_drop_take]; simp [piece]
  | case2 nn off acd hlt piece r rs he => simpa using h
  | case3 nn off acd hlt piece r rs he ih =>
    apply ih
    rw [List.flatten_append, h, take_add_drop_take]
    simp only [List.flatten_cons, List.flatten_nil, List.append_nil, piece]
    rw [piece_take]
  | case4 nn off acd hge => simpa using h

theorem loop_nn_le (n : Nat) (hn : 0 < n) (p : Bytes) (nn : Nat) (s : List Resp) (off acd : List Bytes)
    (h : nn ≤ p.length) : (loop n hn p nn s off acd).nn ≤ p.length := by
  fun_induction loop n hn p nn s off acd with
  | case1 nn off acd hlt piece ih =>
    apply ih
    simp only [piece, List.length_take, List.length_drop]; omega
  | case2 nn off acd hlt piece r rs he => simpa using h
  | case3 nn off acd hlt piece r rs he ih =>
    apply ih
    simp only [piece, List.length_take, List.length_drop]; omega
  | case4 nn off acd hge => simpa using h

theorem loop_ok_all (n : Nat) (hn : 0 < n) (p : Bytes) (nn : Nat) (s : List Resp) (off acd : List Bytes)
    (h : nn ≤ p.length) (hok : (loop n hn p nn s off acd).err = false) :
    (loop n hn p nn s off acd).nn = p.length := by
  have h1 := loop_nn_le n hn p nn s off acd h
  suffices p.length ≤ (loop n hn p nn s off acd).nn by omega
  clear h1 h
  fun_induction loop n hn p nn s off acd with
  | case1 nn off acd hlt piece ih => exact ih hok
  | case2 nn off acd hlt piece r rs he => simp at hok
  | case3 nn off acd hlt piece r rs he ih => exact ih hok
  | case4 nn s off acd hge => simpa using Nat.le_of_not_lt hge

/-- calls: every offered slice is non-empty and at most `n` long; a failing call is the last one -/
theorem loop_offered (n : Nat) (hn : 0 < n) (p : Bytes) (nn : Nat) (s : List Resp) (off acd : List Bytes)
    (hlen : off.length = acd.length) (hoff : ∀ c ∈ off, c.length ≤ n ∧ c ≠ []) :
    let o := loop n hn p nn s off acd
    (∀ c ∈ o.offered, c.length ≤ n ∧ c ≠ []) ∧
    (o.err = false → o.offered.length = o.accepted.length) ∧
    (o.err = true → o.offered.length = o.accepted.length + 1) := by
  have hpiece : ∀ nn, nn < p.length → ((p.drop nn).take n).length ≤ n ∧ (p.drop nn).take n ≠ [] := by
    intro nn hlt
    constructor
    · simp [List.length_take]; omega
    · intro h0
      have : ((p.drop nn).take n).length = 0 := by rw [h0]; rfl
      simp only [List.length_take, List.length_drop] at this
      omega
  fun_induction loop n hn p nn s off acd with
  | case1 nn off acd hlt piece ih =>
    apply ih
    · simp [hlen]
    · intro c hc
      rcases List.mem_append.mp hc with hc | hc
      · exact hoff c hc
      · simp only [List.mem_singleton] at hc; subst hc; exact hpiece nn hlt
  | case2 nn off acd hlt piece r rs he =>
    refine ⟨?_, by simp, by simp [hlen]⟩
    intro c hc
    rcases List.mem_append.mp hc with hc | hc
    · exact hoff c hc
    · simp only [List.mem_singleton] at hc; subst hc; exact hpiece nn hlt
  | case3 nn off acd hlt piece r rs he ih =>
    apply ih
    · simp [hlen]
    · intro c hc
      rcases List.mem_append.mp hc with hc | hc
      · exact hoff c hc
      · simp only [List.mem_singleton] at hc; subst hc; exact hpiece nn hlt
  | case4 nn off acd hge => exact ⟨hoff, by simp [hlen], by simp⟩

/-- over a writer that keeps the io.Writer contract the loop issues exactly `chunks n` of what is left -/
theorem loop_contract (n : Nat) (hn : 0 < n) (p : Bytes) (nn : Nat) (off acd : List Bytes) (h : nn ≤ p.length) :
    loop n hn p nn [] off acd = ⟨p.length, false, off ++ chunks n (p.drop nn), acd ++ chunks n (p.drop nn)⟩ := by
  generalize hs : ([] : List Resp) = s
  fun_induction loop n hn p nn s off acd with
  | case2 nn off acd hlt piece r rs he => cases hs
  | case3 nn off acd hlt piece r rs he ih => cases hs
  | case1 nn off acd hlt piece ih =>
    have hne : p.drop nn ≠ [] := by
      intro h0
      have := congrArg List.length h0
      simp only [List.length_drop, List.length_nil] at this; omega
    have hle : nn + piece.length ≤ p.length := by
      simp only [piece, List.length_take, List.length_drop]; omega
    rw [ih hle rfl, chunks_cons_eq n (p.drop nn) hne (by omega)]
    have hd : p.drop (nn + piece.length) = (p.drop nn).drop n := by
      rw [List.drop_drop]
      simp only [piece, List.length_take, List.length_drop]
      by_cases hc : n ≤ p.length - nn
      · rw [Nat.min_eq_left hc, Nat.add_comm]
      · have h1 : p.length ≤ nn + (p.length - nn) := by omega
        have h2 : p.length ≤ nn + n := by omega
        rw [Nat.min_eq_right (by omega), List.drop_eq_nil_of_le h1, List.drop_eq_nil_of_le (by omega)]
    rw [hd]
    simp [piece]
  | case4 nn s off acd hge =>
    have : p.drop nn = [] := List.drop_eq_nil_of_le (by omega)
    have hnn : nn = p.length := by omega
    rw [this, chunks_nil]; simp [hnn]

end Hc.Lemmas.ChunkedWriter
