import HcModel.Handover
namespace Hc.Handover

/-- invariant of the repaired hand-over, for arbitrary operation sequences: nothing is ever written encrypted before a
    response went out in the clear, and the connection has a current cryptographer only after that response -/
def Inv (s : St) : Prop :=
  s.respEncrypted ≠ some true ∧ (s.respEncrypted = none → s.cur = false)

theorem inv_init : Inv init := by simp [Inv, init]

theorem inv_step (s : St) (o : Op) (h : Inv s) : Inv (step true s o) := by
  obtain ⟨h1, h2⟩ := h
  cases o with
  | readStart => simp only [step]; split <;> simp_all [Inv]
  | setCrypt => simp_all [step, Inv]
  | writeResp =>
    simp only [step]
    split
    · exact ⟨h1, h2⟩
    · rename_i hn
      have hnone : s.respEncrypted = none := by simpa using hn
      simp [Inv, h2 hnone]
  | peerSends => simp only [step]; split <;> simp_all [Inv]
  | readDone =>
    simp only [step]
    split
    · exact ⟨h1, h2⟩
    · split <;> simp_all [Inv]

theorem inv_run (ops : List Op) : Inv (run true ops) := by
  have : ∀ s, Inv s → Inv (ops.foldl (step true) s) := by
    induction ops with
    | nil => intro s h; simpa
    | cons o os ih => intro s h; exact ih _ (inv_step s o h)
  exact this init inv_init

end Hc.Handover
