import HcModel.Handover
namespace Hc.Handover

/-- invariant of the repaired hand-over, for arbitrary operation sequences: nothing is ever written encrypted before a
    response went out in the clear, and the connection has a current cryptographer only after that response -/
def Inv (s : St) : Prop :=
  s.respEncrypted ≠ some true ∧ (s.respEncrypted = none → s.cur = false) ∧ (s.respEncrypted = none → s.writing = false)

theorem inv_init : Inv init := by simp [Inv, init]

theorem inv_step (st : Bool) (s : St) (o : Op) (h : Inv s) : Inv (step true st true s o) := by
  obtain ⟨cur, next, pending, resp, wire, del, aw, cl, fp, qd, eo, ed, wr⟩ := s
  obtain ⟨h1, h2, h3⟩ := h
  cases cl
  · cases o <;> simp only [step, Bool.false_eq_true, if_false, if_true] <;> (repeat' split) <;>
      first
      | exact ⟨h1, h2, h3⟩
      | (simp_all [Inv])
  · simp only [step, if_true]; exact ⟨h1, h2, h3⟩

theorem inv_run (st : Bool) (ops : List Op) : Inv (run true st true ops) := by
  have : ∀ s, Inv s → Inv (ops.foldl (step true st true) s) := by
    induction ops with
    | nil => intro s h; simpa
    | cons o os ih => intro s h; exact ih _ (inv_step st s o h)
  exact this init inv_init

/-- invariant of the strict plaintext framing (F19 repair): foreign bytes were handed on as plaintext only on a
    connection that has no cryptographer, negotiates none with this request, and has already answered the request -/
def Inv2 (s : St) : Prop :=
  s.foreignPlain = true → s.cur = false ∧ s.next = false ∧ s.awaiting = false

theorem inv2_init : Inv2 init := by simp [Inv2, init]

theorem inv2_step (s : St) (o : Op) (h : Inv2 s) : Inv2 (step true true true s o) := by
  obtain ⟨cur, next, pending, resp, wire, del, aw, cl, fp, qd, eo, ed, wr⟩ := s
  cases cl
  · cases o <;> simp only [step, Bool.false_eq_true, if_false, if_true] <;> (repeat' split) <;>
      first
      | exact h
      | (intro hf; have := h hf; simp_all)
      | (cases cur <;> cases next <;> cases aw <;> simp_all [Inv2])
  · simp only [step, if_true]; exact h

theorem inv2_run (ops : List Op) : Inv2 (run true true true ops) := by
  have : ∀ s, Inv2 s → Inv2 (ops.foldl (step true true true) s) := by
    induction ops with
    | nil => intro s h; simpa
    | cons o os ih => intro s h; exact ih _ (inv2_step s o h)
  exact this init inv2_init

/-- invariant of the event queue (F31 repair): no event is ever written between a request and its response -/
def Inv3 (s : St) : Prop := s.evDuring = false

theorem inv3_step (st : Bool) (s : St) (o : Op) (h : Inv3 s) : Inv3 (step true st true s o) := by
  obtain ⟨cur, next, pending, resp, wire, del, aw, cl, fp, qd, eo, ed, wr⟩ := s
  cases cl
  · cases o <;> simp only [step, Bool.false_eq_true, if_false, if_true] <;> (repeat' split) <;> exact h
  · simp only [step, if_true]; exact h

theorem inv3_run (st : Bool) (ops : List Op) : Inv3 (run true st true ops) := by
  have : ∀ s, Inv3 s → Inv3 (ops.foldl (step true st true) s) := by
    induction ops with
    | nil => intro s h; simpa
    | cons o os ih => intro s h; exact ih _ (inv3_step st s o h)
  exact this init rfl

/-- once the answer is out (and the connection is open) nothing is kept back any more -/
def Inv4 (s : St) : Prop := s.awaiting = false → s.writing = false → s.closed = false → s.queued = 0

theorem inv4_step (st : Bool) (s : St) (o : Op) (h : Inv4 s) : Inv4 (step true st true s o) := by
  obtain ⟨cur, next, pending, resp, wire, del, aw, cl, fp, qd, eo, ed, wr⟩ := s
  cases cl
  · cases o <;> simp only [step, Bool.false_eq_true, if_false, if_true] <;> (repeat' split) <;>
      first
      | exact h
      | (intro ha hw hc; simp only [Inv4] at h; simp_all)
  · simp only [step, if_true]; exact h

theorem inv4_run (st : Bool) (ops : List Op) : Inv4 (run true st true ops) := by
  have : ∀ s, Inv4 s → Inv4 (ops.foldl (step true st true) s) := by
    induction ops with
    | nil => intro s h; simpa
    | cons o os ih => intro s h; exact ih _ (inv4_step st s o h)
  exact this init (by simp [Inv4, init])

end Hc.Handover
