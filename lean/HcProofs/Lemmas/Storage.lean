import HcProofs.Lemmas.Crash
import HcModel.Storage
/- helper lemmas for C18 (and the storage-level corollaries of C19) -/
namespace Hc.Storage
open Hc Hc.Fs

theorem stripColon_eq_self (k : Key) (h : ¬ (58 : UInt8) ∈ k) : stripColon k = k := by
  unfold stripColon
  rw [List.filter_eq_self]
  intro a ha
  simp only [ne_eq, decide_not, Bool.not_eq_eq_eq_not, Bool.not_true, decide_eq_false_iff_not]
  intro h58; subst h58
  exact h ha

theorem tmpName_ne (n : Name) : tmpName n ≠ n := by
  intro h
  have := congrArg List.length h
  simp [tmpName, tmpSuffix] at this

theorem isTempName_tmpName (n : Name) : isTempName (tmpName n) = true := by
  simp [isTempName, tmpName]

theorem overwrite_nil_zero (v : Bytes) : overwrite [] 0 v = v := by
  unfold overwrite
  split
  · next h => exact h.symm
  · simp

theorem setOps_shape (n : Name) (v : Bytes) : AtomicWriteShape n (tmpName n) v (setOps n v) where
  ne := tmpName_ne n
  temp := isTempName_tmpName n
  shape := ⟨[.write (tmpName n) 0 v, .close], rfl, by simp [isFill], by simp [fillContent, overwrite_nil_zero]⟩

theorem lookup_setOps (d : Dir) (n : Name) (v : Bytes) (m : Name) :
    lookup (apply d (setOps n v)) m = if m = n then some v else if m = tmpName n then none else lookup d m :=
  lookup_atomic_write d n (tmpName n) v [.write (tmpName n) 0 v, .close] (tmpName_ne n)
    (by simp [isFill]) (by simp [fillContent, overwrite_nil_zero]) m

structure KeyFacts (k : Key) : Prop where
  file : fileName k = k
  ok : fileNameOk k = true
  slash : ¬ (47 : UInt8) ∈ k
  dir : isDirName k = false
  temp : isTempName k = false

theorem keyFacts (k : Key) (h : KeyOk k = true) : KeyFacts k := by
  simp [KeyOk, fileNameOk] at h
  obtain ⟨⟨⟨⟨⟨h1, h2⟩, h3⟩, h4⟩, h5⟩, h6⟩ := h
  exact ⟨stripColon_eq_self k h5, by simp [fileNameOk, h1, h2, h3, h4], h2, h1, h6⟩

theorem keyOk_ne_tmpName (k k' : Key) (h : KeyOk k' = true) : k' ≠ tmpName k := by
  intro he
  have := (keyFacts k' h).temp
  rw [he, isTempName_tmpName] at this
  exact absurd this (by decide)

/-- invariant of directories produced by operations on `KeyOk` keys -/
def Inv (d : Dir) : Prop := (names d).Nodup ∧ ∀ n ∈ names d, KeyOk n = true

theorem inv_nil : Inv [] := ⟨List.nodup_nil, by simp [names]⟩

theorem set_eq (d : Dir) (k : Key) (v : Bytes) (h : KeyOk k = true) :
    set d k v = (apply d (setOps k v), .ok) := by
  have f := keyFacts k h
  simp [set, f.file, f.slash, f.ok, f.temp]

theorem get_eq (d : Dir) (k : Key) (h : KeyOk k = true) :
    get d k = match lookup d k with | some c => .val c | none => .err := by
  have f := keyFacts k h
  simp [get, f.file, f.slash, f.dir, f.temp]
  cases lookup d k <;> rfl

theorem delete_eq (d : Dir) (k : Key) (h : KeyOk k = true) :
    delete d k = if (lookup d k).isSome then (erase d k, .ok) else (d, .err) := by
  have f := keyFacts k h
  simp [delete, f.file, f.slash, f.dir, f.temp]

theorem abs_of_inv (d : Dir) (h : Inv d) (k : Key) : abs d k = lookup d k := by
  unfold abs
  by_cases hk : KeyOk k = true
  · simp [hk]
  · simp only [hk, Bool.false_eq_true, ↓reduceIte]
    cases hl : lookup d k with
    | none => rfl
    | some c =>
      have : k ∈ names d := (mem_names_iff d k).2 (by simp [hl])
      exact absurd (h.2 k this) hk

theorem inv_set (d : Dir) (k : Key) (v : Bytes) (hk : KeyOk k = true) (h : Inv d) : Inv (apply d (setOps k v)) := by
  refine ⟨nodup_apply _ _ h.1, ?_⟩
  intro n hn
  rw [mem_names_iff, lookup_setOps] at hn
  by_cases h1 : n = k
  · rw [h1]; exact hk
  · by_cases h2 : n = tmpName k
    · simp [h1, h2] at hn
      exact absurd hn (tmpName_ne k)
    · simp only [h1, h2, ↓reduceIte] at hn
      exact h.2 n ((mem_names_iff d n).2 hn)

theorem inv_erase (d : Dir) (k : Key) (h : Inv d) : Inv (erase d k) := by
  refine ⟨nodup_names_erase _ _ h.1, ?_⟩
  intro n hn
  rw [names_erase] at hn
  exact h.2 n (List.mem_filter.1 hn).1

theorem step_refines (d : Dir) (h : Inv d) (op : Op) (hop : OpOk op = true) :
    Inv (step d op).1 ∧ abs (step d op).1 = specStep (abs d) op ∧ ResOk (abs d) op (step d op).2 := by
  cases op with
  | set k v =>
    simp only [OpOk] at hop
    simp only [step, set_eq d k v hop]
    have hi := inv_set d k v hop h
    refine ⟨hi, ?_, rfl⟩
    funext k'
    rw [abs_of_inv _ hi, lookup_setOps]
    simp only [specStep]
    by_cases h1 : k' = k
    · simp [h1]
    · simp only [h1, ↓reduceIte]
      by_cases h2 : k' = tmpName k
      · simp only [h2, ↓reduceIte]
        unfold abs
        have : KeyOk (tmpName k) = false := by
          simp [KeyOk, isTempName_tmpName]
        simp [this]
      · simp [h2, abs_of_inv d h]
  | get k =>
    simp only [OpOk] at hop
    refine ⟨h, rfl, ?_⟩
    simp only [step, ResOk, get_eq d k hop, abs_of_inv d h]
    cases lookup d k <;> rfl
  | delete k =>
    simp only [OpOk] at hop
    simp only [step, delete_eq d k hop, ResOk, specStep, abs_of_inv d h]
    cases hl : lookup d k with
    | none =>
      simp only [Option.isSome_none, Bool.false_eq_true, ↓reduceIte, and_true]
      refine ⟨h, ?_⟩
      funext k'
      by_cases h1 : k' = k
      · simp [h1, abs_of_inv d h, hl]
      · simp [h1, abs_of_inv d h]
    | some c =>
      simp only [Option.isSome_some, ↓reduceIte, and_true]
      refine ⟨inv_erase d k h, ?_⟩
      funext k'
      rw [abs_of_inv _ (inv_erase d k h), lookup_erase]
  | list s =>
    have hf : (listSuffix d s).filter (fun n => !isTempName (stripColon n)) = listSuffix d s := by
      apply List.filter_eq_self.2
      intro n hn
      have hk := h.2 n (List.mem_filter.1 hn).1
      have f := keyFacts n hk
      have e : stripColon n = n := f.file
      simp [e, f.temp]
    refine ⟨h, rfl, listSuffix d s, by simp only [step, keysWithSuffix, hf], nodup_listSuffix d s h.1, ?_⟩
    intro k
    rw [mem_listSuffix, abs_of_inv d h]
  | reopen => exact ⟨h, rfl, rfl⟩

theorem run_refines (ops : List Op) (d : Dir) (h : Inv d) (hops : ∀ op ∈ ops, OpOk op = true) :
    Inv (run d ops).1 ∧ abs (run d ops).1 = specRun (abs d) ops ∧ Conforms (abs d) ops (run d ops).2 := by
  induction ops generalizing d with
  | nil => exact ⟨h, rfl, trivial⟩
  | cons op r ih =>
    obtain ⟨h1, h2, h3⟩ := step_refines d h op (hops op List.mem_cons_self)
    obtain ⟨i1, i2, i3⟩ := ih (step d op).1 h1 (fun o ho => hops o (List.mem_cons_of_mem _ ho))
    simp only [run, specRun, Conforms]
    rw [h2] at i2 i3
    exact ⟨i1, i2, h3, i3⟩

theorem abs_nil : abs [] = Spec.empty := by
  funext k; simp [abs, Spec.empty]

end Hc.Storage
