import HcModel.Crash
/- helper lemmas about the file-system model (lookup / put / erase / applyOp) -/
namespace Hc.Fs

@[simp] theorem lookup_nil (n : Name) : lookup [] n = none := rfl

theorem lookup_cons (m : Name) (c : Bytes) (r : Dir) (n : Name) :
    lookup ((m, c) :: r) n = if m = n then some c else lookup r n := rfl

theorem lookup_append (d1 d2 : Dir) (n : Name) :
    lookup (d1 ++ d2) n = match lookup d1 n with | some c => some c | none => lookup d2 n := by
  induction d1 with
  | nil => simp
  | cons e r ih =>
    obtain ⟨m, c⟩ := e
    simp only [List.cons_append, lookup_cons]
    split <;> simp_all

theorem lookup_erase (d : Dir) (n m : Name) :
    lookup (erase d n) m = if m = n then none else lookup d m := by
  induction d with
  | nil => simp [erase]
  | cons e r ih =>
    obtain ⟨a, c⟩ := e
    simp only [erase, List.filter_cons] at ih ⊢
    by_cases h : a = n
    · subst h
      simp only [ne_eq, not_true_eq_false, decide_false, Bool.false_eq_true, ↓reduceIte, ih, lookup_cons]
      by_cases h2 : m = a
      · simp [h2]
      · have : ¬ a = m := fun h => h2 h.symm
        simp [h2, this]
    · simp only [ne_eq, h, not_false_eq_true, decide_true, ↓reduceIte, lookup_cons, ih]
      by_cases h2 : a = m
      · subst h2; simp [h]
      · simp [h2]

theorem lookup_put (d : Dir) (n : Name) (c : Bytes) (m : Name) :
    lookup (put d n c) m = if m = n then some c else lookup d m := by
  simp only [put, lookup_append, lookup_erase]
  by_cases h : m = n
  · subst h; simp [lookup_cons]
  · have : ¬ n = m := fun h' => h h'.symm
    simp only [h, ↓reduceIte, lookup_cons, this, lookup_nil]
    cases lookup d m <;> rfl

theorem mem_names_iff (d : Dir) (n : Name) : n ∈ names d ↔ (lookup d n).isSome = true := by
  induction d with
  | nil => simp [names]
  | cons e r ih =>
    obtain ⟨a, c⟩ := e
    simp only [names, List.map_cons, List.mem_cons, lookup_cons] at ih ⊢
    by_cases h : a = n
    · simp [h]
    · have : ¬ n = a := fun h' => h h'.symm
      simp [h, this, ih]

theorem names_erase (d : Dir) (n : Name) : names (erase d n) = (names d).filter (· ≠ n) := by
  simp only [names, erase, List.filter_map]
  rfl

theorem nodup_names_erase (d : Dir) (n : Name) (h : (names d).Nodup) : (names (erase d n)).Nodup := by
  rw [names_erase]; exact h.filter _

theorem nodup_names_put (d : Dir) (n : Name) (c : Bytes) (h : (names d).Nodup) : (names (put d n c)).Nodup := by
  simp only [put, names, List.map_append, List.map_cons, List.map_nil]
  rw [List.nodup_append]
  refine ⟨nodup_names_erase d n h, by simp, ?_⟩
  intro a ha b hb
  simp only [List.mem_singleton] at hb
  subst hb
  have := names_erase d b
  simp only [names] at this
  rw [this] at ha
  simp at ha
  exact ha.2

theorem nodup_applyOp (d : Dir) (op : FsOp) (h : (names d).Nodup) : (names (applyOp d op)).Nodup := by
  cases op with
  | create p => simp only [applyOp]; split <;> simp [h, nodup_names_put]
  | truncate p => simp only [applyOp]; split <;> simp [h, nodup_names_put]
  | write p off bs => simp only [applyOp]; split <;> simp [h, nodup_names_put]
  | rename p q =>
    simp only [applyOp]; split
    · exact h
    · split
      · exact h
      · exact nodup_names_put _ _ _ (nodup_names_erase _ _ h)
  | unlink p => exact nodup_names_erase _ _ h
  | close => exact h

theorem nodup_apply (ops : List FsOp) (d : Dir) (h : (names d).Nodup) : (names (apply d ops)).Nodup := by
  induction ops generalizing d with
  | nil => exact h
  | cons op r ih => exact ih _ (nodup_applyOp d op h)

theorem apply_cons (d : Dir) (op : FsOp) (r : List FsOp) : apply d (op :: r) = apply (applyOp d op) r := rfl
@[simp] theorem apply_nil (d : Dir) : apply d [] = d := rfl
theorem apply_append (d : Dir) (a b : List FsOp) : apply d (a ++ b) = apply (apply d a) b := by
  simp [apply, List.foldl_append]

-- lookup after each operation ------------------------------------------------------------------------

theorem lookup_create (d : Dir) (p m : Name) :
    lookup (applyOp d (.create p)) m = if m = p then some ((lookup d p).getD []) else lookup d m := by
  simp only [applyOp]
  cases h : lookup d p with
  | none => simp [lookup_put]
  | some c =>
    simp only [Option.isSome_some, ↓reduceIte, Option.getD_some]
    by_cases h2 : m = p
    · simp [h2, h]
    · simp [h2]

theorem lookup_truncate (d : Dir) (p m : Name) :
    lookup (applyOp d (.truncate p)) m = if m = p then (lookup d p).map (fun _ => []) else lookup d m := by
  simp only [applyOp]
  cases h : lookup d p with
  | none =>
    by_cases h2 : m = p
    · simp [h2, h]
    · simp [h2]
  | some c => simp [lookup_put]

theorem lookup_write (d : Dir) (p : Name) (off : Nat) (bs : Bytes) (m : Name) :
    lookup (applyOp d (.write p off bs)) m =
      if m = p then (lookup d p).map (fun c => overwrite c off bs) else lookup d m := by
  simp only [applyOp]
  cases h : lookup d p with
  | none =>
    by_cases h2 : m = p
    · simp [h2, h]
    · simp [h2]
  | some c => simp [lookup_put]

theorem lookup_rename (d : Dir) (p q : Name) (c : Bytes) (hp : lookup d p = some c) (hpq : p ≠ q) (m : Name) :
    lookup (applyOp d (.rename p q)) m =
      if m = q then some c else if m = p then none else lookup d m := by
  simp only [applyOp, hp, hpq, ↓reduceIte, lookup_put, lookup_erase]

theorem lookup_rename_none (d : Dir) (p q : Name) (hp : lookup d p = none) :
    applyOp d (.rename p q) = d := by
  simp only [applyOp, hp]

theorem lookup_unlink (d : Dir) (p m : Name) :
    lookup (applyOp d (.unlink p)) m = if m = p then none else lookup d m := lookup_erase d p m

theorem mem_listSuffix (d : Dir) (s : Bytes) (n : Name) :
    n ∈ listSuffix d s ↔ ((lookup d n).isSome = true ∧ s <:+ n) := by
  simp [listSuffix, mem_names_iff]

theorem nodup_listSuffix (d : Dir) (s : Bytes) (h : (names d).Nodup) : (listSuffix d s).Nodup :=
  h.filter _

end Hc.Fs
