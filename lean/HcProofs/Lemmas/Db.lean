import HcProofs.Lemmas.Storage
/- helper lemmas for the database layer of C18: hex keys, entity listing -/
namespace Hc.Storage
open Hc Hc.Fs

def unhexByte (b : UInt8) : Nat := if b < 58 then b.toNat - 48 else b.toNat - 87

theorem unhex_hex : ∀ n, n < 16 → unhexByte (hexByte n) = n := by decide

theorem hexByte_plain : ∀ n, n < 16 → hexByte n ≠ 58 ∧ hexByte n ≠ 47 ∧ hexByte n ≠ 0 := by decide

theorem hi_lt (x : UInt8) : x.toNat / 16 < 16 := by
  have := x.toNat_lt; omega

theorem lo_lt (x : UInt8) : x.toNat % 16 < 16 := by omega

theorem hexByte_inj {a b : Nat} (ha : a < 16) (hb : b < 16) (h : hexByte a = hexByte b) : a = b := by
  have := congrArg unhexByte h
  rwa [unhex_hex a ha, unhex_hex b hb] at this

theorem hexEnc_length (b : Bytes) : (hexEnc b).length = 2 * b.length := by
  induction b with
  | nil => rfl
  | cons x r ih => simp [hexEnc, ih]; omega

theorem hexEnc_plain (b : Bytes) : ∀ c ∈ hexEnc b, c ≠ 58 ∧ c ≠ 47 ∧ c ≠ 0 := by
  induction b with
  | nil => simp [hexEnc]
  | cons x r ih =>
    intro c hc
    simp only [hexEnc, List.mem_cons] at hc
    rcases hc with h | h | h
    · rw [h]; exact hexByte_plain _ (hi_lt x)
    · rw [h]; exact hexByte_plain _ (lo_lt x)
    · exact ih c h

theorem hexEnc_injective : ∀ a b : Bytes, hexEnc a = hexEnc b → a = b := by
  intro a
  induction a with
  | nil => intro b h; cases b with
    | nil => rfl
    | cons y r => simp [hexEnc] at h
  | cons x r ih =>
    intro b h
    cases b with
    | nil => simp [hexEnc] at h
    | cons y r' =>
      simp only [hexEnc, List.cons.injEq] at h
      obtain ⟨h1, h2, h3⟩ := h
      have e1 := hexByte_inj (hi_lt x) (hi_lt y) h1
      have e2 := hexByte_inj (lo_lt x) (lo_lt y) h2
      have : x.toNat = y.toNat := by omega
      rw [UInt8.toNat_inj.1 this, ih r' h3]

theorem toEntityKey_injective (a b : Bytes) (h : toEntityKey a = toEntityKey b) : a = b :=
  hexEnc_injective a b (List.append_cancel_right h)

theorem toEntityKey_length (name : Bytes) : (toEntityKey name).length = 2 * name.length + 7 := by
  simp [toEntityKey, hexEnc_length, entitySuffix]

theorem toEntityKey_suffix (name : Bytes) : entitySuffix <:+ toEntityKey name :=
  List.suffix_append _ _

theorem not_temp_entityKey (name : Bytes) : isTempName (toEntityKey name) = false := by
  cases h : isTempName (toEntityKey name) with
  | false => rfl
  | true =>
    simp only [isTempName, List.isSuffixOf_iff_suffix] at h
    obtain ⟨t, ht⟩ := h
    have := congrArg List.getLast? ht
    simp [toEntityKey, tmpSuffix, entitySuffix, List.getLast?_append] at this

theorem keyOk_entityKey (name : Bytes) (h : name.length ≤ 122) : KeyOk (toEntityKey name) = true := by
  have hl := toEntityKey_length name
  have hp := hexEnc_plain name
  have hdir : isDirName (toEntityKey name) = false := by
    cases hd : isDirName (toEntityKey name) with
    | false => rfl
    | true =>
      simp only [isDirName, Bool.or_eq_true, beq_iff_eq] at hd
      rcases hd with (hd | hd) | hd <;> (rw [hd] at hl; simp [dot, dotdot] at hl) <;> omega
  have hmem : ∀ c : UInt8, (c = 58 ∨ c = 47 ∨ c = 0) → ¬ c ∈ toEntityKey name := by
    intro c hc hm
    simp only [toEntityKey, List.mem_append] at hm
    rcases hm with hm | hm
    · have := hp c hm
      rcases hc with hc | hc | hc <;> simp [hc] at this
    · rcases hc with hc | hc | hc <;> (subst hc; simp [entitySuffix] at hm)
  simp only [KeyOk, fileNameOk, hdir, not_temp_entityKey, Bool.not_false, Bool.true_and, Bool.and_true,
    Bool.and_eq_true, Bool.not_eq_eq_eq_not, Bool.not_true, decide_eq_true_eq]
  refine ⟨⟨⟨?_, ?_⟩, ?_⟩, ?_⟩
  · simpa using hmem 47 (by simp)
  · simpa using hmem 0 (by simp)
  · omega
  · simpa using hmem 58 (by simp)

theorem keyOk_of_nameOk (name : Bytes) (h : NameOk name = true) : KeyOk (toEntityKey name) = true := by
  simp only [NameOk, Bool.and_eq_true, decide_eq_true_eq] at h
  exact keyOk_entityKey name h.2

theorem valid_of_nameOk (name : Bytes) (h : NameOk name = true) : validUtf8 name = true := by
  simp only [NameOk, Bool.and_eq_true, decide_eq_true_eq] at h
  exact h.1

-- database refinement ---------------------------------------------------------------------------

/-- the map on names a directory denotes -/
def dbAbs (C : Codec) (d : Dir) : DbSpec := fun name =>
  if NameOk name then (match lookup d (toEntityKey name) with | some b => C.dec b | none => none) else none

/-- every file with the entity suffix holds the encoding of an entity stored under its own name -/
def DbInv (C : Codec) (d : Dir) : Prop :=
  Inv d ∧ ∀ n ∈ names d, entitySuffix <:+ n →
    ∃ e : Entity, NameOk e.name = true ∧ n = toEntityKey e.name ∧ lookup d n = some (C.enc e)

theorem entityForKey_eq (C : Codec) (d : Dir) (name : Bytes) (h : NameOk name = true) :
    entityForKey C d (toEntityKey name) = dbAbs C d name := by
  simp only [entityForKey, get_eq d _ (keyOk_of_nameOk name h), dbAbs, h, ↓reduceIte]
  cases lookup d (toEntityKey name) <;> rfl

theorem allSome_map_of {α β} (L : List α) (f : α → Option β) (g : β → α)
    (h : ∀ x ∈ L, ∃ y, f x = some y ∧ g y = x) :
    ∃ l, allSome (L.map f) = some l ∧ l.map g = L ∧ ∀ y ∈ l, f (g y) = some y := by
  induction L with
  | nil => exact ⟨[], rfl, rfl, by simp⟩
  | cons x r ih =>
    obtain ⟨y, hy, hg⟩ := h x List.mem_cons_self
    obtain ⟨l, h1, h2, h3⟩ := ih (fun z hz => h z (List.mem_cons_of_mem _ hz))
    refine ⟨y :: l, by simp [allSome, hy, h1], by simp [hg, h2], ?_⟩
    intro z hz
    rcases List.mem_cons.1 hz with hz | hz
    · rw [hz, hg, hy]
    · exact h3 z hz

theorem dbInv_lookup (C : Codec) (d d' : Dir) (h : DbInv C d) (hi : Inv d')
    (hl : ∀ n, entitySuffix <:+ n → (lookup d' n).isSome = true →
      (lookup d' n = lookup d n ∨ ∃ e : Entity, NameOk e.name = true ∧ n = toEntityKey e.name ∧ lookup d' n = some (C.enc e))) :
    DbInv C d' := by
  refine ⟨hi, ?_⟩
  intro n hn hs
  have hsome := (mem_names_iff d' n).1 hn
  rcases hl n hs hsome with h1 | h1
  · rw [h1] at hsome ⊢
    exact h.2 n ((mem_names_iff d n).2 hsome) hs
  · exact h1

theorem lookup_delete (d : Dir) (k : Key) (hk : KeyOk k = true) (m : Name) :
    lookup (delete d k).1 m = if m = k then none else lookup d m := by
  rw [delete_eq d k hk]
  cases hl : lookup d k with
  | none =>
    simp only [Option.isSome_none, Bool.false_eq_true, ↓reduceIte]
    by_cases h : m = k
    · simp [h, hl]
    · simp [h]
  | some c => simp [lookup_erase]

theorem inv_delete (d : Dir) (k : Key) (hk : KeyOk k = true) (h : Inv d) : Inv (delete d k).1 := by
  rw [delete_eq d k hk]
  split
  · exact inv_erase d k h
  · exact h

theorem db_step_refines (C : Codec) (hC : C.RoundTrips) (d : Dir) (h : DbInv C d) (op : DbOp)
    (hop : DbOpOk op = true) :
    DbInv C (dbStep C d op).1 ∧ dbAbs C (dbStep C d op).1 = dbSpecStep (dbAbs C d) op ∧
      DbResOk (dbAbs C d) op (dbStep C d op).2 := by
  cases op with
  | save e =>
    simp only [DbOpOk] at hop
    have hk := keyOk_of_nameOk e.name hop
    simp only [dbStep, saveEntity, set_eq d _ _ hk, DbResOk, and_true]
    constructor
    · refine dbInv_lookup C d _ h (inv_set d _ _ hk h.1) ?_
      intro n _ _
      rw [lookup_setOps]
      by_cases h1 : n = toEntityKey e.name
      · exact .inr ⟨e, hop, h1, by simp [h1]⟩
      · by_cases h2 : n = tmpName (toEntityKey e.name)
        · rename_i hsome
          rw [lookup_setOps] at hsome
          simp [h1, h2] at hsome
          exact absurd hsome (tmpName_ne _)
        · exact .inl (by simp [h1, h2])
    · funext name
      simp only [dbAbs, dbSpecStep]
      by_cases hn : NameOk name = true
      · simp only [hn, ↓reduceIte, lookup_setOps]
        by_cases h1 : name = e.name
        · subst h1
          simp only [↓reduceIte]
          exact hC e (valid_of_nameOk _ hop)
        · have h2 : toEntityKey name ≠ toEntityKey e.name := fun hh => h1 (toEntityKey_injective _ _ hh)
          have h3 := keyOk_ne_tmpName (toEntityKey e.name) _ (keyOk_of_nameOk name hn)
          simp [h1, h2, h3]
      · have h1 : name ≠ e.name := fun hh => hn (hh ▸ hop)
        simp [hn, h1]
  | get name =>
    simp only [DbOpOk] at hop
    refine ⟨h, rfl, ?_⟩
    simp only [dbStep, DbResOk, entityWithName, entityForKey_eq C d name hop]
  | delete name =>
    simp only [DbOpOk] at hop
    have hk := keyOk_of_nameOk name hop
    simp only [dbStep, deleteEntity, DbResOk, and_true]
    constructor
    · refine dbInv_lookup C d _ h (inv_delete d _ hk h.1) ?_
      intro n _ hsome
      rw [lookup_delete d _ hk] at hsome ⊢
      by_cases h1 : n = toEntityKey name
      · simp [h1] at hsome
      · exact .inl (by simp [h1])
    · funext n
      simp only [dbAbs, dbSpecStep]
      by_cases hn : NameOk n = true
      · simp only [hn, ↓reduceIte, lookup_delete d _ hk]
        by_cases h1 : n = name
        · simp [h1]
        · have h2 : toEntityKey n ≠ toEntityKey name := fun hh => h1 (toEntityKey_injective _ _ hh)
          simp [h1, h2]
      · have h1 : n ≠ name := fun hh => hn (hh ▸ hop)
        simp [hn, h1]
  | all =>
    refine ⟨h, rfl, ?_⟩
    simp only [dbStep, DbResOk, entities]
    have hL : ∀ n ∈ listSuffix d entitySuffix,
        ∃ e, entityForKey C d n = some e ∧ toEntityKey e.name = n := by
      intro n hn
      rw [mem_listSuffix] at hn
      obtain ⟨e, he1, he2, he3⟩ := h.2 n ((mem_names_iff d n).2 hn.1) hn.2
      refine ⟨e, ?_, he2.symm⟩
      rw [he2, entityForKey_eq C d e.name he1]
      simp only [dbAbs, he1, ↓reduceIte, ← he2, he3]
      exact hC e (valid_of_nameOk _ he1)
    obtain ⟨l, h1, h2, h3⟩ := allSome_map_of _ _ (fun e : Entity => toEntityKey e.name) hL
    rw [h1]
    refine ⟨l, rfl, ?_, ?_⟩
    · have : (l.map fun e : Entity => toEntityKey e.name).Nodup := by
        rw [h2]; exact nodup_listSuffix d _ h.1.1
      exact List.Pairwise.of_map (fun e : Entity => toEntityKey e.name) (fun a b hab heq => hab (by rw [heq])) this
    · intro e
      constructor
      · intro he
        have hmem : toEntityKey e.name ∈ listSuffix d entitySuffix := by
          rw [← h2]; exact List.mem_map.2 ⟨e, he, rfl⟩
        rw [mem_listSuffix] at hmem
        obtain ⟨e0, he1, he2, _⟩ := h.2 _ ((mem_names_iff d _).2 hmem.1) hmem.2
        have hname : NameOk e.name = true := by rw [toEntityKey_injective _ _ he2]; exact he1
        rw [← entityForKey_eq C d e.name hname]
        exact h3 e he
      · intro he
        have hname : NameOk e.name = true := by
          cases hn : NameOk e.name with
          | true => rfl
          | false => simp [dbAbs, hn] at he
        have hlk : (lookup d (toEntityKey e.name)).isSome = true := by
          simp only [dbAbs, hname, ↓reduceIte] at he
          cases hl : lookup d (toEntityKey e.name) with
          | none => simp [hl] at he
          | some b => rfl
        have hmem : toEntityKey e.name ∈ listSuffix d entitySuffix :=
          (mem_listSuffix d _ _).2 ⟨hlk, toEntityKey_suffix e.name⟩
        rw [← h2] at hmem
        obtain ⟨e', he', hg⟩ := List.mem_map.1 hmem
        have hf := h3 e' he'
        rw [hg, entityForKey_eq C d e.name hname, he] at hf
        rw [Option.some.inj hf]
        exact he'
  | reopen => exact ⟨h, rfl, rfl⟩

theorem db_run_refines (C : Codec) (hC : C.RoundTrips) (ops : List DbOp) (d : Dir) (h : DbInv C d)
    (hops : ∀ op ∈ ops, DbOpOk op = true) :
    DbInv C (dbRun C d ops).1 ∧ DbConforms (dbAbs C d) ops (dbRun C d ops).2 := by
  induction ops generalizing d with
  | nil => exact ⟨h, trivial⟩
  | cons op r ih =>
    obtain ⟨h1, h2, h3⟩ := db_step_refines C hC d h op (hops op List.mem_cons_self)
    obtain ⟨i1, i2⟩ := ih (dbStep C d op).1 h1 (fun o ho => hops o (List.mem_cons_of_mem _ ho))
    simp only [dbRun, DbConforms]
    rw [h2] at i2
    exact ⟨i1, h3, i2⟩

theorem dbInv_nil (C : Codec) : DbInv C [] := ⟨inv_nil, by simp [names]⟩

end Hc.Storage
