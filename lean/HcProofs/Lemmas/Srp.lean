/-
  Arithmetic core of SRP-6a key agreement: justification of the symbolic constructor `Sym.Term.srpK a b x`
  (both parties arrive at the same premaster secret iff they use the same x). Core Lean only.
-/
namespace Hc.Srp

theorem pow_mod_mod (a n m : Nat) : (a % m) ^ n % m = a ^ n % m := by
  rw [Nat.pow_mod (a % m), Nat.mod_mod, ← Nat.pow_mod]

theorem pow_congr {a c m : Nat} (n : Nat) (h : a % m = c % m) : a ^ n % m = c ^ n % m := by
  rw [Nat.pow_mod a, h, ← Nat.pow_mod]

/-- With A = g^a, v = g^x and (B − k·v) ≡ g^b (mod N): the server's (A·v^u)^b and the client's (B − k·v)^(a+u·x)
    are the same residue mod N — for every modulus, generator, secrets and scrambling parameter. -/
theorem key_agreement (g a b x u N : Nat) :
    (((g ^ a % N) * ((g ^ x % N) ^ u % N)) % N) ^ b % N = ((g ^ b % N) ^ (a + u * x)) % N := by
  have h1 : ((g ^ a % N) * ((g ^ x % N) ^ u % N)) % N = (g ^ a * (g ^ x) ^ u) % N := by
    rw [Nat.mul_mod, Nat.mod_mod, Nat.mod_mod, pow_mod_mod, ← Nat.mul_mod]
  rw [pow_mod_mod, pow_congr b h1, pow_mod_mod]
  congr 1
  rw [← Nat.pow_mul, ← Nat.pow_add, ← Nat.pow_mul, ← Nat.pow_mul]
  congr 1
  rw [Nat.mul_comm x u, Nat.mul_comm b]

end Hc.Srp
