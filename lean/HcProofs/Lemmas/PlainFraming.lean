import HcModel.PlainFraming
namespace Hc.PlainFraming
open Hc

variable (cl : Bytes → Option Nat) (m : Nat)

theorem feed_append (s : St) (a b : Bytes) :
    feed cl m s (a ++ b) = (feed cl m s a).bind (fun s' => feed cl m s' b) := by
  induction a generalizing s with
  | nil => simp [feed]
  | cons x xs ih =>
    simp only [List.cons_append, feed]
    cases byte cl m s x with
    | none => simp
    | some s' => simpa using ih s'

theorem complete_refuses (s : St) (h : s.complete = true) (b : Bytes) (hb : b ≠ []) : feed cl m s b = none := by
  cases b with
  | nil => exact absurd rfl hb
  | cons x xs => simp [feed, byte, h]

/-- feeding header bytes none of whose prefixes ends the header just accumulates them -/
theorem feed_header (hp : Bytes) (hlen : hp.length ≤ m)
    (hno : ∀ p, p <+: hp → p ≠ [] → endsHeader p = false) (p q : Bytes) (hpq : p ++ q = hp) :
    feed cl m ⟨p, 0, false, false⟩ q = some ⟨hp, 0, false, false⟩ := by
  induction q generalizing p with
  | nil => simp at hpq; subst hpq; rfl
  | cons x xs ih =>
    have hpre : (p ++ [x]) <+: hp := ⟨xs, by rw [← hpq]; simp⟩
    have hne : p ++ [x] ≠ [] := by simp
    have h1 := hno _ hpre hne
    have h2 : ¬ (p ++ [x]).length > m := by
      have := hpre.length_le
      omega
    simp only [feed, byte, Bool.false_eq_true, if_false, h1, h2]
    exact ih (p ++ [x]) (by rw [← hpq]; simp)

/-- counting the body down -/
theorem feed_body (n : Nat) (body : Bytes) (hb : body.length = n) (hn : 0 < n) :
    feed cl m ⟨[], n, true, false⟩ body = some ⟨[], 0, false, true⟩ := by
  induction body generalizing n with
  | nil => simp at hb; omega
  | cons x xs ih =>
    simp only [List.length_cons] at hb
    simp only [feed, byte, Bool.false_eq_true, if_false, if_true]
    by_cases h1 : n = 1
    · subst h1
      have : xs = [] := by cases xs <;> simp_all
      subst this
      simp [feed]
    · have hn' : 0 < n - 1 := by omega
      have : (decide (n - 1 > 0)) = true := by simpa using hn'
      have h0 : (decide (n - 1 = 0)) = false := by simp; omega
      rw [this, h0]
      exact ih (n - 1) (by omega) hn'

end Hc.PlainFraming
