import HcModel.Tlv8
import HcProofs.Lemmas.Chunks
namespace Hc.Tlv8

theorem itemsOk_nil : ItemsOk [] := by intro i h; cases h

theorem itemsOk_append {a b : Container} (ha : ItemsOk a) (hb : ItemsOk b) : ItemsOk (a ++ b) := by
  intro i h
  rcases List.mem_append.mp h with h | h
  · exact ha i h
  · exact hb i h

theorem fragments_ok (t : UInt8) (v : Bytes) : ItemsOk ((chunks 255 v).map (Item.mk t)) := by
  intro i h
  simp only [List.mem_map] at h
  obtain ⟨c, hc, rfl⟩ := h
  exact (chunks_len_le 255 (by omega) v c hc).1

theorem setBytes_ok (c : Container) (t : UInt8) (v : Bytes) (h : ItemsOk c) : ItemsOk (setBytes c t v) :=
  itemsOk_append h (fragments_ok t v)

theorem runSets_ok (ops : List (UInt8 × Bytes)) : ItemsOk (runSets ops) := by
  have : ∀ c, ItemsOk c → ItemsOk (ops.foldl (fun c op => setBytes c op.1 op.2) c) := by
    induction ops with
    | nil => intro c h; simpa
    | cons op ops ih => intro c h; exact ih _ (setBytes_ok c op.1 op.2 h)
  exact this [] itemsOk_nil

theorem parse_serialize (is : Container) (h : ItemsOk is) : parse (serialize is) = .ok is := by
  induction is with
  | nil => simp [serialize, parse]
  | cons i is ih =>
    have hi : i.val.length ≤ 255 := h i (by simp)
    have ih' := ih (fun j hj => h j (by simp [hj]))
    have hn : (UInt8.ofNat i.val.length).toNat = i.val.length := by
      simp [UInt8.toNat_ofNat']; omega
    unfold serialize
    rw [parse]
    simp only [hn]
    have : i.val.length ≤ (i.val ++ serialize is).length := by simp
    simp [ih']

theorem serialize_parse (bs : Bytes) (is : Container) (h : parse bs = .ok is) : serialize is = bs := by
  fun_induction parse bs generalizing is with
  | case1 => simp_all [serialize]
  | case2 => simp_all
  | case3 t n rest hle is' hp ih =>
    simp at h
    subst h
    have := ih is' hp
    simp [serialize, this, List.length_take, Nat.min_eq_left hle]
  | case4 t n rest hle e hp => simp at h
  | case5 => simp_all
  | case6 => simp_all

theorem parse_ok_itemsOk (bs : Bytes) (is : Container) (h : parse bs = .ok is) : ItemsOk is := by
  fun_induction parse bs generalizing is with
  | case1 => simp at h; subst h; exact itemsOk_nil
  | case2 => simp at h
  | case3 t n rest hle is' hp ih =>
    simp at h
    subst h
    intro i hi
    simp only [List.mem_cons] at hi
    rcases hi with rfl | hi
    · simp [Item.ok, List.length_take]
      have := n.toNat_lt
      omega
    · exact ih is' hp i hi
  | case4 t n rest hle e hp => simp at h
  | case5 => simp at h
  | case6 => simp at h

theorem getBytes_append (a b : Container) (t : UInt8) : getBytes (a ++ b) t = getBytes a t ++ getBytes b t := by
  simp [getBytes, List.filter_append, List.flatMap_append]

theorem getBytes_fragments_same (t : UInt8) (v : Bytes) : getBytes ((chunks 255 v).map (Item.mk t)) t = v := by
  have : ∀ cs : List Bytes, getBytes (cs.map (Item.mk t)) t = cs.flatten := by
    intro cs
    induction cs with
    | nil => simp [getBytes]
    | cons c cs ih =>
      simp only [getBytes] at ih
      simp [getBytes, ih]
  rw [this, chunks_flatten]

theorem getBytes_fragments_other (t t' : UInt8) (v : Bytes) (h : t ≠ t') :
    getBytes ((chunks 255 v).map (Item.mk t)) t' = [] := by
  have : ∀ cs : List Bytes, getBytes (cs.map (Item.mk t)) t' = [] := by
    intro cs
    induction cs with
    | nil => simp [getBytes]
    | cons c cs ih =>
      simp only [getBytes] at ih
      simp [getBytes, ih, h]
  exact this _

/-- what a tag holds after a sequence of sets: the concatenation, in order, of the values set for it -/
def specGet (ops : List (UInt8 × Bytes)) (t : UInt8) : Bytes :=
  (ops.filter (fun op => op.1 == t)).flatMap (·.2)

theorem getBytes_runSets (ops : List (UInt8 × Bytes)) (t : UInt8) : getBytes (runSets ops) t = specGet ops t := by
  have : ∀ c, getBytes (ops.foldl (fun c op => setBytes c op.1 op.2) c) t = getBytes c t ++ specGet ops t := by
    induction ops with
    | nil => intro c; simp [specGet]
    | cons op ops ih =>
      intro c
      rw [List.foldl_cons, ih, setBytes, getBytes_append]
      by_cases h : op.1 = t
      · subst h
        simp [specGet, getBytes_fragments_same]
      · have h' : (op.1 == t) = false := by simp [h]
        simp [specGet, getBytes_fragments_other _ _ _ h, h']
  simpa [getBytes, runSets] using this []

-- standard reader ---------------------------------------------------------------------------------

theorem stdMerge_fragments (t : UInt8) (acc : Bytes) (v : Bytes) (last : Nat)
    (hlast : v ≠ [] → last = 255) :
    stdMerge (some (⟨t, acc⟩, last)) ((chunks 255 v).map (Item.mk t)) = [⟨t, acc ++ v⟩] := by
  fun_induction chunks 255 v generalizing acc last with
  | case1 => simp [stdMerge]
  | case2 l h hn => omega
  | case3 l h hn ih =>
    have hl := hlast h
    subst hl
    simp only [List.map_cons, stdMerge, beq_self_eq_true, Bool.and_self, ↓reduceIte]
    rw [ih]
    · simp [List.append_assoc]
    · intro hne
      have : (l.drop 255).length ≠ 0 := fun h1 => hne (List.eq_nil_of_length_eq_zero h1)
      simp [List.length_drop] at this
      simp [List.length_take]; omega

end Hc.Tlv8

namespace Hc.Tlv8
theorem serialize_append (c d : Container) : serialize (c ++ d) = serialize c ++ serialize d := by
  induction c with
  | nil => rfl
  | cons i is ih => simp [serialize, ih, List.append_assoc]

/-- every item of a parsed container cost at least two bytes of input (tag, length) plus its value -/
theorem parse_cost : ∀ (n : Nat) (bs : Bytes) (is : Container), bs.length ≤ n → parse bs = .ok is →
    2 * is.length + (is.map (fun i => i.val.length)).sum ≤ bs.length := by
  intro n
  induction n with
  | zero =>
    intro bs is hl h
    have : bs = [] := List.eq_nil_of_length_eq_zero (Nat.le_zero.mp hl)
    subst this
    simp [parse] at h
    subst h
    simp
  | succ n ih =>
    intro bs is hl h
    match bs, h with
    | [], h => simp [parse] at h; subst h; simp
    | [_], h => simp [parse] at h
    | t :: m :: rest, h =>
      unfold parse at h
      by_cases hm : m.toNat ≤ rest.length
      · simp only [hm, if_true] at h
        cases hp : parse (rest.drop m.toNat) with
        | error e => simp [hp] at h
        | ok js =>
          simp [hp] at h
          subst h
          have hlen : (rest.drop m.toNat).length ≤ n := by
            simp only [List.length_cons] at hl
            simp [List.length_drop]; omega
          have := ih (rest.drop m.toNat) js hlen hp
          simp only [List.length_cons, List.map_cons, List.sum_cons, List.length_take, List.length_drop] at this ⊢
          have hmin : min m.toNat rest.length = m.toNat := Nat.min_eq_left hm
          omega
      · simp only [hm, if_false] at h
        split at h <;> simp at h
end Hc.Tlv8
