import HcModel.Ids
/- helper lemmas for C14: sequential id assignment and the container invariant -/
namespace Hc.Ids

theorem assignChars_fst (c : Nat) (l : List Nat) : (assignChars c l).1 = List.range' c l.length := by
  induction l generalizing c with
  | nil => rfl
  | cons x r ih => simp [assignChars, ih, List.range'_succ]

theorem assignChars_snd (c : Nat) (l : List Nat) : (assignChars c l).2 = c + l.length := by
  induction l generalizing c with
  | nil => rfl
  | cons x r ih => simp only [assignChars, ih, List.length_cons]; omega

theorem size_cons (s : Svc) (r : List Svc) : size (s :: r) = 1 + s.chars.length + size r := by
  simp [size]

theorem assignSvcs_snd (c : Nat) (ss : List Svc) : (assignSvcs c ss).2 = c + size ss := by
  induction ss generalizing c with
  | nil => simp [assignSvcs, size]
  | cons s r ih => simp only [assignSvcs, ih, assignChars_snd, size_cons]; omega

theorem assignSvcs_flat (c : Nat) (ss : List Svc) : flatIds (assignSvcs c ss).1 = List.range' c (size ss) := by
  induction ss generalizing c with
  | nil => simp [assignSvcs, size, flatIds]
  | cons s r ih =>
    have ih' := ih (c + 1 + s.chars.length)
    simp only [flatIds] at ih' ⊢
    simp only [assignSvcs, assignChars_fst, assignChars_snd, List.flatMap_cons, size_cons, ih']
    rw [show 1 + s.chars.length + size r = (s.chars.length + 1) + size r by omega, ← List.range'_append_1]
    simp only [List.range'_succ, List.cons_append, List.cons.injEq, true_and]
    rw [show c + 1 + s.chars.length = c + (s.chars.length + 1) by omega]

theorem assignSvcs_length (c : Nat) (ss : List Svc) : (assignSvcs c ss).1.length = ss.length := by
  induction ss generalizing c with
  | nil => rfl
  | cons s r ih => simp [assignSvcs, ih]

theorem assignSvcs_shape (c : Nat) (ss : List Svc) : shape (assignSvcs c ss).1 = shape ss := by
  induction ss generalizing c with
  | nil => rfl
  | cons s r ih =>
    have := ih (c + 1 + s.chars.length)
    simp only [shape] at this ⊢
    simp [assignSvcs, assignChars_fst, assignChars_snd, this]

theorem size_eq_of_shape {a b : List Svc} (h : shape a = shape b) : size a = size b := by
  have : (a.map (fun s => 1 + s.chars.length)) = (shape a).map (1 + ·) := by simp [shape]
  have hb : (b.map (fun s => 1 + s.chars.length)) = (shape b).map (1 + ·) := by simp [shape]
  simp only [size, this, hb, h]

/-- the ids (service id, characteristic ids) assigned depend on the shape only -/
theorem assignSvcs_ids_of_shape (c : Nat) : ∀ (a b : List Svc), shape a = shape b →
    (assignSvcs c a).1.map (fun s => (s.id, s.chars)) = (assignSvcs c b).1.map (fun s => (s.id, s.chars))
  | [], [], _ => rfl
  | [], _ :: _, h => by simp [shape] at h
  | _ :: _, [], h => by simp [shape] at h
  | x :: r, y :: r', h => by
    simp only [shape, List.map_cons, List.cons.injEq] at h
    have ih := assignSvcs_ids_of_shape (c + 1 + x.chars.length) r r' (by simpa [shape] using h.2)
    simp only [assignSvcs, assignChars_fst, assignChars_snd, List.map_cons, ← h.1, ih]

theorem range'_nodup_nonzero (c n : Nat) (hc : 1 ≤ c) : (List.range' c n).Nodup ∧ ∀ i ∈ List.range' c n, i ≠ 0 := by
  refine ⟨List.nodup_range' .., fun i hi => ?_⟩
  have := List.mem_range'_1.mp hi
  omega

end Hc.Ids

namespace Hc.Ids

def idOfP (pool : List Acc) (k : Nat) : Nat := ((pool[k]?).map (·.id)).getD 0

theorem idOf_eq (m : Container) (k : Nat) : m.idOf k = idOfP m.pool k := rfl

theorem idOfP_set_ne (pool : List Acc) (k j : Nat) (x : Acc) (h : j ≠ k) : idOfP (pool.set k x) j = idOfP pool j := by
  simp [idOfP, List.getElem?_set_ne (Ne.symm h)]

theorem idOfP_set_self (pool : List Acc) (k : Nat) (x : Acc) (h : k < pool.length) : idOfP (pool.set k x) k = x.id := by
  simp [idOfP, List.getElem?_set_self h]

theorem updateIDs_id (a : Acc) : a.updateIDs.id = a.id := rfl

theorem updateIDs_seq (a : Acc) :
    flatIds a.updateIDs.svcs = List.range' 1 (size a.updateIDs.svcs) ∧
    a.updateIDs.idCount = 1 + size a.svcs := by
  have hs : size (assignSvcs 1 a.svcs).1 = size a.svcs := size_eq_of_shape (assignSvcs_shape _ _)
  refine ⟨?_, ?_⟩
  · simp only [Acc.updateIDs, assignSvcs_flat, hs]
  · simp only [Acc.updateIDs, assignSvcs_snd]

/-- invariant of the accessory container over every sequence of AddAccessory / RemoveAccessory -/
structure Inv (m : Container) : Prop where
  cnt : 1 ≤ m.idCount
  poolCnt : ∀ a ∈ m.pool, 1 ≤ a.idCount
  nodupIdx : m.accs.Nodup
  nz : ∀ k ∈ m.accs, idOfP m.pool k ≠ 0
  inKeys : ∀ k ∈ m.accs, idOfP m.pool k ∈ m.keys
  nodupIds : (m.accs.map (idOfP m.pool)).Nodup
  seq : ∀ k ∈ m.accs, ∀ a, m.pool[k]? = some a → ∃ c, 1 ≤ c ∧ flatIds a.svcs = List.range' c (size a.svcs)

theorem Inv_init (pool : List Acc) (h : ∀ a ∈ pool, 1 ≤ a.idCount) : Inv (Container.init pool) where
  cnt := Nat.le_refl 1
  poolCnt := h
  nodupIdx := List.nodup_nil
  nz := by intro k hk; simp [Container.init] at hk
  inKeys := by intro k hk; simp [Container.init] at hk
  nodupIds := by simp [Container.init]
  seq := by intro k hk; simp [Container.init] at hk

theorem map_congr_mem {α β} {f g : α → β} {l : List α} (h : ∀ x ∈ l, f x = g x) : l.map f = l.map g :=
  List.map_congr_left h

/-- both outcomes of AddAccessory preserve the invariant (stated over the mutated object `a2` and new counter `cnt`) -/
theorem Inv_add_core (m : Container) (k : Nat) (a a2 : Acc) (cnt n : Nat) (hn : 1 ≤ n) (h : Inv m) (hk : m.pool[k]? = some a)
    (ha2id : a2.id = if a.id = 0 then n else a.id) (ha2svcs : a2.svcs = a.updateIDs.svcs)
    (ha2cnt : a2.idCount = a.updateIDs.idCount) (hcnt' : m.idCount ≤ cnt) :
    Inv { m with pool := m.pool.set k a2, idCount := cnt } ∧
    (m.keys.contains a2.id = false →
      Inv { pool := m.pool.set k a2, accs := m.accs ++ [k], keys := a2.id :: m.keys, idCount := cnt }) := by
  have hlt : k < m.pool.length := by
    rcases List.getElem?_eq_some_iff.mp hk with ⟨hl, _⟩; exact hl
  have hidk : idOfP m.pool k = a.id := by simp [idOfP, hk]
  have hcnt1 : 1 ≤ cnt := Nat.le_trans h.cnt hcnt'
  have ha2nz : a2.id ≠ 0 := by
    rw [ha2id]; split
    · omega
    · assumption
  -- listed ids are unchanged by the mutation
  have key : ∀ j ∈ m.accs, idOfP (m.pool.set k a2) j = idOfP m.pool j := by
    intro j hj
    by_cases hjk : j = k
    · subst hjk
      rw [idOfP_set_self _ _ _ hlt, hidk, ha2id]
      have := h.nz j hj
      rw [hidk] at this
      simp [this]
    · exact idOfP_set_ne _ _ _ _ hjk
  have hpool : ∀ x ∈ m.pool.set k a2, 1 ≤ x.idCount := by
    intro x hx
    rcases List.mem_or_eq_of_mem_set hx with hx | hx
    · exact h.poolCnt x hx
    · rw [hx, ha2cnt, (updateIDs_seq a).2]
      omega
  have hseq : ∀ j, (j ∈ m.accs ∨ j = k) → ∀ x, (m.pool.set k a2)[j]? = some x →
      ∃ c, 1 ≤ c ∧ flatIds x.svcs = List.range' c (size x.svcs) := by
    intro j hj x hx
    by_cases hjk : j = k
    · subst hjk
      rw [List.getElem?_set_self hlt] at hx
      cases hx
      refine ⟨1, Nat.le_refl 1, ?_⟩
      rw [ha2svcs]; exact (updateIDs_seq a).1
    · rw [List.getElem?_set_ne (Ne.symm hjk)] at hx
      rcases hj with hj | hj
      · exact h.seq j hj x hx
      · exact absurd hj hjk
  refine ⟨?_, fun hnot => ?_⟩
  · -- duplicate: rejected, only the object was mutated
    exact {
      cnt := hcnt1
      poolCnt := hpool
      nodupIdx := h.nodupIdx
      nz := fun j hj => by show idOfP (m.pool.set k a2) j ≠ 0; rw [key j hj]; exact h.nz j hj
      inKeys := fun j hj => by show idOfP (m.pool.set k a2) j ∈ m.keys; rw [key j hj]; exact h.inKeys j hj
      nodupIds := by show (m.accs.map (idOfP (m.pool.set k a2))).Nodup; rw [map_congr_mem key]; exact h.nodupIds
      seq := fun j hj => hseq j (Or.inl hj) }
  · have hnk : a2.id ∉ m.keys := by
      intro hm
      have := List.contains_iff_mem.mpr hm
      rw [hnot] at this; exact absurd this (by decide)
    have hkacc : k ∉ m.accs := by
      intro hm
      have h1 := h.inKeys k hm
      have h2 := key k hm
      rw [idOfP_set_self _ _ _ hlt] at h2
      rw [← h2] at h1
      exact hnk h1
    exact {
      cnt := hcnt1
      poolCnt := hpool
      nodupIdx := by
        show (m.accs ++ [k]).Nodup
        simp only [List.nodup_append, h.nodupIdx, true_and]
        refine ⟨by simp, ?_⟩
        intro x hx y hy; simp at hy; subst hy; intro e; subst e; exact hkacc hx
      nz := by
        intro j hj
        have hj : j ∈ m.accs ++ [k] := hj
        show idOfP (m.pool.set k a2) j ≠ 0
        simp only [List.mem_append, List.mem_singleton] at hj
        rcases hj with hj | hj
        · rw [key j hj]; exact h.nz j hj
        · subst hj; rw [idOfP_set_self _ _ _ hlt]; exact ha2nz
      inKeys := by
        intro j hj
        have hj : j ∈ m.accs ++ [k] := hj
        show idOfP (m.pool.set k a2) j ∈ a2.id :: m.keys
        simp only [List.mem_append, List.mem_singleton] at hj
        rcases hj with hj | hj
        · rw [key j hj]; exact List.mem_cons_of_mem _ (h.inKeys j hj)
        · subst hj; rw [idOfP_set_self _ _ _ hlt]; exact List.mem_cons_self
      nodupIds := by
        show ((m.accs ++ [k]).map (idOfP (m.pool.set k a2))).Nodup
        simp only [List.map_append, List.map_cons, List.map_nil, idOfP_set_self _ _ _ hlt, map_congr_mem key]
        simp only [List.nodup_append, h.nodupIds, true_and]
        refine ⟨by simp, ?_⟩
        intro x hx y hy; simp at hy; subst hy; intro e; subst e
        obtain ⟨j, hj, hje⟩ := List.mem_map.mp hx
        exact hnk (hje ▸ h.inKeys j hj)
      seq := by
        intro j hj
        have hj : j ∈ m.accs ++ [k] := hj
        simp only [List.mem_append, List.mem_singleton] at hj
        exact hseq j hj }

theorem autoId_id (a : Acc) (n : Nat) : (a.autoId n).id = if a.id = 0 then n else a.id := by
  unfold Acc.autoId; split <;> simp_all

theorem autoId_svcs (a : Acc) (n : Nat) : (a.autoId n).svcs = a.svcs := by
  unfold Acc.autoId; split <;> rfl

theorem autoId_idCount (a : Acc) (n : Nat) : (a.autoId n).idCount = a.idCount := by
  unfold Acc.autoId; split <;> rfl

theorem nextFree_ge (keys : List Nat) : ∀ (fuel n : Nat), n ≤ nextFree keys fuel n := by
  intro fuel
  induction fuel with
  | zero => intro n; exact Nat.le_refl n
  | succ f ih =>
    intro n
    unfold nextFree
    split
    · exact Nat.le_trans (Nat.le_succ n) (ih (n + 1))
    · exact Nat.le_refl n

/-- with more fuel than keys from `n` on, the number found is free (pigeonhole) -/
theorem nextFree_free (keys : List Nat) : ∀ (fuel n : Nat), (keys.filter (fun x => decide (n ≤ x))).length < fuel →
    nextFree keys fuel n ∉ keys := by
  intro fuel
  induction fuel with
  | zero => intro n h; omega
  | succ f ih =>
    intro n h
    unfold nextFree
    by_cases hc : keys.contains n = true
    · simp only [hc, if_true]
      apply ih
      have hmem : n ∈ keys := List.contains_iff_mem.mp hc
      have hsub : keys.filter (fun x => decide (n + 1 ≤ x)) = (keys.filter (fun x => decide (n ≤ x))).filter (fun x => decide (x ≠ n)) := by
        rw [List.filter_filter]
        apply List.filter_congr
        intro x _
        by_cases h1 : n + 1 ≤ x <;> by_cases h2 : n ≤ x <;> by_cases h3 : x = n <;> simp [h1, h2, h3] <;> omega
      rw [hsub]
      have hin : n ∈ keys.filter (fun x => decide (n ≤ x)) := List.mem_filter.mpr ⟨hmem, by simp⟩
      have hlt : ((keys.filter (fun x => decide (n ≤ x))).filter (fun x => decide (x ≠ n))).length <
          (keys.filter (fun x => decide (n ≤ x))).length :=
        List.length_filter_lt_length_iff_exists.mpr ⟨n, hin, by simp⟩
      omega
    · simp only [hc]
      intro hm
      exact hc (List.contains_iff_mem.mpr hm)

theorem nextFree_add_free (m : Container) : nextFree m.keys (m.keys.length + 1) m.idCount ∉ m.keys :=
  nextFree_free m.keys _ _ (Nat.lt_succ_of_le (List.length_filter_le _ _))

theorem Inv_add (m : Container) (k : Nat) (h : Inv m) : Inv (m.add k).1 := by
  unfold Container.add
  cases hk : m.pool[k]? with
  | none => simpa using h
  | some a =>
    have hge := nextFree_ge m.keys (m.keys.length + 1) m.idCount
    have core := Inv_add_core m k a (a.updateIDs.autoId (nextFree m.keys (m.keys.length + 1) m.idCount))
      (if a.id = 0 then nextFree m.keys (m.keys.length + 1) m.idCount + 1 else m.idCount)
      (nextFree m.keys (m.keys.length + 1) m.idCount) (Nat.le_trans h.cnt hge) h hk
      (by rw [autoId_id, updateIDs_id]) (autoId_svcs _ _) (autoId_idCount _ _) (by split <;> omega)
    simp only []
    split
    · exact core.1
    · rename_i hnot
      exact core.2 (by simpa using hnot)

theorem Inv_remove (m : Container) (k : Nat) (h : Inv m) : Inv (m.remove k).1 := by
  have hsub : ∀ j, j ∈ m.accs.filter (· != k) → j ∈ m.accs := fun j hj => (List.mem_filter.mp hj).1
  exact {
    cnt := h.cnt
    poolCnt := h.poolCnt
    nodupIdx := h.nodupIdx.filter _
    nz := fun j hj => h.nz j (hsub j hj)
    inKeys := fun j hj => h.inKeys j (hsub j hj)
    nodupIds := by
      have : ((m.accs.filter (· != k)).map (idOfP m.pool)).Sublist (m.accs.map (idOfP m.pool)) :=
        (List.filter_sublist).map _
      exact this.nodup h.nodupIds
    seq := fun j hj => h.seq j (hsub j hj) }

/-- a service added to an accessory object (served or not): the object keeps its accessory id and is numbered anew -/
theorem Inv_addSvc (m : Container) (k : Nat) (sp : SvcSpec) (h : Inv m) : Inv (m.addSvc k sp).1 := by
  unfold Container.addSvc
  cases hk : m.pool[k]? with
  | none => simpa using h
  | some a =>
    have hlt : k < m.pool.length := (List.getElem?_eq_some_iff.mp hk).1
    let a2 := a.addService sp.build
    have hid : a2.id = a.id := rfl
    have key : ∀ j, idOfP (m.pool.set k a2) j = idOfP m.pool j := by
      intro j
      by_cases hjk : j = k
      · subst hjk
        rw [idOfP_set_self _ _ _ hlt, hid]; simp [idOfP, hk]
      · exact idOfP_set_ne _ _ _ _ hjk
    have hseq2 := updateIDs_seq ({ a with svcs := a.svcs ++ [sp.build] } : Acc)
    exact {
      cnt := h.cnt
      poolCnt := by
        intro x hx
        rcases List.mem_or_eq_of_mem_set hx with hx | hx
        · exact h.poolCnt x hx
        · rw [hx]; show 1 ≤ (Acc.updateIDs _).idCount; rw [hseq2.2]; omega
      nodupIdx := h.nodupIdx
      nz := fun j hj => by show idOfP (m.pool.set k a2) j ≠ 0; rw [key j]; exact h.nz j hj
      inKeys := fun j hj => by show idOfP (m.pool.set k a2) j ∈ m.keys; rw [key j]; exact h.inKeys j hj
      nodupIds := by
        show (m.accs.map (idOfP (m.pool.set k a2))).Nodup
        rw [map_congr_mem (fun j _ => key j)]; exact h.nodupIds
      seq := by
        intro j hj x hx
        by_cases hjk : j = k
        · subst hjk
          have hx' : (m.pool.set j a2)[j]? = some x := hx
          rw [List.getElem?_set_self hlt] at hx'
          cases hx'
          exact ⟨1, Nat.le_refl 1, hseq2.1⟩
        · have hx' : (m.pool.set k a2)[j]? = some x := hx
          rw [List.getElem?_set_ne (Ne.symm hjk)] at hx'
          exact h.seq j hj x hx' }

theorem Inv_step (m : Container) (o : Op) (h : Inv m) : Inv (m.step o).1 := by
  cases o with
  | add k => exact Inv_add m k h
  | remove k => exact Inv_remove m k h
  | addSvc k s => exact Inv_addSvc m k s h

theorem Inv_run (m : Container) (ops : List Op) (h : Inv m) : Inv (m.run ops).1 := by
  induction ops generalizing m with
  | nil => exact h
  | cons o r ih => exact ih _ (Inv_step m o h)

theorem build_idCount (s : AccSpec) : 1 ≤ s.build.idCount := by
  show 1 ≤ (Acc.updateIDs _).idCount
  rw [(updateIDs_seq _).2]; omega

end Hc.Ids
