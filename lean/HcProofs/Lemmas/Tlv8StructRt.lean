import HcProofs.Lemmas.Tlv8Struct
/- Lemmas for the general round-trip theorem of C17 (reader side: what `read` makes of marshalled fields;
   decoder side: what the field decoders make of those buckets). -/
namespace Hc.Tlv8Struct
open Hc Hc.Tlv8

-- ------------------------------------------------------------------ read of fragments and lists

theorem appendLast_snoc (l : List Bytes) (x v : Bytes) : appendLast (l ++ [x]) v = l ++ [x ++ v] := by
  induction l with
  | nil => simp [appendLast]
  | cons y ys ih =>
    cases ys with
    | nil => simp [appendLast]
    | cons z zs => simp only [List.cons_append, appendLast] at ih ⊢; rw [ih]

theorem addItem_present (st : RMap × Bool) (i : Item) (hv : i.val ≠ []) (hp : st.1.get i.tag ≠ []) :
    addItem st i = ((if st.2 then st.1.set i.tag (st.1.get i.tag ++ [i.val])
      else st.1.set i.tag (appendLast (st.1.get i.tag) i.val)), false) := by
  unfold addItem
  have h1 : i.val.isEmpty = false := by cases h : i.val <;> simp_all
  simp only [h1, Bool.and_false, Bool.false_eq_true, ↓reduceIte]

theorem addItem_absent (st : RMap × Bool) (i : Item) (hv : i.val ≠ []) (hp : st.1.get i.tag = []) :
    addItem st i = (st.1.set i.tag [i.val], false) := by
  unfold addItem
  have h1 : i.val.isEmpty = false := by cases h : i.val <;> simp_all
  simp only [h1, Bool.and_false, Bool.false_eq_true, ↓reduceIte, hp]

/-- what a map holds, tag by tag -/
def Holds (h : RMap) (T : UInt8) (l : List Bytes) (h0 : RMap) : Prop :=
  h.get T = l ∧ ∀ t, t ≠ T → h.get t = h0.get t

theorem Holds.set_of {h h0 : RMap} {T : UInt8} (hh : ∀ t, t ≠ T → h.get t = h0.get t)
    (l' : List Bytes) : Holds (h.set T l') T l' h0 :=
  ⟨get_set_same _ _ _, fun t ht => by rw [get_set_ne _ _ _ _ ht]; exact hh t ht⟩

/-- continuation fragments are appended to the last value of their tag -/
theorem fold_frag_cont (T : UInt8) (q : Bytes) :
    ∀ (h h0 : RMap) (l : List Bytes) (x : Bytes), Holds h T (l ++ [x]) h0 →
      ∃ h', ((chunks 255 q).map (Item.mk T)).foldl addItem (h, false) = (h', false) ∧ Holds h' T (l ++ [x ++ q]) h0 := by
  fun_induction chunks 255 q with
  | case1 => intro h h0 l x hh; exact ⟨h, rfl, by simpa using hh⟩
  | case2 q hq hn => omega
  | case3 q hq hn ih =>
    intro h h0 l x hh
    have hc : q.take 255 ≠ [] := by
      intro e
      rcases List.take_eq_nil_iff.mp e with e | e
      · omega
      · exact hq e
    have hp : (h, false).1.get (Item.mk T (q.take 255)).tag ≠ [] := by
      simp only; rw [hh.1]; simp
    simp only [List.map_cons, List.foldl_cons]
    rw [addItem_present _ _ hc hp]
    simp only [Bool.false_eq_true, ↓reduceIte, hh.1, appendLast_snoc]
    obtain ⟨h', e1, e2⟩ := ih (h.set T (l ++ [x ++ q.take 255])) h0 l (x ++ q.take 255) (Holds.set_of hh.2 _)
    refine ⟨h', e1, ?_⟩
    rw [List.append_assoc x, List.take_append_drop] at e2
    exact e2

/-- one non-empty value: a new value of its tag if the tag is new or a delimiter precedes -/
theorem fold_frag (T : UInt8) (p : Bytes) (hp : p ≠ []) (h h0 : RMap) (d : Bool) (l : List Bytes)
    (hh : Holds h T l h0) (hd : l = [] ∨ d = true) :
    ∃ h', (frag T p).foldl addItem (h, d) = (h', false) ∧ Holds h' T (l ++ [p]) h0 := by
  unfold frag
  rw [chunks_cons_eq 255 p hp (by omega)]
  have hc : p.take 255 ≠ [] := by
    intro e
    rcases List.take_eq_nil_iff.mp e with e | e
    · omega
    · exact hp e
  simp only [List.map_cons, List.foldl_cons]
  have step : addItem (h, d) ⟨T, p.take 255⟩ = (h.set T (l ++ [p.take 255]), false) := by
    by_cases hl : l = []
    · subst hl
      rw [addItem_absent _ _ hc (by simpa using hh.1)]
      simp
    · have hd' : d = true := by rcases hd with e | e; exact absurd e hl; exact e
      rw [addItem_present _ _ hc (by simp only; rw [hh.1]; exact hl)]
      simp [hd', hh.1]
  rw [step]
  obtain ⟨h', e1, e2⟩ := fold_frag_cont T (p.drop 255) (h.set T (l ++ [p.take 255])) h0 l (p.take 255)
    (Holds.set_of hh.2 _)
  refine ⟨h', e1, ?_⟩
  rw [List.take_append_drop] at e2
  exact e2

/-- the items of a list of non-empty values of one tag: fragments, `00 00` between the values -/
def joinFrags (T : UInt8) (ps : List Bytes) : List Item := joinElems (ps.map (frag T))

theorem addItem_delim (h : RMap) (d : Bool) : addItem (h, d) delim = (h, true) := by
  simp [addItem, delim]

theorem fold_joinFrags_ne (T : UInt8) : ∀ (ps : List Bytes), ps ≠ [] → (∀ p ∈ ps, p ≠ []) →
    ∀ (h h0 : RMap) (d : Bool) (l : List Bytes), Holds h T l h0 → (l = [] ∨ d = true) →
      ∃ h', (joinFrags T ps).foldl addItem (h, d) = (h', false) ∧ Holds h' T (l ++ ps) h0 := by
  intro ps
  induction ps with
  | nil => intro h; exact absurd rfl h
  | cons p ps ih =>
    intro _ hne h h0 d l hh hd
    have hp : p ≠ [] := hne p (by simp)
    obtain ⟨h1, e1, e2⟩ := fold_frag T p hp h h0 d l hh hd
    cases ps with
    | nil => exact ⟨h1, by simpa [joinFrags, joinElems] using e1, by simpa using e2⟩
    | cons p' ps' =>
      have hne' : ∀ q ∈ p' :: ps', q ≠ [] := fun q hq => hne q (by simp [hq])
      obtain ⟨h2, e3, e4⟩ := ih (by simp) hne' h1 h0 true (l ++ [p]) e2 (Or.inr rfl)
      refine ⟨h2, ?_, by simpa using e4⟩
      simp only [joinFrags, List.map_cons, joinElems, List.foldl_append, List.foldl_cons] at e3 ⊢
      rw [e1, addItem_delim]
      exact e3

theorem fold_joinFrags (T : UInt8) (ps : List Bytes) (hne : ∀ p ∈ ps, p ≠ []) (h : RMap) (d : Bool)
    (hh : h.get T = []) :
    ∃ h' d', (joinFrags T ps).foldl addItem (h, d) = (h', d') ∧ Holds h' T ps h := by
  by_cases hps : ps = []
  · subst hps
    exact ⟨h, d, by simp [joinFrags, joinElems], hh, fun _ _ => rfl⟩
  · obtain ⟨h', e1, e2⟩ := fold_joinFrags_ne T ps hps hne h h d [] ⟨hh, fun _ _ => rfl⟩ (Or.inl rfl)
    exact ⟨h', false, e1, by simpa using e2⟩

-- ------------------------------------------------------------------ shape of the items of one field

theorem allB_iff (p : Val → Bool) (vs : List Val) : allB p vs = true ↔ ∀ v ∈ vs, p v = true := by
  induction vs with
  | nil => simp [allB]
  | cons v vs ih => simp [allB, ih]

theorem distinct_cons (t : UInt8) (ts : List UInt8) : distinct (t :: ts) = true ↔ t ∉ ts ∧ distinct ts = true := by
  simp [distinct]

theorem serialize_ne_nil (is : List Item) (h : is ≠ []) : serialize is ≠ [] := by
  cases is with
  | nil => contradiction
  | cons i is => simp [serialize]

theorem frag_ne_nil (t : UInt8) (p : Bytes) (h : p ≠ []) : frag t p ≠ [] := by
  unfold frag
  rw [chunks_cons_eq 255 p h (by omega)]
  simp

def elemPayload (ty' : Ty) (v : Val) : Bytes :=
  match structVals v with
  | [x] => payload ty' x
  | _ => []

/-- the values the reader is expected to hold for a field (under `ownTag`) -/
def bucketsOf : Ty → Val → List Bytes
  | .list false fs, .list vs => vs.map fun v => serialize (encFields fs (structVals v))
  | .list true (.cons _ ty' .nil), .list vs => vs.map (elemPayload ty')
  | .list _ _, _ => []
  | ty, v => if (payload ty v).isEmpty then [] else [payload ty v]

theorem encField_simple (tag : UInt8) (ty : Ty) (v : Val) (h : isList ty = false) :
    encField tag ty v = frag tag (payload ty v) := by
  cases ty <;> simp [isList] at h <;> first
    | (cases v <;> simp [encField, payload, frag_nil])
    | simp [encField, payload]

theorem bucketsOf_simple (ty : Ty) (v : Val) (h : isList ty = false) :
    bucketsOf ty v = if (payload ty v).isEmpty then [] else [payload ty v] := by
  cases ty <;> simp [isList] at h <;> simp [bucketsOf]

theorem ownTag_simple (tag : UInt8) (ty : Ty) (h : isList ty = false) : ownTag tag ty = tag := by
  cases ty <;> simp [isList] at h <;> simp [ownTag]

theorem wfVals_single (t' : UInt8) (ty' : Ty) (es : List Val) (h : wfVals (.cons t' ty' .nil) es = true) :
    ∃ x, es = [x] ∧ wfVal ty' x = true := by
  cases es with
  | nil => simp [wfVals] at h
  | cons x es =>
    cases es with
    | nil => simp [wfVals] at h; exact ⟨x, rfl, h⟩
    | cons y ys => simp [wfVals] at h

theorem encField_shape (tag : UInt8) (ty : Ty) (v : Val) (hty : wfTy ty = true) (hv : wfVal ty v = true) :
    encField tag ty v = joinFrags (ownTag tag ty) (bucketsOf ty v) ∧ ∀ p ∈ bucketsOf ty v, p ≠ [] := by
  by_cases hl : isList ty = false
  · rw [encField_simple tag ty v hl, bucketsOf_simple ty v hl, ownTag_simple tag ty hl]
    by_cases hp : payload ty v = []
    · simp [hp, frag_nil, joinFrags, joinElems]
    · have : (payload ty v).isEmpty = false := by cases h : payload ty v <;> simp_all
      simp [this, joinFrags, joinElems, hp]
  · cases ty <;> simp [isList] at hl
    rename_i inl fs
    cases v <;> simp [wfVal] at hv
    rename_i vs
    rw [allB_iff] at hv
    cases inl with
    | false =>
      simp only [encField, bucketsOf, ownTag, joinFrags, List.map_map]
      refine ⟨rfl, ?_⟩
      intro p hp
      simp only [List.mem_map] at hp
      obtain ⟨v, hv1, rfl⟩ := hp
      have := hv v hv1
      cases v <;> simp at this
      apply serialize_ne_nil
      simp only [structVals]
      intro e; simp [e] at this
    | true =>
      cases fs with
      | nil => simp [wfTy] at hty
      | cons t' ty' rest =>
        cases rest with
        | cons _ _ _ => simp [wfTy] at hty
        | nil =>
          simp only [wfTy, Bool.and_eq_true, Bool.not_eq_true'] at hty
          have key : ∀ v ∈ vs, encFields (.cons t' ty' .nil) (structVals v) = frag t' (elemPayload ty' v) ∧
              elemPayload ty' v ≠ [] := by
            intro v hv1
            have := hv v hv1
            cases v <;> simp at this
            rename_i es
            obtain ⟨x, rfl, hx⟩ := wfVals_single t' ty' es this.1
            have e : encFields (.cons t' ty' .nil) [x] = frag t' (payload ty' x) := by
              simp [encFields, encField_simple t' ty' x hty.1]
            refine ⟨by simpa [structVals, elemPayload] using e, ?_⟩
            simp only [elemPayload, structVals]
            intro e2
            have h2 := this.2
            rw [e, e2, frag_nil] at h2
            simp at h2
          simp only [encField, bucketsOf, ownTag, joinFrags, List.map_map]
          refine ⟨?_, ?_⟩
          · congr 1
            apply List.map_congr_left
            intro v hv1
            exact (key v hv1).1
          · intro p hp
            simp only [List.mem_map] at hp
            obtain ⟨v, hv1, rfl⟩ := hp
            exact (key v hv1).2

-- ------------------------------------------------------------------ read of a marshalled struct

theorem itemsOk_frag (t : UInt8) (v : Bytes) : ItemsOk (frag t v) := fragments_ok t v

theorem itemsOk_joinElems (es : List (List Item)) (h : ∀ e ∈ es, ItemsOk e) : ItemsOk (joinElems es) := by
  induction es with
  | nil => exact itemsOk_nil
  | cons e es ih =>
    cases es with
    | nil => simpa [joinElems] using h e (by simp)
    | cons e' es' =>
      simp only [joinElems]
      apply itemsOk_append (h e (by simp))
      intro i hi
      rcases List.mem_cons.mp hi with rfl | hi
      · simp [Item.ok, delim]
      · exact ih (fun x hx => h x (by simp [hx])) i hi

mutual
theorem itemsOk_encField (tag : UInt8) : ∀ (t : Ty) (v : Val), ItemsOk (encField tag t v)
  | .struct fs, v => by cases v <;> simp [encField, itemsOk_nil, itemsOk_frag]
  | .list true fs, v => by
    cases v <;> simp [encField, itemsOk_nil]
    apply itemsOk_joinElems
    intro e he
    simp only [List.mem_map] at he
    obtain ⟨v, _, rfl⟩ := he
    exact itemsOk_encFields fs _
  | .list false fs, v => by
    cases v <;> simp [encField, itemsOk_nil]
    apply itemsOk_joinElems
    intro e he
    simp only [List.mem_map] at he
    obtain ⟨v, _, rfl⟩ := he
    exact itemsOk_frag _ _
  | .u8, v => by simp [encField, itemsOk_frag]
  | .u16, v => by simp [encField, itemsOk_frag]
  | .u32, v => by simp [encField, itemsOk_frag]
  | .u64, v => by simp [encField, itemsOk_frag]
  | .i8, v => by simp [encField, itemsOk_frag]
  | .i16, v => by simp [encField, itemsOk_frag]
  | .i32, v => by simp [encField, itemsOk_frag]
  | .i64, v => by simp [encField, itemsOk_frag]
  | .f32, v => by simp [encField, itemsOk_frag]
  | .bool, v => by simp [encField, itemsOk_frag]
  | .str, v => by simp [encField, itemsOk_frag]
  | .bytes, v => by simp [encField, itemsOk_frag]
theorem itemsOk_encFields : ∀ (fs : Fields) (vs : List Val), ItemsOk (encFields fs vs)
  | .nil, vs => by simp [encFields, itemsOk_nil]
  | .cons tag t rest, [] => by simp [encFields, itemsOk_nil]
  | .cons tag t rest, v :: vs => by
    simp only [encFields]
    exact itemsOk_append (itemsOk_encField tag t v) (itemsOk_encFields rest vs)
end

/-- what the reader is expected to hold, tag by tag, after reading a marshalled struct -/
def expect : Fields → List Val → UInt8 → List Bytes
  | .cons tag ty rest, v :: vs, t => if t = ownTag tag ty then bucketsOf ty v else expect rest vs t
  | _, _, _ => []

theorem fold_fields : ∀ (fs : Fields) (vs : List Val) (h : RMap) (d : Bool),
    wfFields fs = true → distinct (ownTags fs) = true → wfVals fs vs = true →
    (∀ t ∈ ownTags fs, h.get t = []) →
    ∃ h' d', (encFields fs vs).foldl addItem (h, d) = (h', d') ∧
      ∀ t, h'.get t = if t ∈ ownTags fs then expect fs vs t else h.get t
  | .nil, vs, h, d, _, _, _, _ => ⟨h, d, by simp [encFields], by simp [ownTags]⟩
  | .cons tag ty rest, [], h, d, _, _, hv, _ => by simp [wfVals] at hv
  | .cons tag ty rest, v :: vs, h, d, hty, hd, hv, hh => by
    simp only [wfFields, Bool.and_eq_true] at hty
    simp only [wfVals, Bool.and_eq_true] at hv
    simp only [ownTags] at hd hh
    rw [distinct_cons] at hd
    obtain ⟨e1, hne⟩ := encField_shape tag ty v hty.1 hv.1
    obtain ⟨h1, d1, f1, g1⟩ := fold_joinFrags (ownTag tag ty) (bucketsOf ty v) hne h d (hh _ (by simp))
    have hh1 : ∀ t ∈ ownTags rest, h1.get t = [] := by
      intro t ht
      have : t ≠ ownTag tag ty := by intro e; exact hd.1 (e ▸ ht)
      rw [g1.2 t this]
      exact hh t (by simp [ht])
    obtain ⟨h2, d2, f2, g2⟩ := fold_fields rest vs h1 d1 hty.2 hd.2 hv.2 hh1
    refine ⟨h2, d2, ?_, ?_⟩
    · simp only [encFields, List.foldl_append]
      rw [e1, f1, f2]
    · intro t
      rw [g2 t]
      simp only [ownTags, List.mem_cons, expect]
      by_cases ht : t = ownTag tag ty
      · subst ht
        simp [hd.1, g1.1]
      · simp only [ht, false_or, ↓reduceIte]
        split
        · rfl
        · exact g1.2 t ht

theorem read_marshalled (fs : Fields) (vs : List Val) (hty : wfFields fs = true)
    (hd : distinct (ownTags fs) = true) (hv : wfVals fs vs = true) :
    ∃ m, read (serialize (encFields fs vs)) = .ok m ∧ ∀ t ∈ ownTags fs, m.get t = expect fs vs t := by
  obtain ⟨h', d', f, g⟩ := fold_fields fs vs [] false hty hd hv (fun t _ => get_nil t)
  refine ⟨h', ?_, ?_⟩
  · unfold read
    rw [parse_serialize _ (itemsOk_encFields fs vs)]
    simp [readItems, f]
  · intro t ht
    rw [g t, if_pos ht]

-- ------------------------------------------------------------------ an empty encoding is the zero value

theorem joinElems_eq_nil (es : List (List Item)) (h : joinElems es = []) (hne : ∀ e ∈ es, e ≠ []) : es = [] := by
  cases es with
  | nil => rfl
  | cons e es =>
    cases es with
    | nil => simp [joinElems] at h; exact absurd h (hne e (by simp))
    | cons e' es' => simp [joinElems] at h

theorem frag_eq_nil (t : UInt8) (p : Bytes) (h : frag t p = []) : p = [] := by
  by_cases hp : p = []
  · exact hp
  · exact absurd h (frag_ne_nil t p hp)

theorem list_zero (tag : UInt8) (inl : Bool) (fs : Fields) (v : Val) (hv : wfVal (.list inl fs) v = true)
    (he : encField tag (.list inl fs) v = []) : v = .list [] := by
  cases v <;> simp [wfVal] at hv
  rename_i vs
  rw [allB_iff] at hv
  have hel : ∀ v ∈ vs, encFields fs (structVals v) ≠ [] := by
    intro v hv1
    have := hv v hv1
    cases v <;> simp at this
    simp only [structVals]
    intro e; simp [e] at this
  cases inl with
  | true =>
    simp only [encField] at he
    have := joinElems_eq_nil _ he (by
      intro e hm
      simp only [List.mem_map] at hm
      obtain ⟨v, hv1, rfl⟩ := hm
      exact hel v hv1)
    simpa using this
  | false =>
    simp only [encField] at he
    have := joinElems_eq_nil _ he (by
      intro e hm
      simp only [List.mem_map] at hm
      obtain ⟨v, hv1, rfl⟩ := hm
      exact frag_ne_nil _ _ (serialize_ne_nil _ (hel v hv1)))
    simpa using this

theorem scalar_zero (tag : UInt8) (t : Ty) (v : Val) (hs : isScalar t = true) (hv : wfVal t v = true)
    (he : encField tag t v = []) : v = zero t := by
  have hl : isList t = false := by cases t <;> simp_all [isScalar, isList]
  rw [encField_simple tag t v hl] at he
  have hp := frag_eq_nil _ _ he
  cases t <;> simp [isScalar] at hs <;> cases v <;> simp [wfVal] at hv <;>
    simp [payload, scalarPayload, leN] at hp <;> simp [zero, hp]

mutual
theorem zero_of_empty (tag : UInt8) : ∀ (t : Ty) (v : Val), wfVal t v = true → encField tag t v = [] → v = zero t
  | .struct fs, v, hv, he => by
    cases v <;> simp [wfVal] at hv
    rename_i vs
    simp only [encField] at he
    have h1 := frag_eq_nil _ _ he
    have h2 : encFields fs vs = [] := by
      by_cases e : encFields fs vs = []
      · exact e
      · exact absurd h1 (serialize_ne_nil _ e)
    simp [zero, zeros_of_empty fs vs hv h2]
  | .list inl fs, v, hv, he => by rw [list_zero tag inl fs v hv he]; simp [zero]
  | .u8, v, hv, he => scalar_zero tag _ v rfl hv he
  | .u16, v, hv, he => scalar_zero tag _ v rfl hv he
  | .u32, v, hv, he => scalar_zero tag _ v rfl hv he
  | .u64, v, hv, he => scalar_zero tag _ v rfl hv he
  | .i8, v, hv, he => scalar_zero tag _ v rfl hv he
  | .i16, v, hv, he => scalar_zero tag _ v rfl hv he
  | .i32, v, hv, he => scalar_zero tag _ v rfl hv he
  | .i64, v, hv, he => scalar_zero tag _ v rfl hv he
  | .f32, v, hv, he => scalar_zero tag _ v rfl hv he
  | .bool, v, hv, he => scalar_zero tag _ v rfl hv he
  | .str, v, hv, he => scalar_zero tag _ v rfl hv he
  | .bytes, v, hv, he => scalar_zero tag _ v rfl hv he
theorem zeros_of_empty : ∀ (fs : Fields) (vs : List Val), wfVals fs vs = true → encFields fs vs = [] → vs = zeros fs
  | .nil, [], _, _ => by simp [zeros]
  | .nil, _ :: _, hv, _ => by simp [wfVals] at hv
  | .cons tag t rest, [], hv, _ => by simp [wfVals] at hv
  | .cons tag t rest, v :: vs, hv, he => by
    simp only [wfVals, Bool.and_eq_true] at hv
    simp only [encFields, List.append_eq_nil_iff] at he
    simp [zeros, zero_of_empty tag t v hv.1 he.1, zeros_of_empty rest vs hv.2 he.2]
end

-- ------------------------------------------------------------------ decoder on the expected buckets

theorem readBytes_nil (rd : Rd) (t : UInt8) (h : rd.m.get t = []) : rd.readBytes t = (none, rd) := by
  simp [Rd.readBytes, h]

theorem readBytes_cons (rd : Rd) (t : UInt8) (b : Bytes) (rest : List Bytes) (h : rd.m.get t = b :: rest) :
    rd.readBytes t = (some b, ⟨rd.m.set t rest, rd.n + 1⟩) := by
  simp [Rd.readBytes, h]

theorem eof_get (rd : Rd) (h : rd.eof = true) (t : UInt8) : rd.m.get t = [] := by
  unfold Rd.eof at h
  have : rd.m = [] := by simpa using h
  rw [this]; rfl

inductive All2 {α β : Type} (R : α → β → Prop) : List α → List β → Prop
  | nil : All2 R [] []
  | cons {a b as bs} : R a b → All2 R as bs → All2 R (a :: as) (b :: bs)

theorem All2.of_map {α β γ : Type} (R : α → β → Prop) (f : γ → α) (g : γ → β) (l : List γ)
    (h : ∀ c ∈ l, R (f c) (g c)) : All2 R (l.map f) (l.map g) := by
  induction l with
  | nil => exact .nil
  | cons c l ih => exact .cons (h c (by simp)) (ih fun c hc => h c (by simp [hc]))

theorem loopTagged_rt (dec : RMap → DRes (List Val)) (tag : UInt8) (ps : List Bytes) (xs : List (List Val))
    (hall : All2 (fun p x => ∃ m, read p = .ok m ∧ dec m = .ok x) ps xs) :
    ∀ (rd : Rd) (acc : List Val), rd.m.get tag = ps →
      ∃ rd', loopTagged dec tag ps rd acc = (rd', .ok (acc ++ xs.map Val.struct)) ∧
        ∀ t, t ≠ tag → rd'.m.get t = rd.m.get t := by
  induction hall with
  | nil => intro rd acc _; exact ⟨rd, by simp [loopTagged], fun _ _ => rfl⟩
  | @cons p x ps xs hpx _ ih =>
    intro rd acc hg
    obtain ⟨m, hr, hd⟩ := hpx
    simp only [loopTagged, readBytes_cons rd tag p ps hg, hr, hd, loopTail]
    have hg1 : (RMap.set rd.m tag ps).get tag = ps := get_set_same _ _ _
    split
    · rename_i he
      have : ps = [] := by rw [← hg1]; exact eof_get ⟨rd.m.set tag ps, rd.n + 1⟩ he tag
      subst this
      cases xs with
      | nil => exact ⟨⟨rd.m.set tag [], rd.n + 1⟩, by simp, fun t ht => get_set_ne _ _ _ _ ht⟩
      | cons _ _ => rename_i h2; cases h2
    · obtain ⟨rd', e, g⟩ := ih ⟨rd.m.set tag ps, rd.n + 1⟩ (acc ++ [.struct x]) hg1
      refine ⟨rd', by simpa using e, fun t ht => ?_⟩
      rw [g t ht]; exact get_set_ne _ _ _ _ ht

theorem loopInline_rt (dec : Rd → Rd × DRes (List Val)) (T : UInt8) (Rel : Bytes → Val → Prop)
    (h1 : ∀ (rd : Rd) p rest x, rd.m.get T = p :: rest → Rel p x →
      dec rd = (⟨rd.m.set T rest, rd.n + 1⟩, .ok [x]))
    (h0 : ∀ rd : Rd, rd.m.get T = [] → ∃ z, dec rd = (rd, .ok z))
    (ps : List Bytes) (xs : List Val) (hall : All2 Rel ps xs) :
    ∀ (k : Nat) (rd : Rd) (acc : List Val), rd.m.get T = ps → ps.length < k →
      ∃ rd', loopInline dec k rd acc = (rd', .ok (acc ++ xs.map fun x => .struct [x])) ∧
        ∀ t, t ≠ T → rd'.m.get t = rd.m.get t := by
  induction hall with
  | nil =>
    intro k rd acc hg hk
    cases k with
    | zero => omega
    | succ k =>
      obtain ⟨z, hz⟩ := h0 rd hg
      exact ⟨rd, by simp [loopInline, hz], fun _ _ => rfl⟩
  | @cons p x ps xs hpx _ ih =>
    intro k rd acc hg hk
    cases k with
    | zero => omega
    | succ k =>
      have hd := h1 rd p ps x hg hpx
      have hn : (rd.n + 1 == rd.n) = false := by simp
      simp only [loopInline, hd, hn, Bool.false_eq_true, ↓reduceIte, loopTail]
      have hg1 : (RMap.set rd.m T ps).get T = ps := get_set_same _ _ _
      split
      · rename_i he
        have : ps = [] := by rw [← hg1]; exact eof_get ⟨rd.m.set T ps, rd.n + 1⟩ he T
        subst this
        cases xs with
        | nil => exact ⟨⟨rd.m.set T [], rd.n + 1⟩, by simp, fun t ht => get_set_ne _ _ _ _ ht⟩
        | cons _ _ => rename_i h2; cases h2
      · obtain ⟨rd', e, g⟩ := ih k ⟨rd.m.set T ps, rd.n + 1⟩ (acc ++ [.struct [x]]) hg1
          (by simp at hk; omega)
        refine ⟨rd', by simpa using e, fun t ht => ?_⟩
        rw [g t ht]; exact get_set_ne _ _ _ _ ht

def FieldsRt (fs : Fields) : Prop := ∀ (vs : List Val) (rd : Rd), wfFields fs = true →
    distinct (ownTags fs) = true → wfVals fs vs = true →
    (∀ t ∈ ownTags fs, rd.m.get t = expect fs vs t) → (decFields fs rd).2 = .ok vs

def SimpleRt (ty : Ty) : Prop := ∀ (tag : UInt8) (x : Val) (rd : Rd) (p : Bytes) (rest : List Bytes),
    wfTy ty = true → wfVal ty x = true → rd.m.get tag = p :: rest → p = payload ty x →
    decField tag ty rd = (⟨rd.m.set tag rest, rd.n + 1⟩, .ok x)

def FieldRt (ty : Ty) : Prop := ∀ (tag : UInt8) (v : Val) (rd : Rd), wfTy ty = true → wfVal ty v = true →
    rd.m.get (ownTag tag ty) = bucketsOf ty v →
    ∃ rd', decField tag ty rd = (rd', .ok v) ∧ ∀ t, t ≠ ownTag tag ty → rd'.m.get t = rd.m.get t

theorem payload_scalar (ty : Ty) (x : Val) (hs : isScalar ty = true) : payload ty x = scalarPayload ty x := by
  cases ty <;> simp [isScalar] at hs <;> simp [payload]

theorem simpleRt_scalar (ty : Ty) (hs : isScalar ty = true) : SimpleRt ty := by
  intro tag x rd p rest _ hv hg hp
  rw [decField_scalar_some tag ty rd _ p hs (readBytes_cons rd tag p rest hg), hp, payload_scalar ty x hs,
    decScalar_payload ty x hs hv]

theorem simpleRt_struct (fs : Fields) (ih : FieldsRt fs) : SimpleRt (.struct fs) := by
  intro tag x rd p rest hty hv hg hp
  cases x <;> simp [wfVal] at hv
  rename_i vs
  simp only [wfTy, Bool.and_eq_true] at hty
  obtain ⟨m, hr, hm⟩ := read_marshalled fs vs hty.1 hty.2 hv
  simp only [payload] at hp
  subst hp
  simp only [decField, readBytes_cons rd tag _ rest hg, hr]
  rw [ih vs ⟨m, 0⟩ hty.1 hty.2 hv hm]
  rfl

theorem decField_none (tag : UInt8) (ty : Ty) (rd : Rd) (hl : isList ty = false) (hg : rd.m.get tag = []) :
    decField tag ty rd = (rd, .ok (zero ty)) := by
  cases ty <;> simp [isList] at hl
  case struct fs => simp only [decField, readBytes_nil rd tag hg]
  all_goals exact decField_scalar_none tag _ rd rd rfl (readBytes_nil rd tag hg)

theorem fieldRt_simple (ty : Ty) (hl : isList ty = false) (hs : SimpleRt ty) : FieldRt ty := by
  intro tag v rd hty hv hg
  rw [ownTag_simple tag ty hl] at hg ⊢
  rw [bucketsOf_simple ty v hl] at hg
  by_cases hp : payload ty v = []
  · simp only [hp, List.isEmpty_nil, ↓reduceIte] at hg
    have hz : v = zero ty := zero_of_empty tag ty v hv (by rw [encField_simple tag ty v hl, hp, frag_nil])
    exact ⟨rd, by rw [decField_none tag ty rd hl hg, ← hz], fun _ _ => rfl⟩
  · have : (payload ty v).isEmpty = false := by cases h : payload ty v <;> simp_all
    simp only [this, Bool.false_eq_true, ↓reduceIte] at hg
    exact ⟨_, hs tag v rd _ [] hty hv hg rfl, fun t ht => get_set_ne _ _ _ _ ht⟩

theorem map_struct_structVals (vs : List Val) (h : ∀ v ∈ vs, ∃ es, v = .struct es) :
    (vs.map structVals).map Val.struct = vs := by
  induction vs with
  | nil => rfl
  | cons v vs ih =>
    obtain ⟨es, rfl⟩ := h v (by simp)
    simp [structVals]
    simpa using ih (fun v hv => h v (by simp [hv]))

theorem fieldRt_tagged (fs : Fields) (ih : FieldsRt fs) : FieldRt (.list false fs) := by
  intro tag v rd hty hv hg
  cases v <;> simp [wfVal] at hv
  rename_i vs
  rw [allB_iff] at hv
  simp only [wfTy, Bool.and_eq_true] at hty
  simp only [ownTag, bucketsOf] at hg ⊢
  have hel : ∀ v ∈ vs, ∃ es, v = .struct es ∧ wfVals fs es = true := by
    intro v hv1
    have := hv v hv1
    cases v <;> simp at this
    exact ⟨_, rfl, this.1⟩
  have hall := All2.of_map (fun p x => ∃ m, read p = .ok m ∧ (fun m => (decFields fs ⟨m, 0⟩).2) m = .ok x)
    (fun v => serialize (encFields fs (structVals v))) structVals vs (by
      intro v hv1
      obtain ⟨es, rfl, hes⟩ := hel v hv1
      obtain ⟨m, hr, hm⟩ := read_marshalled fs es hty.1 hty.2 hes
      exact ⟨m, hr, ih es ⟨m, 0⟩ hty.1 hty.2 hes hm⟩)
  obtain ⟨rd', e, g⟩ := loopTagged_rt _ tag _ _ hall rd [] hg
  refine ⟨rd', ?_, g⟩
  simp only [decField, hg, e, DRes.map, List.nil_append]
  rw [map_struct_structVals vs (fun v hv1 => by obtain ⟨es, h, _⟩ := hel v hv1; exact ⟨es, h⟩)]

def single (v : Val) : Val :=
  match structVals v with
  | [x] => x
  | _ => .nat 0

theorem map_single (vs : List Val) (h : ∀ v ∈ vs, ∃ x, v = .struct [x]) :
    (vs.map single).map (fun x => Val.struct [x]) = vs := by
  induction vs with
  | nil => rfl
  | cons v vs ih =>
    obtain ⟨x, rfl⟩ := h v (by simp)
    simp [single, structVals]
    simpa using ih (fun v hv => h v (by simp [hv]))

theorem fieldRt_inline (t' : UInt8) (ty' : Ty) (hs : isList ty' = false → SimpleRt ty') :
    FieldRt (.list true (.cons t' ty' .nil)) := by
  intro tag v rd hty hv hg
  cases v <;> simp [wfVal] at hv
  rename_i vs
  rw [allB_iff] at hv
  simp only [wfTy, Bool.and_eq_true, Bool.not_eq_true'] at hty
  simp only [ownTag, bucketsOf] at hg ⊢
  have hel : ∀ v ∈ vs, ∃ x, v = .struct [x] ∧ wfVal ty' x = true := by
    intro v hv1
    have := hv v hv1
    cases v <;> simp at this
    obtain ⟨x, rfl, hx⟩ := wfVals_single t' ty' _ this.1
    exact ⟨x, rfl, hx⟩
  have hall := All2.of_map (fun p x => p = payload ty' x ∧ wfVal ty' x = true) (elemPayload ty') single vs (by
    intro v hv1
    obtain ⟨x, rfl, hx⟩ := hel v hv1
    exact ⟨by simp [elemPayload, single, structVals], by simpa [single, structVals] using hx⟩)
  have h1 : ∀ (rd : Rd) p rest x, rd.m.get t' = p :: rest → (p = payload ty' x ∧ wfVal ty' x = true) →
      (fun rd => decFields (.cons t' ty' .nil) rd) rd = (⟨rd.m.set t' rest, rd.n + 1⟩, .ok [x]) := by
    intro rd p rest x hg1 hr
    simp only [decFields, hs hty.1 t' x rd p rest hty.2 hr.2 hg1 hr.1]
  have h0 : ∀ rd : Rd, rd.m.get t' = [] → ∃ z, (fun rd => decFields (.cons t' ty' .nil) rd) rd = (rd, .ok z) := by
    intro rd hg1
    exact ⟨[zero ty'], by simp only [decFields, decField_none t' ty' rd hty.1 hg1]⟩
  obtain ⟨rd', e, g⟩ := loopInline_rt _ t' _ h1 h0 _ _ hall (rd.m.size + 1) rd [] hg (by
    have := size_get_le rd.m t'
    rw [hg] at this
    omega)
  refine ⟨rd', ?_, g⟩
  simp only [decField, e, DRes.map, List.nil_append]
  rw [map_single vs (fun v hv1 => by obtain ⟨x, h, _⟩ := hel v hv1; exact ⟨x, h⟩)]

theorem fieldsRt_nil : FieldsRt .nil := by
  intro vs rd _ _ hv _
  cases vs with
  | nil => simp [decFields]
  | cons _ _ => simp [wfVals] at hv

theorem fieldsRt_cons (tag : UInt8) (ty : Ty) (rest : Fields) (hf : FieldRt ty) (hr : FieldsRt rest) :
    FieldsRt (.cons tag ty rest) := by
  intro vs rd hty hd hv hg
  cases vs with
  | nil => simp [wfVals] at hv
  | cons v vs =>
    simp only [wfFields, Bool.and_eq_true] at hty
    simp only [wfVals, Bool.and_eq_true] at hv
    simp only [ownTags] at hd hg
    rw [distinct_cons] at hd
    obtain ⟨rd', e, g⟩ := hf tag v rd hty.1 hv.1 (by rw [hg _ (by simp)]; simp [expect])
    have h2 := hr vs rd' hty.2 hd.2 hv.2 (by
      intro t ht
      have hne : t ≠ ownTag tag ty := by intro e; exact hd.1 (e ▸ ht)
      rw [g t hne, hg t (by simp [ht])]
      simp [expect, hne])
    simp only [decFields, e]
    generalize decFields rest rd' = y at h2
    obtain ⟨rd'', r⟩ := y
    simp only at h2
    subst h2
    rfl

mutual
theorem simpleRt_all : ∀ (ty : Ty), isList ty = false → SimpleRt ty
  | .struct fs, _ => simpleRt_struct fs (fieldsRt_all fs)
  | .list _ _, h => by simp [isList] at h
  | .u8, _ => simpleRt_scalar _ rfl
  | .u16, _ => simpleRt_scalar _ rfl
  | .u32, _ => simpleRt_scalar _ rfl
  | .u64, _ => simpleRt_scalar _ rfl
  | .i8, _ => simpleRt_scalar _ rfl
  | .i16, _ => simpleRt_scalar _ rfl
  | .i32, _ => simpleRt_scalar _ rfl
  | .i64, _ => simpleRt_scalar _ rfl
  | .f32, _ => simpleRt_scalar _ rfl
  | .bool, _ => simpleRt_scalar _ rfl
  | .str, _ => simpleRt_scalar _ rfl
  | .bytes, _ => simpleRt_scalar _ rfl
theorem fieldRt_all : ∀ (ty : Ty), FieldRt ty
  | .struct fs => fieldRt_simple _ rfl (simpleRt_struct fs (fieldsRt_all fs))
  | .list false fs => fieldRt_tagged fs (fieldsRt_all fs)
  | .list true (.cons t' ty' .nil) => fieldRt_inline t' ty' (simpleRt_all ty')
  | .list true .nil => by intro tag v rd hty; simp [wfTy] at hty
  | .list true (.cons _ _ (.cons _ _ _)) => by intro tag v rd hty; simp [wfTy] at hty
  | .u8 => fieldRt_simple _ rfl (simpleRt_scalar _ rfl)
  | .u16 => fieldRt_simple _ rfl (simpleRt_scalar _ rfl)
  | .u32 => fieldRt_simple _ rfl (simpleRt_scalar _ rfl)
  | .u64 => fieldRt_simple _ rfl (simpleRt_scalar _ rfl)
  | .i8 => fieldRt_simple _ rfl (simpleRt_scalar _ rfl)
  | .i16 => fieldRt_simple _ rfl (simpleRt_scalar _ rfl)
  | .i32 => fieldRt_simple _ rfl (simpleRt_scalar _ rfl)
  | .i64 => fieldRt_simple _ rfl (simpleRt_scalar _ rfl)
  | .f32 => fieldRt_simple _ rfl (simpleRt_scalar _ rfl)
  | .bool => fieldRt_simple _ rfl (simpleRt_scalar _ rfl)
  | .str => fieldRt_simple _ rfl (simpleRt_scalar _ rfl)
  | .bytes => fieldRt_simple _ rfl (simpleRt_scalar _ rfl)
theorem fieldsRt_all : ∀ (fs : Fields), FieldsRt fs
  | .nil => fieldsRt_nil
  | .cons tag ty rest => fieldsRt_cons tag ty rest (fieldRt_all ty) (fieldsRt_all rest)
end

theorem unmarshal_marshal (ty : Ty) (v : Val) (h : WF ty v = true) : unmarshal ty (marshal ty v) = .ok v := by
  unfold WF at h
  cases ty <;> simp [isStruct] at h
  rename_i fs
  cases v <;> simp [wfVal] at h
  rename_i vs
  obtain ⟨hty, hv⟩ := h
  simp only [wfTy, Bool.and_eq_true] at hty
  obtain ⟨m, hr, hm⟩ := read_marshalled fs vs hty.1 hty.2 hv
  simp only [marshal, unmarshal, hr, fieldsRt_all fs vs ⟨m, 0⟩ hty.1 hty.2 hv hm]

end Hc.Tlv8Struct
