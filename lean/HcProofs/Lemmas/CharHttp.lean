import HcModel.CharHttp
/- specification-level definitions and the loop lemma for C09 (HcProofs/Props/C09.lean) -/
namespace Hc.CharHttp
open Hc Hc.Charac

def idsOf : List IdTok → List (Nat × Nat)
  | [] => []
  | .pair a i :: r => (a, i) :: idsOf r
  | .bad :: r => idsOf r

def wellFormed : List IdTok → Bool
  | [] => true
  | .pair _ _ :: r => wellFormed r
  | .bad :: _ => false

/-- what the handler must say about one requested id -/
def entryOk (db : Db) (multi : Bool) (e : RespEntry) : Prop :=
  match lookup db e.aid e.iid with
  | none => e.status = some statusNotFound ∧ e.value.isNil = true
  | some c =>
    if c.chr.cfg.perms.pr then
      e.value = c.chr.value ∧ e.status = (if multi then some 0 else none)
    else e.status = some statusWriteOnly ∧ e.value.isNil = true

theorem getEntries_spec (db : Db) (toks : List IdTok) (h : wellFormed toks = true) :
    ∃ es, getEntries db toks = some es ∧ es.map (fun e => (e.aid, e.iid)) = idsOf toks ∧
      ∀ e ∈ es, (match lookup db e.aid e.iid with
        | none => e.status = some statusNotFound ∧ e.value.isNil = true
        | some c => if c.chr.cfg.perms.pr then e.value = c.chr.value ∧ e.status = none
                    else e.status = some statusWriteOnly ∧ e.value.isNil = true) := by
  induction toks with
  | nil => exact ⟨[], rfl, rfl, by simp⟩
  | cons t ts ih =>
    cases t with
    | bad => simp [wellFormed] at h
    | pair a i =>
      obtain ⟨es, h1, h2, h3⟩ := ih (by simpa [wellFormed] using h)
      refine ⟨(match lookup db a i with
        | none => ⟨a, i, .nil, some statusNotFound⟩
        | some c => if c.chr.cfg.perms.pr then ⟨a, i, c.chr.value, none⟩ else ⟨a, i, .nil, some statusWriteOnly⟩) :: es,
        by simp only [getEntries, h1, Option.map_some]; rfl, ?_, ?_⟩
      · simp only [List.map_cons, idsOf, h2]
        cases hl : lookup db a i with
        | none => rfl
        | some c => simp only; split <;> rfl
      · intro e he
        simp only [List.mem_cons] at he
        rcases he with rfl | he
        · cases hl : lookup db a i with
          | none => simp [hl, statusNotFound, GVal.isNil]
          | some c =>
            simp only
            by_cases hp : c.chr.cfg.perms.pr = true
            · simp [hp, hl]
            · simp [hp, hl, GVal.isNil]
        · exact h3 e he


end Hc.CharHttp
