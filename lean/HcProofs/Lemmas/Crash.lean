import HcProofs.Lemmas.Fs
/- helper lemmas for C19: operations that touch only the temporary sibling, content of the sibling,
   effect of the complete atomic write, soundness of the executable shape checker -/
namespace Hc.Fs

/-- operations of the part before the rename -/
def TouchTmp (t : Name) (op : FsOp) : Prop := op = .create t ∨ op = .truncate t ∨ isFill t op = true

theorem isFill_cases {t : Name} {op : FsOp} (h : isFill t op = true) :
    (∃ off bs, op = .write t off bs) ∨ op = .close := by
  cases op <;> simp_all [isFill]

theorem eqOff_applyOp (d : Dir) (t : Name) (op : FsOp) (h : TouchTmp t op) (n : Name) (hn : n ≠ t) :
    lookup (applyOp d op) n = lookup d n := by
  rcases h with h | h | h
  · subst h; simp [lookup_create, hn]
  · subst h; simp [lookup_truncate, hn]
  · rcases isFill_cases h with ⟨off, bs, h⟩ | h
    · subst h; simp [lookup_write, hn]
    · subst h; rfl

theorem eqOff_apply (t : Name) (l : List FsOp) (d : Dir) (h : ∀ op ∈ l, TouchTmp t op) (n : Name) (hn : n ≠ t) :
    lookup (apply d l) n = lookup d n := by
  induction l generalizing d with
  | nil => rfl
  | cons op r ih =>
    rw [apply_cons, ih _ (fun o ho => h o (List.mem_cons_of_mem _ ho)),
      eqOff_applyOp d t op (h op List.mem_cons_self) n hn]

theorem lookup_fill (t : Name) (fill : List FsOp) (d : Dir) (c : Bytes) (hc : lookup d t = some c)
    (h : ∀ op ∈ fill, isFill t op = true) : lookup (apply d fill) t = some (fillContent c fill) := by
  induction fill generalizing d c with
  | nil => simpa [fillContent] using hc
  | cons op r ih =>
    have hr : ∀ o ∈ r, isFill t o = true := fun o ho => h o (List.mem_cons_of_mem _ ho)
    rcases isFill_cases (h op List.mem_cons_self) with ⟨off, bs, hop⟩ | hop
    · subst hop
      rw [apply_cons, fillContent]
      exact ih _ _ (by simp [lookup_write, hc]) hr
    · subst hop
      rw [apply_cons]
      simp only [fillContent]
      exact ih _ _ (by simpa [applyOp] using hc) hr

/-- after `create t; truncate t` the sibling exists and is empty, whatever was there before -/
theorem lookup_create_truncate (d : Dir) (t : Name) :
    lookup (applyOp (applyOp d (.create t)) (.truncate t)) t = some [] := by
  simp [lookup_truncate, lookup_create]

theorem pre_touch (t : Name) (fill : List FsOp) (h : ∀ op ∈ fill, isFill t op = true) :
    ∀ op ∈ FsOp.create t :: FsOp.truncate t :: fill, TouchTmp t op := by
  intro op hop
  simp only [List.mem_cons] at hop
  rcases hop with h1 | h1 | h1
  · exact .inl h1
  · exact .inr (.inl h1)
  · exact .inr (.inr (h op h1))

/-- the directory after the complete write -/
theorem lookup_atomic_write (d : Dir) (key t : Name) (new : Bytes) (fill : List FsOp) (hne : t ≠ key)
    (h : ∀ op ∈ fill, isFill t op = true) (hnew : fillContent [] fill = new) (n : Name) :
    lookup (apply d (.create t :: .truncate t :: (fill ++ [.rename t key]))) n =
      if n = key then some new else if n = t then none else lookup d n := by
  rw [apply_cons, apply_cons, apply_append]
  have h1 := lookup_fill t fill _ [] (lookup_create_truncate d t) h
  rw [hnew] at h1
  rw [apply_cons, apply_nil, lookup_rename _ t key new h1 hne]
  by_cases hk : n = key
  · simp [hk]
  · by_cases ht : n = t
    · simp [hk, ht]
    · simp only [hk, ht, ↓reduceIte]
      have := eqOff_apply t (.create t :: .truncate t :: fill) d (pre_touch t fill h) n ht
      simpa [apply_cons] using this

/-- a prefix of the operation list is a prefix of the part before the rename, or the whole list -/
theorem take_cases (pre : List FsOp) (last : FsOp) (k : Nat) :
    (pre ++ [last]).take k = pre.take k ∨ (pre ++ [last]).take k = pre ++ [last] := by
  by_cases h : k ≤ pre.length
  · exact .inl (List.take_append_of_le_length h)
  · exact .inr (List.take_of_length_le (by simp; omega))

theorem dropLast_append_of_getLast? {α} (l : List α) (a : α) (h : l.getLast? = some a) : l.dropLast ++ [a] = l := by
  have hne : l ≠ [] := by intro h0; subst h0; simp at h
  have h2 := List.getLast?_eq_some_getLast hne
  rw [h2] at h
  have := List.dropLast_concat_getLast hne
  simp at h
  rw [h] at this
  exact this

theorem checkTrace_shape (key : Name) (new : Bytes) (ops : List FsOp) (h : checkTrace key new ops = true) :
    ∃ tmp, traceTmp ops = some tmp ∧ AtomicWriteShape key tmp new ops := by
  unfold checkTrace at h
  split at h
  next t t' rest =>
    simp only [Bool.and_eq_true, decide_eq_true_eq, List.all_eq_true] at h
    obtain ⟨⟨⟨⟨⟨h1, h2⟩, h3⟩, h4⟩, h5⟩, h6⟩ := h
    subst h1
    refine ⟨t, rfl, h2, h3, rest.dropLast, ?_, h5, h6⟩
    rw [dropLast_append_of_getLast? _ _ h4]
  next => simp at h

end Hc.Fs
