import HcModel.ConnRead
/- lemmas about the read path model (C07) -/
namespace Hc.ConnRead
variable {α : Type}

theorem allOk_cons (f : Frame α) (r : List (Frame α)) : allOk (f :: r) = true ↔ f.ok = true ∧ allOk r = true := by
  simp [allOk]

/-- data / size invariants of the fetch loop for a well-formed stream -/
theorem fetchAux_inv (buf flight : Nat) (closed : Bool) (todo : List (Frame α)) (net : List Ev)
    (hok : allOk todo = true) (hsz : buf + flight = streamSize todo) :
    (fetchAux buf flight closed todo net).1.rem ++ plainOf (fetchAux buf flight closed todo net).1.todo = plainOf todo ∧
    allOk (fetchAux buf flight closed todo net).1.todo = true ∧
    (fetchAux buf flight closed todo net).1.buf + (fetchAux buf flight closed todo net).1.flight
      = streamSize (fetchAux buf flight closed todo net).1.todo ∧
    ((fetchAux buf flight closed todo net).2.2 = none → (fetchAux buf flight closed todo net).1.rem ≠ []) ∧
    ((fetchAux buf flight closed todo net).2.2 ≠ none → (fetchAux buf flight closed todo net).1.rem = []) := by
  fun_induction fetchAux buf flight closed todo net with
  | case1 buf flight net f r h1 h2 h3 ih =>
    rw [allOk_cons] at hok
    have := ih hok.2 (by simp [streamSize] at hsz; omega)
    simp only [plainOf]
    have he : f.plain = [] := by simpa using h3
    simp only [he, List.nil_append]; exact this
  | case2 buf flight net f r h1 h2 h3 =>
    rw [allOk_cons] at hok
    simp only [streamSize] at hsz
    refine ⟨by simp [plainOf], hok.2, by simp; omega, ?_, by simp⟩
    intro _; simpa using h3
  | case3 buf flight net f r h1 h2 =>
    rw [allOk_cons] at hok; simp [hok.1] at h2
  | case6 buf flight f r h1 h2 n net' ih =>
    exact ih hok (by omega)
  | case11 buf flight h n net' ih => exact ih hok (by omega)
  | _ => first | (simp_all; done) | (split <;> simp_all)

/-- where errors can come from, for a well-formed stream -/
theorem fetchAux_err (buf flight : Nat) (closed : Bool) (todo : List (Frame α)) (net : List Ev)
    (hok : allOk todo = true) :
    ((fetchAux buf flight closed todo net).2.2 = some .eof → Ev.closed ∈ net) ∧
    (∀ a, (fetchAux buf flight closed todo net).2.2 = some (.closed a) → closed = true) ∧
    ((fetchAux buf flight closed todo net).2.2 = some .timeout → Ev.idle ∈ net) ∧
    ((fetchAux buf flight closed todo net).1.closed = true → closed = true ∨ Ev.closed ∈ net) := by
  fun_induction fetchAux buf flight closed todo net with
  | case1 buf flight net f r h1 h2 h3 ih =>
    rw [allOk_cons] at hok
    exact ih hok.2
  | case3 buf flight net f r h1 h2 =>
    rw [allOk_cons] at hok; simp [hok.1] at h2
  | case6 buf flight f r h1 h2 n net' ih =>
    have := ih hok
    refine ⟨?_, this.2.1, ?_, ?_⟩
    · intro ha; exact List.mem_cons_of_mem _ (this.1 ha)
    · intro ha; exact List.mem_cons_of_mem _ (this.2.2.1 ha)
    · intro ha; rcases this.2.2.2 ha with h | h
      · exact .inl h
      · exact .inr (List.mem_cons_of_mem _ h)
  | case11 buf flight h n net' ih =>
    have := ih hok
    refine ⟨?_, this.2.1, ?_, ?_⟩
    · intro ha; exact List.mem_cons_of_mem _ (this.1 ha)
    · intro ha; exact List.mem_cons_of_mem _ (this.2.2.1 ha)
    · intro ha; rcases this.2.2.2 ha with h | h
      · exact .inl h
      · exact .inr (List.mem_cons_of_mem _ h)
  | _ => first | (simp_all; done) | (split <;> simp_all)

/-- the network still carries everything in flight; blocking means everything was consumed -/
theorem fetchAux_block (buf flight : Nat) (closed : Bool) (todo : List (Frame α)) (net : List Ev)
    (hsz : buf + flight = streamSize todo) (hseg : flight ≤ segBytes net) :
    (fetchAux buf flight closed todo net).1.flight ≤ segBytes (fetchAux buf flight closed todo net).2.1 ∧
    ((fetchAux buf flight closed todo net).2.2 = some .block →
      (fetchAux buf flight closed todo net).2.1 = [] ∧ (fetchAux buf flight closed todo net).1.todo = []) := by
  fun_induction fetchAux buf flight closed todo net with
  | case1 buf flight net f r h1 h2 h3 ih =>
    exact ih (by simp [streamSize] at hsz; omega) hseg
  | case5 buf flight f r h1 h2 =>
    simp only [segBytes] at hseg
    simp only [streamSize] at hsz
    omega
  | case6 buf flight f r h1 h2 n net' ih =>
    simp only [segBytes] at hseg
    exact ih (by omega) (by omega)
  | case11 buf flight h n net' ih =>
    simp only [segBytes] at hseg
    exact ih (by omega) (by omega)
  | _ => first | (simp_all [segBytes]; done) | (split <;> simp_all [segBytes])

/-- promptness of the loop: with a complete frame chain buffered it does not touch the network -/
theorem fetchAux_ready (buf flight : Nat) (closed : Bool) (todo : List (Frame α)) (net : List Ev)
    (h : readyAux buf todo = true) :
    (fetchAux buf flight closed todo net).2.1 = net ∧ (fetchAux buf flight closed todo net).2.2 = none ∧
      (fetchAux buf flight closed todo net).1.rem ≠ [] := by
  fun_induction fetchAux buf flight closed todo net with
  | case1 buf flight net f r h1 h2 h3 ih =>
    apply ih
    simpa [readyAux, h1, h2, h3] using h
  | case2 buf flight net f r h1 h2 h3 => simpa using h3
  | _ => first | (simp_all [readyAux]; done) | (simp [readyAux] at h; omega)

/-- events are consumed from the front only -/
theorem fetchAux_suffix (buf flight : Nat) (closed : Bool) (todo : List (Frame α)) (net : List Ev) :
    ∃ pre, net = pre ++ (fetchAux buf flight closed todo net).2.1 := by
  fun_induction fetchAux buf flight closed todo net with
  | case1 buf flight net f r h1 h2 h3 ih => exact ih
  | case6 buf flight f r h1 h2 n net' ih => obtain ⟨pre, hp⟩ := ih; exact ⟨_ :: pre, by rw [List.cons_append, ← hp]⟩
  | case11 buf flight h n net' ih => obtain ⟨pre, hp⟩ := ih; exact ⟨_ :: pre, by rw [List.cons_append, ← hp]⟩
  | case7 => exact ⟨[_], rfl⟩
  | case8 => exact ⟨[_], rfl⟩
  | case12 => exact ⟨[_], rfl⟩
  | case13 => exact ⟨[_], rfl⟩
  | _ => exact ⟨[], rfl⟩

/-- a segment that completes the buffered frame chain is the only event consumed -/
theorem fetchAux_ready_after_seg (buf flight : Nat) (closed : Bool) (todo : List (Frame α)) (net : List Ev)
    (n : Nat) (net' : List Ev) (hnet : net = .seg n :: net') (hc : closed = false)
    (h0 : readyAux buf todo = false) (h1 : readyAux (buf + min n flight) todo = true) :
    (fetchAux buf flight closed todo net).2.1 = net' ∧ (fetchAux buf flight closed todo net).2.2 = none ∧
      (fetchAux buf flight closed todo net).1.rem ≠ [] := by
  fun_induction fetchAux buf flight closed todo net with
  | case1 buf flight net f r g1 g2 g3 ih =>
    apply ih hnet
    · simpa [readyAux, g1, g2, g3] using h0
    · have : f.size ≤ buf + min n flight := by omega
      have e : buf + min n flight - f.size = buf - f.size + min n flight := by omega
      simpa [readyAux, this, g2, g3, e] using h1
  | case2 buf flight net f r g1 g2 g3 => simp [readyAux, g1, g2, g3] at h0
  | case3 buf flight net f r g1 g2 =>
    have : f.size ≤ buf + min n flight := by omega
    simp [readyAux, this, g2] at h1
  | case6 buf flight f r g1 g2 m net'' ih =>
    simp only [List.cons.injEq, Ev.seg.injEq] at hnet
    obtain ⟨hm, hn⟩ := hnet
    subst hm; subst hn
    exact fetchAux_ready _ _ _ _ _ h1
  | case11 buf flight g m net'' ih => simp [readyAux] at h1
  | _ => first | (simp_all [readyAux]; done) | (split <;> simp_all [readyAux])

theorem fetchAux_nodata (buf flight : Nat) (closed : Bool) (todo : List (Frame α)) (net : List Ev) (bs : List α) :
    (fetchAux buf flight closed todo net).2.2 ≠ some (.data bs) := by
  fun_induction fetchAux buf flight closed todo net with
  | case1 buf flight net f r h1 h2 h3 ih => exact ih
  | case6 buf flight f r h1 h2 n net' ih => exact ih
  | case11 buf flight h n net' ih => exact ih
  | _ => first | (simp; done) | (split <;> simp)

-- one read ------------------------------------------------------------------------------------------

/-- plaintext received or still to be received, in order, that the caller has not been given yet -/
def pending (s : St α) : List α := s.rem ++ plainOf s.todo

/-- well-formed peer: every outstanding frame authenticates; buffered + in flight = outstanding stream -/
structure Good (s : St α) : Prop where
  ok : allOk s.todo = true
  sz : s.buf + s.flight = streamSize s.todo

theorem good_init (fs : List (Frame α)) (h : allOk fs = true) : Good (init fs) :=
  ⟨h, by simp [init]⟩

theorem bufRead_nonempty (rem : List α) (b : Nat) (h : rem ≠ []) :
    bufRead rem b = (.data (rem.take b), rem.drop b) := by
  have : rem.isEmpty = false := by cases rem <;> simp_all
  simp [bufRead, this]

theorem read_spec (s : St α) (net : List Ev) (b : Nat) (g : Good s) :
    out (read s net b).2.2 ++ pending (read s net b).1 = pending s ∧ Good (read s net b).1 ∧
    ((read s net b).2.2 = .eof → Ev.closed ∈ net) ∧
    (∀ a, (read s net b).2.2 = .closed a → s.closed = true) ∧
    ((read s net b).2.2 = .timeout → Ev.idle ∈ net) ∧
    ((read s net b).1.closed = true → s.closed = true ∨ Ev.closed ∈ net) ∧
    (∃ pre, net = pre ++ (read s net b).2.1) ∧
    (1 ≤ b → ∀ bs, (read s net b).2.2 = .data bs → bs ≠ []) := by
  unfold read
  by_cases hr : s.rem = []
  · have hre : s.rem.isEmpty = true := by simp [hr]
    simp only [hre, Bool.not_true, Bool.false_eq_true, ↓reduceIte]
    have A := fetchAux_inv s.buf s.flight s.closed s.todo net g.ok g.sz
    have B := fetchAux_err s.buf s.flight s.closed s.todo net g.ok
    have C := fetchAux_suffix s.buf s.flight s.closed s.todo net
    have D := fetchAux_nodata s.buf s.flight s.closed s.todo net
    unfold fetch
    generalize fetchAux s.buf s.flight s.closed s.todo net = x at A B C D
    obtain ⟨s', net', r⟩ := x
    simp only at A B C D
    cases r with
    | some r =>
      have hrem : s'.rem = [] := A.2.2.2.2 (by simp)
      dsimp only
      refine ⟨?_, ⟨A.2.1, A.2.2.1⟩, ?_, ?_, ?_, B.2.2.2, C, ?_⟩
      · have := A.1
        simp only [pending, hr, List.nil_append]
        rw [← this, hrem]
        cases r with
        | data bs => exact absurd rfl (D bs)
        | _ => simp [out]
      · intro h; exact B.1 (by simp [h])
      · intro a h; exact B.2.1 a (by simp [h])
      · intro h; exact B.2.2.1 (by simp [h])
      · intro hb bs h
        subst h
        exact absurd rfl (D bs)
    | none =>
      have hne : s'.rem ≠ [] := A.2.2.2.1 rfl
      dsimp only
      simp only [bufRead_nonempty _ b hne]
      refine ⟨?_, ⟨A.2.1, A.2.2.1⟩, by simp, by simp, by simp, B.2.2.2, C, ?_⟩
      · simp only [out, pending, hr, List.nil_append]
        rw [← A.1]; simp [← List.append_assoc]
      · intro hb bs h
        simp only [Res.data.injEq] at h
        subst h
        cases hs : s'.rem with
        | nil => exact absurd hs hne
        | cons a t => cases b with
          | zero => omega
          | succ b => simp
  · have hre : s.rem.isEmpty = false := by cases h : s.rem <;> simp_all
    simp only [hre, Bool.not_false, ↓reduceIte, bufRead_nonempty _ b hr]
    refine ⟨?_, ⟨g.ok, g.sz⟩, by simp, by simp, by simp, fun h => .inl h, ⟨[], rfl⟩, ?_⟩
    · simp [out, pending, ← List.append_assoc]
    · intro hb bs h
      simp only [Res.data.injEq] at h
      subst h
      cases hs : s.rem with
      | nil => exact absurd hs hr
      | cons a t => cases b with
        | zero => omega
        | succ b => simp
theorem read_block (s : St α) (net : List Ev) (b : Nat) (g : Good s) (hseg : s.flight ≤ segBytes net) :
    (read s net b).1.flight ≤ segBytes (read s net b).2.1 ∧
    ((read s net b).2.2 = .block → (read s net b).2.1 = [] ∧ pending (read s net b).1 = []) := by
  unfold read
  by_cases hr : s.rem = []
  · have hre : s.rem.isEmpty = true := by simp [hr]
    simp only [hre, Bool.not_true, Bool.false_eq_true, ↓reduceIte]
    have A := fetchAux_inv s.buf s.flight s.closed s.todo net g.ok g.sz
    have B := fetchAux_block s.buf s.flight s.closed s.todo net g.sz hseg
    unfold fetch
    generalize fetchAux s.buf s.flight s.closed s.todo net = x at A B
    obtain ⟨s', net', r⟩ := x
    simp only at A B
    cases r with
    | some r =>
      dsimp only
      refine ⟨B.1, ?_⟩
      intro h; subst h
      have := B.2 rfl
      simp [pending, this, A.2.2.2.2 (by simp), plainOf]
    | none =>
      have hne : s'.rem ≠ [] := A.2.2.2.1 rfl
      dsimp only
      simp only [bufRead_nonempty _ b hne]
      exact ⟨B.1, by simp⟩
  · have hre : s.rem.isEmpty = false := by cases h : s.rem <;> simp_all
    simp only [hre, Bool.not_false, ↓reduceIte, bufRead_nonempty _ b hr]
    exact ⟨hseg, by simp⟩

theorem read_prompt (s : St α) (net : List Ev) (b : Nat) (hb : 1 ≤ b) (h : ready s = true) :
    (read s net b).2.1 = net ∧ ∃ bs, bs ≠ [] ∧ (read s net b).2.2 = .data bs := by
  unfold read
  by_cases hr : s.rem = []
  · have hre : s.rem.isEmpty = true := by simp [hr]
    simp only [hre, Bool.not_true, Bool.false_eq_true, ↓reduceIte]
    have hq : readyAux s.buf s.todo = true := by simpa [ready, hre] using h
    have A := fetchAux_ready s.buf s.flight s.closed s.todo net hq
    unfold fetch
    generalize fetchAux s.buf s.flight s.closed s.todo net = x at A
    obtain ⟨s', net', r⟩ := x
    simp only at A
    obtain ⟨h1, h2, h3⟩ := A
    subst h2
    dsimp only
    simp only [bufRead_nonempty _ b h3]
    refine ⟨h1, _, ?_, rfl⟩
    cases hs : s'.rem with
    | nil => exact absurd hs h3
    | cons a t => cases b with
      | zero => omega
      | succ b => simp
  · have hre : s.rem.isEmpty = false := by cases h : s.rem <;> simp_all
    simp only [hre, Bool.not_false, ↓reduceIte, bufRead_nonempty _ b hr]
    refine ⟨by first | rfl | trivial, _, ?_, rfl⟩
    cases hs : s.rem with
    | nil => exact absurd hs hr
    | cons a t => cases b with
      | zero => omega
      | succ b => simp

theorem read_prompt_after_seg (s : St α) (n : Nat) (net' : List Ev) (b : Nat) (hb : 1 ≤ b)
    (hc : s.closed = false) (h0 : ready s = false)
    (h1 : readyAux (s.buf + min n s.flight) s.todo = true) :
    (read s (.seg n :: net') b).2.1 = net' ∧ ∃ bs, bs ≠ [] ∧ (read s (.seg n :: net') b).2.2 = .data bs := by
  unfold read
  have hre : s.rem.isEmpty = true := by
    cases h : s.rem.isEmpty <;> simp_all [ready]
  have hq : readyAux s.buf s.todo = false := by simpa [ready, hre] using h0
  simp only [hre, Bool.not_true, Bool.false_eq_true, ↓reduceIte]
  have A := fetchAux_ready_after_seg s.buf s.flight s.closed s.todo _ n net' rfl hc hq h1
  unfold fetch
  generalize fetchAux s.buf s.flight s.closed s.todo (.seg n :: net') = x at A
  obtain ⟨s', net'', r⟩ := x
  simp only at A
  obtain ⟨g1, g2, g3⟩ := A
  subst g2
  dsimp only
  simp only [bufRead_nonempty _ b g3]
  refine ⟨g1, _, ?_, rfl⟩
  cases hs : s'.rem with
  | nil => exact absurd hs g3
  | cons a t => cases b with
    | zero => omega
    | succ b => simp

-- sequences of reads ---------------------------------------------------------------------------------

theorem run_exact (s : St α) (net : List Ev) (bufs : List Nat) (g : Good s) :
    dataOf (run s net bufs).2.2 ++ pending (run s net bufs).1 = pending s ∧ Good (run s net bufs).1 := by
  induction bufs generalizing s net with
  | nil => simp [run, dataOf, g]
  | cons b bs ih =>
    have R := read_spec s net b g
    have I := ih (read s net b).1 (read s net b).2.1 R.2.1
    simp only [run, dataOf]
    refine ⟨?_, I.2⟩
    rw [List.append_assoc, I.1, R.1]

theorem run_errors (s : St α) (net : List Ev) (bufs : List Nat) (g : Good s) :
    ∀ r ∈ (run s net bufs).2.2, (r = .eof → Ev.closed ∈ net) ∧ (∀ a, r = .closed a → s.closed = true ∨ Ev.closed ∈ net) ∧
      (r = .timeout → Ev.idle ∈ net) := by
  induction bufs generalizing s net with
  | nil => simp [run]
  | cons b bs ih =>
    have R := read_spec s net b g
    have I := ih (read s net b).1 (read s net b).2.1 R.2.1
    obtain ⟨pre, hpre⟩ := R.2.2.2.2.2.2.1
    intro r hr
    simp only [run, List.mem_cons] at hr
    rcases hr with rfl | hr
    · exact ⟨R.2.2.1, fun a ha => .inl (R.2.2.2.1 a ha), R.2.2.2.2.1⟩
    · have J := I r hr
      refine ⟨fun he => by rw [hpre]; exact List.mem_append_right _ (J.1 he), ?_, ?_⟩
      · intro a ha
        rcases J.2.1 a ha with h | h
        · exact R.2.2.2.2.2.1 h
        · right; rw [hpre]; exact List.mem_append_right _ h
      · intro ht; rw [hpre]; exact List.mem_append_right _ (J.2.2 ht)

theorem run_nonempty (s : St α) (net : List Ev) (bufs : List Nat) (g : Good s) (hb : ∀ b ∈ bufs, 1 ≤ b) :
    ∀ r ∈ (run s net bufs).2.2, ∀ bs, r = .data bs → bs ≠ [] := by
  induction bufs generalizing s net with
  | nil => simp [run]
  | cons b bs ih =>
    have R := read_spec s net b g
    intro r hr
    simp only [run, List.mem_cons] at hr
    rcases hr with rfl | hr
    · exact R.2.2.2.2.2.2.2 (hb b (by simp))
    · exact ih _ _ R.2.1 (fun b' hb' => hb b' (by simp [hb'])) r hr

theorem run_complete (s : St α) (net : List Ev) (bufs : List Nat) (g : Good s) (hseg : s.flight ≤ segBytes net)
    (hlast : (run s net bufs).2.2.getLast? = some .block) : pending (run s net bufs).1 = [] := by
  induction bufs generalizing s net with
  | nil => simp [run] at hlast
  | cons b bs ih =>
    have R := read_spec s net b g
    have B := read_block s net b g hseg
    simp only [run] at hlast ⊢
    cases bs with
    | nil =>
      simp only [run, List.getLast?_singleton, Option.some.injEq] at hlast ⊢
      exact (B.2 hlast).2
    | cons b' bs' =>
      apply ih _ _ R.2.1 B.1
      have hrun : ∃ x xs, (run (read s net b).1 (read s net b).2.1 (b' :: bs')).2.2 = x :: xs := ⟨_, _, rfl⟩
      obtain ⟨x, xs, hx⟩ := hrun
      rw [hx] at hlast ⊢
      rw [List.getLast?_cons_cons] at hlast
      exact hlast

end Hc.ConnRead
