import HcModel.PairVerify
namespace Hc.PairVerify

/-- the history ends with an accepted start request carrying controller ephemeral key `e`, followed only by
    messages that do not touch the controller -/
def StartedNow (hist : List (Store × In)) (e : Nat) : Prop :=
  ∃ pre post db, hist = pre ++ [(db, In.v1 (.good e))] ++ post ∧ ∀ x ∈ post, x.2.noop = true

def Inv (c : Nat) (hist : List (Store × In)) (st : St) : Prop :=
  st.step = .startResp → ∃ e, StartedNow hist e ∧ st.other = some e ∧ st.K = .ofEph c st.epoch e

theorem inv_init (c : Nat) : Inv c [] init := by simp [Inv, init]

theorem startedNow_snoc_noop {hist e} (x : Store × In) (h : StartedNow hist e) (hi : x.2.noop = true) :
    StartedNow (hist ++ [x]) e := by
  obtain ⟨pre, post, db, rfl, hp⟩ := h
  refine ⟨pre, post ++ [x], db, by simp, ?_⟩
  intro y hy
  rcases List.mem_append.mp hy with hy | hy
  · exact hp y hy
  · simp at hy; subst hy; exact hi

theorem inv_step (c : Nat) (hist : List (Store × In)) (st : St) (db : Store) (i : In) (h : Inv c hist st) :
    Inv c (hist ++ [(db, i)]) (step true c db st i).1 := by
  cases i with
  | malformedTlv =>
    intro hs; obtain ⟨e, hp, h1, h2⟩ := h hs
    exact ⟨e, startedNow_snoc_noop _ hp rfl, h1, h2⟩
  | badMethod =>
    intro hs; obtain ⟨e, hp, h1, h2⟩ := h hs
    exact ⟨e, startedNow_snoc_noop _ hp rfl, h1, h2⟩
  | badState n =>
    intro hs; obtain ⟨e, hp, h1, h2⟩ := h hs
    exact ⟨e, startedNow_snoc_noop _ hp rfl, h1, h2⟩
  | v1 key =>
    simp only [step, stepR]
    split
    · simp [Inv]
    · cases key with
      | wrongLen n => simp [Inv]
      | lowOrder => simp [Inv]
      | good e =>
        intro _
        exact ⟨e, ⟨hist, [], db, by simp, by simp⟩, rfl, rfl⟩
  | v3 d =>
    simp only [step, stepR]
    split
    · simp [Inv]
    · cases d with
      | short n => simp [Inv]
      | sealed k nonceOk intact pt =>
        simp only
        split
        · simp [Inv]
        · simp [Inv]
        · split
          · simp [Inv]
          · simp [Inv]
          · simp [Inv]
          · simp [Inv]
          · split <;> simp [Inv]

theorem inv_after (c : Nat) (pre hist : List (Store × In)) (st : St) (h : Inv c pre st) :
    Inv c (pre ++ hist) (stAfter true c st hist) := by
  induction hist generalizing pre st with
  | nil => simpa [stAfter] using h
  | cons x xs ih =>
    have := ih (pre ++ [x]) _ (inv_step c pre st x.1 x.2 h)
    simpa [stAfter, List.append_assoc] using this

/-- one-step characterisation: the installed session changes iff the message is a finish that opens under the
    current key and carries a signature by the stored key over (current ctrlEph, name, this connection's accEph) -/
theorem step_install_iff (c : Nat) (db : Store) (st : St) (i : In) :
    (step true c db st i).1.installed ≠ st.installed ∨
      ((step true c db st i).2 = .tlv 4 none false false) →
    ∃ name pk, st.step = .startResp ∧ db name = .key pk ∧
      i = .v3 (.sealed st.K true true (.tlv name (.valid pk st.other name c st.epoch))) ∧
      (step true c db st i).1.installed = some st.other ∧ (step true c db st i).1.instEpoch = st.epoch := by
  intro hs
  cases i with
  | malformedTlv => simp [step, stepR] at hs
  | badMethod => simp [step, stepR] at hs
  | badState m => simp [step, stepR] at hs
  | v1 key =>
    simp only [step, stepR] at hs
    split at hs
    · simp at hs
    · cases key <;> simp at hs
  | v3 d =>
    simp only [step, stepR] at hs
    split at hs
    · simp at hs
    · rename_i hstep
      have hstep' : st.step = .startResp := by simpa using hstep
      cases d with
      | short m => simp at hs
      | sealed k' nonceOk intact pt =>
        simp only at hs
        split at hs
        · simp at hs
        · simp at hs
        · rename_i name sig hopen
          split at hs
          · simp at hs
          · simp at hs
          · simp at hs
          · simp at hs
          · rename_i pk hdb
            split at hs
            · rename_i hsig
              simp only [openSealed] at hopen
              split at hopen
              · rename_i hk
                obtain ⟨rfl, rfl, rfl⟩ := hk
                simp at hopen; subst hopen
                cases sig with
                | valid signer ce n ac ae =>
                  simp [sigOk] at hsig
                  obtain ⟨⟨⟨⟨rfl, rfl⟩, rfl⟩, rfl⟩, rfl⟩ := hsig
                  refine ⟨n, signer, hstep', hdb, rfl, ?_⟩
                  simp [step, stepR, hstep', openSealed, hdb, sigOk]
                | garbage m => simp [sigOk] at hsig
                | empty => simp [sigOk] at hsig
              · simp at hopen
            · simp at hs

end Hc.PairVerify
