import HcModel.Tlv8Struct
import HcProofs.Lemmas.Tlv8
namespace Hc.Tlv8Struct
open Hc Hc.Tlv8

-- ------------------------------------------------------------------ little-endian helpers

theorem leN_length (k n : Nat) : (leN k n).length = k := by
  induction k generalizing n with
  | zero => simp [leN]
  | succ k ih => simp [leN, ih]

theorem unleN_leN (k n : Nat) : unleN (leN k n) = n % 256 ^ k := by
  induction k generalizing n with
  | zero => simp [leN, unleN, Nat.mod_one]
  | succ k ih =>
    simp only [leN, unleN, ih, UInt8.toNat_ofNat']
    have h := Nat.mod_mul (x := n) (a := 256) (b := 256 ^ k)
    have e : 256 ^ (k + 1) = 256 * 256 ^ k := by rw [Nat.pow_succ, Nat.mul_comm]
    rw [e, h]
    omega

theorem ofU_toU (w : Nat) (hw : 0 < w) (i : Int) (h : inRange w i = true) : ofU w (toU w i % 2 ^ w) = i := by
  simp only [inRange, Bool.and_eq_true, decide_eq_true_eq] at h
  obtain ⟨h1, h2⟩ := h
  have hp : (2 ^ w : Nat) = 2 * 2 ^ (w - 1) := by
    cases w with
    | zero => omega
    | succ w => simp [Nat.pow_succ, Nat.mul_comm]
  generalize hA : (2 ^ (w - 1) : Nat) = A at *
  generalize hB : (2 ^ w : Nat) = B at *
  unfold ofU toU
  rw [hA, hB]
  have hBpos : 0 < B := by omega
  have hlt : ((i % (B : Int)).toNat) < B := by
    have := Int.emod_lt_of_pos i (show (0 : Int) < B by omega)
    have := Int.emod_nonneg i (show (B : Int) ≠ 0 by omega)
    omega
  rw [Nat.mod_eq_of_lt hlt]
  have hnn := Int.emod_nonneg i (show (B : Int) ≠ 0 by omega)
  have hcast : (((i % (B : Int)).toNat : Nat) : Int) = i % (B : Int) := Int.toNat_of_nonneg hnn
  by_cases hi : 0 ≤ i
  · have : i % (B : Int) = i := Int.emod_eq_of_lt hi (by omega)
    split <;> omega
  · have : i % (B : Int) = i + B := by
      have h3 : (i + B) % (B : Int) = i + B := Int.emod_eq_of_lt (by omega) (by omega)
      rw [← h3]; simp
    split <;> omega

theorem leAt_leN (k n : Nat) : leAt k (leN k n) = .ok (n % 256 ^ k) := by
  unfold leAt
  rw [if_neg (by rw [leN_length]; omega)]
  have : (leN k n).take k = leN k n := List.take_of_length_le (by rw [leN_length]; omega)
  rw [this, unleN_leN]

def isScalar : Ty → Bool
  | .struct _ => false
  | .list _ _ => false
  | _ => true

theorem quietNaN_of_wf (n : Nat) (h : quietNaN n = n) (h2 : n < 2 ^ 32) : quietNaN (n % 256 ^ 4) = n := by
  have : n % 256 ^ 4 = n := Nat.mod_eq_of_lt (by omega)
  rw [this, h]

/-- every per-kind reader inverts its writer, at every value of the kind -/
theorem decScalar_payload (t : Ty) (v : Val) (hs : isScalar t = true) (h : wfVal t v = true) :
    decScalar t (scalarPayload t v) = .ok v := by
  cases t <;> cases v <;> simp [isScalar, wfVal] at hs h <;>
    simp only [decScalar, scalarPayload, decU16, decU32, decU64, decI16, decI32, decI64, leN_length, byte0,
      leAt_leN, DRes.map, Nat.lt_irrefl, ↓reduceIte]
  case u8.nat n => simp [UInt8.toNat_ofNat']; omega
  case u16.nat n => simp; omega
  case u32.nat n => simp; omega
  case u64.nat n => simp; omega
  case i8.int i =>
    have := ofU_toU 8 (by omega) i h
    simp only [UInt8.toNat_ofNat', Nat.reducePow] at this ⊢
    rw [this]
  case i16.int i => rw [ofU_toU 16 (by omega) i h]
  case i32.int i => rw [ofU_toU 32 (by omega) i h]
  case i64.int i => rw [ofU_toU 64 (by omega) i h]
  case f32.nat n => rw [quietNaN_of_wf n h.2 h.1]
  case bool.bool b => cases b <;> simp

-- ------------------------------------------------------------------ marshal = reference encoder

theorem serialize_append (a b : List Item) : serialize (a ++ b) = serialize a ++ serialize b := by
  induction a with
  | nil => simp [serialize]
  | cons i a ih => simp [serialize, ih]

theorem serialize_frag (t : UInt8) (v : Bytes) : serialize (frag t v) = refTlv t v := by
  unfold frag refTlv
  induction chunks 255 v with
  | nil => simp [serialize]
  | cons c cs ih => simp [serialize, ih]

theorem frag_nil (t : UInt8) : frag t [] = [] := by simp [frag, chunks_nil]

theorem frag_short (t : UInt8) (v : Bytes) (h : v ≠ []) (hl : v.length ≤ 255) : frag t v = [⟨t, v⟩] := by
  simp [frag, chunks_of_short 255 v h hl]

theorem serialize_joinElems (es : List (List Item)) :
    serialize (joinElems es) = refJoin (es.map serialize) := by
  induction es with
  | nil => simp [joinElems, refJoin, serialize]
  | cons e es ih =>
    cases es with
    | nil => simp [joinElems, refJoin]
    | cons e' es' =>
      simp only [joinElems, List.map_cons, refJoin] at ih ⊢
      rw [serialize_append]
      simp only [serialize, delim, List.length_nil, List.nil_append]
      rw [ih]
      rfl

theorem refTlv_short (t : UInt8) (v : Bytes) (h : v ≠ []) (hl : v.length ≤ 255) :
    refTlv t v = t :: UInt8.ofNat v.length :: v := by
  simp [refTlv, chunks_of_short 255 v h hl]

theorem refTlv_nil (t : UInt8) : refTlv t [] = [] := by simp [refTlv, chunks_nil]

theorem leN_ne_nil (k n : Nat) (hk : 0 < k) : leN k n ≠ [] := by
  intro h
  have := leN_length k n
  rw [h] at this
  simp at this
  omega

mutual
theorem encField_ref (tag : UInt8) : ∀ (t : Ty) (v : Val), serialize (encField tag t v) = refField tag t v
  | .struct fs, v => by
    cases v <;> simp [encField, refField, serialize]
    rw [serialize_frag, encFields_ref fs]
  | .list true fs, v => by
    cases v <;> simp [encField, refField, serialize]
    rw [serialize_joinElems, List.map_map]
    congr 1
    apply List.map_congr_left
    intro v _
    exact encFields_ref fs (structVals v)
  | .list false fs, v => by
    cases v <;> simp [encField, refField, serialize]
    rw [serialize_joinElems, List.map_map]
    congr 1
    apply List.map_congr_left
    intro v _
    simp only [Function.comp]
    rw [serialize_frag, encFields_ref fs]
  | .u8, v => by cases v <;> simp [encField, refField, serialize, scalarPayload, frag_nil, frag_short]
  | .i8, v => by cases v <;> simp [encField, refField, serialize, scalarPayload, frag_nil, frag_short]
  | .bool, v => by cases v <;> simp [encField, refField, serialize, scalarPayload, frag_nil, frag_short]
  | .u16, v => by
    cases v <;> simp [encField, refField, serialize, scalarPayload, frag_nil]
    rw [serialize_frag, refTlv_short _ _ (leN_ne_nil _ _ (by omega)) (by rw [leN_length]; omega), leN_length]; rfl
  | .u32, v => by
    cases v <;> simp [encField, refField, serialize, scalarPayload, frag_nil]
    rw [serialize_frag, refTlv_short _ _ (leN_ne_nil _ _ (by omega)) (by rw [leN_length]; omega), leN_length]; rfl
  | .u64, v => by
    cases v <;> simp [encField, refField, serialize, scalarPayload, frag_nil]
    rw [serialize_frag, refTlv_short _ _ (leN_ne_nil _ _ (by omega)) (by rw [leN_length]; omega), leN_length]; rfl
  | .f32, v => by
    cases v <;> simp [encField, refField, serialize, scalarPayload, frag_nil]
    rw [serialize_frag, refTlv_short _ _ (leN_ne_nil _ _ (by omega)) (by rw [leN_length]; omega), leN_length]; rfl
  | .i16, v => by
    cases v <;> simp [encField, refField, serialize, scalarPayload, frag_nil]
    rw [serialize_frag, refTlv_short _ _ (leN_ne_nil _ _ (by omega)) (by rw [leN_length]; omega), leN_length]; rfl
  | .i32, v => by
    cases v <;> simp [encField, refField, serialize, scalarPayload, frag_nil]
    rw [serialize_frag, refTlv_short _ _ (leN_ne_nil _ _ (by omega)) (by rw [leN_length]; omega), leN_length]; rfl
  | .i64, v => by
    cases v <;> simp [encField, refField, serialize, scalarPayload, frag_nil]
    rw [serialize_frag, refTlv_short _ _ (leN_ne_nil _ _ (by omega)) (by rw [leN_length]; omega), leN_length]; rfl
  | .str, v => by cases v <;> simp [encField, refField, serialize, scalarPayload, frag_nil, serialize_frag]
  | .bytes, v => by cases v <;> simp [encField, refField, serialize, scalarPayload, frag_nil, serialize_frag]
theorem encFields_ref : ∀ (fs : Fields) (vs : List Val), serialize (encFields fs vs) = refFields fs vs
  | .nil, vs => by simp [encFields, refFields, serialize]
  | .cons tag t rest, [] => by simp [encFields, refFields, serialize]
  | .cons tag t rest, v :: vs => by
    simp only [encFields, refFields]
    rw [serialize_append, encField_ref tag t v, encFields_ref rest vs]
end

theorem marshal_eq_ref (ty : Ty) (v : Val) : marshal ty v = refEncode ty v := by
  cases ty <;> cases v <;> simp [marshal, refEncode]
  exact encFields_ref _ _

-- ------------------------------------------------------------------ the bucket map

theorem get_nil (t : UInt8) : RMap.get [] t = [] := rfl

theorem get_set_same (m : RMap) (t : UInt8) (l : List Bytes) : (m.set t l).get t = l := by
  unfold RMap.get RMap.set
  by_cases hl : l = []
  · subst hl
    have : (m.filter fun p => !(p.1 == t)).find? (fun p => p.1 == t) = none := by
      rw [List.find?_eq_none]
      intro p hp
      have := (List.mem_filter.mp hp).2
      simpa using this
    simp [this]
  · have : l.isEmpty = false := by cases l <;> simp_all
    simp [this]

theorem get_set_ne (m : RMap) (t t' : UInt8) (l : List Bytes) (h : t' ≠ t) : (m.set t l).get t' = m.get t' := by
  unfold RMap.get RMap.set
  have hf : (m.filter fun p => !(p.1 == t)).find? (fun p => p.1 == t') = m.find? (fun p => p.1 == t') := by
    induction m with
    | nil => rfl
    | cons p m ih =>
      by_cases hp : p.1 = t
      · have h1 : (t == t') = false := by
          simp only [beq_eq_false_iff_ne, ne_eq]; intro e; exact h e.symm
        simp [List.filter, hp, List.find?, h1, ih]
      · have h2 : (p.1 == t) = false := by simpa using hp
        simp only [List.filter, h2, Bool.not_false, List.find?]
        split
        · rfl
        · exact ih
  have ht : (t == t') = false := by
    simp only [beq_eq_false_iff_ne, ne_eq]; intro e; exact h e.symm
  by_cases hl : l.isEmpty
  · simp [hl, hf]
  · simp [hl, ht, hf]

theorem size_filter_le (m : RMap) (q : UInt8 × List Bytes → Bool) : RMap.size (m.filter q) ≤ RMap.size m := by
  induction m with
  | nil => simp [RMap.size]
  | cons p m ih =>
    simp only [List.filter]
    split <;> simp only [RMap.size] <;> omega

theorem size_split (m : RMap) (t : UInt8) :
    (m.get t).length + RMap.size (m.filter fun p => !(p.1 == t)) ≤ RMap.size m := by
  induction m with
  | nil => simp [RMap.get, RMap.size]
  | cons p m ih =>
    unfold RMap.get at ih ⊢
    by_cases hp : (p.1 == t) = true
    · have := size_filter_le m (fun p => !(p.1 == t))
      simp only [List.find?, hp, List.filter, Bool.not_true, RMap.size]
      omega
    · have hp' : (p.1 == t) = false := by simpa using hp
      simp only [List.find?, hp', List.filter, Bool.not_false, RMap.size]
      omega

theorem size_set (m : RMap) (t : UInt8) (l : List Bytes) :
    RMap.size (m.set t l) = l.length + RMap.size (m.filter fun p => !(p.1 == t)) := by
  unfold RMap.set
  cases l with
  | nil => simp
  | cons b l => simp [RMap.size]

theorem size_pop (m : RMap) (t : UInt8) (b : Bytes) (rest : List Bytes) (h : m.get t = b :: rest) :
    RMap.size (m.set t rest) + 1 ≤ RMap.size m := by
  have := size_split m t
  rw [h] at this
  rw [size_set]
  simp at this
  omega

theorem size_get_le (m : RMap) (t : UInt8) : (m.get t).length ≤ RMap.size m := by
  have := size_split m t
  omega

def NoEmpty (m : RMap) : Prop := ∀ p ∈ m, ∀ b ∈ p.2, b ≠ []

theorem noEmpty_get (m : RMap) (h : NoEmpty m) (t : UInt8) : ∀ b ∈ m.get t, b ≠ [] := by
  unfold RMap.get
  split
  · rename_i p hp
    exact h p (List.mem_of_find?_eq_some hp)
  · simp

theorem noEmpty_set (m : RMap) (h : NoEmpty m) (t : UInt8) (l : List Bytes) (hl : ∀ b ∈ l, b ≠ []) :
    NoEmpty (m.set t l) := by
  intro p hp
  unfold RMap.set at hp
  rcases List.mem_append.mp hp with hp | hp
  · split at hp
    · simp at hp
    · simp at hp; subst hp; exact hl
  · exact h p (List.mem_filter.mp hp).1

theorem appendLast_mem (l : List Bytes) (v : Bytes) (hv : v ≠ []) (hl : ∀ b ∈ l, b ≠ []) :
    ∀ b ∈ appendLast l v, b ≠ [] := by
  induction l with
  | nil => simp [appendLast, hv]
  | cons x xs ih =>
    cases xs with
    | nil => simp [appendLast, hv]
    | cons y ys =>
      simp only [appendLast]
      intro b hb
      rcases List.mem_cons.mp hb with rfl | hb
      · exact hl _ (by simp)
      · exact ih (fun b hb => hl b (by simp [hb])) b hb

theorem noEmpty_addItem (st : RMap × Bool) (i : Item) (h : NoEmpty st.1) : NoEmpty (addItem st i).1 := by
  unfold addItem
  simp only
  split
  · exact h
  · rename_i hv
    have hv' : i.val ≠ [] := by intro e; simp [e] at hv
    have hg := noEmpty_get st.1 h i.tag
    split
    · exact noEmpty_set _ h _ _ (by simp [hv'])
    · split
      · apply noEmpty_set _ h
        intro b hb
        rcases List.mem_append.mp hb with hb | hb
        · exact hg b hb
        · simp at hb; subst hb; exact hv'
      · exact noEmpty_set _ h _ _ (appendLast_mem _ _ hv' hg)

theorem noEmpty_foldl (is : List Item) (st : RMap × Bool) (h : NoEmpty st.1) :
    NoEmpty (is.foldl addItem st).1 := by
  induction is generalizing st with
  | nil => exact h
  | cons i is ih => exact ih _ (noEmpty_addItem st i h)

theorem noEmpty_read (bs : Bytes) (m : RMap) (h : read bs = .ok m) : NoEmpty m := by
  unfold read at h
  split at h
  · simp at h; subst h
    exact noEmpty_foldl _ _ (by intro p hp; cases hp)
  · simp at h

-- ------------------------------------------------------------------ totality of the decoder

def Good (r : DRes α) : Prop := r ≠ .panic ∧ r ≠ .fuel

theorem good_ok (a : α) : Good (DRes.ok a) := by constructor <;> intro h <;> cases h
theorem good_err : Good (DRes.err : DRes α) := by constructor <;> intro h <;> cases h
theorem good_map (f : α → β) (r : DRes α) (h : Good r) : Good (r.map f) := by
  cases r <;> simp_all [Good, DRes.map]

structure Inv (rd rd' : Rd) : Prop where
  ne : NoEmpty rd'.m
  mono : rd.n ≤ rd'.n
  meas : rd'.n + rd'.m.size ≤ rd.n + rd.m.size

theorem Inv.rfl' {rd : Rd} (h : NoEmpty rd.m) : Inv rd rd := ⟨h, Nat.le_refl _, Nat.le_refl _⟩
theorem Inv.trans {a b c : Rd} (h1 : Inv a b) (h2 : Inv b c) : Inv a c :=
  ⟨h2.ne, Nat.le_trans h1.mono h2.mono, Nat.le_trans h2.meas h1.meas⟩

theorem readBytes_inv (rd : Rd) (t : UInt8) (h : NoEmpty rd.m) :
    Inv rd (rd.readBytes t).2 ∧ ∀ b, (rd.readBytes t).1 = some b → b ≠ [] := by
  unfold Rd.readBytes
  split
  · exact ⟨Inv.rfl' h, by simp⟩
  · rename_i b rest hg
    have hne := noEmpty_get rd.m h t
    rw [hg] at hne
    refine ⟨⟨?_, ?_, ?_⟩, ?_⟩
    · exact noEmpty_set _ h _ _ (fun x hx => hne x (by simp [hx]))
    · simp
    · have := size_pop rd.m t b rest hg
      simp only
      omega
    · intro b' hb'
      simp at hb'
      subst hb'
      exact hne _ (by simp)

theorem byte0_ok (b : Bytes) (h : b ≠ []) : ∃ n, byte0 b = .ok n := by
  cases b with
  | nil => contradiction
  | cons x xs => exact ⟨_, rfl⟩

theorem leAt_ok (k : Nat) (b : Bytes) (h : ¬ b.length < k) : ∃ n, leAt k b = .ok n := by
  unfold leAt; rw [if_neg h]; exact ⟨_, rfl⟩

theorem decU16_ok (b : Bytes) (h : b ≠ []) : ∃ n, decU16 b = .ok n := by
  unfold decU16; split
  · exact byte0_ok b h
  · rename_i h2; exact leAt_ok _ _ h2
theorem decU32_ok (b : Bytes) (h : b ≠ []) : ∃ n, decU32 b = .ok n := by
  unfold decU32; split
  · exact decU16_ok b h
  · rename_i h2; exact leAt_ok _ _ h2
theorem decU64_ok (b : Bytes) (h : b ≠ []) : ∃ n, decU64 b = .ok n := by
  unfold decU64; split
  · exact decU32_ok b h
  · rename_i h2; exact leAt_ok _ _ h2
theorem decI16_ok (b : Bytes) (h : b ≠ []) : ∃ n, decI16 b = .ok n := by
  unfold decI16; split
  · obtain ⟨n, hn⟩ := byte0_ok b h; exact ⟨_, by rw [hn]; rfl⟩
  · rename_i h2; obtain ⟨n, hn⟩ := leAt_ok _ _ h2; exact ⟨_, by rw [hn]; rfl⟩
theorem decI32_ok (b : Bytes) (h : b ≠ []) : ∃ n, decI32 b = .ok n := by
  unfold decI32; split
  · exact decI16_ok b h
  · rename_i h2; obtain ⟨n, hn⟩ := leAt_ok _ _ h2; exact ⟨_, by rw [hn]; rfl⟩
theorem decI64_ok (b : Bytes) (h : b ≠ []) : ∃ n, decI64 b = .ok n := by
  unfold decI64; split
  · exact decI32_ok b h
  · rename_i h2; obtain ⟨n, hn⟩ := leAt_ok _ _ h2; exact ⟨_, by rw [hn]; rfl⟩

theorem decScalar_good (t : Ty) (b : Bytes) (hs : isScalar t = true) (h : b ≠ []) : Good (decScalar t b) := by
  cases t <;> simp [isScalar] at hs <;> simp only [decScalar]
  case u8 => obtain ⟨n, hn⟩ := byte0_ok b h; rw [hn]; exact good_ok _
  case u16 => obtain ⟨n, hn⟩ := decU16_ok b h; rw [hn]; exact good_ok _
  case u32 => obtain ⟨n, hn⟩ := decU32_ok b h; rw [hn]; exact good_ok _
  case u64 => obtain ⟨n, hn⟩ := decU64_ok b h; rw [hn]; exact good_ok _
  case i8 => obtain ⟨n, hn⟩ := byte0_ok b h; rw [hn]; exact good_ok _
  case i16 => obtain ⟨n, hn⟩ := decI16_ok b h; rw [hn]; exact good_ok _
  case i32 => obtain ⟨n, hn⟩ := decI32_ok b h; rw [hn]; exact good_ok _
  case i64 => obtain ⟨n, hn⟩ := decI64_ok b h; rw [hn]; exact good_ok _
  case f32 =>
    split
    · exact good_err
    · rename_i h2; obtain ⟨n, hn⟩ := leAt_ok _ _ h2; rw [hn]; exact good_ok _
  case bool => obtain ⟨n, hn⟩ := byte0_ok b h; rw [hn]; exact good_ok _
  case str => exact good_ok _
  case bytes => exact good_ok _

theorem decField_scalar_none (tag : UInt8) (t : Ty) (rd rd0 : Rd) (hs : isScalar t = true)
    (h : rd.readBytes tag = (none, rd0)) : decField tag t rd = (rd, .ok (zero t)) := by
  cases t <;> simp [isScalar] at hs <;> simp only [decField, h]

theorem decField_scalar_some (tag : UInt8) (t : Ty) (rd rd' : Rd) (b : Bytes) (hs : isScalar t = true)
    (h : rd.readBytes tag = (some b, rd')) : decField tag t rd = (rd', decScalar t b) := by
  cases t <;> simp [isScalar] at hs <;> simp only [decField, h]

theorem loopTail_spec (P : Rd × DRes (List Val) → Prop) (r : DRes (List Val)) (rd : Rd) (acc : List Val)
    (next : List Val → Rd × DRes (List Val))
    (hr : Good r) (hbase : ∀ l, P (rd, .ok l)) (herr : P (rd, .err)) (hnext : ∀ l, P (next l)) :
    P (loopTail r rd acc next) := by
  unfold loopTail
  cases r with
  | panic => exact absurd rfl hr.1
  | fuel => exact absurd rfl hr.2
  | ok vs => simp only; split; exact hbase _; exact hnext _
  | err => simp only; split; exact hbase _; exact herr

theorem loopTagged_good (dec : RMap → DRes (List Val)) (hdec : ∀ m, NoEmpty m → Good (dec m)) (tag : UInt8) :
    ∀ (bs : List Bytes) (rd : Rd) (acc : List Val), NoEmpty rd.m →
      Inv rd (loopTagged dec tag bs rd acc).1 ∧ Good (loopTagged dec tag bs rd acc).2 := by
  intro bs
  induction bs with
  | nil => intro rd acc h; exact ⟨Inv.rfl' h, good_ok _⟩
  | cons b bs ih =>
    intro rd acc h
    have hi := (readBytes_inv rd tag h).1
    simp only [loopTagged]
    split
    · exact ⟨hi, good_ok _⟩
    · rename_i m hm
      apply loopTail_spec (fun x => Inv rd x.1 ∧ Good x.2)
      · exact hdec m (noEmpty_read b m hm)
      · intro l; exact ⟨hi, good_ok _⟩
      · exact ⟨hi, good_err⟩
      · intro l
        have := ih (rd.readBytes tag).2 l hi.ne
        exact ⟨hi.trans this.1, this.2⟩

theorem loopInline_good (dec : Rd → Rd × DRes (List Val))
    (hdec : ∀ rd, NoEmpty rd.m → Inv rd (dec rd).1 ∧ Good (dec rd).2) :
    ∀ (k : Nat) (rd : Rd) (acc : List Val), NoEmpty rd.m → rd.m.size < k →
      Inv rd (loopInline dec k rd acc).1 ∧ Good (loopInline dec k rd acc).2 := by
  intro k
  induction k with
  | zero => intro rd acc _ h; omega
  | succ k ih =>
    intro rd acc h hk
    have hd := hdec rd h
    unfold loopInline
    generalize dec rd = x at hd
    obtain ⟨rd', r⟩ := x
    simp only at hd
    have key : ∀ r' : DRes (List Val), Good r' →
        Inv rd (if (rd'.n == rd.n) = true then (rd', DRes.ok acc) else loopTail r' rd' acc (loopInline dec k rd')).1 ∧
        Good (if (rd'.n == rd.n) = true then (rd', DRes.ok acc) else loopTail r' rd' acc (loopInline dec k rd')).2 := by
      intro r' hr'
      split
      · exact ⟨hd.1, good_ok _⟩
      · rename_i hne
        have hne' : rd'.n ≠ rd.n := by simpa using hne
        have hlt : rd'.m.size < k := by
          have := hd.1.mono; have := hd.1.meas; omega
        apply loopTail_spec (fun x => Inv rd x.1 ∧ Good x.2)
        · exact hr'
        · intro l; exact ⟨hd.1, good_ok _⟩
        · exact ⟨hd.1, good_err⟩
        · intro l
          have := ih rd' l hd.1.ne hlt
          exact ⟨hd.1.trans this.1, this.2⟩
    cases r with
    | panic => exact absurd rfl hd.2.1
    | fuel => exact absurd rfl hd.2.2
    | ok vs => exact key _ hd.2
    | err => exact key _ hd.2

theorem decField_scalar_good (tag : UInt8) (t : Ty) (rd : Rd) (hs : isScalar t = true) (h : NoEmpty rd.m) :
    Inv rd (decField tag t rd).1 ∧ Good (decField tag t rd).2 := by
  have hi := readBytes_inv rd tag h
  generalize hx : rd.readBytes tag = x at hi
  obtain ⟨o, rd'⟩ := x
  cases o with
  | none => rw [decField_scalar_none tag t rd rd' hs hx]; exact ⟨Inv.rfl' h, good_ok _⟩
  | some b => rw [decField_scalar_some tag t rd rd' b hs hx]; exact ⟨hi.1, decScalar_good t b hs (hi.2 b rfl)⟩

mutual
theorem decField_good (tag : UInt8) : ∀ (t : Ty) (rd : Rd), NoEmpty rd.m →
    Inv rd (decField tag t rd).1 ∧ Good (decField tag t rd).2
  | .struct fs, rd, h => by
    have hi := readBytes_inv rd tag h
    simp only [decField]
    generalize rd.readBytes tag = x at hi
    obtain ⟨o, rd'⟩ := x
    cases o with
    | none => exact ⟨Inv.rfl' h, good_ok _⟩
    | some data =>
      simp only
      cases hr : read data with
      | error e => cases e <;> simp only <;> first | exact ⟨hi.1, good_ok _⟩ | exact ⟨hi.1, good_err⟩
      | ok m =>
        simp only
        exact ⟨hi.1, good_map _ _ (decFields_good fs ⟨m, 0⟩ (noEmpty_read _ _ hr)).2⟩
  | .list true fs, rd, h => by
    simp only [decField]
    have := loopInline_good (fun rd => decFields fs rd) (fun rd h => decFields_good fs rd h)
      (rd.m.size + 1) rd [] h (by omega)
    exact ⟨this.1, good_map _ _ this.2⟩
  | .list false fs, rd, h => by
    simp only [decField]
    have := loopTagged_good (fun m => (decFields fs ⟨m, 0⟩).2) (fun m hm => (decFields_good fs ⟨m, 0⟩ hm).2)
      tag (rd.m.get tag) rd [] h
    exact ⟨this.1, good_map _ _ this.2⟩
  | .u8, rd, h => decField_scalar_good tag _ rd rfl h
  | .u16, rd, h => decField_scalar_good tag _ rd rfl h
  | .u32, rd, h => decField_scalar_good tag _ rd rfl h
  | .u64, rd, h => decField_scalar_good tag _ rd rfl h
  | .i8, rd, h => decField_scalar_good tag _ rd rfl h
  | .i16, rd, h => decField_scalar_good tag _ rd rfl h
  | .i32, rd, h => decField_scalar_good tag _ rd rfl h
  | .i64, rd, h => decField_scalar_good tag _ rd rfl h
  | .f32, rd, h => decField_scalar_good tag _ rd rfl h
  | .bool, rd, h => decField_scalar_good tag _ rd rfl h
  | .str, rd, h => decField_scalar_good tag _ rd rfl h
  | .bytes, rd, h => decField_scalar_good tag _ rd rfl h
theorem decFields_good : ∀ (fs : Fields) (rd : Rd), NoEmpty rd.m →
    Inv rd (decFields fs rd).1 ∧ Good (decFields fs rd).2
  | .nil, rd, h => by simp only [decFields]; exact ⟨Inv.rfl' h, good_ok _⟩
  | .cons tag t rest, rd, h => by
    have h1 := decField_good tag t rd h
    simp only [decFields]
    generalize decField tag t rd = x at h1
    obtain ⟨rd', r⟩ := x
    cases r with
    | ok v =>
      simp only
      have h2 := decFields_good rest rd' h1.1.ne
      generalize decFields rest rd' = y at h2
      obtain ⟨rd'', r2⟩ := y
      cases r2 with
      | ok vs => exact ⟨h1.1.trans h2.1, good_ok _⟩
      | err => exact ⟨h1.1.trans h2.1, good_err⟩
      | panic => exact absurd rfl h2.2.1
      | fuel => exact absurd rfl h2.2.2
    | err => exact ⟨h1.1, good_err⟩
    | panic => exact absurd rfl h1.2.1
    | fuel => exact absurd rfl h1.2.2
end

theorem unmarshal_good (fs : Fields) (bs : Bytes) :
    unmarshal (.struct fs) bs ≠ .panic ∧ unmarshal (.struct fs) bs ≠ .fuel := by
  cases hr : read bs with
  | error e => simp [unmarshal, hr]
  | ok m =>
    have := (decFields_good fs ⟨m, 0⟩ (noEmpty_read _ _ hr)).2
    simp only [unmarshal, hr]
    generalize (decFields fs ⟨m, 0⟩).2 = r at this
    cases r with
    | ok vs => simp
    | err => simp
    | panic => exact absurd rfl this.1
    | fuel => exact absurd rfl this.2

end Hc.Tlv8Struct
