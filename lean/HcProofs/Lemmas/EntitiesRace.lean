import HcModel.EntitiesRace
namespace Hc.Storage
open Hc Hc.Fs

theorem entityForKey_some (C : Codec) (d : Dir) (k : Key) (e : Entity) (h : entityForKey C d k = some e) :
    (isTempName (fileName k) || (fileName k).contains 47 || isDirName (fileName k)) = false ∧
    ∃ b, lookup d (fileName k) = some b ∧ C.dec b = some e := by
  unfold entityForKey get at h
  by_cases h1 : isTempName (fileName k) = true
  · simp [h1] at h
  by_cases h2 : (47 : UInt8) ∈ fileName k
  · simp [h1, h2] at h
  by_cases h3 : isDirName (fileName k) = true
  · simp [h1, h2, h3] at h
  cases hl : lookup d (fileName k) with
  | none => simp [h1, h2, h3, hl] at h
  | some b =>
    simp [h1, h2, h3, hl] at h
    exact ⟨by simp [h1, h2, h3], b, rfl, h⟩

theorem readListed_present (C : Codec) (d : Dir) (k : Key) (b : Bytes) (e : Entity)
    (hnr : (isTempName (fileName k) || (fileName k).contains 47 || isDirName (fileName k)) = false)
    (hb : lookup d (fileName k) = some b) (hdec : C.dec b = some e) : readListed C true d k = some (some e) := by
  simp only [readListed, hnr, hb, hdec]; rfl

theorem readListed_gone (C : Codec) (d : Dir) (k : Key)
    (hnr : (isTempName (fileName k) || (fileName k).contains 47 || isDirName (fileName k)) = false)
    (hb : lookup d (fileName k) = none) : readListed C true d k = some none := by
  simp only [readListed, hnr, hb]; rfl

/-- only removals happen between the listing and the reads: at the time it is read, a listed key has the file it had
    (`same`) or none -/
def OnlyRemovals (d0 : Dir) (at_ : Key → Dir) (k : Key) : Prop :=
  lookup (at_ k) (fileName k) = lookup d0 (fileName k) ∨ lookup (at_ k) (fileName k) = none

theorem race_list (C : Codec) (d0 : Dir) (at_ : Key → Dir) : ∀ (ks : List Key) (l0 : List Entity),
    allSome (ks.map (entityForKey C d0)) = some l0 → (∀ k ∈ ks, OnlyRemovals d0 at_ k) →
    ∃ l, collect (ks.map fun k => readListed C true (at_ k) k) = some l ∧ l.Sublist l0 ∧
      ∀ k ∈ ks, lookup (at_ k) (fileName k) = lookup d0 (fileName k) → ∀ e, entityForKey C d0 k = some e → e ∈ l := by
  intro ks
  induction ks with
  | nil => intro l0 h _; simp [allSome] at h; subst h; exact ⟨[], rfl, List.Sublist.refl _, by simp⟩
  | cons k ks ih =>
    intro l0 h hr
    simp only [List.map_cons] at h
    cases he : entityForKey C d0 k with
    | none => simp [he, allSome] at h
    | some e =>
      simp only [he, allSome] at h
      cases hrest : allSome (ks.map (entityForKey C d0)) with
      | none => simp [hrest] at h
      | some l1 =>
        simp [hrest] at h
        subst h
        obtain ⟨l, hl, hsub, hmem⟩ := ih l1 hrest (fun k' hk' => hr k' (List.mem_cons_of_mem _ hk'))
        obtain ⟨hnr, b, hb, hdec⟩ := entityForKey_some C d0 k e he
        rcases hr k (List.mem_cons_self) with hsame | hgone
        · -- the file is still there: the entity is read
          refine ⟨e :: l, ?_, List.Sublist.cons_cons _ hsub, ?_⟩
          · have := readListed_present C (at_ k) k b e hnr (hsame.trans hb) hdec
            simp only [List.map_cons, this, collect, hl, Option.map_some]
          · intro k' hk' hs e' he'
            rcases List.mem_cons.mp hk' with rfl | hk''
            · rw [he] at he'; cases he'; exact List.mem_cons_self
            · exact List.mem_cons_of_mem _ (hmem k' hk'' hs e' he')
        · -- the file is gone: skipped
          refine ⟨l, ?_, List.Sublist.cons _ hsub, ?_⟩
          · have := readListed_gone C (at_ k) k hnr hgone
            simp only [List.map_cons, this, collect, hl]
          · intro k' hk' hs e' he'
            rcases List.mem_cons.mp hk' with rfl | hk''
            · rw [hgone, hb] at hs; cases hs
            · exact hmem k' hk'' hs e' he'

end Hc.Storage
