import HcModel.CloseRace
namespace Hc.CloseRace

/-- schedules of the repaired code: the close is one step; every other connection has a session of its own -/
def Fixed (evs : List Ev) : Prop := ∀ e ∈ evs, e = .closeAtomic ∨ ∃ s, s ≠ 0 ∧ e = .connect s

theorem run_fixed : ∀ (evs : List Ev) (st : St), Fixed evs →
    (run st evs).reg = match lastConnect evs with
      | some s => some s
      | none => if Ev.closeAtomic ∈ evs ∧ st.reg = some 0 then none else st.reg := by
  intro evs
  induction evs with
  | nil => intro st _; simp [run, lastConnect]
  | cons e r ih =>
    intro st hf
    have hr : Fixed r := fun x hx => hf x (List.mem_cons_of_mem _ hx)
    have ih' := ih (step st e) hr
    simp only [run, List.foldl_cons] at ih' ⊢
    rw [ih']
    rcases hf e List.mem_cons_self with rfl | ⟨s, hs, rfl⟩
    · -- the close
      simp only [lastConnect]
      cases hl : lastConnect r with
      | some t => rfl
      | none =>
        simp only [step]
        by_cases h0 : st.reg = some 0
        · simp [h0]
        · have : (st.reg == some 0) = false := by simpa using h0
          simp [this, h0]
    · -- a new connection
      simp only [lastConnect]
      cases hl : lastConnect r with
      | some t => simp [Option.or]
      | none => simp [Option.or, step, hs]

end Hc.CloseRace
