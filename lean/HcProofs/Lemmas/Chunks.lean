import HcModel.Bytes
namespace Hc

theorem chunks_nil (n : Nat) : chunks n ([] : List α) = [] := by
  rw [chunks]; simp

theorem chunks_cons_eq (n : Nat) (l : List α) (h : l ≠ []) (hn : n ≠ 0) :
    chunks n l = l.take n :: chunks n (l.drop n) := by
  rw [chunks]; simp [h, hn]

theorem chunks_flatten (n : Nat) (l : List α) : (chunks n l).flatten = l := by
  fun_induction chunks n l with
  | case1 => simp
  | case2 l h hn => simp
  | case3 l h hn ih => simp [ih]

theorem chunks_len_le (n : Nat) (hn : 0 < n) (l : List α) : ∀ c ∈ chunks n l, c.length ≤ n ∧ c ≠ [] := by
  fun_induction chunks n l with
  | case1 => simp
  | case2 l h hn0 => omega
  | case3 l h hn0 ih =>
    intro c hc
    simp only [List.mem_cons] at hc
    rcases hc with rfl | hc
    · constructor
      · simp [List.length_take]; omega
      · intro h0
        rcases List.take_eq_nil_iff.mp h0 with h1 | h1
        · omega
        · exact h h1
    · exact ih c hc

/-- every chunk except possibly the last is full -/
theorem chunks_init_full (n : Nat) (l : List α) :
    ∀ c ∈ (chunks n l).dropLast, c.length = n := by
  fun_induction chunks n l with
  | case1 => simp
  | case2 l h hn0 => simp
  | case3 l h hn0 ih =>
    intro c hc
    by_cases hd : l.drop n = []
    · rw [hd, chunks_nil] at hc; simp at hc
    · rw [chunks_cons_eq n _ hd hn0] at hc ih
      simp only [List.dropLast_cons_cons, List.mem_cons] at hc
      rcases hc with rfl | hc
      · have : n < l.length := by
          have : (l.drop n).length ≠ 0 := fun h1 => hd (List.eq_nil_of_length_eq_zero h1)
          simp [List.length_drop] at this; omega
        simp [List.length_take]; omega
      · exact ih c (by simpa using hc)

theorem chunks_of_short (n : Nat) (l : List α) (h : l ≠ []) (hl : l.length ≤ n) : chunks n l = [l] := by
  have hn : n ≠ 0 := by
    intro h0; subst h0
    exact h (List.eq_nil_of_length_eq_zero (by omega))
  rw [chunks_cons_eq n l h hn, List.take_of_length_le hl, List.drop_eq_nil_of_le hl, chunks_nil]

theorem chunks_length (n : Nat) (hn : 0 < n) (l : List α) : (chunks n l).length = (l.length + n - 1) / n := by
  fun_induction chunks n l with
  | case1 => simp; exact (Nat.div_eq_of_lt (by omega)).symm
  | case2 l h hn0 => omega
  | case3 l h hn0 ih =>
    have hl : l.length ≠ 0 := fun h1 => h (List.eq_nil_of_length_eq_zero h1)
    simp only [List.length_cons, ih, List.length_drop]
    by_cases hle : l.length ≤ n
    · have h1 : l.length - n = 0 := by omega
      rw [h1]
      have : (0 + n - 1) / n = 0 := Nat.div_eq_of_lt (by omega)
      rw [this]
      have : (l.length + n - 1) / n = 1 := by
        apply Nat.div_eq_of_lt_le <;> omega
      omega
    · have : l.length + n - 1 = (l.length - n + n - 1) + n := by omega
      rw [this, Nat.add_div_right _ hn]

end Hc
