import HcModel.Pin
import HcModel.Xhm
/- helper lemmas for C20 (setup code, setup URI) -/
namespace Hc.Pin

theorem isDigit_iff (b : UInt8) : isDigit b = true ↔ 48 ≤ b.toNat ∧ b.toNat ≤ 57 := by
  simp [isDigit]

theorem mem_trivialCodes_length {p : Bytes} (h : p ∈ trivialCodes) : p.length = 8 := by
  simp [trivialCodes, rep8] at h
  rcases h with h | h | h | h | h | h | h | h | h | h | h | h <;> subst h <;> rfl

theorem validatePin_ok_iff (pin r : Bytes) :
    validatePin pin = .ok r ↔
      (pin ∉ trivialCodes ∧ pin.length = 8 ∧ (∀ b ∈ pin, isDigit b = true) ∧ r = format pin) := by
  unfold validatePin
  by_cases h1 : trivialCodes.contains pin = true
  · simp only [h1, if_true]
    constructor
    · intro h; cases h
    · intro ⟨h, _⟩; exact absurd (List.contains_iff_mem.mp h1) h
  · have h1' : pin ∉ trivialCodes := fun h => h1 (List.contains_iff_mem.mpr h)
    simp only [h1]
    by_cases h2 : pin.length = 8
    · by_cases h3 : pin.all isDigit = true
      · simp [h2, h3, h1']
        constructor
        · intro h; exact ⟨List.all_eq_true.mp h3 |> fun h b hb => by simpa using h b hb, h.symm⟩
        · intro h; exact h.2.symm
      · simp [h2, h3, h1']
        intro h; exfalso; apply h3; exact List.all_eq_true.mpr (fun b hb => h b hb)
    · simp [h2]

theorem format_eight (a b c d e f g h : UInt8) :
    format [a, b, c, d, e, f, g, h] = [a, b, c, dash, d, e, dash, f, g, h] := rfl

theorem eight_of_length {pin : Bytes} (h : pin.length = 8) :
    ∃ a b c d e f g i, pin = [a, b, c, d, e, f, g, i] := by
  match pin, h with
  | [a, b, c, d, e, f, g, i], _ => exact ⟨a, b, c, d, e, f, g, i, rfl⟩

end Hc.Pin

namespace Hc.Xhm
open Hc.Pin

/-- the shifts, ors and masks of the Go code are plain positional arithmetic -/
theorem payload_arith (code cat flags : Nat) :
    payload code cat flags = cat * 2 ^ 31 + (flags % 16) * 2 ^ 27 + code % 2 ^ 27 := by
  unfold payload
  have e1 : (0 &&& 0x7 : Nat) <<< 4 ||| (0 &&& 0xf) = 0 := by decide
  rw [e1]
  have e2 : (0 : Nat) <<< 8 ||| cat = cat := by simp
  rw [e2]
  have e3 : flags &&& 0xf = flags % 16 := by
    have := Nat.and_two_pow_sub_one_eq_mod flags 4
    simpa only [Nat.reducePow, Nat.reduceSub] using this
  have e4 : code &&& 0x7ffffff = code % 2 ^ 27 := by
    have := Nat.and_two_pow_sub_one_eq_mod code 27
    simpa only [Nat.reducePow, Nat.reduceSub] using this
  rw [e3, e4]
  rw [← Nat.shiftLeft_add_eq_or_of_lt (show flags % 16 < 2 ^ 4 from Nat.mod_lt _ (by decide))]
  rw [← Nat.shiftLeft_add_eq_or_of_lt (Nat.mod_lt _ (by decide))]
  simp only [Nat.shiftLeft_eq, Nat.reducePow]
  omega

theorem payload_eq (code cat flags : Nat) (hc : code < 2 ^ 27) (hf : flags < 16) :
    payload code cat flags = cat * 2 ^ 31 + flags * 2 ^ 27 + code := by
  rw [payload_arith, Nat.mod_eq_of_lt hf, Nat.mod_eq_of_lt hc]

/-- whatever the code is, the masked payload stays below 2^39 for a uint8 category: no uint64 operation of the Go
    code wraps -/
theorem payload_lt (code cat flags : Nat) (hcat : cat < 256) : payload code cat flags < 2 ^ 39 := by
  rw [payload_arith]
  have := Nat.mod_lt flags (show 16 > 0 by decide)
  have := Nat.mod_lt code (show 2 ^ 27 > 0 by decide)
  simp only [Nat.reducePow] at *
  omega

theorem fields_payload (code cat flags : Nat) (hcat : cat < 256) :
    fields (payload code cat flags) = { code := code % 2 ^ 27, cat := cat, flags := flags % 16 } := by
  rw [payload_arith]
  have := Nat.mod_lt flags (show 16 > 0 by decide)
  have := Nat.mod_lt code (show 2 ^ 27 > 0 by decide)
  simp only [fields, Nat.reducePow, Setup.mk.injEq] at *
  omega

theorem base36Digits_length (k p : Nat) : (base36Digits k p).length = k := by
  induction k generalizing p with
  | zero => rfl
  | succ k ih => simp [base36Digits, ih]

theorem base36Digits_lt (k p : Nat) : ∀ d ∈ base36Digits k p, d < 36 := by
  induction k generalizing p with
  | zero => simp [base36Digits]
  | succ k ih =>
    intro d hd
    simp [base36Digits] at hd
    rcases hd with hd | hd
    · exact ih _ d hd
    · omega

theorem unbase36_append (ds : List Nat) (d : Nat) : unbase36 (ds ++ [d]) = unbase36 ds * 36 + d := by
  simp [unbase36, List.foldl_append]

theorem unbase36_digits (k p : Nat) : unbase36 (base36Digits k p) = p % 36 ^ k := by
  induction k generalizing p with
  | zero => simp [base36Digits, unbase36, Nat.mod_one]
  | succ k ih =>
    simp only [base36Digits, unbase36_append, ih]
    rw [Nat.pow_succ, Nat.mul_comm (36 ^ k) 36, Nat.mod_mul]
    omega

theorem b36val_b36char (d : Nat) (h : d < 36) : b36val (b36char d) = some d := by
  have : ∀ d : Fin 36, b36val (b36char d.val) = some d.val := by decide
  exact this ⟨d, h⟩

theorem optAll_map_b36 (ds : List Nat) (h : ∀ d ∈ ds, d < 36) :
    optAll ((ds.map b36char).map b36val) = some ds := by
  induction ds with
  | nil => rfl
  | cons d ds ih =>
    have ih' := ih (fun x hx => h x (by simp [hx]))
    simp only [List.map_cons, optAll, b36val_b36char d (h d (by simp)), ih', Option.map]

theorem decodeUri_build (ds : List Nat) (sid : Bytes) (hl : ds.length = 9) (hd : ∀ d ∈ ds, d < 36) :
    decodeUri (scheme ++ ds.map b36char ++ sid) = some (fields (unbase36 ds), sid) := by
  have hcs : (ds.map b36char).length = 9 := by simp [hl]
  have h7 : (scheme ++ ds.map b36char ++ sid).take 7 = scheme := by
    rw [List.append_assoc, List.take_left' (by rfl)]
  have hd7 : (scheme ++ ds.map b36char ++ sid).drop 7 = ds.map b36char ++ sid := by
    rw [List.append_assoc, List.drop_left' (by rfl)]
  have hd16 : (scheme ++ ds.map b36char ++ sid).drop 16 = sid := by
    have : (scheme ++ ds.map b36char).length = 16 := by simp [hcs, scheme]
    rw [List.drop_left' this]
  unfold decodeUri
  rw [h7, hd7, hd16, List.take_left' hcs, optAll_map_b36 ds hd]
  simp [hcs]

/-- digits are not dashes -/
theorem stripDash_digits (s : Bytes) (h : ∀ b ∈ s, isDigit b = true) : stripDash s = s := by
  unfold stripDash
  apply List.filter_eq_self.mpr
  intro b hb
  have := (isDigit_iff b).mp (h b hb)
  have : b ≠ dash := by
    intro e; subst e; simp [dash] at this
  simpa using this

theorem stripDash_format (s : Bytes) (hl : s.length = 8) (h : ∀ b ∈ s, isDigit b = true) :
    stripDash (format s) = s := by
  have hd : stripDash [dash] = [] := by decide
  unfold format
  have e : stripDash (List.take 3 s ++ [dash] ++ List.take 2 (List.drop 3 s) ++ [dash] ++ List.drop 5 s)
      = stripDash (List.take 3 s) ++ stripDash [dash] ++ stripDash (List.take 2 (List.drop 3 s)) ++ stripDash [dash]
        ++ stripDash (List.drop 5 s) := by simp [stripDash]
  rw [e, hd]
  rw [stripDash_digits _ (fun b hb => h b (List.mem_of_mem_take hb)),
      stripDash_digits _ (fun b hb => h b (List.mem_of_mem_drop (List.mem_of_mem_take hb))),
      stripDash_digits _ (fun b hb => h b (List.mem_of_mem_drop hb))]
  obtain ⟨a, b, c, d, e, f, g, i, rfl⟩ := eight_of_length hl
  rfl

theorem decVal_eight_lt (s : Bytes) (hl : s.length = 8) (h : ∀ b ∈ s, isDigit b = true) : decVal s < 10 ^ 8 := by
  obtain ⟨a, b, c, d, e, f, g, i, rfl⟩ := eight_of_length hl
  have ha := (isDigit_iff a).mp (h a (by simp))
  have hb := (isDigit_iff b).mp (h b (by simp))
  have hc := (isDigit_iff c).mp (h c (by simp))
  have hd := (isDigit_iff d).mp (h d (by simp))
  have he := (isDigit_iff e).mp (h e (by simp))
  have hf := (isDigit_iff f).mp (h f (by simp))
  have hg := (isDigit_iff g).mp (h g (by simp))
  have hi := (isDigit_iff i).mp (h i (by simp))
  simp only [decVal, List.foldl, digitVal, Nat.reducePow]
  omega

theorem parseUint64_digits8 (s : Bytes) (hl : s.length = 8) (h : ∀ b ∈ s, isDigit b = true) :
    parseUint64 s = some (decVal s) := by
  have hne : s ≠ [] := by intro e; subst e; simp at hl
  have hall : s.all isDigit = true := List.all_eq_true.mpr h
  have hlt := decVal_eight_lt s hl h
  have : decVal s < 2 ^ 64 := by simp only [Nat.reducePow] at *; omega
  simp [parseUint64, hne, hall, this]

end Hc.Xhm

namespace Hc.Pin
open Hc.Xhm

theorem dec8_length (n : Nat) : (dec8 n).length = 8 := by simp [dec8]

theorem dec8_digits (n : Nat) : ∀ b ∈ dec8 n, isDigit b = true := by
  intro b hb
  simp only [dec8, List.map_cons, List.map_nil, List.mem_cons, List.not_mem_nil, or_false] at hb
  rcases hb with h | h | h | h | h | h | h | h <;> subst h <;>
    simp only [isDigit, UInt8.toNat_ofNat', Bool.and_eq_true, decide_eq_true_eq] <;> omega

theorem decVal_dec8 (n : Nat) (h : n < 10 ^ 8) : decVal (dec8 n) = n := by
  simp only [decVal, dec8, List.map_cons, List.map_nil, List.foldl, digitVal, UInt8.toNat_ofNat', Nat.reducePow] at *
  omega

theorem trivialCodes_eq : trivialCodes = trivialNums.map dec8 := by decide

theorem dec8_mem_trivial (n : Nat) (h : n < 10 ^ 8) : dec8 n ∈ trivialCodes ↔ n ∈ trivialNums := by
  rw [trivialCodes_eq, List.mem_map]
  constructor
  · intro ⟨m, hm, e⟩
    have hm8 : m < 10 ^ 8 := by
      simp [trivialNums] at hm
      rcases hm with h | h | h | h | h | h | h | h | h | h | h | h <;> subst h <;> decide
    have : m = n := by rw [← decVal_dec8 m hm8, ← decVal_dec8 n h, e]
    exact this ▸ hm
  · intro hn; exact ⟨n, hn, rfl⟩

end Hc.Pin
