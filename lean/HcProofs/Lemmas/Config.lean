import HcModel.Config
import HcProofs.Lemmas.PinXhm
/- helper lemmas for C20 (restart histories) -/
namespace Hc.Config

-- value changes vs strip ---------------------------------------------------------------------------

theorem strip_setAt (p : List Nat) (v t : J) : strip (setAt p v t) = strip t := by
  apply setAt.induct
    (motive_1 := fun p v t => strip (setAt p v t) = strip t)
    (motive_3 := fun i p v xs => stripList (setAtList i p v xs) = stripList xs)
    (motive_2 := fun i p v kvs => stripKvs (setAtKvs i p v kvs) = stripKvs kvs)
  all_goals (intros; simp_all [setAt, setAtList, setAtKvs, strip, stripList, stripKvs])

/-- a sequence of value changes -/
def setMany (cs : List (List Nat × J)) (t : J) : J := cs.foldl (fun t c => setAt c.1 c.2 t) t

theorem strip_setMany (cs : List (List Nat × J)) (t : J) : strip (setMany cs t) = strip t := by
  induction cs generalizing t with
  | nil => rfl
  | cons c cs ih => simp only [setMany, List.foldl_cons] at *; rw [ih, strip_setAt]

theorem strip_idem (t : J) : strip (strip t) = strip t := by
  apply strip.induct
    (motive_1 := fun t => strip (strip t) = strip t)
    (motive_3 := fun xs => stripList (stripList xs) = stripList xs)
    (motive_2 := fun kvs => stripKvs (stripKvs kvs) = stripKvs kvs)
  all_goals (intros; simp_all [strip, stripList, stripKvs])

-- entity lists ----------------------------------------------------------------------------------------

def names (es : List Entity) : List Nat := es.map (·.name)

/-- the stored controller pairings: every entity that is not the accessory's own -/
def controllers (id : Nat) (es : List Entity) : List Entity := es.filter (·.name ≠ id)

theorem controllers_nil (id : Nat) : controllers id [] = [] := rfl
theorem controllers_cons (id : Nat) (x : Entity) (xs : List Entity) :
    controllers id (x :: xs) = if x.name = id then controllers id xs else x :: controllers id xs := by
  by_cases h : x.name = id <;> simp [controllers, List.filter, h]
theorem remove_nil (n : Nat) : remove n [] = [] := rfl
theorem remove_cons (n : Nat) (x : Entity) (xs : List Entity) :
    remove n (x :: xs) = if x.name = n then remove n xs else x :: remove n xs := by
  by_cases h : x.name = n <;> simp [remove, List.filter, h]
theorem lookup_nil (n : Nat) : lookup n [] = none := rfl
theorem lookup_cons (n : Nat) (x : Entity) (xs : List Entity) :
    lookup n (x :: xs) = if x.name = n then some x else lookup n xs := by
  by_cases h : x.name = n <;> simp [lookup, List.find?, h]

theorem lookup_upsert_ne (e : Entity) (n : Nat) (es : List Entity) (h : e.name ≠ n) :
    lookup n (upsert e es) = lookup n es := by
  induction es with
  | nil => simp [upsert, lookup, h]
  | cons x xs ih =>
    simp only [upsert]
    split
    · rename_i hx
      simp [lookup, List.find?, h, hx ▸ h] at *
    · simp only [lookup, List.find?] at *
      split <;> simp_all

theorem lookup_upsert_self (e : Entity) (es : List Entity) : lookup e.name (upsert e es) = some e := by
  induction es with
  | nil => simp [upsert, lookup]
  | cons x xs ih =>
    simp only [upsert]
    split
    · simp [lookup, List.find?]
    · rename_i hx
      simp only [lookup, List.find?] at *
      simp [hx, ih]

theorem lookup_remove_ne (m n : Nat) (es : List Entity) (h : m ≠ n) : lookup n (remove m es) = lookup n es := by
  induction es with
  | nil => rfl
  | cons x xs ih =>
    rw [remove_cons, lookup_cons]
    by_cases hx : x.name = m
    · have : x.name ≠ n := fun e => h (hx ▸ e)
      simp only [hx, if_true, ih, h, if_false]
    · simp only [hx, if_false, lookup_cons, ih]

theorem lookup_remove_self (n : Nat) (es : List Entity) : lookup n (remove n es) = none := by
  simp [lookup, remove, List.find?_eq_none]

theorem names_upsert_mem (e : Entity) (es : List Entity) (h : e.name ∈ names es) : names (upsert e es) = names es := by
  induction es with
  | nil => simp [names] at h
  | cons x xs ih =>
    simp only [upsert]
    split
    · rename_i hx; simp [names, hx]
    · rename_i hx
      have : e.name ∈ names xs := by
        simp only [names, List.map_cons, List.mem_cons] at h
        rcases h with h | h
        · exact absurd h.symm hx
        · exact h
      simp only [names, List.map_cons] at *
      rw [ih this]

theorem names_upsert_not_mem (e : Entity) (es : List Entity) (h : e.name ∉ names es) :
    names (upsert e es) = names es ++ [e.name] := by
  induction es with
  | nil => simp [names, upsert]
  | cons x xs ih =>
    simp only [names, List.map_cons, List.mem_cons, not_or] at h
    simp only [upsert]
    split
    · rename_i hx; exact absurd hx.symm h.1
    · simp only [names, List.map_cons, List.cons_append] at *
      rw [ih h.2]

theorem nodup_names_upsert (e : Entity) (es : List Entity) (h : (names es).Nodup) : (names (upsert e es)).Nodup := by
  by_cases hm : e.name ∈ names es
  · rw [names_upsert_mem e es hm]; exact h
  · rw [names_upsert_not_mem e es hm]
    rw [List.nodup_append]
    refine ⟨h, by simp, ?_⟩
    intro a ha b hb
    simp at hb; subst hb
    intro e'; exact hm (e' ▸ ha)

theorem nodup_names_remove (n : Nat) (es : List Entity) (h : (names es).Nodup) : (names (remove n es)).Nodup := by
  unfold names remove at *
  exact (List.filter_sublist.map _).nodup h

theorem controllers_upsert (id : Nat) (e : Entity) (es : List Entity) (h : e.name ≠ id) :
    controllers id (upsert e es) = upsert e (controllers id es) := by
  induction es with
  | nil => simp only [upsert, controllers_cons, controllers_nil, h, if_false]
  | cons x xs ih =>
    by_cases hx : x.name = e.name
    · have hxi : x.name ≠ id := hx ▸ h
      simp only [upsert, hx, if_true, controllers_cons, h, if_false]
    · by_cases hxi : x.name = id
      · rw [upsert, if_neg hx, controllers_cons, if_pos hxi, controllers_cons, if_pos hxi, ih]
      · rw [upsert, if_neg hx, controllers_cons, if_neg hxi, controllers_cons, if_neg hxi, upsert, if_neg hx, ih]

theorem controllers_remove (id n : Nat) (es : List Entity) : controllers id (remove n es) = remove n (controllers id es) := by
  simp only [controllers, remove, List.filter_filter]
  congr 1; funext x; exact Bool.and_comm _ _

theorem lookup_mem {n : Nat} {es : List Entity} {d : Entity} (h : lookup n es = some d) : d ∈ es ∧ d.name = n := by
  unfold lookup at h
  exact ⟨List.mem_of_find?_eq_some h, by simpa using List.find?_some h⟩

theorem filter_name_le_one (id : Nat) (es : List Entity) (h : (names es).Nodup) :
    (es.filter (·.name = id)).length ≤ 1 := by
  induction es with
  | nil => simp
  | cons x xs ih =>
    simp only [names, List.map_cons, List.nodup_cons] at h
    by_cases hx : x.name = id
    · have : xs.filter (·.name = id) = [] := by
        apply List.filter_eq_nil_iff.mpr
        intro y hy hyn
        apply h.1
        simp only [decide_eq_true_eq] at hyn
        exact List.mem_map.mpr ⟨y, hy, by rw [hyn, hx]⟩
      simp [List.filter, hx, this]
    · simp only [List.filter, hx, decide_false]
      exact ih h.2

theorem length_split (id : Nat) (es : List Entity) :
    es.length = (es.filter (·.name = id)).length + (controllers id es).length := by
  induction es with
  | nil => rfl
  | cons x xs ih =>
    by_cases hx : x.name = id
    · simp [controllers, List.filter, hx] at *; omega
    · simp [controllers, List.filter, hx] at *; omega

/-- `isPaired` (more than one stored entity) is "some controller pairing is stored", as long as the accessory's own
    entity is stored and names are unique -/
theorem paired_iff (id : Nat) (es : List Entity) (d : Entity) (hn : (names es).Nodup) (hd : lookup id es = some d) :
    paired es = !(controllers id es).isEmpty := by
  have h1 := filter_name_le_one id es hn
  have h2 := length_split id es
  have h3 : 1 ≤ (es.filter (·.name = id)).length := by
    have ⟨hm, hname⟩ := lookup_mem hd
    have : d ∈ es.filter (·.name = id) := by simp [List.mem_filter, hm, hname]
    exact List.length_pos_of_mem this
  unfold paired
  cases hc : controllers id es with
  | nil => simp [hc] at h2 ⊢; omega
  | cons c cs => simp [hc] at h2 ⊢; omega

-- the identity invariant ------------------------------------------------------------------------------

variable {β : Type} [DecidableEq β] (H : J → β)

/-- storage holds device id `id` with key pair `key`; a live transport (if any) runs under them and advertises
    itself as discoverable iff no controller pairing is stored -/
structure Identity (id key : Nat) (s : St β) : Prop where
  uuid : s.store.uuid = some id
  dev : lookup id s.store.entities = some ⟨id, key, some key⟩
  nodup : (names s.store.entities).Nodup
  /-- only the accessory's own entity holds a private key -/
  others : ∀ n, n ≠ id → ownEntity n s.store.entities = false
  run : ∀ r, s.run = some r → r.id = id ∧ r.devPub = key ∧ r.devPriv = some key ∧
          r.discoverable = (controllers id s.store.entities).isEmpty

/-- a start is accepted: non-empty accessory name and a setup code `ValidatePin` accepts -/
def StartCfg.accepted (c : StartCfg) : Bool :=
  !c.nameEmpty && (match Pin.validatePin c.pin with | .ok _ => true | .error _ => false)

theorem start_rejected (s : St β) (c : StartCfg) (h : c.accepted = false) : (start H s c).1 = s := by
  unfold start
  unfold StartCfg.accepted at h
  by_cases hn : c.nameEmpty = true
  · simp [hn]
  · cases hp : Pin.validatePin c.pin with
    | error e => simp [hn]
    | ok r => simp [hn, hp] at h

/-- the result of an accepted start, in general -/
theorem start_accepted (s : St β) (c : StartCfg) (h : c.accepted = true) :
    start H s c =
      (let id := s.store.uuid.getD c.freshId
       let dev := (ensureDevice id c.freshKey s.store.entities).1
       let ents := (ensureDevice id c.freshKey s.store.entities).2
       let hh := H (strip c.db)
       let ver' := bump s.store.configHash hh (s.store.version.getD 1)
       ({ store := { uuid := some id, version := some ver', configHash := some hh, entities := ents },
          run := some { id := id, version := ver', configHash := hh, discoverable := !paired ents,
                        devPub := dev.pub, devPriv := dev.priv, pin := c.pin, setupId := c.setupId, cat := c.cat, db := c.db } },
        .started)) := by
  unfold StartCfg.accepted at h
  unfold start
  by_cases hn : c.nameEmpty = true
  · simp [hn] at h
  · cases hp : Pin.validatePin c.pin with
    | error e => simp [hn, hp] at h
    | ok r => simp [hn]

theorem start_identity {id key : Nat} {s : St β} (hi : Identity id key s) (c : StartCfg) (h : c.accepted = true) :
    start H s c =
      ({ store := { uuid := some id, version := some (bump s.store.configHash (H (strip c.db)) (s.store.version.getD 1)),
                    configHash := some (H (strip c.db)), entities := s.store.entities },
         run := some { id := id, version := bump s.store.configHash (H (strip c.db)) (s.store.version.getD 1),
                       configHash := H (strip c.db), discoverable := (controllers id s.store.entities).isEmpty,
                       devPub := key, devPriv := some key, pin := c.pin, setupId := c.setupId, cat := c.cat, db := c.db } },
       .started) := by
  rw [start_accepted H s c h]
  simp only [hi.uuid, Option.getD_some, ensureDevice, hi.dev]
  rw [paired_iff id s.store.entities _ hi.nodup hi.dev]
  simp

theorem ownEntity_id {id key : Nat} {s : St β} (hi : Identity id key s) : ownEntity id s.store.entities = true := by
  simp [ownEntity, hi.dev]

theorem ownEntity_upsert_none (n m k : Nat) (es : List Entity) :
    ownEntity m (upsert ⟨n, k, none⟩ es) = if m = n then false else ownEntity m es := by
  unfold ownEntity
  by_cases h : m = n
  · subst h
    have := lookup_upsert_self ⟨m, k, none⟩ es
    simp only at this
    simp [this]
  · have := lookup_upsert_ne ⟨n, k, none⟩ m es (fun e : n = m => h e.symm)
    simp [h, this]

theorem ownEntity_remove (n m : Nat) (es : List Entity) :
    ownEntity m (remove n es) = if m = n then false else ownEntity m es := by
  unfold ownEntity
  by_cases h : m = n
  · subst h; simp [lookup_remove_self]
  · simp [h, lookup_remove_ne n m es (fun e : n = m => h e.symm)]

/-- every step preserves the identity — also a pairing or a removal under the accessory's own id, which is refused -/
theorem step_identity {id key : Nat} {s : St β} (hi : Identity id key s) (st : Step) :
    Identity id key (step H s st).1 := by
  cases st with
  | start c =>
    simp only [step]
    by_cases ha : c.accepted = true
    · rw [start_identity H hi c ha]
      exact ⟨rfl, hi.dev, hi.nodup, hi.others, fun r hr => by cases hr; exact ⟨rfl, rfl, rfl, rfl⟩⟩
    · rw [start_rejected H s c (by simpa using ha)]; exact hi
  | pair n k =>
    by_cases ho : ownEntity n s.store.entities = true
    · simp only [step, ho, if_true]; exact hi
    · have hn : n ≠ id := fun e => ho (e ▸ ownEntity_id hi)
      have hd : lookup id (upsert ⟨n, k, none⟩ s.store.entities) = some ⟨id, key, some key⟩ := by
        rw [lookup_upsert_ne _ _ _ hn]; exact hi.dev
      have hnd := nodup_names_upsert ⟨n, k, none⟩ s.store.entities hi.nodup
      simp only [step, ho, if_false, Bool.false_eq_true]
      refine ⟨hi.uuid, hd, hnd, ?_, ?_⟩
      · intro m hm
        show ownEntity m (upsert ⟨n, k, none⟩ s.store.entities) = false
        rw [ownEntity_upsert_none]; split
        · rfl
        · exact hi.others m hm
      · intro r hr
        simp only [refresh, Option.map_eq_some_iff] at hr
        obtain ⟨r0, hr0, rfl⟩ := hr
        obtain ⟨h1, h2, h3, _⟩ := hi.run r0 hr0
        refine ⟨h1, h2, h3, ?_⟩
        show (!paired (upsert ⟨n, k, none⟩ s.store.entities)) = _
        rw [paired_iff id _ _ hnd hd]; simp
  | unpair n =>
    by_cases ho : ownEntity n s.store.entities = true
    · simp only [step, ho, if_true]; exact hi
    · have hn : n ≠ id := fun e => ho (e ▸ ownEntity_id hi)
      have hd : lookup id (remove n s.store.entities) = some ⟨id, key, some key⟩ := by
        rw [lookup_remove_ne _ _ _ hn]; exact hi.dev
      have hnd := nodup_names_remove n s.store.entities hi.nodup
      simp only [step, ho, if_false, Bool.false_eq_true]
      refine ⟨hi.uuid, hd, hnd, ?_, ?_⟩
      · intro m hm
        show ownEntity m (remove n s.store.entities) = false
        rw [ownEntity_remove]; split
        · rfl
        · exact hi.others m hm
      · intro r hr
        simp only [refresh, Option.map_eq_some_iff] at hr
        obtain ⟨r0, hr0, rfl⟩ := hr
        obtain ⟨h1, h2, h3, _⟩ := hi.run r0 hr0
        refine ⟨h1, h2, h3, ?_⟩
        show (!paired (remove n s.store.entities)) = _
        rw [paired_iff id _ _ hnd hd]; simp
  | setValue p v =>
    refine ⟨hi.uuid, hi.dev, hi.nodup, hi.others, ?_⟩
    intro r hr
    simp only [step, Option.map_eq_some_iff] at hr
    obtain ⟨r0, hr0, rfl⟩ := hr
    exact hi.run r0 hr0
  | stop =>
    exact ⟨hi.uuid, hi.dev, hi.nodup, hi.others, fun r hr => by simp [step] at hr⟩
  | wipe k => cases k <;> exact ⟨hi.uuid, hi.dev, hi.nodup, hi.others, hi.run⟩

theorem run_identity {id key : Nat} {s : St β} (hi : Identity id key s) (hist : List Step) :
    Identity id key (run H s hist) := by
  induction hist generalizing s with
  | nil => exact hi
  | cons x xs ih =>
    simp only [run]
    exact ih (step_identity H hi x)

theorem run_append (s : St β) (a b : List Step) : run H s (a ++ b) = run H (run H s a) b := by
  induction a generalizing s with
  | nil => rfl
  | cons x xs ih => simp only [List.cons_append, run, ih]

/-- what a history does to the controller pairings: pair = save, unpair = delete, nothing else touches them -/
def ctlOp (id : Nat) (es : List Entity) : Step → List Entity
  | .pair n k => if n = id then es else upsert ⟨n, k, none⟩ es     -- refused under the accessory's own id (F16 repair)
  | .unpair n => if n = id then es else remove n es
  | _ => es

theorem step_controllers {id key : Nat} {s : St β} (hi : Identity id key s) (st : Step) :
    controllers id (step H s st).1.store.entities = ctlOp id (controllers id s.store.entities) st := by
  cases st with
  | start c =>
    simp only [step, ctlOp]
    by_cases ha : c.accepted = true
    · rw [start_identity H hi c ha]
    · rw [start_rejected H s c (by simpa using ha)]
  | pair n k =>
    by_cases hn : n = id
    · subst hn; simp [step, ctlOp, ownEntity_id hi]
    · simp only [step, ctlOp, hi.others n hn, hn, if_false, Bool.false_eq_true]
      exact controllers_upsert id _ _ hn
  | unpair n =>
    by_cases hn : n = id
    · subst hn; simp [step, ctlOp, ownEntity_id hi]
    · simp only [step, ctlOp, hi.others n hn, hn, if_false, Bool.false_eq_true]
      exact controllers_remove id n _
  | setValue p v => rfl
  | stop => rfl
  | wipe k => cases k <;> rfl

theorem run_controllers {id key : Nat} {s : St β} (hi : Identity id key s) (hist : List Step) :
    controllers id (run H s hist).store.entities = hist.foldl (ctlOp id) (controllers id s.store.entities) := by
  induction hist generalizing s with
  | nil => rfl
  | cons x xs ih =>
    simp only [run, List.foldl_cons]
    rw [ih (step_identity H hi x), step_controllers H hi x]

/-- what a history does to (stored content hash, stored configuration number): only an accepted start (or the loss of a file) touches them -/
def cfgOp (st : Option β × Nat) : Step → Option β × Nat
  | .start c => if c.accepted then (some (H (strip c.db)), bump st.1 (H (strip c.db)) st.2) else st
  | .wipe .version => (st.1, 1)
  | .wipe .configHash => (none, st.2)
  | _ => st

def cfgOf (s : St β) : Option β × Nat := (s.store.configHash, s.store.version.getD 1)

theorem step_cfg (s : St β) (st : Step) : cfgOf (step H s st).1 = cfgOp H (cfgOf s) st := by
  cases st with
  | start c =>
    simp only [step, cfgOp]
    by_cases ha : c.accepted = true
    · rw [start_accepted H s c ha]; simp [cfgOf, ha]
    · rw [start_rejected H s c (by simpa using ha)]; simp [ha]
  | pair n k => simp only [step]; split <;> rfl
  | unpair n => simp only [step]; split <;> rfl
  | setValue p v => rfl
  | stop => rfl
  | wipe k => cases k <;> rfl

theorem run_cfg (s : St β) (hist : List Step) : cfgOf (run H s hist) = hist.foldl (cfgOp H) (cfgOf s) := by
  induction hist generalizing s with
  | nil => rfl
  | cons x xs ih => simp only [run, List.foldl_cons, ih, step_cfg]

/-! ### starts during which reads fail (`startF`) -/

theorem start_out_started (s : St β) (c : StartCfg) : (start H s c).2 = .started ↔ c.accepted = true := by
  by_cases ha : c.accepted = true
  · rw [start_accepted H s c ha]; simp [ha]
  · unfold start
    unfold StartCfg.accepted at ha
    by_cases hn : c.nameEmpty = true
    · simp [hn, StartCfg.accepted]
    · cases hp : Pin.validatePin c.pin with
      | error e => simp [hn, hp, StartCfg.accepted]
      | ok r => simp [hn, hp] at ha

theorem store_uuid_eta (s : St β) (id : Nat) (h : s.store.uuid = some id) :
    ({ s with store := { s.store with uuid := some id } } : St β) = s := by
  cases s with
  | mk store run =>
    cases store
    simp_all

/-- a start with failing reads changes nothing at all, once the identity exists (it returns an error), and a start
    without failing reads is `start` -/
theorem startF_identity {id key : Nat} {s : St β} (hi : Identity id key s) (c : StartCfg) (f : Faults) :
    (startF H s c f).1 = if c.accepted = true ∧ f.load = false ∧ f.entity = false then (start H s c).1 else s := by
  unfold startF
  by_cases ha : c.accepted = true
  · rw [if_pos ((start_out_started H s c).mpr ha)]
    by_cases hl : f.load = true
    · simp [hl]
    · by_cases he : f.entity = true
      · simp only [hl, he, hi.uuid, Option.getD_some]
        rw [store_uuid_eta s id hi.uuid]; simp
      · simp [hl, he, ha]
  · have : ¬ (start H s c).2 = .started := fun h => ha ((start_out_started H s c).mp h)
    rw [if_neg this]
    simp only [Prod.map_fst, id_eq, ha, false_and, if_false]
    exact start_rejected H s c (by simpa using ha)

theorem startF_keeps_identity {id key : Nat} {s : St β} (hi : Identity id key s) (c : StartCfg) (f : Faults) :
    Identity id key (startF H s c f).1 := by
  rw [startF_identity H hi c f]
  split
  · exact step_identity H hi (.start c)
  · exact hi

theorem runF_identity {id key : Nat} {s : St β} (hi : Identity id key s) (hist : List (Step × Faults)) :
    Identity id key (runF H s hist) := by
  induction hist generalizing s with
  | nil => exact hi
  | cons x xs ih =>
    obtain ⟨st, f⟩ := x
    cases st with
    | start c => simp only [runF]; exact ih (startF_keeps_identity H hi c f)
    | pair n k => simp only [runF]; exact ih (step_identity H hi _)
    | unpair n => simp only [runF]; exact ih (step_identity H hi _)
    | setValue p v => simp only [runF]; exact ih (step_identity H hi _)
    | stop => simp only [runF]; exact ih (step_identity H hi _)
    | wipe k => simp only [runF]; exact ih (step_identity H hi _)

theorem startF_controllers {id key : Nat} {s : St β} (hi : Identity id key s) (c : StartCfg) (f : Faults) :
    controllers id (startF H s c f).1.store.entities = controllers id s.store.entities := by
  rw [startF_identity H hi c f]
  split
  · exact step_controllers H hi (.start c)
  · rfl

theorem runF_controllers {id key : Nat} {s : St β} (hi : Identity id key s) (hist : List (Step × Faults)) :
    controllers id (runF H s hist).store.entities
      = (hist.map (·.1)).foldl (ctlOp id) (controllers id s.store.entities) := by
  induction hist generalizing s with
  | nil => rfl
  | cons x xs ih =>
    obtain ⟨st, f⟩ := x
    cases st with
    | start c =>
      simp only [runF, List.map_cons, List.foldl_cons]
      rw [ih (startF_keeps_identity H hi c f), startF_controllers H hi c f]; rfl
    | pair n k =>
      simp only [runF, List.map_cons, List.foldl_cons]
      rw [ih (step_identity H hi _), step_controllers H hi _]
    | unpair n =>
      simp only [runF, List.map_cons, List.foldl_cons]
      rw [ih (step_identity H hi _), step_controllers H hi _]
    | setValue p v =>
      simp only [runF, List.map_cons, List.foldl_cons]
      rw [ih (step_identity H hi _), step_controllers H hi _]
    | stop =>
      simp only [runF, List.map_cons, List.foldl_cons]
      rw [ih (step_identity H hi _), step_controllers H hi _]
    | wipe k =>
      simp only [runF, List.map_cons, List.foldl_cons]
      rw [ih (step_identity H hi _), step_controllers H hi _]

theorem bump_ge (o : Option β) (h : β) (v : Nat) : v ≤ bump o h v := by
  unfold bump; split
  · split <;> omega
  · omega

end Hc.Config
