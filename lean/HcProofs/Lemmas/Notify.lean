import HcModel.Notify
namespace Hc.Notify

def idsNodup (l : List Conn) : Prop := (l.map (·.id)).Nodup

/-- well-formedness: one session per connection id; a session is subscribed only to observable characteristics and
    only if it is verified -/
structure Wf (s : St) : Prop where
  nodup : idsNodup s.conns
  subsOk : ∀ k ∈ s.conns, ∀ ch ∈ k.subs, k.verified = true ∧ (s.chars ch).observable = true

theorem wf_init (chars) : Wf (init chars) := ⟨by simp [init, idsNodup], by simp [init]⟩

theorem ids_filter (l : List Conn) (p : Conn → Bool) (h : idsNodup l) : idsNodup (l.filter p) := by
  unfold idsNodup at *
  induction l with
  | nil => simp
  | cons a l ih =>
    simp only [List.map_cons, List.nodup_cons] at h
    by_cases hp : p a = true
    · simp only [List.filter_cons, hp, ↓reduceIte, List.map_cons, List.nodup_cons]
      refine ⟨?_, ih h.2⟩
      intro hm
      apply h.1
      simp only [List.mem_map] at hm ⊢
      obtain ⟨x, hx, hx2⟩ := hm
      exact ⟨x, (List.mem_filter.mp hx).1, hx2⟩
    · simp only [List.filter_cons, hp]; exact ih h.2

theorem ids_inj {l : List Conn} (hn : idsNodup l) {a b : Conn} (ha : a ∈ l) (hb : b ∈ l) (h : a.id = b.id) : a = b := by
  unfold idsNodup at hn
  induction l with
  | nil => cases ha
  | cons x l ih =>
    simp only [List.map_cons, List.nodup_cons] at hn
    rcases List.mem_cons.mp ha with rfl | ha' <;> rcases List.mem_cons.mp hb with rfl | hb'
    · rfl
    · exact absurd (List.mem_map.mpr ⟨b, hb', h.symm⟩) hn.1
    · exact absurd (List.mem_map.mpr ⟨a, ha', h⟩) hn.1
    · exact ih hn.2 ha' hb'

theorem ids_map_same (l : List Conn) (f : Conn → Conn) (hf : ∀ k, (f k).id = k.id) : (l.map f).map (·.id) = l.map (·.id) := by
  simp [List.map_map, Function.comp_def, hf]

theorem observable_setChar (s : St) (ch : Nat) (k : Char) (h : k.observable = (s.chars ch).observable) (i : Nat) :
    ((setChar s ch k).chars i).observable = (s.chars i).observable := by
  simp only [setChar]; split
  · rename_i hi; subst hi; exact h
  · rfl

theorem update_fst_conns (s : St) (ch v : Nat) (o : Option Nat) (cp : Bool) : (update s ch v o cp).1.conns = s.conns := by
  simp only [update]; split
  · rfl
  · split
    · rfl
    · simp only; split <;> simp [setChar]

theorem update_fst_observable (s : St) (ch v : Nat) (o : Option Nat) (cp : Bool) (i : Nat) :
    ((update s ch v o cp).1.chars i).observable = (s.chars i).observable := by
  simp only [update]; split
  · rfl
  · split
    · rfl
    · simp only; split
      · simp only [setChar]; split
        · rename_i hi; subst hi; rfl
        · rfl
      · rfl

theorem wf_step (s : St) (i : In) (h : Wf s) : Wf (step s i).1 := by
  cases i with
  | connect c =>
    refine ⟨?_, ?_⟩
    · simp only [step, idsNodup, List.map_cons, List.nodup_cons]
      refine ⟨?_, ids_filter _ _ h.nodup⟩
      intro hm
      simp only [List.mem_map, List.mem_filter] at hm
      obtain ⟨x, ⟨_, hx⟩, hx2⟩ := hm
      simp [hx2] at hx
    · intro k hk ch hch
      simp only [step, List.mem_cons] at hk
      rcases hk with rfl | hk
      · simp at hch
      · exact h.subsOk k (List.mem_filter.mp hk).1 ch hch
  | close c =>
    exact ⟨ids_filter _ _ h.nodup, fun k hk ch hch => h.subsOk k (List.mem_filter.mp hk).1 ch hch⟩
  | verify c =>
    refine ⟨?_, ?_⟩
    · simp only [step, updConn, idsNodup]
      rw [ids_map_same _ _ (by intro k; split <;> rfl)]
      exact h.nodup
    · intro k hk ch hch
      simp only [step, updConn, List.mem_map] at hk
      obtain ⟨k0, hk0, rfl⟩ := hk
      by_cases hid : (k0.id == c) = true
      · simp only [hid, ↓reduceIte] at hch ⊢
        exact ⟨trivial, (h.subsOk k0 hk0 ch hch).2⟩
      · simp only [hid, Bool.false_eq_true, ↓reduceIte] at hch ⊢
        exact h.subsOk k0 hk0 ch hch
  | subscribe c ch =>
    simp only [step]
    split
    · rename_i k hfind
      split
      · rename_i hcond
        simp only [Bool.and_eq_true] at hcond
        refine ⟨?_, ?_⟩
        · simp only [updConn, idsNodup]
          rw [ids_map_same _ _ (by intro k; split <;> rfl)]
          exact h.nodup
        · intro k' hk' ch' hch'
          simp only [updConn, List.mem_map] at hk'
          obtain ⟨k0, hk0, rfl⟩ := hk'
          by_cases hid : (k0.id == c) = true
          · simp only [hid, ↓reduceIte] at hch' ⊢
            have hk0eq : k0 = k := by
              have h1 := List.find?_some hfind
              have h2 := List.mem_of_find?_eq_some hfind
              -- ids are unique
              have : k0.id = k.id := by simp at hid h1; rw [hid, h1]
              exact ids_inj h.nodup hk0 h2 this
            simp only [List.mem_cons, List.mem_filter] at hch'
            rcases hch' with rfl | hch'
            · rw [hk0eq]; exact ⟨hcond.1, hcond.2⟩
            · exact h.subsOk k0 hk0 ch' hch'.1
          · simp only [hid, Bool.false_eq_true, ↓reduceIte] at hch' ⊢
            exact h.subsOk k0 hk0 ch' hch'
      · exact h
    · exact h
  | unsubscribe c ch =>
    simp only [step]
    split
    · split
      · refine ⟨?_, ?_⟩
        · simp only [updConn, idsNodup]
          rw [ids_map_same _ _ (by intro k; split <;> rfl)]
          exact h.nodup
        · intro k' hk' ch' hch'
          simp only [updConn, List.mem_map] at hk'
          obtain ⟨k0, hk0, rfl⟩ := hk'
          by_cases hid : (k0.id == c) = true
          · simp only [hid, ↓reduceIte, List.mem_filter] at hch' ⊢
            exact h.subsOk k0 hk0 ch' hch'.1
          · simp only [hid, Bool.false_eq_true, ↓reduceIte] at hch' ⊢
            exact h.subsOk k0 hk0 ch' hch'
      · exact h
    · exact h
  | localSet ch v =>
    simp only [step]
    refine ⟨by rw [update_fst_conns]; exact h.nodup, ?_⟩
    intro k hk ch' hch'
    rw [update_fst_conns] at hk
    rw [update_fst_observable]
    exact h.subsOk k hk ch' hch'
  | remoteWrite c ch v =>
    simp only [step]
    split
    · split
      · refine ⟨by rw [update_fst_conns]; exact h.nodup, ?_⟩
        intro k hk ch' hch'
        rw [update_fst_conns] at hk
        rw [update_fst_observable]
        exact h.subsOk k hk ch' hch'
      · exact h
    · exact h

theorem wf_after (s : St) (hist : List In) (h : Wf s) : Wf (stAfter s hist) := by
  induction hist generalizing s with
  | nil => simpa [stAfter]
  | cons i is ih => exact ih _ (wf_step s i h)

/-- counting lemma for the fan-out loop: among the events produced for `ch`, exactly one goes to `d` when `d` is an
    active session other than `except` subscribed to `ch`, none otherwise -/
theorem notify_count (conns : List Conn) (chars : Nat → Char) (ch : Nat) (except : Option Nat) (d : Nat)
    (hn : idsNodup conns) :
    ((notify ⟨conns, chars⟩ ch except).filter (·.to == d)).length =
      if ∃ k ∈ conns, k.id = d ∧ some d ≠ except ∧ ch ∈ k.subs then 1 else 0 := by
  induction conns with
  | nil => simp [notify]
  | cons a l ih =>
    simp only [idsNodup, List.map_cons, List.nodup_cons] at hn
    have ih' := ih hn.2
    simp only [notify, List.filterMap_cons] at ih' ⊢
    have hnot : ∀ k ∈ l, k.id ≠ a.id := by
      intro k hk he; exact hn.1 (List.mem_map.mpr ⟨k, hk, he⟩)
    by_cases hex : (some a.id == except) = true
    · simp only [hex, ↓reduceIte]
      rw [ih']
      have hex' : some a.id = except := by simpa using hex
      congr 1
      apply propext
      constructor
      · rintro ⟨k, hk, h1, h2, h3⟩; exact ⟨k, List.mem_cons_of_mem _ hk, h1, h2, h3⟩
      · rintro ⟨k, hk, h1, h2, h3⟩
        rcases List.mem_cons.mp hk with rfl | hk
        · exact absurd (h1 ▸ hex') h2
        · exact ⟨k, hk, h1, h2, h3⟩
    · simp only [hex, Bool.false_eq_true, ↓reduceIte]
      have hex' : some a.id ≠ except := by simpa using hex
      by_cases hs : a.subs.contains ch = true
      · simp only [hs, ↓reduceIte, List.filter_cons]
        by_cases had : a.id = d
        · subst had
          simp only [beq_self_eq_true, ↓reduceIte, List.length_cons]
          rw [ih']
          have hno : ¬ ∃ k ∈ l, k.id = a.id ∧ some a.id ≠ except ∧ ch ∈ k.subs := by
            rintro ⟨k, hk, h1, _⟩; exact hnot k hk h1
          have hyes : ∃ k ∈ a :: l, k.id = a.id ∧ some a.id ≠ except ∧ ch ∈ k.subs :=
            ⟨a, by simp, rfl, hex', by simpa using hs⟩
          simp only [hno, ↓reduceIte, hyes]
        · have : (a.id == d) = false := by simp [had]
          simp only [this, Bool.false_eq_true, ↓reduceIte]
          rw [ih']
          congr 1
          apply propext
          constructor
          · rintro ⟨k, hk, h1, h2, h3⟩; exact ⟨k, List.mem_cons_of_mem _ hk, h1, h2, h3⟩
          · rintro ⟨k, hk, h1, h2, h3⟩
            rcases List.mem_cons.mp hk with rfl | hk
            · exact absurd h1 had
            · exact ⟨k, hk, h1, h2, h3⟩
      · simp only [hs, Bool.false_eq_true, ↓reduceIte]
        rw [ih']
        congr 1
        apply propext
        constructor
        · rintro ⟨k, hk, h1, h2, h3⟩; exact ⟨k, List.mem_cons_of_mem _ hk, h1, h2, h3⟩
        · rintro ⟨k, hk, h1, h2, h3⟩
          rcases List.mem_cons.mp hk with rfl | hk
          · exact absurd (by simpa using h3) hs
          · exact ⟨k, hk, h1, h2, h3⟩

theorem notify_mem (s : St) (ch : Nat) (except : Option Nat) (e : Event) (he : e ∈ notify s ch except) :
    e.ch = ch ∧ e.value = (s.chars ch).value ∧ some e.to ≠ except ∧ ∃ k ∈ s.conns, k.id = e.to ∧ ch ∈ k.subs := by
  simp only [notify, List.mem_filterMap] at he
  obtain ⟨k, hk, hke⟩ := he
  split at hke
  · simp at hke
  · rename_i hex
    split at hke
    · rename_i hs
      simp at hke; subst hke
      exact ⟨rfl, rfl, by simpa using hex, k, hk, rfl, by simpa using hs⟩
    · simp at hke

/-- an update that passes the equality and permission tests: the state changes at most in the characteristic's
    value, and the events are the fan-out over the new state -/
theorem update_effective (s : St) (ch v : Nat) (o : Option Nat) (cp : Bool)
    (h1 : ((s.chars ch).value == some v && !(s.chars ch).updateOnSame) = false)
    (h2 : (cp && !(s.chars ch).writable) = false) :
    ∃ s', s'.conns = s.conns ∧ update s ch v o cp = (s', notify s' ch o) := by
  simp only [update, h1, h2]
  by_cases hr : (s.chars ch).readable = true
  · refine ⟨setChar s ch { s.chars ch with value := some v }, by simp [setChar], ?_⟩
    simp [hr]
  · exact ⟨s, rfl, by simp [hr]⟩

end Hc.Notify
