import HcModel.Framing
import HcProofs.Lemmas.Chunks
/- helper lemmas for C05 / C06 (framing) -/
namespace Hc.Framing
open Hc

theorem readFull_fst (n : Nat) (r : Reader) : (readFull n r).1 = r.flatten.take n := by
  induction r generalizing n with
  | nil => simp [readFull]
  | cons b bs ih =>
    simp only [readFull]
    split
    · subst_vars; simp
    · split
      · rename_i h
        simp only [List.flatten_cons, List.take_append, ih]
        rw [List.take_of_length_le h]
      · rename_i h
        simp only [List.flatten_cons, List.take_append]
        have : n - b.length = 0 := by omega
        simp [this]

theorem readFull_snd (n : Nat) (r : Reader) : (readFull n r).2.flatten = r.flatten.drop n := by
  have h := readFull_flatten n r
  rw [readFull_fst] at h
  exact List.append_cancel_left (h.trans (List.take_append_drop n r.flatten).symm)

theorem packets_eq_chunks (r : Reader) : packets r = chunks packetMax (payload r) := by
  fun_induction packets r with
  | case1 r d rest hp h0 =>
    have hd : d = r.flatten.take packetMax := by have := readFull_fst packetMax r; rw [hp] at this; exact this
    have : r.flatten = [] := by
      have h1 : d = [] := List.eq_nil_of_length_eq_zero h0
      rw [hd] at h1
      rcases List.take_eq_nil_iff.mp h1 with h2 | h2
      · simp [packetMax] at h2
      · exact h2
    simp [payload, this, chunks_nil]
  | case2 r d rest hp h0 hlt =>
    have hd : d = r.flatten.take packetMax := by have := readFull_fst packetMax r; rw [hp] at this; exact this
    have hlen : r.flatten.length < packetMax := by
      rw [hd, List.length_take] at hlt; omega
    have hne : r.flatten ≠ [] := by
      intro h; rw [hd, h] at h0; simp at h0
    rw [payload, chunks_of_short packetMax _ hne (by omega), hd, List.take_of_length_le (by omega)]
  | case3 r d rest hp h0 hlt ih =>
    have hd : d = r.flatten.take packetMax := by have := readFull_fst packetMax r; rw [hp] at this; exact this
    have hr : rest.flatten = r.flatten.drop packetMax := by have := readFull_snd packetMax r; rw [hp] at this; exact this
    have hne : r.flatten ≠ [] := by
      intro h; rw [hd, h] at h0; simp at h0
    rw [ih, payload, payload, chunks_cons_eq packetMax _ hne (by simp [packetMax]), hd, hr]

end Hc.Framing

namespace Hc.Framing
open Hc

-- ---------------------------------------------------------------------------------------------
-- frame-level receiver

/-- what a successful call consumed: exactly the frames `genuine c, genuine (c+1), …` -/
theorem rxLoop_ok (sent : List Bytes) (c : Nat) (b : List DFrame) (c' : Nat) (is : List Nat) (r : List DFrame)
    (h : rxLoop sent c b = .ok (c', is, r)) :
    is = List.range' c is.length ∧ c' = c + is.length ∧ b = is.map .genuine ++ r ∧
      (c ≤ sent.length → c' ≤ sent.length) := by
  induction b generalizing c c' is r with
  | nil =>
    simp only [rxLoop, Except.ok.injEq, Prod.mk.injEq] at h
    obtain ⟨rfl, rfl, rfl⟩ := h
    simp
  | cons f fs ih =>
    cases f with
    | forged => simp [rxLoop] at h
    | truncated => simp [rxLoop] at h
    | genuine i =>
      simp only [rxLoop] at h
      split at h
      · simp at h
      · rename_i chunk hget
        have hi : i < sent.length := by
          rcases Nat.lt_or_ge i sent.length with h1 | h1
          · exact h1
          · rw [List.getElem?_eq_none h1] at hget; simp at hget
        split at h
        · rename_i hic
          subst hic
          split at h
          · simp only [Except.ok.injEq, Prod.mk.injEq] at h
            obtain ⟨rfl, rfl, rfl⟩ := h
            simp; omega
          · split at h
            · rename_i c2 is2 r2 hrec
              simp only [Except.ok.injEq, Prod.mk.injEq] at h
              obtain ⟨rfl, rfl, rfl⟩ := h
              obtain ⟨h1, h2, h3, h4⟩ := ih (i + 1) c2 is2 r2 hrec
              refine ⟨?_, ?_, ?_, ?_⟩
              · simp only [List.length_cons, List.range'_succ]; rw [← h1]
              · simp only [List.length_cons]; omega
              · simp [h3]
              · intro _; exact h4 (by omega)
            · simp at h
        · simp at h

theorem releasedBytes_range (sent : List Bytes) (k : Nat) :
    releasedBytes sent (List.range' 0 k) = (sent.take k).flatten := by
  induction k with
  | zero => simp [releasedBytes]
  | succ k ih =>
    rw [List.range'_concat, List.take_add_one]
    simp only [releasedBytes, List.flatMap_append, List.flatten_append] at *
    rw [ih]
    cases h : sent[k]? <;> simp [h]

/-- invariant of the receiver: released = 0,1,…,cnt-1 and cnt frames exist -/
def RxGood (sent : List Bytes) (s : Rx) : Prop := s.released = List.range' 0 s.cnt ∧ s.cnt ≤ sent.length

theorem rxCall_good (sent : List Bytes) (s : Rx) (b : List DFrame) (h : RxGood sent s) : RxGood sent (rxCall sent s b).1 := by
  unfold rxCall
  split
  · rename_i c is r hl
    obtain ⟨h1, h2, _, h4⟩ := rxLoop_ok sent s.cnt b c is r hl
    refine ⟨?_, h4 h.2⟩
    simp only
    have := List.range'_append (s := 0) (m := s.cnt) (n := is.length) (step := 1)
    simp only [Nat.one_mul, Nat.zero_add] at this
    rw [h.1, h2, ← this]
    exact congrArg (List.range' 0 s.cnt ++ ·) h1
  · exact h

theorem rxCalls_good (sent : List Bytes) (s : Rx) (calls : List (List DFrame)) (h : RxGood sent s) :
    RxGood sent (rxCalls sent s calls) := by
  induction calls generalizing s with
  | nil => simpa [rxCalls]
  | cons b bs ih => exact ih _ (rxCall_good sent s b h)

/-- frames in order from `c`, every one of them full (so that the call goes on to the next) -/
def InOrderFull (sent : List Bytes) (c : Nat) (pre : List DFrame) : Prop :=
  ∀ j (h : j < pre.length), pre[j] = .genuine (c + j) ∧ ∃ ch, sent[c + j]? = some ch ∧ ¬ ch.length < packetMax

/-- `f` is the next genuine frame of a sender who sealed `sent` -/
def IsNext (sent : List Bytes) (c : Nat) (f : DFrame) : Prop := f = .genuine c ∧ c < sent.length

theorem rxLoop_error (sent : List Bytes) (c : Nat) (pre : List DFrame) (f : DFrame) (post : List DFrame)
    (hpre : InOrderFull sent c pre) (hf : ¬ IsNext sent (c + pre.length) f) :
    rxLoop sent c (pre ++ f :: post) = .error (if f = .truncated then .short else .auth) := by
  induction pre generalizing c with
  | nil =>
    simp only [List.nil_append, List.length_nil, Nat.add_zero] at *
    cases f with
    | forged => simp [rxLoop]
    | truncated => simp [rxLoop]
    | genuine i =>
      simp only [rxLoop]
      split
      · simp
      · rename_i chunk hget
        have hi : i < sent.length := by
          rcases Nat.lt_or_ge i sent.length with h1 | h1
          · exact h1
          · rw [List.getElem?_eq_none h1] at hget; simp at hget
        have : i ≠ c := by
          intro h; subst h; exact hf ⟨rfl, hi⟩
        simp [this]
  | cons p ps ih =>
    obtain ⟨hp, ch, hch, hfull⟩ := hpre 0 (by simp)
    simp only [List.getElem_cons_zero, Nat.add_zero] at hp hch
    subst hp
    simp only [List.cons_append, rxLoop, hch, if_true, hfull, if_false]
    have hpre' : InOrderFull sent (c + 1) ps := by
      intro j hj
      have := hpre (j + 1) (by simp; omega)
      simp only [List.getElem_cons_succ] at this
      have e : c + (j + 1) = c + 1 + j := by omega
      rw [e] at this
      exact this
    have hf' : ¬ IsNext sent (c + 1 + ps.length) f := by
      have e : c + 1 + ps.length = c + (ps.length + 1) := by omega
      rw [e]; simpa using hf
    rw [ih (c + 1) hpre' hf']

end Hc.Framing

namespace Hc.Framing
open Hc

-- ---------------------------------------------------------------------------------------------
-- byte level: parsing what was rendered

theorem unle16_le16 (n : Nat) (h : n < 65536) :
    unle16 (UInt8.ofNat (n % 256)) (UInt8.ofNat (n / 256 % 256)) = n := by
  simp only [unle16, UInt8.toNat_ofNat']
  omega

theorem readN_append (n : Nat) (a b : Bytes) (h : a.length = n) : readN n (a ++ b) = .ok (a, b) := by
  subst h
  simp [readN]

theorem parseFrame_render (C : Crypto) (hC : C.Correct) (k : Bytes) (ctr : Nat) (ch tail : Bytes)
    (hlen : ch.length ≤ 1024) :
    parseFrame (renderFrame C k ⟨ctr, ch⟩ ++ tail) =
      .frame ch.length ((C.sealB k (nonce12 ctr) (le16 ch.length) ch).take ch.length)
        ((C.sealB k (nonce12 ctr) (le16 ch.length) ch).drop ch.length) tail := by
  obtain ⟨_, hl⟩ := hC k (nonce12 ctr) (le16 ch.length) ch
  generalize hs : C.sealB k (nonce12 ctr) (le16 ch.length) ch = sealed at *
  have e : renderFrame C k ⟨ctr, ch⟩ ++ tail
      = UInt8.ofNat (ch.length % 256) :: UInt8.ofNat (ch.length / 256 % 256) :: (sealed.take ch.length ++ (sealed.drop ch.length ++ tail)) := by
    have hle : le16 ch.length = [UInt8.ofNat (ch.length % 256), UInt8.ofNat (ch.length / 256 % 256)] := rfl
    simp only [renderFrame, hs]
    rw [hle]
    simp only [List.cons_append, List.nil_append]
    rw [← List.append_assoc, List.take_append_drop]
  rw [e]
  simp only [parseFrame]
  rw [unle16_le16 _ (by omega)]
  rw [readN_append _ _ _ (by simp [List.length_take]; omega)]
  simp only
  rw [readN_append _ _ _ (by simp [List.length_drop]; omega)]

/-- chunk lists as `chunks 1024` produces them -/
def Framed (ps : List Bytes) : Prop := (∀ c ∈ ps, c.length ≤ packetMax) ∧ (∀ c ∈ ps.dropLast, c.length = packetMax)

theorem framed_chunks (p : Bytes) : Framed (chunks packetMax p) :=
  ⟨fun c hc => (chunks_len_le packetMax (by simp [packetMax]) p c hc).1, chunks_init_full packetMax p⟩

theorem renderFrames_cons (C : Crypto) (k : Bytes) (d : FrameD) (ds : List FrameD) :
    renderFrames C k (d :: ds) = renderFrame C k d ++ renderFrames C k ds := by
  simp [renderFrames]

/-- one loop iteration of Decrypt on a genuine frame -/
theorem decryptLoop_frame (C : Crypto) (hC : C.Correct) (k : Bytes) (ctr : Nat) (ch tail : Bytes)
    (hlen : ch.length ≤ 1024) :
    decryptLoop C k ctr (renderFrame C k ⟨ctr, ch⟩ ++ tail) =
      if ch.length < packetMax then .ok (ctr + 1, ch, tail)
      else match decryptLoop C k (ctr + 1) tail with
        | .ok (c, out, r) => .ok (c, ch ++ out, r)
        | .error e => .error e := by
  have hp := parseFrame_render C hC k ctr ch tail hlen
  obtain ⟨ho, _⟩ := hC k (nonce12 ctr) (le16 ch.length) ch
  rw [decryptLoop]
  split
  · rename_i h; rw [hp] at h; simp at h
  · rename_i h; rw [hp] at h; simp at h
  · rename_i len body tag rest h
    rw [hp] at h
    simp only [Parsed.frame.injEq] at h
    obtain ⟨rfl, rfl, rfl, rfl⟩ := h
    rw [List.take_append_drop, ho]
    rfl

theorem decryptLoop_nil (C : Crypto) (k : Bytes) (ctr : Nat) : decryptLoop C k ctr [] = .ok (ctr, [], []) := by
  rw [decryptLoop]; simp [parseFrame]

/-- the frame loop returns exactly the chunks of a well-framed message and consumes all of it -/
theorem decryptLoop_frames (C : Crypto) (hC : C.Correct) (k : Bytes) (ctr : Nat) (ps : List Bytes) (h : Framed ps) :
    decryptLoop C k ctr (renderFrames C k (frameDescs ctr ps)) = .ok (ctr + ps.length, ps.flatten, []) := by
  induction ps generalizing ctr with
  | nil => simp [frameDescs, renderFrames, decryptLoop_nil]
  | cons p ps ih =>
    have hp : p.length ≤ 1024 := h.1 p (by simp)
    have h' : Framed ps := by
      refine ⟨fun c hc => h.1 c (by simp [hc]), fun c hc => h.2 c ?_⟩
      cases ps with
      | nil => simp at hc
      | cons q qs => simp only [List.dropLast_cons_cons, List.mem_cons]; exact .inr hc
    simp only [frameDescs, renderFrames_cons]
    rw [decryptLoop_frame C hC k ctr p _ hp]
    cases ps with
    | nil =>
      simp only [frameDescs, renderFrames, List.map_nil, List.flatten_nil, decryptLoop_nil]
      split <;> simp
    | cons q qs =>
      have hfull : p.length = packetMax := h.2 p (by simp)
      rw [ih (ctr + 1) h']
      simp only [hfull, Nat.lt_irrefl, if_false, List.length_cons, List.flatten_cons]
      congr 2
      omega

end Hc.Framing

namespace Hc.Framing
open Hc

theorem frameDescs_chunk (c : Nat) (ps : List Bytes) : (frameDescs c ps).map (·.chunk) = ps := by
  induction ps generalizing c with
  | nil => rfl
  | cons p ps ih => simp [frameDescs, ih]

theorem frameDescs_ctr (c : Nat) (ps : List Bytes) : (frameDescs c ps).map (·.ctr) = List.range' c ps.length := by
  induction ps generalizing c with
  | nil => rfl
  | cons p ps ih => simp [frameDescs, ih, List.range'_succ]

theorem frameDescs_length (c : Nat) (ps : List Bytes) : (frameDescs c ps).length = ps.length := by
  have := congrArg List.length (frameDescs_chunk c ps)
  simpa using this

theorem frameDescs_append (c : Nat) (a b : List Bytes) :
    frameDescs c (a ++ b) = frameDescs c a ++ frameDescs (c + a.length) b := by
  induction a generalizing c with
  | nil => simp [frameDescs]
  | cons p ps ih =>
    simp only [List.cons_append, frameDescs, ih, List.length_cons, List.cons.injEq, true_and]
    congr 2; omega

theorem renderFrames_append (C : Crypto) (k : Bytes) (a b : List FrameD) :
    renderFrames C k (a ++ b) = renderFrames C k a ++ renderFrames C k b := by
  simp [renderFrames]

/-- a payload whose length is an exact multiple of `n` has only full chunks -/
theorem chunks_exact (n : Nat) (hn : 0 < n) (l : List α) (k : Nat) (h : l.length = k * n) :
    ∀ c ∈ chunks n l, c.length = n := by
  induction k generalizing l with
  | zero =>
    have : l = [] := List.eq_nil_of_length_eq_zero (by simpa using h)
    subst this; simp [chunks_nil]
  | succ k ih =>
    have hne : l ≠ [] := by
      intro h0; subst h0
      simp only [List.length_nil] at h
      have : 0 < (k + 1) * n := Nat.mul_pos (by omega) hn
      omega
    have hge : n ≤ l.length := by
      rw [h]; exact Nat.le_mul_of_pos_left n (by omega)
    rw [chunks_cons_eq n l hne (by omega)]
    intro c hc
    simp only [List.mem_cons] at hc
    rcases hc with rfl | hc
    · simp [List.length_take]; omega
    · refine ih (l.drop n) ?_ c hc
      rw [List.length_drop, h, Nat.succ_mul]; omega

theorem decrypt_encrypt (C : Crypto) (hC : C.Correct) (s peer : Sess) (r : Reader)
    (hk : peer.decKey = s.encKey) (hc : peer.decCnt = s.encCnt) :
    decrypt C peer (encrypt C s r).2 = ({ peer with decCnt := (encrypt C s r).1.encCnt }, .ok (payload r), []) := by
  simp only [decrypt, encrypt, hk, hc, packets_eq_chunks]
  rw [decryptLoop_frames C hC _ _ _ (framed_chunks _), chunks_flatten]

theorem encryptSeq_spec (C : Crypto) (s : Sess) (rs : List Reader) :
    (encryptSeq C s rs).1 = { s with encCnt := s.encCnt + (rs.flatMap packets).length } ∧
    (encryptSeq C s rs).2.flatten = renderFrames C s.encKey (frameDescs s.encCnt (rs.flatMap packets)) := by
  induction rs generalizing s with
  | nil => simp [encryptSeq, frameDescs, renderFrames]
  | cons r rs ih =>
    obtain ⟨h1, h2⟩ := ih (encrypt C s r).1
    simp only [encryptSeq, List.flatMap_cons, List.flatten_cons, h1, h2]
    constructor
    · simp only [encrypt, List.length_append]; congr 1; omega
    · simp only [encrypt, frameDescs_append, renderFrames_append]

theorem decryptSeq_encryptSeq (C : Crypto) (hC : C.Correct) (s peer : Sess) (rs : List Reader)
    (hk : peer.decKey = s.encKey) (hc : peer.decCnt = s.encCnt) :
    decryptSeq C peer (encryptSeq C s rs).2 =
      ({ peer with decCnt := (encryptSeq C s rs).1.encCnt }, rs.map fun r => .ok (payload r)) := by
  induction rs generalizing s peer with
  | nil => simp only [encryptSeq, decryptSeq, List.map_nil, ← hc]
  | cons r rs ih =>
    simp only [encryptSeq, decryptSeq, decrypt_encrypt C hC s peer r hk hc, List.map_cons]
    rw [ih (encrypt C s r).1 _ (by simp [encrypt, hk]) (by simp)]

end Hc.Framing

namespace Hc.Framing
open Hc

-- ---------------------------------------------------------------------------------------------
-- byte level: what an accepted input must look like

/-- the only-if direction of the AEAD idealisation: what opens was sealed (with these parameters) -/
def Crypto.Sound (C : Crypto) : Prop :=
  ∀ k n ad c m, C.openB k n ad c = some m → c = C.sealB k n ad m ∧ c.length = m.length + 16

theorem le16_unle16 (a b : UInt8) : le16 (unle16 a b) = [a, b] := by
  have ha := a.toNat_lt
  have hb := b.toNat_lt
  simp only [le16, unle16]
  have h1 : (a.toNat + 256 * b.toNat) % 256 = a.toNat := by omega
  have h2 : (a.toNat + 256 * b.toNat) / 256 % 256 = b.toNat := by omega
  rw [h1, h2]
  simp

theorem readN_ok {n : Nat} {inp a b : Bytes} (h : readN n inp = .ok (a, b)) : inp = a ++ b ∧ a.length = n := by
  simp only [readN] at h
  split at h
  · simp only [Except.ok.injEq, Prod.mk.injEq] at h
    obtain ⟨rfl, rfl⟩ := h
    simp [List.length_take]; omega
  · split at h <;> simp at h

theorem parseFrame_frame {inp : Bytes} {len : Nat} {body tag rest : Bytes}
    (h : parseFrame inp = .frame len body tag rest) :
    inp = le16 len ++ body ++ tag ++ rest ∧ body.length = len ∧ tag.length = 16 := by
  match inp with
  | [] => simp [parseFrame] at h
  | [_] => simp [parseFrame] at h
  | a :: b :: r1 =>
    simp only [parseFrame] at h
    split at h
    · simp at h
    · rename_i body' r2 h1
      split at h
      · simp at h
      · rename_i tag' r3 h2
        simp only [Parsed.frame.injEq] at h
        obtain ⟨rfl, rfl, rfl, rfl⟩ := h
        obtain ⟨e1, l1⟩ := readN_ok h1
        obtain ⟨e2, l2⟩ := readN_ok h2
        refine ⟨?_, l1, l2⟩
        rw [le16_unle16, e1, e2]
        simp

theorem parseFrame_eof {inp : Bytes} (h : parseFrame inp = .eof) : inp = [] := by
  match inp with
  | [] => rfl
  | [_] => simp [parseFrame] at h
  | a :: b :: r1 =>
    simp only [parseFrame] at h
    split at h
    · simp at h
    · split at h <;> simp at h

/-- whatever bytes arrive: if the frame loop accepts them, they are frames sealed under the receiver's key
    with the consecutive counters from the receiver's counter, and what is released is their plaintext -/
theorem decryptLoop_accepts (C : Crypto) (hS : C.Sound) (key : Bytes) (cnt : Nat) (inp : Bytes)
    (c' : Nat) (out rest : Bytes) (h : decryptLoop C key cnt inp = .ok (c', out, rest)) :
    ∃ cs : List Bytes, inp = renderFrames C key (frameDescs cnt cs) ++ rest ∧ out = cs.flatten ∧ c' = cnt + cs.length := by
  fun_induction decryptLoop C key cnt inp generalizing c' out rest with
  | case1 cnt inp hp =>
    simp only [Except.ok.injEq, Prod.mk.injEq] at h
    obtain ⟨rfl, rfl, rfl⟩ := h
    exact ⟨[], by simp [parseFrame_eof hp, frameDescs, renderFrames], rfl, rfl⟩
  | case2 cnt inp e hp => simp at h
  | case3 cnt inp len body tag rest' hp ho => simp at h
  | case4 cnt inp len body tag rest' hp pt ho hlt =>
    simp only [Except.ok.injEq, Prod.mk.injEq] at h
    obtain ⟨rfl, rfl, rfl⟩ := h
    obtain ⟨e, hb, ht⟩ := parseFrame_frame hp
    obtain ⟨hs, hl⟩ := hS _ _ _ _ _ ho
    have hpl : pt.length = len := by simp only [List.length_append] at hl; omega
    refine ⟨[pt], ?_, by simp, rfl⟩
    simp only [frameDescs, renderFrames, List.map_cons, List.map_nil, List.flatten_cons, List.flatten_nil,
      List.append_nil, renderFrame, hpl, ← hs]
    rw [e]; simp
  | case5 cnt inp len body tag rest' hp pt ho hlt c2 out2 r2 hrec ih =>
    simp only [Except.ok.injEq, Prod.mk.injEq] at h
    obtain ⟨rfl, rfl, rfl⟩ := h
    obtain ⟨cs, e2, rfl, rfl⟩ := ih _ _ _ hrec
    obtain ⟨e, hb, ht⟩ := parseFrame_frame hp
    obtain ⟨hs, hl⟩ := hS _ _ _ _ _ ho
    have hpl : pt.length = len := by simp only [List.length_append] at hl; omega
    refine ⟨pt :: cs, ?_, by simp, by simp; omega⟩
    simp only [frameDescs, renderFrames_cons, renderFrame, hpl, ← hs]
    rw [e, e2]; simp
  | case6 cnt inp len body tag rest' hp pt ho hlt e hrec ih => simp at h

end Hc.Framing

namespace Hc.Framing
open Hc

-- ---------------------------------------------------------------------------------------------
-- refinement: the byte-level frame loop on encoded deliveries behaves like the frame-level receiver

theorem parseFrame_layout (len : Nat) (body tag tail : Bytes) (hl : len < 65536) (hb : body.length = len) (ht : tag.length = 16) :
    parseFrame (le16 len ++ body ++ tag ++ tail) = .frame len body tag tail := by
  have hle : le16 len = [UInt8.ofNat (len % 256), UInt8.ofNat (len / 256 % 256)] := rfl
  rw [hle]
  simp only [List.cons_append, List.nil_append, List.append_assoc, parseFrame]
  rw [unle16_le16 _ hl, readN_append _ _ _ hb]
  simp only
  rw [readN_append _ _ _ ht]

theorem decryptLoop_of_parse (C : Crypto) (key : Bytes) (c : Nat) {inp : Bytes} {len : Nat} {body tag rest : Bytes}
    (h : parseFrame inp = .frame len body tag rest) :
    decryptLoop C key c inp =
      match C.openB key (nonce12 c) (le16 len) (body ++ tag) with
      | none => .error .auth
      | some pt =>
        if len < packetMax then .ok (c + 1, pt, rest)
        else match decryptLoop C key (c + 1) rest with
          | .ok (c', out, r) => .ok (c', pt ++ out, r)
          | .error e => .error e := by
  rw [decryptLoop]
  split
  · rename_i h'; rw [h] at h'; simp at h'
  · rename_i h'; rw [h] at h'; simp at h'
  · rename_i len' body' tag' rest' h'
    rw [h] at h'
    simp only [Parsed.frame.injEq] at h'
    obtain ⟨rfl, rfl, rfl, rfl⟩ := h'
    rfl

/-- how a delivered frame looks on the wire, relative to the receiver's key and the sender's history -/
def Enc (C : Crypto) (key : Bytes) (sent : List Bytes) : DFrame → Bytes → Prop
  | .genuine i, b => ∃ ch, sent[i]? = some ch ∧ b = renderFrame C key ⟨i, ch⟩
  | .forged, b => ∃ len body tag, b = le16 len ++ body ++ tag ∧ len < 65536 ∧ body.length = len ∧ tag.length = 16 ∧
      ∀ c, C.openB key (nonce12 c) (le16 len) (body ++ tag) = none
  | .truncated, _ => False

/-- a delivered frame list and its wire bytes, frame by frame -/
inductive EncAll (C : Crypto) (key : Bytes) (sent : List Bytes) : List DFrame → List Bytes → Prop
  | nil : EncAll C key sent [] []
  | cons {f : DFrame} {b : Bytes} {fs : List DFrame} {bs : List Bytes} :
      Enc C key sent f b → EncAll C key sent fs bs → EncAll C key sent (f :: fs) (b :: bs)

/-- the sender's frame `i` does not open under another counter `c` the receiver can reach -/
def NonceBound (C : Crypto) (key : Bytes) (sent : List Bytes) : Prop :=
  ∀ i c ch, sent[i]? = some ch → c ≤ sent.length → i ≠ c →
    C.openB key (nonce12 c) (le16 ch.length) (C.sealB key (nonce12 i) (le16 ch.length) ch) = none

theorem releasedBytes_cons (sent : List Bytes) (i : Nat) (is : List Nat) (ch : Bytes) (h : sent[i]? = some ch) :
    releasedBytes sent (i :: is) = ch ++ releasedBytes sent is := by
  simp [releasedBytes, h]

theorem decryptLoop_refines (C : Crypto) (hC : C.Correct) (key : Bytes) (sent : List Bytes)
    (hsent : ∀ ch ∈ sent, ch.length ≤ 1024) (hN : NonceBound C key sent)
    (batch : List DFrame) (bs : List Bytes) (henc : EncAll C key sent batch bs)
    (c : Nat) (hc : c ≤ sent.length) :
    decryptLoop C key c bs.flatten =
      match rxLoop sent c batch with
      | .ok (c', is, r) => .ok (c', releasedBytes sent is, (bs.drop (batch.length - r.length)).flatten)
      | .error _ => .error .auth := by
  induction henc generalizing c with
  | nil => simp [rxLoop, decryptLoop_nil, releasedBytes]
  | @cons f b fs bs' hfb hrest ih =>
    simp only [List.flatten_cons]
    cases f with
    | truncated => exact hfb.elim
    | forged =>
      obtain ⟨len, body, tag, rfl, hl, hb, ht, hno⟩ := hfb
      rw [decryptLoop_of_parse C key c (parseFrame_layout len body tag _ hl hb ht), hno c]
      simp [rxLoop]
    | genuine i =>
      obtain ⟨ch, hget, rfl⟩ := hfb
      have hi : i < sent.length := by
        rcases Nat.lt_or_ge i sent.length with h1 | h1
        · exact h1
        · rw [List.getElem?_eq_none h1] at hget; simp at hget
      have hch : ch.length ≤ 1024 := hsent ch (List.mem_of_getElem? hget)
      by_cases hic : i = c
      · subst hic
        rw [decryptLoop_frame C hC key i ch _ hch]
        simp only [rxLoop, hget, if_true]
        split
        · simp [releasedBytes, hget]
        · rw [ih (i + 1) (by omega)]
          cases hl : rxLoop sent (i + 1) fs with
          | error e => simp
          | ok v =>
            obtain ⟨c', is, r⟩ := v
            obtain ⟨_, _, h3, _⟩ := rxLoop_ok sent (i + 1) fs c' is r hl
            have hr : r.length ≤ fs.length := by rw [h3]; simp
            simp only [releasedBytes_cons sent i is ch hget, List.length_cons]
            rw [show fs.length + 1 - r.length = (fs.length - r.length) + 1 by omega, List.drop_succ_cons]
      · have hp := parseFrame_render C hC key i ch bs'.flatten hch
        rw [decryptLoop_of_parse C key c hp, List.take_append_drop, hN i c ch hget hc hic]
        simp [rxLoop, hget, hic]

end Hc.Framing

-- toy instances of the primitives, used only by the non-vacuity examples in Props/C05, C06
namespace Hc.Framing

/-- a toy instance of the primitives satisfying `Correct` (identity cipher, 16 zero bytes as tag) -/
def toyId : Crypto :=
  { kdf := fun m s i => m ++ s ++ i
    sealB := fun _ _ _ m => m ++ List.replicate 16 0
    openB := fun _ _ _ c => some (c.take (c.length - 16)) }

/-- a toy AEAD satisfying `Sound`: identity cipher, tag = 16 zero bytes, checked on opening -/
def toyChecked : Crypto :=
  { kdf := fun m s i => m ++ s ++ i
    sealB := fun _ _ _ m => m ++ List.replicate 16 0
    openB := fun _ _ _ c =>
      if c.drop (c.length - 16) = List.replicate 16 0 ∧ 16 ≤ c.length then some (c.take (c.length - 16)) else none }

/-- a toy AEAD that binds the nonce (tag = first 16 bytes of nonce ++ zeros): `Correct`, and `NonceBound` /
    `EncAll` hold for a concrete two-frame history and a delivery `[genuine 0, forged]` -/
def toyN : Crypto :=
  { kdf := fun m s i => m ++ s ++ i
    sealB := fun _ n _ m => m ++ (n ++ List.replicate 16 0).take 16
    openB := fun _ n _ c =>
      if c.drop (c.length - 16) = (n ++ List.replicate 16 0).take 16 ∧ 16 ≤ c.length then some (c.take (c.length - 16)) else none }

end Hc.Framing
