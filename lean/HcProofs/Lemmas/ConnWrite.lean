import HcModel.ConnWrite
/- invariant of the locked writer program under every schedule (C08) -/
namespace Hc.ConnWrite

@[simp] theorem upd_same {β : Type} (f : Nat → β) (i : Nat) (p : β) : upd f i p i = p := by simp [upd]
theorem upd_other {β : Type} (f : Nat → β) (i : Nat) (p : β) (j : Nat) (h : j ≠ i) : upd f i p j = f j := by
  simp [upd, h]

-- blocks, wire, total ------------------------------------------------------------------------------

theorem block_ctr (t w f k : Nat) : (block t w f k).map (·.ctr) = List.range' f k := by
  induction k with
  | zero => simp [block]
  | succ k ih => simp [block, ih, List.range'_concat]

theorem block_length (t w f k : Nat) : (block t w f k).length = k := by
  induction k with
  | zero => simp [block]
  | succ k ih => simp [block, ih]

theorem block_id (t w f k : Nat) : (block t w f k).map (fun x => (x.tid, x.w, x.j)) = (List.range k).map (fun j => (t, w, j)) := by
  induction k with
  | zero => simp [block]
  | succ k ih => simp [block, ih, List.range_succ]

theorem total_append (l : List Wr) (x : Wr) : total (l ++ [x]) = total l + nframes x.len := by
  induction l with
  | nil => simp [total]
  | cons y r ih => simp [total, ih]; omega

theorem wire_append (c : Nat) (l : List Wr) (x : Wr) :
    wire c (l ++ [x]) = wire c l ++ block x.tid x.w (c + total l) (nframes x.len) := by
  induction l generalizing c with
  | nil => simp [wire, total]
  | cons y r ih => simp [wire, total, ih, Nat.add_assoc]

theorem wire_ctr (c : Nat) (l : List Wr) : (wire c l).map (·.ctr) = List.range' c (total l) := by
  induction l generalizing c with
  | nil => simp [wire, total]
  | cons y r ih =>
    simp only [wire, total, List.map_append, block_ctr, ih]
    simp

theorem wire_length (c : Nat) (l : List Wr) : (wire c l).length = total l := by
  have := congrArg List.length (wire_ctr c l)
  simpa using this

theorem recv_of_ctr (n : Nat) (l : List Frame) (h : l.map (·.ctr) = List.range' n l.length) :
    recv n l = some (l.map fun f => (f.tid, f.w, f.j)) := by
  induction l generalizing n with
  | nil => simp [recv]
  | cons f r ih =>
    simp only [List.map_cons, List.length_cons, List.range'_succ, List.cons.injEq] at h
    simp [recv, h.1, ih (n+1) h.2]

-- ghost projections --------------------------------------------------------------------------------

def inCS : Pc → Bool
  | .idle => false
  | _ => true

/-- writes of writer `i` among the completed socket writes -/
def writesOf (i : Nat) (log : List Wr) : List Wr := log.filter (fun x => x.tid = i)

/-- completed socket writes of writer `i`, as the thread itself counts them -/
def doneG (s : St) (i : Nat) : Nat :=
  match s.pc i with
  | .sent => s.done i + 1
  | _ => s.done i

/-- payloads of writer `i` whose bytes are not on the socket yet -/
def restG (s : St) (i : Nat) : List Nat :=
  match s.pc i with
  | .sent => (s.todo i).tail
  | _ => s.todo i

theorem writesOf_append_same (i : Nat) (log : List Wr) (x : Wr) (h : x.tid = i) :
    writesOf i (log ++ [x]) = writesOf i log ++ [x] := by
  simp [writesOf, List.filter_append, h]

theorem writesOf_append_other (i : Nat) (log : List Wr) (x : Wr) (h : x.tid ≠ i) :
    writesOf i (log ++ [x]) = writesOf i log := by
  simp [writesOf, List.filter_append, h]

structure Inv (t0 : Nat → List Nat) (s : St) : Prop where
  cs    : ∀ i, inCS (s.pc i) = true ↔ s.lock = some i
  ne    : ∀ i, inCS (s.pc i) = true → s.todo i ≠ []
  wire  : s.sock = wire 0 s.log
  ctr   : ∀ h, s.lock = some h →
            match s.pc h with
            | .sealed f => f = total s.log ∧ s.ctr = f + nframes (cur s h)
            | _ => s.ctr = total s.log
  free  : s.lock = none → s.ctr = total s.log
  order : ∀ i, (writesOf i s.log).map (·.len) ++ restG s i = t0 i
  idx   : ∀ i, (writesOf i s.log).map (·.w) = List.range (doneG s i)

theorem inv_init (t0 : Nat → List Nat) : Inv t0 (init t0) := by
  constructor <;> simp [init, inCS, wire, total, writesOf, restG, doneG]

theorem inv_step (t0 : Nat → List Nat) (s : St) (i : Nat) (h : Inv t0 s) : Inv t0 (step s i) := by
  unfold step
  split
  · -- idle
    rename_i hp
    split
    · exact h
    · rename_i x xs htd
      split
      · rename_i hl
        have hfree := h.free hl
        constructor
        · intro j
          by_cases hj : j = i
          · subst hj; simp [inCS]
          · simp only [upd_other _ _ _ _ hj]
            have := h.cs j
            rw [hl] at this
            constructor
            · intro hc; exact absurd (this.mp hc) (by simp)
            · intro hc; simp at hc; exact absurd hc.symm hj
        · intro j
          by_cases hj : j = i
          · subst hj; simp [htd]
          · simp only [upd_other _ _ _ _ hj]; exact h.ne j
        · exact h.wire
        · intro h' hh
          simp at hh; subst hh
          simpa using hfree
        · intro hh; simp at hh
        · intro j
          by_cases hj : j = i
          · subst hj
            have := h.order j
            simpa [restG, hp] using this
          · have := h.order j
            simpa [restG, upd_other _ _ _ _ hj] using this
        · intro j
          by_cases hj : j = i
          · subst hj
            have := h.idx j
            simpa [doneG, hp] using this
          · have := h.idx j
            simpa [doneG, upd_other _ _ _ _ hj] using this
      · exact h
  · -- locked
    rename_i hp
    have hl : s.lock = some i := (h.cs i).mp (by simp [hp, inCS])
    have hs := h.ctr i hl
    simp [hp] at hs
    constructor
    · intro j
      by_cases hj : j = i
      · subst hj; simp [inCS, hl]
      · simp only [upd_other _ _ _ _ hj]; exact h.cs j
    · intro j
      by_cases hj : j = i
      · subst hj; intro _; exact h.ne j (by simp [hp, inCS])
      · simp only [upd_other _ _ _ _ hj]; exact h.ne j
    · exact h.wire
    · intro h' hh
      simp only at hh
      rw [hl] at hh; simp at hh; subst hh
      simp [hs, cur]
    · intro hh; simp only at hh; rw [hl] at hh; simp at hh
    · intro j
      by_cases hj : j = i
      · subst hj
        have := h.order j
        simpa [restG, hp] using this
      · have := h.order j
        simpa [restG, upd_other _ _ _ _ hj] using this
    · intro j
      by_cases hj : j = i
      · subst hj
        have := h.idx j
        simpa [doneG, hp] using this
      · have := h.idx j
        simpa [doneG, upd_other _ _ _ _ hj] using this
  · -- sealed
    rename_i f hp
    have hl : s.lock = some i := (h.cs i).mp (by simp [hp, inCS])
    have hs := h.ctr i hl
    simp [hp] at hs
    have hne := h.ne i (by simp [hp, inCS])
    constructor
    · intro j
      by_cases hj : j = i
      · subst hj; simp [inCS, hl]
      · simp only [upd_other _ _ _ _ hj]; exact h.cs j
    · intro j
      by_cases hj : j = i
      · subst hj; intro _; exact hne
      · simp only [upd_other _ _ _ _ hj]; exact h.ne j
    · simp only [wire_append, h.wire, hs.1, Nat.zero_add]
    · intro h' hh
      simp only at hh
      rw [hl] at hh; simp at hh; subst hh
      simp [total_append, hs.2, hs.1, cur]
    · intro hh; simp only at hh; rw [hl] at hh; simp at hh
    · intro j
      by_cases hj : j = i
      · subst hj
        have := h.order j
        simp only [restG, hp] at this
        dsimp only
        rw [writesOf_append_same j _ _ rfl]
        simp only [restG, upd_same, List.map_append, List.map_cons, List.map_nil, List.append_assoc]
        rw [← this]
        cases htd : s.todo j with
        | nil => exact absurd htd hne
        | cons a r => simp [cur, htd]
      · have := h.order j
        dsimp only
        rw [writesOf_append_other j _ _ (by simpa using (Ne.symm hj))]
        simpa [restG, upd_other _ _ _ _ hj] using this
    · intro j
      by_cases hj : j = i
      · subst hj
        have := h.idx j
        simp only [doneG, hp] at this
        dsimp only
        rw [writesOf_append_same j _ _ rfl]
        simp [doneG, this, List.range_succ]
      · have := h.idx j
        dsimp only
        rw [writesOf_append_other j _ _ (by simpa using (Ne.symm hj))]
        simpa [doneG, upd_other _ _ _ _ hj] using this
  · -- sent
    rename_i hp
    have hl : s.lock = some i := (h.cs i).mp (by simp [hp, inCS])
    have hs := h.ctr i hl
    simp [hp] at hs
    constructor
    · intro j
      by_cases hj : j = i
      · subst hj; simp [inCS]
      · simp only [upd_other _ _ _ _ hj]
        have := h.cs j
        rw [hl] at this
        constructor
        · intro hc; have := this.mp hc; simp at this; exact absurd this.symm hj
        · intro hc; simp at hc
    · intro j
      by_cases hj : j = i
      · subst hj; simp [inCS]
      · simp only [upd_other _ _ _ _ hj]; exact h.ne j
    · exact h.wire
    · intro h' hh; simp at hh
    · intro _; simpa using hs
    · intro j
      by_cases hj : j = i
      · subst hj
        have := h.order j
        simpa [restG, hp] using this
      · have := h.order j
        simpa [restG, upd_other _ _ _ _ hj] using this
    · intro j
      by_cases hj : j = i
      · subst hj
        have := h.idx j
        simpa [doneG, hp] using this
      · have := h.idx j
        simpa [doneG, upd_other _ _ _ _ hj] using this

theorem inv_run (t0 : Nat → List Nat) (s : St) (sched : List Nat) (h : Inv t0 s) : Inv t0 (run s sched) := by
  induction sched generalizing s with
  | nil => simpa [run]
  | cons i is ih => exact ih _ (inv_step t0 s i h)

end Hc.ConnWrite
