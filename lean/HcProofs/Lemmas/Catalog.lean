import HcModel.Catalog
/-
  Lifting lemmas for the catalog checkers: a Boolean checker that `decide +kernel` evaluated to `true`
  on the regenerated tables is turned into the ∀/∃ statement it decides.
-/
namespace Hc.Catalog

theorem all_any_lift {α β : Type} (ms : List α) (cs : List β) (p : β → α → Bool)
    (h : ms.all (fun m => cs.any (fun c => p c m)) = true) :
    ∀ m ∈ ms, ∃ c ∈ cs, p c m = true := by
  intro m hm
  have := (List.all_eq_true.mp h) m hm
  exact List.any_eq_true.mp this

theorem all_lift {α : Type} (l : List α) (p : α → Bool) (h : l.all p = true) : ∀ x ∈ l, p x = true :=
  fun x hx => (List.all_eq_true.mp h) x hx

theorem permSubset_spec {a b : List Perm} (h : permSubset a b = true) : ∀ p ∈ a, p ∈ b := by
  intro p hp
  have := (List.all_eq_true.mp h) p hp
  simpa using this

theorem permsEq_spec {a b : List Perm} (h : permsEq a b = true) : ∀ p, p ∈ a ↔ p ∈ b := by
  unfold permsEq at h
  rw [Bool.and_eq_true] at h
  exact fun p => ⟨permSubset_spec h.1 p, permSubset_spec h.2 p⟩

theorem nodupB_spec [BEq α] [LawfulBEq α] : ∀ {l : List α}, nodupB l = true → l.Nodup
  | [], _ => List.nodup_nil
  | a :: r, h => by
    simp only [nodupB, Bool.and_eq_true, Bool.not_eq_true', ] at h
    refine List.nodup_cons.mpr ⟨?_, nodupB_spec h.2⟩
    intro hm
    have : r.contains a = true := List.contains_iff_mem.mpr hm
    rw [this] at h
    exact absurd h.1 (by decide)

/-- what `CharRow.realises` decides -/
theorem CharRow.realises_spec {c : CharRow} {m : MetaChar} (h : c.realises m = true) :
    c.nargs = 0 ∧ c.panicked = false ∧ c.typ = some m.uuid ∧ c.format = m.format ∧ (∀ p, p ∈ c.perms ↔ p ∈ m.perms) ∧
    c.unit = m.unit ∧ boundEq c.min m.min = true ∧ boundEq c.max m.max = true ∧ boundEq c.step m.step = true := by
  unfold CharRow.realises at h
  simp only [Bool.and_eq_true, beq_iff_eq, Bool.not_eq_true'] at h
  obtain ⟨⟨⟨⟨⟨⟨⟨⟨h1, h2⟩, h3⟩, h4⟩, h5⟩, h6⟩, h7⟩, h8⟩, h9⟩ := h
  exact ⟨h1, h2, h3, h4, permsEq_spec h5, h6, h7, h8, h9⟩

theorem SvcRow.realises_spec {s : SvcRow} {m : MetaSvc} (h : s.realises m = true) :
    s.nargs = 0 ∧ s.panicked = false ∧ s.typ = some m.uuid ∧ ∀ r ∈ m.required, some r ∈ s.chars := by
  unfold SvcRow.realises at h
  simp only [Bool.and_eq_true, beq_iff_eq, Bool.not_eq_true', List.all_eq_true, List.contains_iff_mem] at h
  obtain ⟨⟨⟨h1, h2⟩, h3⟩, h4⟩ := h
  exact ⟨h1, h2, h3, h4⟩

theorem permsValid_spec {ps : List Perm} (h : permsValid ps = true) :
    ps ≠ [] ∧ (∀ p ∈ ps, p ≠ Perm.unknown) ∧ ps.Nodup := by
  unfold permsValid at h
  simp only [Bool.and_eq_true, Bool.not_eq_true', List.all_eq_true] at h
  obtain ⟨⟨h1, h2⟩, h3⟩ := h
  refine ⟨?_, ?_, nodupB_spec h3⟩
  · intro e; rw [e] at h1; simp at h1
  · intro p hp e
    have := h2 p hp
    rw [e] at this
    simp [knownPerm] at this

end Hc.Catalog

namespace Hc.Catalog

theorem isSome_ne_none {α} {o : Option α} (h : o.isSome = true) : o ≠ none := by
  cases o <;> simp at h ⊢

theorem CharRow.usable_spec {c : CharRow} (h : c.usable = true) :
    c.panicked = false ∧ c.typ ≠ none ∧ c.unit ≠ .unknown ∧
    c.perms ≠ [] ∧ (∀ p ∈ c.perms, p ≠ Perm.unknown) ∧ c.perms.Nodup ∧
    (c.untyped = false → c.format ≠ .unknown) := by
  unfold CharRow.usable at h
  simp only [Bool.and_eq_true, Bool.or_eq_true, Bool.not_eq_true', bne_iff_ne, ne_eq] at h
  obtain ⟨⟨⟨⟨h1, h2⟩, h3⟩, h4⟩, h5⟩ := h
  obtain ⟨p1, p2, p3⟩ := permsValid_spec h4
  refine ⟨h1, isSome_ne_none h2, h3, p1, p2, p3, fun hu => ?_⟩
  rcases h5 with h5 | h5
  · exact h5
  · rw [hu] at h5; exact absurd h5 (by decide)

theorem SvcRow.usable_spec {s : SvcRow} (h : s.usable = true) :
    s.panicked = false ∧ s.typ ≠ none ∧ ∀ t ∈ s.chars, t ≠ none := by
  unfold SvcRow.usable at h
  simp only [Bool.and_eq_true, Bool.not_eq_true', List.all_eq_true] at h
  exact ⟨h.1.1, isSome_ne_none h.1.2, fun t ht => isSome_ne_none (h.2 t ht)⟩

theorem svcShapeOk_spec {s : Option Nat × List (Option Nat)} (h : svcShapeOk s = true) :
    s.1 ≠ none ∧ (∀ t ∈ s.2, t ≠ none) ∧ s.2.Nodup := by
  unfold svcShapeOk at h
  simp only [Bool.and_eq_true, List.all_eq_true] at h
  exact ⟨isSome_ne_none h.1.1, fun t ht => isSome_ne_none (h.1.2 t ht), nodupB_spec h.2⟩

theorem AccRow.usable_spec {a : AccRow} (h : a.usable = true) :
    a.panicked = false ∧ (a.isAccessory = true →
      (∃ cs rest, a.services = (some accessoryInformation, cs) :: rest) ∧
      ∀ s ∈ a.services, s.1 ≠ none ∧ (∀ t ∈ s.2, t ≠ none) ∧ s.2.Nodup) := by
  unfold AccRow.usable at h
  simp only [Bool.and_eq_true, Bool.or_eq_true, Bool.not_eq_true', List.all_eq_true, beq_iff_eq] at h
  refine ⟨h.1, fun hi => ?_⟩
  rcases h.2 with h2 | h2
  · rw [hi] at h2; exact absurd h2 (by decide)
  · refine ⟨?_, fun s hs => svcShapeOk_spec (h2.1 s hs)⟩
    have hh := h2.2
    cases hsv : a.services with
    | nil => rw [hsv] at hh; simp at hh
    | cons x rest =>
      rw [hsv] at hh
      simp only [List.head?_cons, Option.map_some, Option.some.injEq] at hh
      exact ⟨x.2, rest, by rw [← hh]⟩

theorem ownConstOk_spec {typ own : Option Nat} {names : Bool} (h : ownConstOk typ own names = true) :
    ∀ v, own = some v → typ = some v ∧ names = true := by
  intro v hv
  subst hv
  simpa [ownConstOk] using h

theorem SvcRow.allowedBy_spec {s : SvcRow} {m : MetaSvc} (h : s.allowedBy m = true) :
    s.typ = some m.uuid → ∀ t ∈ s.chars, ∃ u, t = some u ∧ (u ∈ m.required ∨ u ∈ m.optional) := by
  intro ht t hm
  unfold SvcRow.allowedBy at h
  simp only [Bool.or_eq_true, bne_iff_ne, ne_eq, List.all_eq_true] at h
  rcases h with h | h
  · exact absurd ht h
  · have := h t hm
    cases t with
    | none => simp at this
    | some u => exact ⟨u, rfl, by simpa using this⟩

theorem AccRow.servicesComplete_spec {a : AccRow} {ms : List MetaSvc} (h : a.servicesComplete ms = true) :
    ∀ s ∈ a.services, ∀ m ∈ ms, s.1 = some m.uuid → ∀ r ∈ m.required, some r ∈ s.2 := by
  intro s hs m hm ht r hr
  unfold AccRow.servicesComplete at h
  simp only [List.all_eq_true, Bool.or_eq_true, bne_iff_ne, ne_eq, List.contains_iff_mem] at h
  rcases h s hs m hm with h | h
  · exact absurd ht h
  · exact h r hr

end Hc.Catalog

namespace Hc.Catalog

theorem requiredKeys_spec {req zero : List String} {fs : List JField} (h : requiredKeys req zero fs = true) :
    ∀ k ∈ req, k ∈ zero ∧ ∃ f ∈ fs, f.key = k ∧ f.omitEmpty = false := by
  intro k hk
  unfold requiredKeys at h
  have := (List.all_eq_true.mp h) k hk
  simp only [Bool.and_eq_true, List.contains_iff_mem, List.any_eq_true, beq_iff_eq, Bool.not_eq_true'] at this
  exact this

end Hc.Catalog

namespace Hc.Catalog

theorem CharRow.defaultValidFor_spec {c : CharRow} {m : MetaChar} (h : c.defaultValidFor m = true) :
    m.validValues ≠ [] → c.nargs = 0 → c.typ = some m.uuid → c.perms.contains Perm.pr = true →
      ∃ n ∈ m.validValues, c.value = Val.int n := by
  intro h1 h2 h3 h4
  unfold CharRow.defaultValidFor at h
  simp only [Bool.or_eq_true, List.isEmpty_iff, bne_iff_ne, ne_eq, Bool.not_eq_true'] at h
  rcases h with (((h | h) | h) | h) | h
  · exact absurd h h1
  · exact absurd h2 h
  · exact absurd h3 h
  · rw [h4] at h; exact absurd h (by decide)
  · cases hv : c.value with
    | int n => rw [hv] at h; exact ⟨n, List.contains_iff_mem.mp h, rfl⟩
    | _ => rw [hv] at h; simp at h

end Hc.Catalog
