import HcModel.PairSetup
namespace Hc.PairSetup

/-- controller state after a history (same fold as `run`, without the observations) -/
def stAfter (fixed : Bool) (c : Nat) (st : St) (hist : List In) : St :=
  hist.foldl (fun s i => (step fixed c s i).1) st

theorem run_fst (fixed : Bool) (c : Nat) (st : St) (hist : List In) :
    (run fixed c st hist).1 = stAfter fixed c st hist := by
  induction hist generalizing st with
  | nil => simp [run, stAfter]
  | cons i is ih => simp only [run, stAfter, List.foldl_cons]; exact ih _

theorem run_snoc (fixed : Bool) (c : Nat) (st : St) (hist : List In) (i : In) :
    (run fixed c st (hist ++ [i])).2 =
      (run fixed c st hist).2 ++ [(step fixed c (stAfter fixed c st hist) i).2] := by
  induction hist generalizing st with
  | nil => simp [run, stAfter]
  | cons x xs ih => simp [run, stAfter, ih]

theorem stAfter_snoc (fixed : Bool) (c : Nat) (st : St) (hist : List In) (i : In) :
    stAfter fixed c st (hist ++ [i]) = (step fixed c (stAfter fixed c st hist) i).1 := by
  simp [stAfter, List.foldl_append]

/-- the history ends with an accepted proof message for client key `a` — a proof made for the SRP session of the
    exchange that was current when it was sent — followed only by messages that do not touch the controller (`noop`) -/
def ProvedNow (c : Nat) (hist : List In) (a : Nat) : Prop :=
  ∃ pre post, hist = pre ++ [In.m3 (.good a) (.validFor c (stAfter true c init pre).epoch a true)] ++ post ∧
    ∀ x ∈ post, x.noop = true

/-- invariant of the repaired controller: being at `verifyResp` means the session key and the encryption key come
    from a setup-code proof verified in the current exchange, for the SRP session of that exchange -/
def Inv (c : Nat) (hist : List In) (st : St) : Prop :=
  st = stAfter true c init hist ∧
  (st.step = .verifyResp → ∃ a, ProvedNow c hist a ∧ st.S = .srp c st.epoch a ∧ st.K = .ofS (.srp c st.epoch a))

theorem inv_init (c : Nat) : Inv c [] init := by simp [Inv, init, stAfter]

theorem provedNow_snoc_noop {c hist a} (i : In) (h : ProvedNow c hist a) (hi : i.noop = true) :
    ProvedNow c (hist ++ [i]) a := by
  obtain ⟨pre, post, rfl, hp⟩ := h
  refine ⟨pre, post ++ [i], by simp, ?_⟩
  intro x hx
  rcases List.mem_append.mp hx with hx | hx
  · exact hp x hx
  · simp at hx; subst hx; exact hi

theorem inv_step (c : Nat) (hist : List In) (st : St) (i : In) (h : Inv c hist st) :
    Inv c (hist ++ [i]) (step true c st i).1 := by
  obtain ⟨hst, h⟩ := h
  refine ⟨by rw [stAfter_snoc, ← hst], ?_⟩
  cases i with
  | malformedTlv =>
    intro hs; obtain ⟨a, hp, h1, h2⟩ := h hs
    exact ⟨a, provedNow_snoc_noop _ hp rfl, h1, h2⟩
  | badMethod =>
    intro hs; obtain ⟨a, hp, h1, h2⟩ := h hs
    exact ⟨a, provedNow_snoc_noop _ hp rfl, h1, h2⟩
  | badState n =>
    intro hs; obtain ⟨a, hp, h1, h2⟩ := h hs
    exact ⟨a, provedNow_snoc_noop _ hp rfl, h1, h2⟩
  | m1 => simp only [step, stepR]; split <;> simp [reset]
  | m3 A p =>
    simp only [step, stepR]
    split
    · simp [reset]
    · cases A with
      | bad n => simp [reset]
      | good a =>
        simp only
        split
        · rename_i hp
          intro _
          cases p with
          | validFor c' e' a' ok =>
            simp [proofOk] at hp
            obtain ⟨⟨⟨rfl, rfl⟩, rfl⟩, rfl⟩ := hp
            exact ⟨a', ⟨hist, [], by simp [← hst], by simp⟩, by simp, by simp⟩
          | garbage n => simp [proofOk] at hp
          | empty => simp [proofOk] at hp
        · simp
  | m5 d =>
    simp only [step, stepR]
    split
    · simp [reset]
    · cases d with
      | short n => simp [reset]
      | sealed k nonceOk intact pt =>
        simp only
        split
        · simp [reset]
        · simp
        · rename_i name key sig _
          cases key with
          | badLen n => simp [reset]
          | pk kn => simp only; split <;> (try split) <;> simp [reset]

theorem inv_after (c : Nat) (pre hist : List In) (st : St) (h : Inv c pre st) :
    Inv c (pre ++ hist) (stAfter true c st hist) := by
  induction hist generalizing pre st with
  | nil => simpa [stAfter] using h
  | cons i is ih =>
    have := ih (pre ++ [i]) _ (inv_step c pre st i h)
    simpa [stAfter, List.append_assoc] using this

/-- the number of the SRP session never goes down, and it goes up by one exactly when a start request is accepted after
    an earlier one had been -/
theorem epoch_step (c : Nat) (st : St) (i : In) :
    (step true c st i).1.epoch = st.epoch ∨
    (i = .m1 ∧ st.step = .waiting ∧ st.started = true ∧ (step true c st i).1.epoch = st.epoch + 1) := by
  cases i with
  | malformedTlv => simp [step, stepR]
  | badMethod => simp [step, stepR]
  | badState n => simp [step, stepR]
  | m1 =>
    simp only [step, stepR]
    split
    · simp [reset]
    · rename_i hw
      cases hs : st.started <;> simp_all
  | m3 A p =>
    simp only [step, stepR]
    split
    · simp [reset]
    · cases A with
      | bad n => simp [reset]
      | good a => simp only; split <;> simp
  | m5 d =>
    simp only [step, stepR]
    split
    · simp [reset]
    · cases d with
      | short n => simp [reset]
      | sealed k nonceOk intact pt =>
        simp only
        split
        · simp [reset]
        · simp
        · rename_i name key sig _
          cases key with
          | badLen n => simp [reset]
          | pk kn => simp only; split <;> (try split) <;> simp [reset]

/-- one-step characterisation of the save effect (both directions) -/
theorem step_save_iff (c : Nat) (st : St) (i : In) (n k : Nat) :
    (step true c st i).2.2 = some (n, k) ↔
      st.step = .verifyResp ∧ n ≠ ownName ∧ i = .m5 (.sealed st.K true true (.tlv n (.pk k) (.valid k st.S n k))) := by
  constructor
  · intro hs
    cases i with
    | malformedTlv => simp [step, stepR] at hs
    | badMethod => simp [step, stepR] at hs
    | badState m => simp [step, stepR] at hs
    | m1 => simp only [step, stepR] at hs; split at hs <;> simp at hs
    | m3 A p =>
      simp only [step, stepR] at hs
      split at hs
      · simp at hs
      · cases A with
        | bad m => simp at hs
        | good a => simp only at hs; split at hs <;> simp at hs
    | m5 d =>
      simp only [step, stepR] at hs
      split at hs
      · simp at hs
      · rename_i hstep
        have hstep' : st.step = .verifyResp := by simpa using hstep
        cases d with
        | short m => simp at hs
        | sealed k' nonceOk intact pt =>
          simp only at hs
          split at hs
          · simp at hs
          · simp at hs
          · rename_i name key sig hopen
            cases key with
            | badLen m => simp at hs
            | pk kn =>
              simp only at hs
              split at hs
              · rename_i hsig
                split at hs
                · simp at hs
                rename_i hown
                simp at hs
                obtain ⟨rfl, rfl⟩ := hs
                simp only [openSealed] at hopen
                split at hopen
                · rename_i hk
                  obtain ⟨rfl, rfl, rfl⟩ := hk
                  simp at hopen; subst hopen
                  cases sig with
                  | valid signer s n' k' =>
                    simp [sigOk] at hsig
                    obtain ⟨⟨⟨rfl, rfl⟩, rfl⟩, rfl⟩ := hsig
                    exact ⟨hstep', hown, rfl⟩
                  | garbage m => simp [sigOk] at hsig
                  | empty => simp [sigOk] at hsig
                · simp at hopen
              · simp at hs
  · rintro ⟨hstep, hown, rfl⟩
    simp [step, stepR, hstep, openSealed, sigOk, hown]

-- several connections: a connection's controller state depends only on its own messages -------------------------------

def proj (c : Nat) (h : List (Nat × In)) : List In := (h.filter (fun x => x.1 == c)).map (·.2)

theorem conn_state_is_projection (g : Global) (h : List (Nat × In)) (c : Nat) :
    (grun true g h).1.conns c = stAfter true c (g.conns c) (proj c h) := by
  induction h generalizing g with
  | nil => simp [grun, proj, stAfter]
  | cons x xs ih =>
    simp only [grun]
    rw [ih]
    by_cases hx : x.1 = c
    · subst hx; simp [gstep, proj, stAfter]
    · have : (x.1 == c) = false := by simp [hx]
      have hc : ¬ c = x.1 := fun h => hx h.symm
      simp [gstep, proj, stAfter, this, hc]


end Hc.PairSetup
