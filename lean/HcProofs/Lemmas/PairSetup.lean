import HcModel.PairSetup
namespace Hc.PairSetup

/-- controller state after a history (same fold as `run`, without the observations) -/
def stAfter (fixed : Bool) (c : Nat) (st : St) (hist : List In) : St :=
  hist.foldl (fun s i => (step fixed c s i).1) st

theorem run_fst (fixed : Bool) (c : Nat) (st : St) (hist : List In) :
    (run fixed c st hist).1 = stAfter fixed c st hist := by
  induction hist generalizing st with
  | nil => simp [run, stAfter]
  | cons i is ih => simp only [run, stAfter, List.foldl_cons]; exact ih _

theorem run_snoc (fixed : Bool) (c : Nat) (st : St) (hist : List In) (i : In) :
    (run fixed c st (hist ++ [i])).2 =
      (run fixed c st hist).2 ++ [(step fixed c (stAfter fixed c st hist) i).2] := by
  induction hist generalizing st with
  | nil => simp [run, stAfter]
  | cons x xs ih => simp [run, stAfter, ih]

/-- the history ends with an accepted proof message for client key `a`, followed only by messages that do not
    touch the controller (`noop`) -/
def ProvedNow (c : Nat) (hist : List In) (a : Nat) : Prop :=
  ∃ pre post, hist = pre ++ [In.m3 (.good a) (.validFor c a true)] ++ post ∧ ∀ x ∈ post, x.noop = true

/-- invariant of the repaired controller: being at `verifyResp` means the session key and the encryption key come
    from a setup-code proof verified in the current exchange -/
def Inv (c : Nat) (hist : List In) (st : St) : Prop :=
  st.step = .verifyResp → ∃ a, ProvedNow c hist a ∧ st.S = .srp c a ∧ st.K = .ofS (.srp c a)

theorem inv_init (c : Nat) : Inv c [] init := by simp [Inv, init]

theorem provedNow_snoc_noop {c hist a} (i : In) (h : ProvedNow c hist a) (hi : i.noop = true) :
    ProvedNow c (hist ++ [i]) a := by
  obtain ⟨pre, post, rfl, hp⟩ := h
  refine ⟨pre, post ++ [i], by simp, ?_⟩
  intro x hx
  rcases List.mem_append.mp hx with hx | hx
  · exact hp x hx
  · simp at hx; subst hx; exact hi

theorem inv_step (c : Nat) (hist : List In) (st : St) (i : In) (h : Inv c hist st) :
    Inv c (hist ++ [i]) (step true c st i).1 := by
  cases i with
  | malformedTlv =>
    intro hs; obtain ⟨a, hp, h1, h2⟩ := h hs
    exact ⟨a, provedNow_snoc_noop _ hp rfl, h1, h2⟩
  | badMethod =>
    intro hs; obtain ⟨a, hp, h1, h2⟩ := h hs
    exact ⟨a, provedNow_snoc_noop _ hp rfl, h1, h2⟩
  | badState n =>
    intro hs; obtain ⟨a, hp, h1, h2⟩ := h hs
    exact ⟨a, provedNow_snoc_noop _ hp rfl, h1, h2⟩
  | m1 => simp only [step]; split <;> simp [Inv, reset]
  | m3 A p =>
    simp only [step]
    split
    · simp [Inv, reset]
    · cases A with
      | bad n => simp [Inv, reset]
      | good a =>
        simp only
        split
        · rename_i hp
          intro _
          exact ⟨a, ⟨hist, [], by simp [hp], by simp⟩, rfl, rfl⟩
        · simp [Inv]
  | m5 d =>
    simp only [step]
    split
    · simp [Inv, reset]
    · cases d with
      | short n => simp [Inv, reset]
      | sealed k nonceOk intact pt =>
        simp only
        split
        · simp [Inv, reset]
        · simp [Inv]
        · rename_i name key sig _
          cases key with
          | badLen n => simp [Inv, reset]
          | pk kn => simp only; split <;> simp [Inv, reset]

theorem inv_after (c : Nat) (pre hist : List In) (st : St) (h : Inv c pre st) :
    Inv c (pre ++ hist) (stAfter true c st hist) := by
  induction hist generalizing pre st with
  | nil => simpa [stAfter] using h
  | cons i is ih =>
    have := ih (pre ++ [i]) _ (inv_step c pre st i h)
    simpa [stAfter, List.append_assoc] using this

/-- one-step characterisation of the save effect (both directions) -/
theorem step_save_iff (c : Nat) (st : St) (i : In) (n k : Nat) :
    (step true c st i).2.2 = some (n, k) ↔
      st.step = .verifyResp ∧ i = .m5 (.sealed st.K true true (.tlv n (.pk k) (.valid k st.S n k))) := by
  constructor
  · intro hs
    cases i with
    | malformedTlv => simp [step] at hs
    | badMethod => simp [step] at hs
    | badState m => simp [step] at hs
    | m1 => simp only [step] at hs; split at hs <;> simp at hs
    | m3 A p =>
      simp only [step] at hs
      split at hs
      · simp at hs
      · cases A with
        | bad m => simp at hs
        | good a => simp only at hs; split at hs <;> simp at hs
    | m5 d =>
      simp only [step] at hs
      split at hs
      · simp at hs
      · rename_i hstep
        have hstep' : st.step = .verifyResp := by simpa using hstep
        cases d with
        | short m => simp at hs
        | sealed k' nonceOk intact pt =>
          simp only at hs
          split at hs
          · simp at hs
          · simp at hs
          · rename_i name key sig hopen
            cases key with
            | badLen m => simp at hs
            | pk kn =>
              simp only at hs
              split at hs
              · rename_i hsig
                simp at hs
                obtain ⟨rfl, rfl⟩ := hs
                simp only [openSealed] at hopen
                split at hopen
                · rename_i hk
                  obtain ⟨rfl, rfl, rfl⟩ := hk
                  simp at hopen; subst hopen
                  cases sig with
                  | valid signer s n' k' =>
                    simp [sigOk] at hsig
                    obtain ⟨⟨⟨rfl, rfl⟩, rfl⟩, rfl⟩ := hsig
                    exact ⟨hstep', rfl⟩
                  | garbage m => simp [sigOk] at hsig
                  | empty => simp [sigOk] at hsig
                · simp at hopen
              · simp at hs
  · rintro ⟨hstep, rfl⟩
    simp [step, hstep, openSealed, sigOk]

-- several connections: a connection's controller state depends only on its own messages -------------------------------

def proj (c : Nat) (h : List (Nat × In)) : List In := (h.filter (fun x => x.1 == c)).map (·.2)

theorem conn_state_is_projection (g : Global) (h : List (Nat × In)) (c : Nat) :
    (grun true g h).1.conns c = stAfter true c (g.conns c) (proj c h) := by
  induction h generalizing g with
  | nil => simp [grun, proj, stAfter]
  | cons x xs ih =>
    simp only [grun]
    rw [ih]
    by_cases hx : x.1 = c
    · subst hx; simp [gstep, proj, stAfter]
    · have : (x.1 == c) = false := by simp [hx]
      have hc : ¬ c = x.1 := fun h => hx h.symm
      simp [gstep, proj, stAfter, this, hc]


end Hc.PairSetup
