import HcModel.Crash
/-
  C18 — util/file_storage.go (as repaired: temporary sibling + rename) and db/database.go. Core Lean only.

    Go                                         Lean
    removeInvalidFileNameCharacters            stripColon
    fileStorage.filePathToFile                 fileName            (name inside the storage directory)
    fileStorage.Set                            setOps / set        (system-call sequence, tied to the
                                                                    regenerated trace by C19.setOps_matches_trace)
    fileStorage.Get / Delete / KeysWithSuffix  get / delete / keysWithSuffix
    NewFileStorage on an existing directory    reopen = id         (the object holds only the path)
    db.toEntityKey                             toEntityKey
    database.SaveEntity / EntityWithName /     saveEntity / entityWithName / deleteEntity / entities
      DeleteEntity / Entities
    encoding/json on db.Entity                 parameter `Codec`; the driver instance `modelCodec` stores
                                               the name the way encoding/json does (every byte that is not
                                               part of a well-formed UTF-8 sequence becomes U+FFFD)

  Outcomes the OS produces for unusable file names are explicit (`Res.err`); names the model does not
  describe (containing '/', or denoting the directory itself for Delete) give `Res.unmodelled`, the
  driver never generates them.
-/
namespace Hc.Storage
open Hc Hc.Fs

abbrev Key := Bytes

/-- `strings.Replace(fname, ":", "", -1)` -/
def stripColon (k : Key) : Name := k.filter (· ≠ 58)

def fileName (k : Key) : Name := stripColon k

def tmpName (n : Name) : Name := n ++ tmpSuffix

def dot : Name := [46]
def dotdot : Name := [46, 46]

/-- the path denotes the storage directory itself or its parent -/
def isDirName (n : Name) : Bool := n == [] || n == dot || n == dotdot

/-- file names on which `Set` works: a single path component (`NAME_MAX` = 255 also for the temporary
    sibling, no '/', no NUL), not the directory itself -/
def fileNameOk (n : Name) : Bool :=
  !isDirName n && !n.contains 47 && !n.contains 0 && n.length + 4 ≤ 255

/-- Keys for which the storage is a map without aliasing: usable file name, no ':' (which
    `removeInvalidFileNameCharacters` strips, so "a:b" and "ab" are the same file), and not of the
    reserved temporary form. -/
def KeyOk (k : Key) : Bool :=
  fileNameOk k && !k.contains 58 && !isTempName k

/-- the system calls of the repaired `Set` for file `n` -/
def setOps (n : Name) (v : Bytes) : List FsOp :=
  [.create (tmpName n), .truncate (tmpName n), .write (tmpName n) 0 v, .close, .rename (tmpName n) n]

inductive Res where
  | ok
  | err
  | val (b : Bytes)
  | keys (l : List Name)
  | unmodelled
deriving DecidableEq, Repr

def set (d : Dir) (k : Key) (v : Bytes) : Dir × Res :=
  let n := fileName k
  if isTempName n then (d, .err)                       -- reserved for temporary siblings: refused (F21 repair)
  else if n.contains 47 then (d, .unmodelled)
  else if fileNameOk n then (apply d (setOps n v), .ok)
  else (d, .err)

/-- `Get` opens read-only and reads until `Read` returns 0 bytes. A key whose file would be the storage directory itself
    (or its parent) is refused (F52 repair; before it opening the directory succeeded and reading it failed with 0
    bytes: such a key was "found", with an empty value, without ever having been set). -/
def get (d : Dir) (k : Key) : Res :=
  let n := fileName k
  if isTempName n then .err
  else if n.contains 47 then .unmodelled
  else if isDirName n then .err
  else match lookup d n with
    | some c => .val c
    | none => .err

def delete (d : Dir) (k : Key) : Dir × Res :=
  let n := fileName k
  if isTempName n then (d, .err)
  else if n.contains 47 then (d, .unmodelled)
  else if isDirName n then (d, .err)     -- F52 repair (before it `Delete("")` removed the storage directory when it was empty)
  else if (lookup d n).isSome then (erase d n, .ok) else (d, .err)

/-- the suffix is compared with the file names as they are (not stripped) -/
def keysWithSuffix (d : Dir) (s : Bytes) : Res :=
  .keys ((listSuffix d s).filter (fun n => !isTempName (stripColon n)))    -- temporary siblings are not keys

def reopen (d : Dir) : Dir := d

inductive Op where
  | set (k : Key) (v : Bytes)
  | get (k : Key)
  | delete (k : Key)
  | list (s : Bytes)
  | reopen
deriving Repr

def step (d : Dir) : Op → Dir × Res
  | .set k v => set d k v
  | .get k => (d, get d k)
  | .delete k => delete d k
  | .list s => (d, keysWithSuffix d s)
  | .reopen => (reopen d, .ok)

def run (d : Dir) : List Op → Dir × List Res
  | [] => (d, [])
  | op :: ops =>
    let (d1, r) := step d op
    let (d2, rs) := run d1 ops
    (d2, r :: rs)

-- specification: a map -------------------------------------------------------------------------

abbrev Spec := Key → Option Bytes

def Spec.empty : Spec := fun _ => none

def specStep (m : Spec) : Op → Spec
  | .set k v => fun k' => if k' = k then some v else m k'
  | .delete k => fun k' => if k' = k then none else m k'
  | _ => m

def specRun (m : Spec) : List Op → Spec
  | [] => m
  | op :: ops => specRun (specStep m op) ops

/-- what the map says the result of an operation must be -/
def ResOk (m : Spec) : Op → Res → Prop
  | .set _ _, r => r = .ok
  | .get k, r => r = match m k with | some v => .val v | none => .err
  | .delete k, r => r = if (m k).isSome then .ok else .err
  | .list s, r => ∃ l, r = .keys l ∧ l.Nodup ∧ ∀ k, k ∈ l ↔ ((m k).isSome ∧ s <:+ k)
  | .reopen, r => r = .ok

def Conforms : Spec → List Op → List Res → Prop
  | _, [], [] => True
  | m, op :: ops, r :: rs => ResOk m op r ∧ Conforms (specStep m op) ops rs
  | _, _, _ => False

def OpOk : Op → Bool
  | .set k _ => KeyOk k
  | .get k => KeyOk k
  | .delete k => KeyOk k
  | _ => true

/-- abstraction: the map a directory denotes -/
def abs (d : Dir) : Spec := fun k => if KeyOk k then lookup d k else none

-- UTF-8 as `unicode/utf8.DecodeRune` sees it ------------------------------------------------------

def isCont (b : UInt8) : Bool := 0x80 ≤ b && b ≤ 0xBF

/-- length of the well-formed UTF-8 sequence at the head (Unicode table 3-7), `none` if ill-formed
    (`DecodeRune` then returns `(RuneError, 1)`) -/
def runeLen : Bytes → Option Nat
  | [] => none
  | b0 :: r =>
    if b0 < 0x80 then some 1
    else if 0xC2 ≤ b0 && b0 ≤ 0xDF then
      match r with
      | b1 :: _ => if isCont b1 then some 2 else none
      | _ => none
    else if 0xE0 ≤ b0 && b0 ≤ 0xEF then
      match r with
      | b1 :: b2 :: _ =>
        let lo : UInt8 := if b0 = 0xE0 then 0xA0 else 0x80
        let hi : UInt8 := if b0 = 0xED then 0x9F else 0xBF
        if lo ≤ b1 && b1 ≤ hi && isCont b2 then some 3 else none
      | _ => none
    else if 0xF0 ≤ b0 && b0 ≤ 0xF4 then
      match r with
      | b1 :: b2 :: b3 :: _ =>
        let lo : UInt8 := if b0 = 0xF0 then 0x90 else 0x80
        let hi : UInt8 := if b0 = 0xF4 then 0x8F else 0xBF
        if lo ≤ b1 && b1 ≤ hi && isCont b2 && isCont b3 then some 4 else none
      | _ => none
    else none

/-- what `encoding/json` stores for a Go string: ill-formed bytes become U+FFFD (EF BF BD) -/
def sanitizeFuel : Nat → Bytes → Bytes
  | 0, _ => []
  | _, [] => []
  | f+1, b :: r =>
    match runeLen (b :: r) with
    | some n => (b :: r).take n ++ sanitizeFuel f ((b :: r).drop n)
    | none => [0xEF, 0xBF, 0xBD] ++ sanitizeFuel f r

def sanitize (b : Bytes) : Bytes := sanitizeFuel b.length b

def validFuel : Nat → Bytes → Bool
  | _, [] => true
  | 0, _ => false
  | f+1, b :: r =>
    match runeLen (b :: r) with
    | some n => validFuel f ((b :: r).drop n)
    | none => false

def validUtf8 (b : Bytes) : Bool := validFuel b.length b

-- database layer --------------------------------------------------------------------------------

def hexByte (n : Nat) : UInt8 := if n < 10 then UInt8.ofNat (48 + n) else UInt8.ofNat (87 + n)

/-- `hex.EncodeToString` as ASCII bytes -/
def hexEnc : Bytes → Bytes
  | [] => []
  | x :: r => hexByte (x.toNat / 16) :: hexByte (x.toNat % 16) :: hexEnc r

/-- ".entity" -/
def entitySuffix : Bytes := [46, 101, 110, 116, 105, 116, 121]

def toEntityKey (name : Bytes) : Key := hexEnc name ++ entitySuffix

structure Entity where
  name : Bytes
  pub : Bytes
  priv : Bytes
deriving DecidableEq, Repr

/-- `json.Marshal` / `json.Unmarshal` on `db.Entity` (not modelled; assumed to round-trip entities
    whose name is valid UTF-8 — `Codec.RoundTrips`) -/
structure Codec where
  enc : Entity → Bytes
  dec : Bytes → Option Entity

def Codec.RoundTrips (C : Codec) : Prop := ∀ e, validUtf8 e.name = true → C.dec (C.enc e) = some e

inductive DbRes where
  | ok
  | err
  | entity (e : Entity)
  | entities (l : List Entity)
  | unmodelled
deriving DecidableEq, Repr

def saveEntity (C : Codec) (d : Dir) (e : Entity) : Dir × DbRes :=
  match set d (toEntityKey e.name) (C.enc e) with
  | (d', .ok) => (d', .ok)
  | (d', _) => (d', .err)

def entityForKey (C : Codec) (d : Dir) (k : Key) : Option Entity :=
  match get d k with
  | .val b => C.dec b
  | _ => none

def entityWithName (C : Codec) (d : Dir) (name : Bytes) : DbRes :=
  match entityForKey C d (toEntityKey name) with
  | some e => .entity e
  | none => .err

/-- `DeleteEntity` has no result and ignores the storage error -/
def deleteEntity (d : Dir) (name : Bytes) : Dir × DbRes := ((delete d (toEntityKey name)).1, .ok)

def allSome : List (Option α) → Option (List α)
  | [] => some []
  | none :: _ => none
  | some a :: r => (allSome r).map (a :: ·)

def entities (C : Codec) (d : Dir) : DbRes :=
  match allSome ((listSuffix d entitySuffix).map (entityForKey C d)) with
  | some l => .entities l
  | none => .err

inductive DbOp where
  | save (e : Entity)
  | get (name : Bytes)
  | delete (name : Bytes)
  | all
  | reopen
deriving Repr

def dbStep (C : Codec) (d : Dir) : DbOp → Dir × DbRes
  | .save e => saveEntity C d e
  | .get n => (d, entityWithName C d n)
  | .delete n => deleteEntity d n
  | .all => (d, entities C d)
  | .reopen => (reopen d, .ok)

def dbRun (C : Codec) (d : Dir) : List DbOp → Dir × List DbRes
  | [] => (d, [])
  | op :: ops =>
    let (d1, r) := dbStep C d op
    let (d2, rs) := dbRun C d1 ops
    (d2, r :: rs)

abbrev DbSpec := Bytes → Option Entity

def dbSpecStep (m : DbSpec) : DbOp → DbSpec
  | .save e => fun n => if n = e.name then some e else m n
  | .delete name => fun n => if n = name then none else m n
  | _ => m

def DbResOk (m : DbSpec) : DbOp → DbRes → Prop
  | .save _, r => r = .ok
  | .get n, r => r = match m n with | some e => .entity e | none => .err
  | .delete _, r => r = .ok
  | .all, r => ∃ l, r = .entities l ∧ l.Nodup ∧ ∀ e, e ∈ l ↔ m e.name = some e
  | .reopen, r => r = .ok

def DbConforms : DbSpec → List DbOp → List DbRes → Prop
  | _, [], [] => True
  | m, op :: ops, r :: rs => DbResOk m op r ∧ DbConforms (dbSpecStep m op) ops rs
  | _, _, _ => False

/-- names the database is a map on: valid UTF-8 (JSON) and short enough for the file name -/
def NameOk (name : Bytes) : Bool := validUtf8 name && name.length ≤ 122

def DbOpOk : DbOp → Bool
  | .save e => NameOk e.name
  | .get n => NameOk n
  | .delete n => NameOk n
  | _ => true

-- executable codec instance for the driver ---------------------------------------------------------

def lenPrefixed (b : Bytes) : Bytes := leN 4 b.length ++ b

def takeLenPrefixed (b : Bytes) : Option (Bytes × Bytes) :=
  if b.length < 4 then none
  else
    let n := unleN (b.take 4)
    let r := b.drop 4
    if r.length < n then none else some (r.take n, r.drop n)

/-- stand-in for the JSON text: only what comes back matters to the driver. The name is stored the
    way `encoding/json` stores it (`sanitize`). -/
def modelCodec : Codec where
  enc e := lenPrefixed (sanitize e.name) ++ lenPrefixed e.pub ++ lenPrefixed e.priv
  dec b := do
    let (n, r1) ← takeLenPrefixed b
    let (p, r2) ← takeLenPrefixed r1
    let (s, r3) ← takeLenPrefixed r2
    if r3 = [] then some ⟨n, p, s⟩ else none

end Hc.Storage
