/-
  Model of the read path of an encrypted hap.Connection (C07), following hap/connection.go after
  `fix: keep undecrypted bytes across reads …` (DecryptedRead).

  Go                                                            | here
  --------------------------------------------------------------+------------------------------------------
  con.readBuffer (*bytes.Buffer, decrypted, not yet handed out) | St.rem
  con.buffered (*bufio.Reader, persistent per connection)       | St.buf = number of buffered bytes of the peer's stream
  bytes of the peer's stream not yet received                   | St.flight
  frames of the stream not yet consumed from con.buffered       | St.todo
  con.connection.Close() was called                             | St.closed
  `for readBuffer == nil || readBuffer.Len() == 0 { … }`        | fetch  (one iteration per frame / per network event)
  buffered.Peek(2); buffered.Peek(2+len+16)  (fill = 1 net read)| `f.size ≤ s.buf`, otherwise `more` (consumes one event)
  Decrypt(io.LimitReader(buffered, size)): exactly one frame    | frame dropped from todo; `ok = false` → Close, (0, decryption error), sticky
  Peek fails (not a timeout): Close, return the read error      | Ev.closed → Res.eof (nothing buffered) / Res.cut (part of a frame
                                                                |   buffered: io.ErrUnexpectedEOF), St.closed; closed before → Res.closed true
  readBuffer.Read(b)  (bytes.Buffer.Read)                       | bufRead
  net.Conn.Read: data / deadline error (Timeout() = true) / EOF | Ev.seg n / Ev.idle / Ev.closed

  Frame-level abstraction: the peer's stream is a list of frames (plaintext, `ok` = authenticates under the
  receiver's next counter); a frame occupies 2 + |plaintext| + 16 bytes. The network delivers the stream in
  segments of arbitrary byte counts (`seg n` = the next n bytes, cut at any offset, never more than was sent).
  The plaintext alphabet is a parameter (bytes in the code; the driver uses stream offsets).
  bufio's capacity (2+65535+16, at least the largest frame) is not modelled: a segment larger than the free
  space is consumed in pieces, the remainder stays in the kernel, which is indistinguishable at this interface.
-/
namespace Hc.ConnRead

structure Frame (α : Type) where
  plain : List α
  ok    : Bool

def Frame.size {α : Type} (f : Frame α) : Nat := 2 + f.plain.length + 16

inductive Ev
  | seg (n : Nat)   -- the next n bytes of the stream arrive
  | idle            -- the read deadline fires
  | closed          -- the peer closed the connection (EOF)
deriving DecidableEq, Repr

/-- result of one `Connection.Read` -/
inductive Res (α : Type)
  | data (bs : List α)     -- (len bs, nil)
  | eof                    -- (0, io.EOF): the peer closed (the connection is closed in turn), or bytes.Buffer.Read on an empty buffer
  | cut                    -- (0, io.ErrUnexpectedEOF): the stream ended inside a frame (F65); the connection is closed in turn
  | timeout                -- (0, net.Error with Timeout() = true)
  | closed (again : Bool)  -- `false`: decryption failed, connection closed, (0, the decryption error);
                           -- `true`: the connection was closed before: (0, read error / Close() error)
  | block                  -- the call does not return: no event left
deriving DecidableEq, Repr

structure St (α : Type) where
  rem    : List α
  buf    : Nat
  flight : Nat
  todo   : List (Frame α)
  closed : Bool

def streamSize {α : Type} : List (Frame α) → Nat
  | [] => 0
  | f :: r => f.size + streamSize r

def plainOf {α : Type} : List (Frame α) → List α
  | [] => []
  | f :: r => f.plain ++ plainOf r

def init {α : Type} (fs : List (Frame α)) : St α :=
  { rem := [], buf := 0, flight := streamSize fs, todo := fs, closed := false }

/-- bytes.Buffer.Read: an empty buffer reports io.EOF (unless the caller's slice is empty) -/
def bufRead {α : Type} (rem : List α) (b : Nat) : Res α × List α :=
  if rem.isEmpty then (if b = 0 then .data [] else .eof, [])
  else (.data (rem.take b), rem.drop b)

/-- the loop of DecryptedRead: runs until a non-empty plaintext is in `rem` (`none`) or the call returns early.
    (`rem` is empty whenever the loop runs.) -/
def fetchAux {α : Type} (buf flight : Nat) (closed : Bool) (todo : List (Frame α)) (net : List Ev) :
    St α × List Ev × Option (Res α) :=
  match todo with
  | f :: r =>
    if f.size ≤ buf then
      if f.ok then
        if f.plain.isEmpty then fetchAux (buf - f.size) flight closed r net
        else (⟨f.plain, buf - f.size, flight, r, closed⟩, net, none)
      else (⟨[], 0, 0, [], true⟩, net, some (.closed closed))
    else if closed then (⟨[], buf, flight, f :: r, closed⟩, net, some (.closed true))
    else match net with
      | [] => (⟨[], buf, flight, f :: r, closed⟩, [], some .block)
      | .seg n :: net' => fetchAux (buf + min n flight) (flight - min n flight) closed (f :: r) net'
      | .idle :: net' => (⟨[], buf, flight, f :: r, closed⟩, net', some .timeout)
      | .closed :: net' => (⟨[], buf, flight, f :: r, true⟩, net', some (if buf = 0 then .eof else .cut))
  | [] =>
    if closed then (⟨[], buf, flight, [], closed⟩, net, some (.closed true))
    else match net with
      | [] => (⟨[], buf, flight, [], closed⟩, [], some .block)
      | .seg n :: net' => fetchAux (buf + min n flight) (flight - min n flight) closed [] net'
      | .idle :: net' => (⟨[], buf, flight, [], closed⟩, net', some .timeout)
      | .closed :: net' => (⟨[], buf, flight, [], true⟩, net', some (if buf = 0 then .eof else .cut))
termination_by net.length + todo.length
decreasing_by all_goals simp_all <;> omega

def fetch {α : Type} (s : St α) (net : List Ev) : St α × List Ev × Option (Res α) :=
  fetchAux s.buf s.flight s.closed s.todo net

/-- Connection.Read on an encrypted connection (DecryptedRead) with a caller buffer of `b` bytes -/
def read {α : Type} (s : St α) (net : List Ev) (b : Nat) : St α × List Ev × Res α :=
  if !s.rem.isEmpty then ({ s with rem := (bufRead s.rem b).2 }, net, (bufRead s.rem b).1)
  else match fetch s net with
    | (s', net', some r) => (s', net', r)
    | (s', net', none) => ({ s' with rem := (bufRead s'.rem b).2 }, net', (bufRead s'.rem b).1)

/-- a sequence of reads with the given caller buffer sizes: final state, unconsumed events, results -/
def run {α : Type} (s : St α) (net : List Ev) : List Nat → St α × List Ev × List (Res α)
  | [] => (s, net, [])
  | b :: bs =>
    let x := read s net b
    let y := run x.1 x.2.1 bs
    (y.1, y.2.1, x.2.2 :: y.2.2)

/-- what the caller was told before the repair of F65: the end of the stream inside a frame was `io.EOF` too -/
def Res.unfixed {α : Type} : Res α → Res α
  | .cut => .eof
  | r => r

def out {α : Type} : Res α → List α
  | .data bs => bs
  | _ => []

def dataOf {α : Type} : List (Res α) → List α
  | [] => []
  | r :: rs => out r ++ dataOf rs

def segBytes : List Ev → Nat
  | [] => 0
  | .seg n :: r => n + segBytes r
  | _ :: r => segBytes r

def allOk {α : Type} (fs : List (Frame α)) : Bool := fs.all (·.ok)

/-- enough of the stream is buffered to hand out data without touching the network: the buffered bytes cover all
    frames up to and including the first one with a non-empty plaintext -/
def readyAux {α : Type} : Nat → List (Frame α) → Bool
  | _, [] => false
  | have_, f :: r =>
    if f.size ≤ have_ then (if f.ok then (if f.plain.isEmpty then readyAux (have_ - f.size) r else true) else false)
    else false

def ready {α : Type} (s : St α) : Bool := !s.rem.isEmpty || readyAux s.buf s.todo

end Hc.ConnRead
