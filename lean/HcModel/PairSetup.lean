/-
  Symbolic model of the accessory side of pair-setup:
    hap/pair/setup_server_controller.go (Handle, handlePairStart, handlePairVerify, handleKeyExchange, reset)
    hap/pair/setup_server_session.go    (SRP server session: one per EXCHANGE — the controller of a connection starts with a
                                         prepared session and draws a new one for every further start request it accepts; F43)
    hap/endpoint/pair-setup.go          (controller per connection; HTTP 500 on error)

  Cryptographic values are *references* (free-algebra idealisation, DESIGN.md §4): two references are equal iff
  they were built the same way. `SRef.srp c e a` is the SRP session key the `e`-th server session of connection `c`
  (its own b, B, salt, verifier-of-the-setup-code) computes from client public key number `a`; computing it on the
  client side needs the setup code (SRP assumption, trusted base). The correspondence harness constructs the concrete
  bytes for every constructor below with its own reference SRP client / AEAD / Ed25519.
-/
namespace Hc.PairSetup

/-- the value of `session.PrivateKey` -/
inductive SRef
  | nil                            -- never set (Go nil slice)
  | srp (conn : Nat) (epoch : Nat) (a : Nat)  -- S computed by the `epoch`-th server session of connection `conn` from client key `a`
deriving DecidableEq, Repr

/-- an AEAD key as used by a sender / held in `session.EncryptionKey` -/
inductive KRef
  | zero                           -- the all-zero initial value of the Go array
  | ofS (s : SRef)                 -- HKDF-SHA512(s, "Pair-Setup-Encrypt-Salt", "Pair-Setup-Encrypt-Info")
  | rand (n : Nat)                 -- any other key (guessed, random, from another protocol)
deriving DecidableEq, Repr

/-- client SRP public key `A` -/
inductive ARef
  | good (a : Nat)                 -- A mod N ≠ 0 (and the server-side sanity checks pass)
  | bad (n : Nat)                  -- A ≡ 0 (mod N), or missing: `ComputeKey` returns an error
deriving DecidableEq, Repr

/-- client proof `M1` -/
inductive Proof
  | validFor (conn : Nat) (epoch : Nat) (a : Nat) (codeOk : Bool) -- M1 computed for the B/salt of the `epoch`-th session of connection `conn`, key `a`, with the right / a wrong setup code
  | garbage (n : Nat)
  | empty
deriving DecidableEq, Repr

/-- Ed25519 signature carried in M5 -/
inductive SigRef
  | valid (signer : Nat) (s : SRef) (name : Nat) (key : Nat)  -- sign(sk_signer, HKDF(s, ctrl-sign labels) ‖ name ‖ pk_key)
  | garbage (n : Nat)
  | empty
deriving DecidableEq, Repr

inductive KeyClass
  | pk (n : Nat)                   -- a 32-byte Ed25519 public key (key pair number n)
  | badLen (n : Nat)               -- wrong length (rejected by ValidateED25519Signature)
deriving DecidableEq, Repr

/-- decrypted sub-TLV of M5 -/
inductive Plain
  | tlv (name : Nat) (key : KeyClass) (sig : SigRef)
  | malformed                      -- not parseable as TLV8
deriving DecidableEq, Repr

/-- value of the EncryptedData item of M5 -/
inductive EncData
  | short (n : Nat)                -- fewer than 16 bytes (no room for the tag)
  | sealed (k : KRef) (nonceOk : Bool) (intact : Bool) (pt : Plain)
deriving DecidableEq, Repr

inductive In
  | m1
  | m3 (A : ARef) (p : Proof)
  | m5 (d : EncData)
  | badMethod                      -- method item present and ≠ 0
  | badState (n : Nat)             -- state item ∉ {1,3,5}
  | malformedTlv                   -- body is not TLV8 (handler not reached)
deriving DecidableEq, Repr

inductive Step | waiting | startResp | verifyResp | exchResp
deriving DecidableEq, Repr

structure St where
  step : Step
  S : SRef
  K : KRef
  /-- number of the SRP session in use (0 = the one prepared with the controller) -/
  epoch : Nat := 0
  /-- a start request was accepted before: the next one that is accepted draws a new session -/
  started : Bool := false
deriving DecidableEq, Repr

def init : St := { step := .waiting, S := .nil, K := .zero, epoch := 0, started := false }

/-- observable answer: HTTP 500, or a TLV8 body (first State item, optional error code, presence of key+salt / proof / encrypted data) -/
inductive Out
  | http500
  | tlv (state : Nat) (err : Option Nat) (hasKey hasProof hasEnc : Bool)
  | panic                          -- the handler panics (net/http then drops the connection without an answer)
deriving DecidableEq, Repr

/-- effect on the pairing database: `SaveEntity(name, key)` -/
abbrev Save := Option (Nat × Nat)

def openSealed (st : St) : EncData → Option Plain
  | .short _ => none
  | .sealed k nonceOk intact pt => if k = st.K ∧ nonceOk ∧ intact then some pt else none

def sigOk (st : St) (name : Nat) (key : Nat) : SigRef → Bool
  | .valid signer s n k => signer == key && s == st.S && n == name && k == key
  | _ => false

def reset (st : St) : St := { st with step := .waiting }

/-- the name (number) of the accessory itself: its key pair is stored in the same database under this name, so a
    controller that claims it is refused (F16 repair; before it the pairing replaced the accessory's key pair) -/
def ownName : Nat := 0

/-- the proof an `m3` must carry: made for this connection, this client key, with the right code — and, when sessions
    are renewed, for the session of the CURRENT exchange -/
def proofOk (renew : Bool) (c : Nat) (st : St) (a : Nat) : Proof → Bool
  | .validFor c' e' a' ok => c' == c && a' == a && ok && (!renew || e' == st.epoch)
  | _ => false

/-- one request on connection `c` (the repaired controller; `fixed := false` reproduces the behaviour before the
    `fix:` commits: step kept at verifyResp when `ComputeKey` fails; slicing a short M5 and `log.Info.Panic` on an
    authentication failure panic; `renew := false` the single SRP session per connection before F43's repair) -/
def stepR (fixed renew : Bool) (c : Nat) (st : St) : In → St × Out × Save
  | .malformedTlv => (st, .http500, none)
  | .badMethod => (st, .http500, none)
  | .badState _ => (st, .http500, none)
  | .m1 =>
    if st.step ≠ .waiting then (reset st, .http500, none)
    else ({ st with step := .startResp, started := true,
                    epoch := if renew && st.started then st.epoch + 1 else st.epoch }, .tlv 2 none true false false, none)
  | .m3 A p =>
    if st.step ≠ .startResp then (reset st, .http500, none)
    else match A with
      | .bad _ => (if fixed then reset st else { st with step := .verifyResp }, .http500, none)
      | .good a =>
        let S := SRef.srp c (if renew then st.epoch else 0) a
        if proofOk renew c st a p then
          ({ st with step := .verifyResp, S := S, K := .ofS S }, .tlv 4 none false true false, none)
        else ({ st with step := .waiting, S := S }, .tlv 4 (some 2) false false false, none)
  | .m5 d =>
    if st.step ≠ .verifyResp then (reset st, .http500, none)
    else match d with
      | .short _ => if fixed then (reset st, .http500, none) else ({ st with step := .exchResp }, .panic, none)
      | .sealed k nonceOk intact pt =>
        match openSealed st (.sealed k nonceOk intact pt) with
        | none => (reset st, if fixed then .tlv 6 (some 1) false false false else .panic, none)
        | some .malformed => ({ st with step := .exchResp }, .http500, none)
        | some (.tlv name key sig) =>
          match key with
          | .badLen _ => (reset st, .tlv 6 (some 2) false false false, none)
          | .pk kn =>
            if sigOk st name kn sig then
              if name = ownName then (reset st, .tlv 6 (some 1) false false false, none)   -- F16 repair
              else ({ st with step := .exchResp }, .tlv 6 none false false true, some (name, kn))
            else (reset st, .tlv 6 (some 2) false false false, none)

def step (fixed : Bool) (c : Nat) (st : St) (i : In) : St × Out × Save := stepR fixed true c st i

/-- inputs that never change the controller state -/
def In.noop : In → Bool
  | .malformedTlv | .badMethod | .badState _ => true
  | _ => false

/-- run a history on one connection; returns final state and the per-message observations -/
def run (fixed : Bool) (c : Nat) : St → List In → St × List (Out × Save)
  | st, [] => (st, [])
  | st, i :: is =>
    let (st', o, s) := step fixed c st i
    let (stf, rest) := run fixed c st' is
    (stf, (o, s) :: rest)

-- several connections sharing one pairing database ---------------------------------------------------

structure Global where
  conns : Nat → St
  store : List (Nat × Nat)      -- (name, key), newest first; lookup = first match

def Global.init : Global := { conns := fun _ => PairSetup.init, store := [] }

def gstep (fixed : Bool) (g : Global) (ci : Nat × In) : Global × Out :=
  let (st', o, s) := step fixed ci.1 (g.conns ci.1) ci.2
  ({ conns := fun c => if c = ci.1 then st' else g.conns c,
     store := match s with | some nk => nk :: g.store | none => g.store }, o)

def grun (fixed : Bool) : Global → List (Nat × In) → Global × List Out
  | g, [] => (g, [])
  | g, x :: xs =>
    let (g', o) := gstep fixed g x
    let (gf, os) := grun fixed g' xs
    (gf, o :: os)

end Hc.PairSetup
