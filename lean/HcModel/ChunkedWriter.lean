import HcModel.Bytes
/-
  hap/chunked_writer.go — `chunkedWriter.Write` as the LOOP it is, over a response writer that may accept less than it
  is offered or fail (C09: "after JSON, HTTP chunking and encryption"; `CharHttp.chunkedWrite` is the behaviour of this
  loop over a writer that keeps the io.Writer contract, see `C09.chunked_loop_is_chunks`).

      for nn < max { end = min(nn+chunk, max); n, err := wr.Write(p[nn:end]); if err != nil { return nn, err }; nn += n }
      return nn, nil

  The underlying writer is a parameter: a script of per-call behaviours (`acc` bytes accepted — capped at what was
  offered, a writer cannot accept more — and whether the call fails); once the script is used up every call accepts all
  it is offered (net/http's response writer and hap.Connection keep the io.Writer contract). Not modelled: a writer that
  accepts nothing for ever without an error (the Go loop would spin; no writer the library hands over does that), and
  chunk = 0 (the three call sites pass 2048; the driver refuses 0).
-/
namespace Hc.ChunkedWriter

structure Resp where
  acc : Nat
  err : Bool
  deriving Repr, DecidableEq

structure Out where
  /-- the count `Write` returns -/
  nn : Nat
  err : Bool
  /-- the slices handed to the underlying writer, in order -/
  offered : List Bytes
  /-- of each call that returned without error, the part the writer took -/
  accepted : List Bytes
  deriving Repr, DecidableEq

def loop (n : Nat) (hn : 0 < n) (p : Bytes) (nn : Nat) (script : List Resp) (off acd : List Bytes) : Out :=
  if h : nn < p.length then
    let piece := (p.drop nn).take n
    match script with
    | [] => loop n hn p (nn + piece.length) [] (off ++ [piece]) (acd ++ [piece])
    | r :: rs =>
      if r.err then ⟨nn, true, off ++ [piece], acd⟩
      else loop n hn p (nn + min r.acc piece.length) rs (off ++ [piece]) (acd ++ [piece.take r.acc])
  else ⟨nn, false, off, acd⟩
termination_by (script.length, p.length - nn)
decreasing_by
  · apply Prod.Lex.right
    have : 0 < ((p.drop nn).take n).length := by simp [List.length_take, List.length_drop]; omega
    have : ((p.drop nn).take n).length ≤ p.length - nn := by simp [List.length_take, List.length_drop]; omega
    omega
  · apply Prod.Lex.left
    simp

/-- `hap.NewChunkedWriter(w, n).Write(p)` over the writer `script` -/
def write (n : Nat) (hn : 0 < n) (p : Bytes) (script : List Resp) : Out := loop n hn p 0 script [] []

end Hc.ChunkedWriter
