import HcModel.Characteristic
/-
  Updates of a characteristic that are made while the callbacks of another update of the same
  characteristic are running (characteristic/characteristic.go, `updateValue` → `onValueUpdate` /
  `onValueUpdateFromConn` → application code → `UpdateValue` again). Core Lean only.

  The application's callbacks are a parameter: `React` says what they do when they are called with a
  new value — nothing, or `UpdateValue(w)` on the same characteristic (an application that corrects
  what a controller wrote, a value that moves on, a second writer whose update arrives while the
  first one's callback has not returned: the same call nesting in all three).

  Go's call stack is the recursion; `fuel` bounds it (a reaction table with a cycle of different
  values recurses until the Go stack overflows, which is fatal: `.panic`).
-/
namespace Hc.Charac
open Hc

abbrev React := GVal → Option GVal

/-- reactions given as a table over integer values (the form the driver and the harness use) -/
def reactOf (tbl : List (Int × Int)) : React
  | .int i => (tbl.find? (fun p => p.1 == i)).map (fun p => .int p.2)
  | _ => none

/-- `updateValue` with the callbacks' own updates. `guarded` is the variant with a "don't recurse"
    flag (an update that arrives while callbacks run is ignored) — not what the code does. -/
def updateRe (guarded : Bool) (react : React) : Nat → Chr → GVal → Bool → Bool → Chr × Outcome
  | 0, c, _, _, _ => (c, .panic)
  | fuel + 1, c, v, fc, cp =>
    let r := updateValue c v fc cp
    match r.2 with
    | .panic => r
    | .ok =>
      if r.1.log.length = c.log.length then r          -- no callback was called
      else match r.1.log.getLast? with
        | none => r
        | some e =>
          match react e.new with
          | none => r
          | some w => if guarded then r else updateRe guarded react fuel r.1 w false false

end Hc.Charac
