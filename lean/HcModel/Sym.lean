/-
  Symbolic cryptographic terms (free algebra): two terms are equal iff they were built the same way.
  Used by the specification-level model of C04. `seal` is a reserved word in Lean 4.33, hence `aead`.
-/
namespace Hc.Sym

inductive Term
  | str (s : String)                       -- constant label / literal
  | atom (n : Nat)                         -- secret, random value or identity chosen by a party
  | cat (a b : Term)                       -- concatenation (associates to the right, ends in `empty`)
  | empty
  | hkdf (ikm salt info : Term)            -- HKDF-SHA-512, 32 bytes
  | aead (k nonce ad pt : Term)            -- ChaCha20-Poly1305 ciphertext ‖ tag
  | edpub (sk : Term)                      -- Ed25519 public key
  | sig (sk msg : Term)                    -- Ed25519 signature
  | xpub (sk : Term)                       -- Curve25519 public key
  | shared (ctrlSk accSk : Term)           -- X25519 shared secret of the two secrets (either side computes the same)
  | srpx (user pw salt : Term)             -- x = H(s | H(I ":" P))
  | srpA (a : Term)                        -- g^a
  | srpB (b x : Term)                      -- k·g^x + g^b
  | srpK (a b x : Term)                    -- H(premaster secret): both sides arrive at it iff they use the same x
  | srpM1 (user salt A B K : Term)
  | srpM2 (A M1 K : Term)
deriving DecidableEq, Repr

open Term

def catL : List Term → Term
  | [] => empty
  | t :: ts => cat t (catL ts)

def openAead (k nonce ad c : Term) : Option Term :=
  match c with
  | aead k' n' ad' pt => if k' = k ∧ n' = nonce ∧ ad' = ad then some pt else none
  | _ => none

def verifySig (pk msg s : Term) : Bool :=
  match s with
  | sig sk m => (edpub sk == pk) && (m == msg)
  | _ => false

/-- X25519 as computed by the controller (knows its secret, sees the accessory's public key) -/
def dhCtrl (ctrlSk accPk : Term) : Term :=
  match accPk with
  | xpub accSk => shared ctrlSk accSk
  | other => cat (str "dh-garbage") other

/-- X25519 as computed by the accessory -/
def dhAcc (accSk ctrlPk : Term) : Term :=
  match ctrlPk with
  | xpub ctrlSk => shared ctrlSk accSk
  | other => cat (str "dh-garbage") other

/-- SRP session key as computed by the server from the client's public value -/
def srpServerK (A b x : Term) : Term :=
  match A with
  | srpA a => srpK a b x
  | other => cat (str "srp-garbage") other

/-- SRP session key as computed by the client from the server's public value and its own idea of x -/
def srpClientK (a B x : Term) : Term :=
  match B with
  | srpB b _ => srpK a b x
  | other => cat (str "srp-garbage") other

end Hc.Sym
