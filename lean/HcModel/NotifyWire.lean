import HcModel.Bytes
/-
  hap/notification.go FixProtocolSpecifier: `strings.Replace(s, "HTTP/1.0", "EVENT/1.0", 1)` on the serialised
  notification (net/http writes the status line "HTTP/1.0 200 OK" first; the JSON body with the characteristic's value
  follows the header).
-/
namespace Hc.NotifyWire
open Hc

/-- "HTTP/1.0" -/
def http10 : Bytes := [72, 84, 84, 80, 47, 49, 46, 48]
/-- "EVENT/1.0" -/
def event10 : Bytes := [69, 86, 69, 78, 84, 47, 49, 46, 48]

/-- replace the first occurrence of `pat` (non-empty) by `rep` -/
def replaceFirst (pat rep : Bytes) : Bytes → Bytes
  | [] => []
  | x :: xs => if pat.isPrefixOf (x :: xs) then rep ++ (x :: xs).drop pat.length else x :: replaceFirst pat rep xs

def fixProto (b : Bytes) : Bytes := replaceFirst http10 event10 b

end Hc.NotifyWire
