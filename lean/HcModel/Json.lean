/-
  JSON values and float64 numbers as they reach `characteristic.updateValue` (core Lean only).

  Number representation (the choice asked for in DESIGN §4): a float64 is `F64`, i.e. NaN, ±Inf or
  a *finite* value `(-1)^neg · m · 2^e` carried exactly as sign / natural mantissa / integer
  exponent (a dyadic rational). Canonical form: `m` odd, or `m = 0 ∧ e = 0` (then `neg` tells +0
  from -0). Every finite float64 has exactly one such form; the Go harness prints it from
  `math.Float64bits` and parses it back losslessly, so no decimal text and no rounding is involved
  in the wire format. Rounding *is* modelled where Go rounds: `strconv.ParseFloat` (decimal / hex
  text → nearest-even float64, overflow → ±Inf, underflow → subnormal / 0), `float64(int)`, and the
  shortest-digits `%g` formatting used by `to.String` / `fmt "%v"` (`F64.fmtG`).

  Go ↔ Lean:
    strconv.ParseFloat(s, 64) with the error dropped  ↔ `parseFloat`
    strconv.ParseUint(s, 10, 64) with the error dropped ↔ `parseUint`
    strconv.AppendFloat(_, x, 'g', -1, 64)             ↔ `F64.fmtG`
    fmt.Sprintf("%v", v) on decoded JSON               ↔ `JVal.fmtV`
    uint64(float64) on go1.23/amd64 (measured)         ↔ `F64.toUint64`
-/
namespace Hc

/-- IEEE-754 binary64 values. -/
inductive F64 where
  | nan
  | inf (neg : Bool)
  | fin (neg : Bool) (m : Nat) (e : Int)
  deriving Repr, DecidableEq, Inhabited

namespace F64

def normAux : Nat → Nat → Int → Nat × Int
  | 0, m, e => (m, e)
  | fuel+1, m, e => if m % 2 == 0 && m != 0 then normAux fuel (m / 2) (e + 1) else (m, e)

/-- canonical finite value `(-1)^neg · m · 2^e` (no range check) -/
def mkFin (neg : Bool) (m : Nat) (e : Int) : F64 :=
  if m == 0 then .fin neg 0 0 else
    let r := normAux (m.log2 + 1) m e
    .fin neg r.1 r.2

def zero : F64 := .fin false 0 0
def one : F64 := .fin false 1 0

def isFinite : F64 → Bool
  | .fin .. => true
  | _ => false

/-- `p / (q·2^e)` as a fraction of naturals -/
def scaled (p q : Nat) (e : Int) : Nat × Nat :=
  if e ≥ 0 then (p, q <<< e.toNat) else (p <<< (-e).toNat, q)

/-- The float64 nearest to `(-1)^neg · p/q` (ties to even), `±Inf` on overflow, subnormals and
    zero on underflow: what `strconv.ParseFloat` and `float64(int)` compute. -/
def ofRat (neg : Bool) (p q : Nat) : F64 :=
  if p == 0 || q == 0 then .fin neg 0 0 else
  let e0 : Int := (p.log2 : Int) - (q.log2 : Int) - 52
  let nd0 := scaled p q e0
  let q0 := nd0.1 / nd0.2
  let e1 : Int := if q0 ≥ 2^53 then e0 + 1 else if q0 < 2^52 then e0 - 1 else e0
  let e : Int := if e1 < -1074 then -1074 else e1
  let nd := scaled p q e
  let mant := nd.1 / nd.2
  let r := nd.1 % nd.2
  let mant := if 2 * r > nd.2 || (2 * r == nd.2 && mant % 2 == 1) then mant + 1 else mant
  if e > 971 || (e == 971 && mant ≥ 2^53) then .inf neg else mkFin neg mant e

/-- `(-1)^neg · m · base^x` rounded to float64 -/
def ofScaled (neg : Bool) (m : Nat) (base : Nat) (x : Int) : F64 :=
  if x ≥ 0 then ofRat neg (m * base ^ x.toNat) 1 else ofRat neg m (base ^ (-x).toNat)

/-- Go's `float64(i)` for an `int` -/
def ofInt (i : Int) : F64 := ofRat (i < 0) i.natAbs 1

def signed (neg : Bool) (n : Nat) : Int := if neg then -(n : Int) else n

/-- Go's `<` on float64 (false whenever a NaN is involved; -0 is not below +0) -/
def lt : F64 → F64 → Bool
  | .nan, _ => false
  | _, .nan => false
  | .inf n1, .inf n2 => n1 && !n2
  | .inf n, .fin .. => n
  | .fin .., .inf n => !n
  | .fin n1 m1 e1, .fin n2 m2 e2 =>
    let e0 := if e1 ≤ e2 then e1 else e2
    decide (signed n1 (m1 <<< (e1 - e0).toNat) < signed n2 (m2 <<< (e2 - e0).toNat))

/-- `a ≤ b` for non-NaN values -/
def le (a b : F64) : Bool := !lt b a

/-- Go's `==` on float64: NaN differs from everything, -0 == +0 -/
def eq : F64 → F64 → Bool
  | .nan, _ => false
  | _, .nan => false
  | a, b => !lt a b && !lt b a

/-- Go's `uint64(x)` as compiled by go1.23 on amd64 (measured): truncation toward zero, reduced
    mod 2^64, for `-2^63 ≤ x < 2^64`; `0x8000000000000000` for everything else incl. NaN, ±Inf. -/
def toUint64 : F64 → Nat
  | .fin neg m e =>
    let t : Nat := if e ≥ 0 then m <<< e.toNat else m >>> (-e).toNat
    if neg then (if t ≤ 2^63 then (2^64 - t) % 2^64 else 2^63)
    else (if t < 2^64 then t else 2^63)
  | _ => 2^63

/-- Go's `int64(x)` as compiled by go1.23 on amd64 (CVTTSD2SQ, measured): truncation toward zero for `|x| < 2^63`;
    `-2^63` for everything else incl. NaN, ±Inf. (Unlike `uint64(x)` of a NEGATIVE x, which the language leaves to the
    implementation — arm64 saturates to 0 where amd64 wraps —, this is defined by the language for every value that is
    representable: F44.) -/
def toInt64 : F64 → Int
  | .fin neg m e =>
    let t : Nat := if e ≥ 0 then m <<< e.toNat else m >>> (-e).toNat
    if neg then (if t ≤ 2^63 then -(t : Int) else -(2^63 : Int))
    else (if t < 2^63 then (t : Int) else -(2^63 : Int))
  | _ => -(2^63 : Int)

/-- integer part (toward zero) of a float, brought into `[lo, hi]`: `hi` / `lo` for everything beyond (also ±Inf), the
    integer nearest to 0 in the interval for NaN. What `truncate` of characteristic.go computes (F53 repair) — unlike
    `uint64(x)` / `int64(x)` above, the same on every platform. -/
def truncSat (lo hi : Int) : F64 → Int
  | .fin neg m e =>
    let t : Nat := if e ≥ 0 then m <<< e.toNat else m >>> (-e).toNat
    let i : Int := if neg then -(t : Int) else (t : Int)
    if i > hi then hi else if i < lo then lo else i
  | .inf neg => if neg then lo else hi
  | .nan => if (0 : Int) > hi then hi else if (0 : Int) < lo then lo else 0

-- shortest-digits formatting ---------------------------------------------------------------------

/-- `m·2^e` as a fraction -/
def frac (m : Nat) (e : Int) : Nat × Nat := if e ≥ 0 then (m <<< e.toNat, 1) else (m, 1 <<< (-e).toNat)

/-- `p/q ≥ 10^d` -/
def ge10 (p q : Nat) (d : Int) : Bool :=
  if d ≥ 0 then p ≥ q * 10 ^ d.toNat else p * 10 ^ (-d).toNat ≥ q

def dpUp : Nat → Nat → Nat → Int → Int
  | 0, _, _, d => d
  | f+1, p, q, d => if ge10 p q d then dpUp f p q (d + 1) else d

def dpDown : Nat → Nat → Nat → Int → Int
  | 0, _, _, d => d
  | f+1, p, q, d => if !ge10 p q (d - 1) then dpDown f p q (d - 1) else d

/-- the `dp` with `10^(dp-1) ≤ p/q < 10^dp` -/
def decExp (p q : Nat) : Int :=
  let est : Int := ((p.log2 : Int) - (q.log2 : Int)) * 30103 / 100000
  dpDown 8 p q (dpUp 8 p q est)

/-- round half even of `n/d` -/
def rdiv (n d : Nat) : Nat :=
  let k := n / d; let r := n % d
  if 2 * r > d || (2 * r == d && k % 2 == 1) then k + 1 else k

def stripZeros : Nat → Nat → Nat
  | 0, d => d
  | f+1, d => if d != 0 && d % 10 == 0 then stripZeros f (d / 10) else d

/-- the `n`-digit decimals just below and above `p/q` (scaled by `10^(n-dp)`), nearest first -/
def neighbours (p q : Nat) (dp : Int) (n : Nat) : List Nat :=
  let x : Int := (n : Int) - dp
  let num := if x ≥ 0 then p * 10 ^ x.toNat else p
  let den := if x ≥ 0 then q else q * 10 ^ (-x).toNat
  let k := num / den
  let r := num % den
  if r == 0 then [k]
  else if 2 * r > den || (2 * r == den && k % 2 == 1) then [k + 1, k] else [k, k + 1]

/-- digits and decimal point of candidate `d` (an `n`-digit number, or `10^n` after a carry) -/
def candOf (d : Nat) (n : Nat) (dp : Int) : Nat × Int :=
  if d == 10 ^ n then (10 ^ (n - 1), dp + 1) else (d, dp)

/-- try `n, n+1, …` significant digits until some `n`-digit decimal reads back as the same float;
    among the (at most two) `n`-digit decimals that do, the one nearest to the value -/
def shortestAux (m : Nat) (e : Int) (p q : Nat) (dp : Int) : Nat → Nat → Nat × Int
  | 0, n => candOf ((neighbours p q dp n).headD 0) n dp
  | fuel+1, n =>
    let ok := (neighbours p q dp n).filter fun d =>
      let c := candOf d n dp
      d != 0 && ofScaled false c.1 10 (c.2 - n) == mkFin false m e
    match ok with
    | d :: _ => let c := candOf d n dp; (stripZeros 20 c.1, c.2)
    | [] => shortestAux m e p q dp fuel (n + 1)

/-- shortest decimal digits `D` and decimal point position `dp` with `x = 0.D × 10^dp`, x > 0 -/
def shortest (m : Nat) (e : Int) : Nat × Int :=
  let pq := frac m e
  shortestAux m e pq.1 pq.2 (decExp pq.1 pq.2) 16 1

def digitsOf (n : Nat) : List Char := (toString n).toList

def pad2 (n : Nat) : String := if n < 10 then "0" ++ toString n else toString n

def fmtE (ds : List Char) (exp : Int) : String :=
  let head := String.ofList (ds.take 1)
  let tail := ds.drop 1
  let mant := if tail.isEmpty then head else head ++ "." ++ String.ofList tail
  mant ++ "e" ++ (if exp < 0 then "-" else "+") ++ pad2 exp.natAbs

def fmtF (ds : List Char) (dp : Int) : String :=
  let nd := ds.length
  let ip : String :=
    if dp > 0 then String.ofList ((List.range dp.toNat).map fun i => ds.getD i '0') else "0"
  let prec : Nat := ((nd : Int) - dp).toNat
  if prec == 0 then ip
  else ip ++ "." ++ String.ofList ((List.range prec).map fun (i : Nat) =>
    let k : Int := dp + (i : Int)
    if k < 0 then '0' else ds.getD k.toNat '0')

/-- `strconv.FormatFloat(x, 'g', -1, 64)`: what `to.String(float64)` and `fmt "%v"` print -/
def fmtG : F64 → String
  | .nan => "NaN"
  | .inf neg => if neg then "-Inf" else "+Inf"
  | .fin neg m e =>
    let sign := if neg then "-" else ""
    if m == 0 then sign ++ "0" else
    let sd := shortest m e
    let ds := digitsOf sd.1
    let exp := sd.2 - 1
    sign ++ (if exp < -4 || exp ≥ 6 then fmtE ds exp else fmtF ds sd.2)

end F64

-- strconv.ParseUint / ParseFloat / ParseBool ------------------------------------------------------

def isDigit (c : Char) : Bool := '0' ≤ c && c ≤ '9'
def lowerC (c : Char) : Char := if 'A' ≤ c && c ≤ 'Z' then Char.ofNat (c.toNat + 32) else c
def isHexLetter (c : Char) : Bool := 'a' ≤ lowerC c && lowerC c ≤ 'f'

def digitsVal (base : Nat) : List Char → Nat → Nat
  | [], acc => acc
  | c :: r, acc =>
    let v := if isDigit c then c.toNat - 48 else (lowerC c).toNat - 87
    digitsVal base r (acc * base + v)

/-- digit loop of ParseUint: a non-digit is a syntax error (0); an overflow met *before* that ends
    the scan with 2^64-1 -/
def parseUintAux : List Char → Nat → Nat
  | [], n => n
  | c :: r, n =>
    if !isDigit c then 0 else
    let n' := n * 10 + (c.toNat - 48)
    if n' ≥ 2^64 then 2^64 - 1 else parseUintAux r n'

/-- `u, _ := strconv.ParseUint(s, 10, 64)`: decimal digits only (no sign, no underscore);
    2^64-1 on overflow; 0 on syntax error -/
def parseUint (s : String) : Nat := parseUintAux s.toList 0

/-- `i, _ := strconv.ParseInt(s, 10, 64)`: an optional sign, then decimal digits (no underscore); ±(2^63-1 / 2^63) on
    overflow; 0 on syntax error (also for a lone sign and the empty string) -/
def parseInt (s : String) : Int :=
  let mag (cs : List Char) (neg : Bool) : Int :=
    match cs with
    | [] => 0
    | _ =>
      let un := parseUintAux cs 0
      if neg then (if un > 2^63 then -(2^63 : Int) else -(un : Int))
      else (if un ≥ 2^63 then (2^63 : Int) - 1 else (un : Int))
  match s.toList with
  | [] => 0
  | '+' :: r => mag r false
  | '-' :: r => mag r true
  | cs => mag cs false

/-- `b, _ := strconv.ParseBool(s)` -/
def parseBool (s : String) : Bool :=
  s == "1" || s == "t" || s == "T" || s == "TRUE" || s == "true" || s == "True"

def prefixLenCI : List Char → List Char → Nat
  | c :: s, p :: ps => if lowerC c == p then 1 + prefixLenCI s ps else 0
  | _, _ => 0

def infPart (neg : Bool) (nsign : Nat) (t : List Char) : Option (F64 × Nat) :=
  let n := prefixLenCI t "infinity".toList
  let n := if 3 < n && n < 8 then 3 else n
  if n == 3 || n == 8 then some (.inf neg, nsign + n) else none

/-- strconv's `special`: value and number of bytes consumed -/
def parseSpecial (s : List Char) : Option (F64 × Nat) :=
  match s with
  | [] => none
  | c :: r =>
    if c == '+' || c == '-' then infPart (c == '-') 1 r
    else if c == 'i' || c == 'I' then infPart false 0 s
    else if c == 'n' || c == 'N' then (if prefixLenCI s "nan".toList == 3 then some (.nan, 3) else none)
    else none

/-- strconv's `underscoreOK` -/
def underscoreOK (s : List Char) : Bool :=
  let s := match s with
    | c :: r => if c == '+' || c == '-' then r else s
    | [] => s
  let pre : Option (Bool × List Char) := match s with
    | '0' :: c :: r =>
      if lowerC c == 'b' || lowerC c == 'o' || lowerC c == 'x' then some (lowerC c == 'x', r) else none
    | _ => none
  let hex := match pre with | some (h, _) => h | none => false
  let body := match pre with | some (_, r) => r | none => s
  let saw0 : Char := match pre with | some _ => '0' | none => '^'
  let rec go (hex : Bool) : List Char → Char → Bool
    | [], saw => saw != '_'
    | c :: r, saw =>
      if isDigit c || (hex && isHexLetter c) then go hex r '0'
      else if c == '_' then (if saw != '0' then false else go hex r '_')
      else if saw == '_' then false
      else go hex r '!'
  go hex body saw0

structure RF where
  mant : Nat := 0
  nd : Nat := 0
  dp : Int := 0
  sawdot : Bool := false
  sawdigits : Bool := false
  underscores : Bool := false

/-- the mantissa loop of strconv's `readFloat`; returns the unread rest -/
def scanMant (hex : Bool) : List Char → RF → RF × List Char
  | [], st => (st, [])
  | c :: r, st =>
    if c == '_' then scanMant hex r { st with underscores := true }
    else if c == '.' then
      if st.sawdot then (st, c :: r) else scanMant hex r { st with sawdot := true, dp := st.nd }
    else if isDigit c then
      if c == '0' && st.nd == 0 then scanMant hex r { st with sawdigits := true, dp := st.dp - 1 }
      else scanMant hex r { st with sawdigits := true, nd := st.nd + 1, mant := st.mant * (if hex then 16 else 10) + (c.toNat - 48) }
    else if hex && isHexLetter c then
      scanMant hex r { st with sawdigits := true, nd := st.nd + 1, mant := st.mant * 16 + ((lowerC c).toNat - 87) }
    else (st, c :: r)

/-- exponent digits (with Go's cap `if e < 10000`); returns value, underscore flag, rest -/
def scanExp : List Char → Nat → Bool → Nat × Bool × List Char
  | [], e, u => (e, u, [])
  | c :: r, e, u =>
    if c == '_' then scanExp r e true
    else if isDigit c then scanExp r (if e < 10000 then e * 10 + (c.toNat - 48) else e) u
    else (e, u, c :: r)

/-- `f, _ := strconv.ParseFloat(s, 64)`: 0 on syntax error (incl. trailing garbage), ±Inf on range error -/
def parseFloat (s : String) : F64 :=
  let cs := s.toList
  match parseSpecial cs with
  | some (v, n) => if n == cs.length then v else F64.zero
  | none =>
    match cs with
    | [] => F64.zero
    | c0 :: r0 =>
      let neg := c0 == '-'
      let body := if c0 == '+' || c0 == '-' then r0 else cs
      let hexBody : Option (List Char) := match body with
        | '0' :: x :: r => if lowerC x == 'x' && !r.isEmpty then some r else none
        | _ => none
      let hex := hexBody.isSome
      let body := hexBody.getD body
      let (st, rest) := scanMant hex body {}
      if !st.sawdigits then F64.zero else
      let dp : Int := if st.sawdot then st.dp else st.nd
      let expChar := if hex then 'p' else 'e'
      -- optional exponent
      let fin (dpE : Int) (underscores : Bool) (rest : List Char) : F64 :=
        if !rest.isEmpty then F64.zero
        else if underscores && !underscoreOK cs then F64.zero
        else if hex then F64.ofScaled neg st.mant 2 (4 * dp - 4 * (st.nd : Int) + dpE)
        else F64.ofScaled neg st.mant 10 (dp - (st.nd : Int) + dpE)
      match rest with
      | c :: r =>
        if lowerC c == expChar then
          match r with
          | [] => F64.zero
          | s1 :: r1 =>
            let esign : Int := if s1 == '-' then -1 else 1
            let r2 := if s1 == '+' || s1 == '-' then r1 else r
            match r2 with
            | d :: _ =>
              if !isDigit d then F64.zero else
              let (e, u, rest2) := scanExp r2 0 st.underscores
              fin (esign * e) u rest2
            | [] => F64.zero
        else F64.zero
      | [] => if hex then F64.zero else fin 0 st.underscores []

-- JSON values ----------------------------------------------------------------------------------

/-- What `encoding/json` decodes into `interface{}`: nil, bool, float64, string,
    `[]interface{}`, `map[string]interface{}` (keys unique). -/
inductive JVal where
  | null
  | bool (b : Bool)
  | num (x : F64)
  | str (s : String)
  | arr (l : List JVal)
  | obj (kvs : List (String × JVal))
  deriving Repr, Inhabited

namespace JVal

def insertKV (k : String) (v : String) : List (String × String) → List (String × String)
  | [] => [(k, v)]
  | (k', v') :: r => if k < k' then (k, v) :: (k', v') :: r else (k', v') :: insertKV k v r

mutual
  /-- `fmt.Sprintf("%v", v)` -/
  def fmtV : JVal → String
    | .null => "<nil>"
    | .bool b => if b then "true" else "false"
    | .num x => x.fmtG
    | .str s => s
    | .arr l => "[" ++ " ".intercalate (fmtL l) ++ "]"
    | .obj kvs => "map[" ++ " ".intercalate ((fmtKV kvs).map fun p => p.1 ++ ":" ++ p.2) ++ "]"
  def fmtL : List JVal → List String
    | [] => []
    | v :: r => fmtV v :: fmtL r
  /-- formatted entries, sorted by key as `fmt` prints maps -/
  def fmtKV : List (String × JVal) → List (String × String)
    | [] => []
    | (k, v) :: r => insertKV k (fmtV v) (fmtKV r)
end

mutual
  /-- no NaN / ±Inf anywhere (always true for decoded JSON) -/
  def allFinite : JVal → Bool
    | .num x => x.isFinite
    | .arr l => allFiniteL l
    | .obj kvs => allFiniteKV kvs
    | _ => true
  def allFiniteL : List JVal → Bool
    | [] => true
    | v :: r => allFinite v && allFiniteL r
  def allFiniteKV : List (String × JVal) → Bool
    | [] => true
    | (_, v) :: r => allFinite v && allFiniteKV r
end

end JVal
end Hc
