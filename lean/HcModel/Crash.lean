import HcModel.Bytes
/-
  File-system model used by C18 (storage as a map) and C19 (crash safety of a storage write).
  Core Lean only.

  A storage directory is an association list  file name ↦ content  (one regular file per key,
  `util/file_storage.go`; no sub-directories).  The operations are the system calls a storage write
  issues, as recorded by `strace` (harness/cmd/extract target `SetTrace`):

    openat(p, O_CREAT …)          ↦ `create p`            (creates an empty file if absent)
    … O_TRUNC / ftruncate(fd, 0)  ↦ `truncate p`
    write / pwrite64(fd, bytes)   ↦ `write p off bytes`   (off = file offset of the descriptor)
    rename / renameat(p, q)       ↦ `rename p q`          (atomic replace, POSIX)
    unlink / unlinkat(p)          ↦ `unlink p`
    close(fd), fsync(fd)          ↦ `close`               (no effect on what a later reader sees:
                                                           process kill only, the page cache survives)

  A crash (process kill) after k system calls leaves `apply d (ops.take k)`.
  The model is validated against the kernel by the driver (harness/cmd/drive/c19.go): every prefix of
  every recorded trace is replayed with real system calls and read back through the real `Get`.
-/
namespace Hc.Fs

abbrev Name := Bytes
abbrev Dir := List (Name × Bytes)

def lookup : Dir → Name → Option Bytes
  | [], _ => none
  | (m, c) :: r, n => if m = n then some c else lookup r n

def names (d : Dir) : List Name := d.map (·.1)

/-- remove every entry for `n` -/
def erase (d : Dir) (n : Name) : Dir := d.filter (fun e => e.1 ≠ n)

/-- (re)place the content of `n` -/
def put (d : Dir) (n : Name) (c : Bytes) : Dir := erase d n ++ [(n, c)]

/-- `pwrite`: bytes land at `off`; a gap beyond the end reads as zeros; writing nothing changes
    nothing (in particular it does not extend the file) -/
def overwrite (c : Bytes) (off : Nat) (bs : Bytes) : Bytes :=
  if bs = [] then c else
  c.take off ++ List.replicate (off - c.length) 0 ++ bs ++ c.drop (off + bs.length)

inductive FsOp where
  | create (p : Name)
  | truncate (p : Name)
  | write (p : Name) (off : Nat) (bs : Bytes)
  | rename (p q : Name)
  | unlink (p : Name)
  | close
deriving DecidableEq, Repr

def applyOp (d : Dir) : FsOp → Dir
  | .create p => if (lookup d p).isSome then d else put d p []
  | .truncate p => if (lookup d p).isSome then put d p [] else d
  | .write p off bs =>
    match lookup d p with
    | none => d
    | some c => put d p (overwrite c off bs)
  | .rename p q =>
    match lookup d p with
    | none => d                                   -- ENOENT
    | some c => if p = q then d else put (erase d p) q c
  | .unlink p => erase d p
  | .close => d

def apply (d : Dir) (ops : List FsOp) : Dir := ops.foldl applyOp d

/-- listing by suffix (`ioutil.ReadDir` + `strings.HasSuffix`); order is the directory order of the
    model, the driver sorts before comparing (ReadDir sorts by name) -/
def listSuffix (d : Dir) (s : Bytes) : List Name := (names d).filter (fun n => s.isSuffixOf n)

-- the shape of an atomic write ------------------------------------------------------------------

/-- ".tmp" -/
def tmpSuffix : Bytes := [46, 116, 109, 112]

/-- names reserved for temporary siblings -/
def isTempName (n : Name) : Bool := tmpSuffix.isSuffixOf n

/-- operations allowed between opening the temporary file and the rename -/
def isFill (t : Name) : FsOp → Bool
  | .write p _ _ => p == t
  | .close => true
  | _ => false

/-- content of a single file after the fill operations -/
def fillContent (c : Bytes) : List FsOp → Bytes
  | [] => c
  | .write _ off bs :: r => fillContent (overwrite c off bs) r
  | _ :: r => fillContent c r

/-- "everything before the last operation touches only `tmp ≠ key`, `tmp` has the reserved form (so it
    is no key and no listing by a key suffix sees it), the temporary file is created *and emptied*
    first (a stale one left by an earlier crash must not shine through), and the last operation is
    `rename tmp key` with `tmp` holding `new` in full". -/
structure AtomicWriteShape (key tmp : Name) (new : Bytes) (ops : List FsOp) : Prop where
  ne : tmp ≠ key
  temp : isTempName tmp = true
  shape : ∃ fill, ops = .create tmp :: .truncate tmp :: (fill ++ [.rename tmp key]) ∧
            (∀ op ∈ fill, isFill tmp op = true) ∧ fillContent [] fill = new

/-- executable checker applied to regenerated traces; returns the temporary name it found -/
def traceTmp : List FsOp → Option Name
  | .create t :: _ => some t
  | _ => none

def checkTrace (key : Name) (new : Bytes) (ops : List FsOp) : Bool :=
  match ops with
  | .create t :: .truncate t' :: rest =>
    decide (t = t') && decide (t ≠ key) && isTempName t &&
      decide (rest.getLast? = some (.rename t key)) &&
      rest.dropLast.all (isFill t) && decide (fillContent [] rest.dropLast = new)
  | _ => false

/-- one recorded run of `Set key new` on a directory where `key` held `old` -/
structure TraceRec where
  what : String
  old : Option Bytes
  key : Name
  new : Bytes
  ops : List FsOp
deriving Repr

def checkTraces (l : List TraceRec) : Bool := !l.isEmpty && l.all fun r => checkTrace r.key r.new r.ops

end Hc.Fs
