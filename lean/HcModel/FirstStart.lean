/-
  Order of the identity writes of a start (ip_transport.go NewIPTransport, hap/secured_device.go, config.go):

    cfg.load(storage)                  id := stored uuid, or a freshly drawn one
    storage.Set("uuid", id)            (F28 repair: BEFORE the key pair is stored under the id)
    hap.NewSecuredDevice(id, …)        stores an entity (key pair) under `id` unless one exists
    …                                  (dnssd responder, accessories, config hash — may fail or be killed)
    cfg.save(storage)                  uuid, version, configHash

  `fixed = false` is the order before the repair: the entity first, the uuid only at the very end.
  A crash (or an early error return) after k of these writes, then a complete start.
-/
namespace Hc.FirstStart

structure Disk where
  uuid : Option Nat
  ents : List Nat            -- names of the stored entities (key pairs); controllers' pairings would be in here too
deriving DecidableEq, Repr

def Disk.empty : Disk := ⟨none, []⟩

inductive W
  | uuid (i : Nat)
  | ent (i : Nat)
deriving DecidableEq, Repr

def applyW (d : Disk) : W → Disk
  | .uuid i => { d with uuid := some i }
  | .ent i => if i ∈ d.ents then d else { d with ents := d.ents ++ [i] }

def apply (d : Disk) (ws : List W) : Disk := ws.foldl applyW d

/-- the identity writes of one start on disk `d`; `fresh` is the id drawn when none is stored -/
def startWrites (fixed : Bool) (d : Disk) (fresh : Nat) : List W :=
  let id := d.uuid.getD fresh
  if fixed then [.uuid id, .ent id, .uuid id] else [.ent id, .uuid id]

/-- first start from the empty disk killed after `k` writes, then a complete start -/
def crashThenStart (fixed : Bool) (k fresh1 fresh2 : Nat) : Disk :=
  let d1 := apply Disk.empty ((startWrites fixed Disk.empty fresh1).take k)
  apply d1 (startWrites fixed d1 fresh2)

/-- discoverable = no entity besides the accessory's own (ip_transport.go isPaired: more than one entity stored) -/
def discoverable (d : Disk) : Bool := d.ents.length ≤ 1

end Hc.FirstStart

/-
  The configuration number across a start that is killed (config.go: load, updateConfigHash, save).

    cfg.load(storage)                 version, configHash := what is stored
    cfg.updateConfigHash(h)           version + 1 when a hash is stored and differs from the structure's hash h
    cfg.save(storage)                 Set("uuid"), Set("version"), Set("configHash") — each Set atomic (C19)

  `hashFirst = true` is the other order (hash before version) — not what the code does.
-/
namespace Hc.CfgCrash

structure Disk where
  version : Option Nat
  hash : Option Nat
deriving DecidableEq, Repr

inductive W
  | version (v : Nat)
  | hash (h : Nat)
deriving DecidableEq, Repr

def applyW (d : Disk) : W → Disk
  | .version v => { d with version := some v }
  | .hash h => { d with hash := some h }

def apply (d : Disk) (ws : List W) : Disk := ws.foldl applyW d

/-- the version a start with structure hash `h` announces on disk `d` (load + updateConfigHash) -/
def announced (d : Disk) (h : Nat) : Nat :=
  let ver := d.version.getD 1
  match d.hash with
  | some old => if old ≠ h then ver + 1 else ver
  | none => ver

/-- the configuration writes of a start with structure hash `h` on disk `d` -/
def startWrites (hashFirst : Bool) (d : Disk) (h : Nat) : List W :=
  if hashFirst then [.hash h, .version (announced d h)] else [.version (announced d h), .hash h]

/-- a start with structure `h` killed after `k` of its writes, then a complete start with the same structure -/
def crashThenStart (hashFirst : Bool) (d : Disk) (h k : Nat) : Disk :=
  let d1 := apply d ((startWrites hashFirst d h).take k)
  apply d1 (startWrites hashFirst d1 h)

end Hc.CfgCrash
