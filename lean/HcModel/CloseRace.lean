/-
  A connection closes while a new connection with the SAME address pair is accepted (a controller that resets its
  connection and reconnects from the same port: the kernel has dropped the old socket, net/http's goroutine for it has
  not finished yet). Sessions are registered in the shared context under the address pair.

  Go ↔ Lean (hap/connection.go, hap/context.go):
    context map entry for that address pair                          ↔ `St.reg` (session number; the closing one is 0)
    hap.NewConnection: context.SetSessionForConnection(new, conn)     ↔ `Ev.connect s`
    Connection.Close: `if ctx.Get(conn) == con.session { ctx.Delete(conn) }`
        before F56: two steps, anything may run in between           ↔ `Ev.closeGet`, then `Ev.closeDel`
        F56 repair: both under one mutex that NewConnection takes too ↔ `Ev.closeAtomic`
-/
namespace Hc.CloseRace

inductive Ev
  | connect (s : Nat)
  | closeGet
  | closeDel
  | closeAtomic
deriving DecidableEq, Repr

structure St where
  /-- the session registered under the address pair -/
  reg : Option Nat
  /-- what the closing connection's lookup saw (`Get(conn) == con.session`) -/
  sawOwn : Bool
deriving DecidableEq, Repr

def init : St := ⟨some 0, false⟩

def step (st : St) : Ev → St
  | .connect s => { st with reg := some s }
  | .closeGet => { st with sawOwn := st.reg == some 0 }
  | .closeDel => if st.sawOwn then { st with reg := none } else st
  | .closeAtomic => if st.reg == some 0 then { st with reg := none } else st

def run (st : St) (evs : List Ev) : St := evs.foldl step st

/-- the session of the connection accepted last, if any was -/
def lastConnect : List Ev → Option Nat
  | [] => none
  | .connect s :: r => (lastConnect r).or (some s)
  | _ :: r => lastConnect r

end Hc.CloseRace
