/-
  Shared byte-level vocabulary of all models (core Lean only).
-/
namespace Hc

abbrev Bytes := List UInt8

/-- `chunks n l`: consecutive pieces of length `n` (the last one may be shorter, never empty).
    Models `io.ReadFull`-style packetisation (TLV8 fragments of 255, frames of 1024,
    HTTP body chunks of 2048). For `n = 0` the whole list is one chunk (never reached by the code). -/
def chunks (n : Nat) (l : List α) : List (List α) :=
  if _h : l = [] then []
  else if _hn : n = 0 then [l]
  else l.take n :: chunks n (l.drop n)
termination_by l.length
decreasing_by
  have : l.length ≠ 0 := by
    intro h0; exact _h (List.eq_nil_of_length_eq_zero h0)
  simp [List.length_drop]; omega

/-- little-endian 16 bit -/
def le16 (n : Nat) : Bytes := [UInt8.ofNat (n % 256), UInt8.ofNat (n / 256 % 256)]

def unle16 (a b : UInt8) : Nat := a.toNat + 256 * b.toNat

/-- little-endian, `k` bytes -/
def leN : Nat → Nat → Bytes
  | 0, _ => []
  | k+1, n => UInt8.ofNat (n % 256) :: leN k (n / 256)

def unleN : Bytes → Nat
  | [] => 0
  | b :: bs => b.toNat + 256 * unleN bs

def le64 (n : Nat) : Bytes := leN 8 n

/-- 12-byte ChaCha20-Poly1305 nonce used by hc: 4 zero bytes then the 64-bit LE counter -/
def nonce12 (ctr : Nat) : Bytes := [0,0,0,0] ++ le64 ctr

-- hex <-> bytes for the line protocol -----------------------------------------------------------

def hexDigit (n : Nat) : Char :=
  if n < 10 then Char.ofNat (48 + n) else Char.ofNat (87 + n)

def toHex (b : Bytes) : String :=
  String.ofList (b.flatMap fun x => [hexDigit (x.toNat / 16), hexDigit (x.toNat % 16)])

def hexVal (c : Char) : Option Nat :=
  if '0' ≤ c ∧ c ≤ '9' then some (c.toNat - 48)
  else if 'a' ≤ c ∧ c ≤ 'f' then some (c.toNat - 87)
  else if 'A' ≤ c ∧ c ≤ 'F' then some (c.toNat - 55)
  else none

def fromHexChars : List Char → Option Bytes
  | [] => some []
  | [_] => none
  | a :: b :: rest => do
    let x ← hexVal a
    let y ← hexVal b
    let r ← fromHexChars rest
    pure (UInt8.ofNat (16 * x + y) :: r)

/-- `-` denotes the empty byte string on the wire of the line protocol -/
def fromHex (s : String) : Option Bytes :=
  if s = "-" then some [] else fromHexChars s.toList

def hexOrDash (b : Bytes) : String := if b.isEmpty then "-" else toHex b

end Hc
