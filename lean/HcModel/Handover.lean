/-
  Model of the cryptographer hand-over at the end of pair-verify:
    hap/session.go    (SetCryptographer, Decrypter, Encrypter, didWrite)
    hap/connection.go (Read: plaintext / decrypting path chosen when the read starts, bytes re-classified when a
                       cryptographer was negotiated while the read was waiting; Write: encrypt with the current
                       cryptographer, then activate a pending one)
    hap/endpoint/pair-verify.go (SetCryptographer is called by the handler before its response is flushed)
    net/http          (a background read on the connection may start at any moment after the request body was consumed)

  One pair-verify finish on a connection: the handler negotiates cryptographer σ (`setCrypt`), net/http flushes the
  response (`writeResp`), and — at a moment the scheduler chooses — a read on the connection starts (`readStart`).
  The controller sends its next request, encrypted under σ, only after it has received the response (`peerSends`);
  those bytes are then handed to the read (`readDone`).
-/
namespace Hc.Handover

inductive Op
  | readStart          -- a Read on the connection begins (net/http background read, or the next request read)
  | setCrypt           -- the pair-verify handler calls session.SetCryptographer(σ)
  | writeResp          -- the M4 response is written to the connection
  | peerSends          -- the controller, having seen M4, sends ciphertext under σ
  | readDone           -- the pending read gets the bytes that arrived
  | excess             -- the raw read that carried the finish request carried further (foreign, plaintext) bytes too
  | foreign            -- bytes that are not ciphertext under σ arrive (an on-path adversary inserts a plaintext request)
  | writeBegin         -- the answer's Write has started: the plaintext framing is told a response is on its way, the bytes are
                       --   handed to the socket (which may take a while)
  | writeEnd           -- … the socket write has returned: a negotiated cryptographer is activated, kept-back events are written
  | event              -- another goroutine (the application changing a value, a keep-alive) writes an EVENT to this connection
deriving DecidableEq, Repr

inductive Wire | empty | cipher | foreign
deriving DecidableEq, Repr

structure St where
  cur : Bool                     -- session.cryptographer ≠ nil   (false: plaintext connection)
  next : Bool                    -- session.nextCryptographer ≠ nil
  pending : Option Bool          -- a read is waiting; `some true` = it took the decrypting path
  respEncrypted : Option Bool    -- how the M4 response went out
  wire : Wire                    -- what is in flight towards the accessory
  delivered : Option Bool        -- how the controller's bytes were handed to net/http: `some true` = decrypted
  awaiting : Bool                -- the request was received completely, its response is not written yet
  closed : Bool                  -- the accessory closed the connection
  foreignPlain : Bool            -- foreign bytes were handed to net/http as plaintext (it will serve them as a request)
  queued : Nat                   -- events kept back until the response is written
  evOut : Nat                    -- events written to the connection
  evDuring : Bool                -- an event was written between the request and its response
  writing : Bool                 -- the answer's socket write is in progress
deriving DecidableEq, Repr

def init : St := ⟨false, false, none, none, .empty, none, true, false, false, 0, 0, false, false⟩

/-- `fixed = true`: the code after the F18 repair. `fixed = false`: Decrypter() promoted the pending cryptographer as
    a side effect (so whichever Read ran first after SetCryptographer switched the encrypter too), and a read that was
    already waiting handed whatever arrived to the caller as plaintext.
    `queue = true`: the code after the F31 repair — events are written through `WriteEvent`, which keeps them back while a
    request is served and writes them after the response.
    `strict = true`: the code after the F19 repair — on a plaintext connection, bytes that follow a complete request
    before its response was written are refused and the connection is closed. -/
def step (fixed strict queue : Bool) (s : St) (o : Op) : St :=
  if s.closed then s else
  match o with
  | .event =>
    if queue then
      -- Connection.WriteEvent: kept back while a request is served (http.ConnState active … idle)
      if s.awaiting || s.writing then { s with queued := s.queued + 1 } else { s with evOut := s.evOut + 1 }
    else
      -- before the F31 repair an event is an ordinary Write: it goes out at once, and — like every write — it activates a
      -- pending cryptographer (session.didWrite)
      let s1 := { s with evOut := s.evOut + 1, evDuring := s.evDuring || s.awaiting || s.writing }
      if fixed then { s1 with cur := s1.cur || s1.next, next := false } else s1
  | .readStart =>
    if s.pending.isSome then s else
    if fixed then { s with pending := some (s.cur || s.next) }
    else
      let cur' := s.cur || s.next               -- Decrypter(): promote
      { s with cur := cur', next := false, pending := some cur' }
  | .setCrypt => if s.awaiting then { s with next := true } else s     -- the handler runs before its response
  | .writeResp =>
    if s.respEncrypted.isSome then s else
    let s1 := { s with respEncrypted := some s.cur, awaiting := false, evOut := s.evOut + s.queued, queued := 0 }
    if fixed then { s1 with cur := s1.cur || s1.next, next := false } else s1
  | .writeBegin =>
    if s.respEncrypted.isSome then s else
    { s with respEncrypted := some s.cur, awaiting := false, writing := true }
  | .writeEnd =>
    if !s.writing then s else
    let s1 := { s with writing := false, evOut := s.evOut + s.queued, queued := 0 }
    if fixed then { s1 with cur := s1.cur || s1.next, next := false } else s1
  | .peerSends => if s.respEncrypted.isSome && s.wire == .empty then { s with wire := .cipher } else s
  | .foreign => if s.wire == .empty then { s with wire := .foreign } else s
  | .excess =>
    if s.awaiting && !s.cur && !s.next then
      if strict then { s with closed := true } else { s with foreignPlain := true }
    else s
  | .readDone =>
    match s.pending with
    | none => s
    | some dec =>
      let dec' := if fixed then dec || s.cur || s.next else dec   -- re-classify bytes of a read that was waiting
      match s.wire with
      | .empty => s
      | .cipher => { s with pending := none, delivered := some dec', wire := .empty }
      | .foreign =>
        if dec' then { s with pending := none, wire := .empty, closed := true }            -- authentication fails
        else if strict && s.awaiting then { s with pending := none, wire := .empty, closed := true }
        else { s with pending := none, wire := .empty, foreignPlain := true }

def run (fixed strict queue : Bool) (ops : List Op) : St := ops.foldl (step fixed strict queue) init

/-- schedules of interest: the handler's two steps in order, the peer after the response, the read's two steps in
    order with `readDone` after `peerSends`; `readStart` anywhere -/
def wellOrdered (ops : List Op) : Bool :=
  let idx := fun (o : Op) => ops.findIdx? (· == o)
  match idx .readStart, idx .setCrypt, idx .writeResp, idx .peerSends, idx .readDone with
  | some r, some c, some w, some p, some d => c < w && w < p && p < d && r < d && ops.length == 5
  | _, _, _, _, _ => false

/-- all permutations of the five operations -/
def perms : List Op → List (List Op)
  | [] => [[]]
  | x :: xs => (perms xs).flatMap fun p => (List.range (p.length + 1)).map fun i => p.take i ++ [x] ++ p.drop i

def allSchedules : List (List Op) := (perms [.readStart, .setCrypt, .writeResp, .peerSends, .readDone]).filter wellOrdered

end Hc.Handover
