/-
  Model of the /pairings endpoint behind the middleware:
    hap/pair/pairing_controller.go (Handle), hap/endpoint/pairings.go (500 on error, pairing events)
  The store maps a name to the key stored for it. `storable = false` stands for a name the file storage cannot
  store (entity file name longer than the file system allows): SaveEntity returns an error.
-/
namespace Hc.Pairings

inductive In
  | add (name : Nat) (key : Nat) (storable : Bool)
  | delete (name : Nat)
  /-- add / delete naming the entity that holds a private key (the accessory's own identity, stored in the same
      database): refused, nothing changes, no pairing event (F16 repair) -/
  | addOwn (key : Nat)
  | deleteOwn
  | otherMethod (n : Nat)          -- method item missing or not add/delete
  | malformedTlv
deriving DecidableEq, Repr

inductive Out
  | ok                              -- TLV8 answer, state 2
  | http500
  | panic
deriving DecidableEq, Repr

inductive Event | paired | unpaired
deriving DecidableEq, Repr

abbrev Store := List (Nat × Nat)

def erase (s : Store) (n : Nat) : Store := s.filter (·.1 != n)

/-- `fixed := false`: the code before the `fix:` commit called log.Info.Panic when SaveEntity failed -/
def step (fixed : Bool) (s : Store) : In → Store × Out × Option Event
  | .malformedTlv => (s, .http500, none)
  | .otherMethod _ => (s, .http500, none)
  | .delete n => (erase s n, .ok, some .unpaired)
  | .add n k true => ((n, k) :: erase s n, .ok, some .paired)
  | .add _ _ false => (s, if fixed then .http500 else .panic, none)
  | .addOwn _ => (s, .http500, none)
  | .deleteOwn => (s, .http500, none)

end Hc.Pairings
