import HcModel.Characteristic
import HcModel.Bytes
/-
  Model of the /characteristics handlers over a whole attribute database:
    hap/http/characteristics.go (GET: id list, lookup, value / status per id, 200 vs 207; PUT: decode, lookup,
                                 update from connection, ev branch, 204 vs body)
    hap/http/server.go          (getCharacteristic: first characteristic with that aid and iid in container order)
    hap/http/json.go, hap/chunked_writer.go (body written in 2048-byte pieces)
  The behaviour of one characteristic (conversion, clamping, permissions, callbacks) is C12's model
  (HcModel/Characteristic.lean); here: the dispatch over ids and the response shape.
-/
namespace Hc.CharHttp
open Hc Hc.Charac

structure Entry where
  aid : Nat
  iid : Nat
  chr : Chr
  /-- subscription of the requesting session to this characteristic -/
  sub : Bool

abbrev Db := List Entry

def Entry.is (e : Entry) (aid iid : Nat) : Bool := e.aid == aid && e.iid == iid

def lookup (db : Db) (aid iid : Nat) : Option Entry := db.find? (·.is aid iid)

/-- replace the first entry with that id -/
def setFirst (db : Db) (aid iid : Nat) (f : Entry → Entry) : Db :=
  match db with
  | [] => []
  | e :: es => if e.is aid iid then f e :: es else e :: setFirst es aid iid f

/-- one element of the comma-separated id list after splitting at "."; `bad` = not exactly two parts -/
inductive IdTok
  | pair (aid iid : Nat)       -- both parts after `to.Uint64`
  | bad

def statusNotFound : Int := -70402      -- hap.StatusServiceCommunicationFailure
def statusWriteOnly : Int := -70405     -- hap.StatusWriteOnlyCharacteristic
def statusNoEvents : Int := -70406      -- hap.StatusNotificationNotSupported

structure RespEntry where
  aid : Nat
  iid : Nat
  value : GVal            -- `nil` ⇒ member omitted
  status : Option Int

inductive GetResp
  | http500                               -- malformed id list
  | ok200 (es : List RespEntry)
  | multi207 (es : List RespEntry)

/-- the loop over the requested ids (no value-get functions registered: those are C12's `getValue`) -/
def getEntries (db : Db) : List IdTok → Option (List RespEntry)
  | [] => some []
  | .bad :: _ => none
  | .pair a i :: rest =>
    let e : RespEntry :=
      match lookup db a i with
      | none => ⟨a, i, .nil, some statusNotFound⟩
      | some c => if c.chr.cfg.perms.pr then ⟨a, i, c.chr.value, none⟩ else ⟨a, i, .nil, some statusWriteOnly⟩
    (getEntries db rest).map (e :: ·)

def getChars (db : Db) (toks : List IdTok) : GetResp :=
  match getEntries db toks with
  | none => .http500
  | some es =>
    if es.any (·.status.isSome) then
      .multi207 (es.map fun e => { e with status := some (e.status.getD 0) })
    else .ok200 es

/-- one element of the PUT body -/
structure PutReq where
  aid : Nat
  iid : Nat
  value : JVal
  ev : JVal

inductive PutResp
  | noContent204
  | body (es : List RespEntry)
  | panicked

def statusNoResource : Int := -70409    -- hap.StatusResourceDoesNotExist

/-- the PUT loop (F75): EVERY entry of the request gets an entry in the answer — an id that is not served the status
    -70409 (it was skipped without a word), the others the status of C12's `putEntry` (0 when it succeeded) -/
def putLoop : Db → List PutReq → List RespEntry → Db × Option (List RespEntry)
  | db, [], acc => (db, some acc)
  | db, r :: rs, acc =>
    match lookup db r.aid r.iid with
    | none => putLoop db rs (acc ++ [⟨r.aid, r.iid, .nil, some statusNoResource⟩])
    | some e =>
      match putEntry ⟨e.chr, e.sub⟩ ⟨r.value, r.ev⟩ with
      | (s1, .panic, _) => (setFirst db r.aid r.iid (fun e => { e with chr := s1.char, sub := s1.sub }), none)
      | (s1, .ok, st) =>
        putLoop (setFirst db r.aid r.iid (fun e => { e with chr := s1.char, sub := s1.sub })) rs
          (acc ++ [⟨r.aid, r.iid, .nil, some (st.getD 0)⟩])

/-- no content when every entry succeeded, otherwise the multi-status answer (207) with all entries -/
def putChars (db : Db) (rs : List PutReq) : Db × PutResp :=
  match putLoop db rs [] with
  | (db', none) => (db', .panicked)
  | (db', some es) => if es.all (fun e => e.status == some 0) then (db', .noContent204) else (db', .body es)

/-- before the repair: unknown ids skipped, only the entries that failed an event subscription answered -/
def putLoopOld : Db → List PutReq → List RespEntry → Db × Option (List RespEntry)
  | db, [], acc => (db, some acc)
  | db, r :: rs, acc =>
    match lookup db r.aid r.iid with
    | none => putLoopOld db rs acc
    | some e =>
      match putEntry ⟨e.chr, e.sub⟩ ⟨r.value, r.ev⟩ with
      | (s1, .panic, _) => (setFirst db r.aid r.iid (fun e => { e with chr := s1.char, sub := s1.sub }), none)
      | (s1, .ok, st) =>
        putLoopOld (setFirst db r.aid r.iid (fun e => { e with chr := s1.char, sub := s1.sub })) rs
          (acc ++ ((st.filter (· == statusNoEvents)).toList.map fun code => ⟨r.aid, r.iid, .nil, some code⟩))

/-- hap.chunkedWriter.Write: the body is handed to the response writer in pieces of at most `n` bytes -/
def chunkedWrite (n : Nat) (p : Bytes) : List Bytes := chunks n p

end Hc.CharHttp
