import HcModel.Bytes
/-
  Model of password.go (setup-code acceptance), on byte strings (a Go `string` is a byte string).

  Go                                             | here
  -----------------------------------------------+------------------------------------------
  invalidPins (12 literals)                      | trivialCodes
  ValidatePin: loop over invalidPins first       | validatePin: `.error .trivial`
  len(pin) != 8                                  | `.error .length`
  any byte b < '0' || b > '9'                    | `.error .nondigit`
  bytes.Runes(bs); runes[:3]-runes[3:5]-runes[5:]| `take 3 ++ "-" ++ take 2 (drop 3) ++ "-" ++ drop 5`
                                                 |   (all 8 bytes are ASCII at that point, so runes = bytes;
                                                 |    the slices are in range: no panic branch exists)
-/
namespace Hc.Pin

/-- ASCII '0' .. '9' -/
def isDigit (b : UInt8) : Bool := 48 ≤ b.toNat && b.toNat ≤ 57

/-- the eight ASCII digits of a string of the same decimal digit -/
def rep8 (d : Nat) : Bytes := List.replicate 8 (UInt8.ofNat (48 + d))

/-- password.go `invalidPins`, in source order -/
def trivialCodes : List Bytes :=
  [ [49,50,51,52,53,54,55,56],   -- "12345678"
    [56,55,54,53,52,51,50,49],   -- "87654321"
    rep8 0, rep8 1, rep8 2, rep8 3, rep8 4, rep8 5, rep8 6, rep8 7, rep8 8, rep8 9 ]

inductive Err | trivial | length | nondigit
deriving DecidableEq, Repr

/-- '-' -/
def dash : UInt8 := 45

def format (pin : Bytes) : Bytes :=
  pin.take 3 ++ [dash] ++ (pin.drop 3).take 2 ++ [dash] ++ pin.drop 5

/-- `hc.ValidatePin` -/
def validatePin (pin : Bytes) : Except Err Bytes :=
  if trivialCodes.contains pin then .error .trivial
  else if pin.length ≠ 8 then .error .length
  else if !pin.all isDigit then .error .nondigit
  else .ok (format pin)

/-- the eight ASCII digits of `n` (most significant first); `n < 10^8` is the code space -/
def dec8 (n : Nat) : Bytes :=
  [n / 10000000 % 10, n / 1000000 % 10, n / 100000 % 10, n / 10000 % 10,
   n / 1000 % 10, n / 100 % 10, n / 10 % 10, n % 10].map fun d => UInt8.ofNat (48 + d)

/-- the twelve trivial codes as numbers -/
def trivialNums : List Nat :=
  [12345678, 87654321, 0, 11111111, 22222222, 33333333, 44444444, 55555555, 66666666, 77777777, 88888888, 99999999]

end Hc.Pin
