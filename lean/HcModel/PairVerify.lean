/-
  Symbolic model of the accessory side of pair-verify, including the endpoint that installs the secure session:
    hap/pair/verify_server_controller.go (Handle, handlePairVerifyStart, handlePairVerifyFinish, reset)
    hap/pair/verify_session.go           (accessory ephemeral key: a new one for every start request that is accepted; F42)
    hap/endpoint/pair-verify.go          (controller per connection; installs the cryptographer)

  References as in PairSetup.lean: equal iff built the same way. The accessory draws an ephemeral Curve25519 key pair
  for every exchange: a shared secret / encryption key is determined by (connection, number of the accessory's key on
  that connection, controller ephemeral key).
-/
namespace Hc.PairVerify

/-- `session.EncryptionKey` / the key a sender sealed under -/
inductive KRef
  | zero                              -- never set
  | ofEph (conn : Nat) (epoch : Nat) (e : Nat)  -- HKDF(X25519(accEph_{conn,epoch}, ctrlEph_e), "Pair-Verify-Encrypt-*")
  | rand (n : Nat)
deriving DecidableEq, Repr

inductive StartKey
  | good (e : Nat)                    -- a 32-byte controller ephemeral public key (number e)
  | wrongLen (n : Nat)                -- any other length (incl. missing)
  | lowOrder                          -- 32 bytes that are a point of small order (0, 1, p-1, p, p+1, …): the shared secret is
                                      -- all zero whatever the accessory's key pair is. Refused (F61 repair; before it the
                                      -- exchange went on, and every session of that controller had the same keys)
deriving DecidableEq, Repr

/-- Ed25519 signature in M3: sign(sk_signer, ctrlEph ‖ name ‖ accEph_{conn,epoch}) -/
inductive SigRef
  | valid (signer : Nat) (ctrlEph : Option Nat) (name : Nat) (accConn : Nat) (accEpoch : Nat)
  | garbage (n : Nat)
  | empty
deriving DecidableEq, Repr

inductive Plain
  | tlv (name : Nat) (sig : SigRef)
  | malformed
deriving DecidableEq, Repr

inductive EncData
  | short (n : Nat)
  | sealed (k : KRef) (nonceOk : Bool) (intact : Bool) (pt : Plain)
deriving DecidableEq, Repr

inductive In
  | v1 (key : StartKey)
  | v3 (d : EncData)
  | badMethod
  | badState (n : Nat)
  | malformedTlv
deriving DecidableEq, Repr

inductive Step | waiting | startResp
deriving DecidableEq, Repr

/-- what the pairing database holds for a name -/
inductive Entry
  | none                              -- no entity file: `EntityWithName` fails
  | noKey                             -- entity without public key
  | key (pk : Nat)                    -- long-term public key of key pair `pk`
  | badKey                            -- a public key that is not 32 bytes long (`/pairings` add stores any length): no
                                      -- signature verifies under it — and a check that panics on it must not verify either
  | own (pk : Nat)                    -- an entity that also holds a PRIVATE key: the accessory's own identity, which
                                      -- lives in the same database — not a controller (F16 repair)
deriving DecidableEq, Repr

abbrev Store := Nat → Entry

structure St where
  step : Step
  other : Option Nat                  -- session.OtherPublicKey (none = the zero array)
  K : KRef                            -- session.EncryptionKey
  /-- endpoint layer: the shared secret the secure session was installed with (`none` = plaintext, unverified) -/
  installed : Option (Option Nat)
  /-- number of the accessory's ephemeral key in use on this connection (0 = none drawn for an exchange yet) -/
  epoch : Nat := 0
  /-- the accessory key the installed shared secret was computed with -/
  instEpoch : Nat := 0
deriving DecidableEq, Repr

def init : St := { step := .waiting, other := none, K := .zero, installed := none, epoch := 0, instEpoch := 0 }

inductive Out
  | http500
  | tlv (state : Nat) (err : Option Nat) (hasKey hasEnc : Bool)
  | panic                             -- the handler panics (net/http then drops the connection without an answer)
deriving DecidableEq, Repr

def openSealed (st : St) : EncData → Option Plain
  | .short _ => none
  | .sealed k nonceOk intact pt => if k = st.K ∧ nonceOk ∧ intact then some pt else none

def sigOk (c : Nat) (st : St) (name pk : Nat) : SigRef → Bool
  | .valid signer ce n ac ae => signer == pk && ce == st.other && n == name && ac == c && ae == st.epoch
  | _ => false

/-- one request on connection `c` against pairing store `db`.
    `fixed := false` reproduces the code before the `fix:` commits: the start handler advances the step before
    validating the key length, and the endpoint installs the session whenever the response state is 4;
    `renew := false` the single accessory key per connection before F42's repair. -/
def stepR (fixed renew : Bool) (c : Nat) (db : Store) (st : St) : In → St × Out
  | .malformedTlv => (st, .http500)
  | .badMethod => (st, .http500)
  | .badState _ => (st, .http500)
  | .v1 key =>
    if st.step ≠ .waiting then ({ st with step := .waiting }, .http500)
    else match key with
      | .wrongLen _ => ({ st with step := if fixed then .waiting else .startResp }, .http500)
      | .lowOrder => ({ st with step := .waiting }, .http500)
      | .good e =>
        let ep := if renew then st.epoch + 1 else st.epoch
        ({ st with step := .startResp, other := some e, epoch := ep, K := .ofEph c ep e }, .tlv 2 none true true)
  | .v3 d =>
    -- `defer verify.reset()`: every path leaves the step at waiting
    let st0 := { st with step := .waiting }
    if st.step ≠ .startResp then (st0, .http500)
    else match d with
      | .short _ => (st0, if fixed then .http500 else .panic)
      | .sealed k nonceOk intact pt =>
        match openSealed st (.sealed k nonceOk intact pt) with
        | none => (st0, if fixed then .tlv 4 (some 2) false false else .panic)
        | some .malformed => (st0, .http500)
        | some (.tlv name sig) =>
          match db name with
          | .none => (st0, .http500)
          | .noKey => (st0, .http500)
          | .own _ => (st0, .http500)
          | .badKey => (st0, .tlv 4 (some 4) false false)
          | .key pk =>
            if sigOk c st name pk sig then
              ({ st0 with installed := some st.other, instEpoch := st.epoch }, .tlv 4 none false false)
            else
              (if fixed then st0 else { st0 with installed := some st.other, instEpoch := st.epoch }, .tlv 4 (some 4) false false)

def step (fixed : Bool) (c : Nat) (db : Store) (st : St) (i : In) : St × Out := stepR fixed true c db st i

def In.noop : In → Bool
  | .malformedTlv | .badMethod | .badState _ => true
  | _ => false

/-- a history: each message comes with the pairing store as it is when the message arrives (other connections may
    add or remove pairings in between) -/
def stAfter (fixed : Bool) (c : Nat) (st : St) (hist : List (Store × In)) : St :=
  hist.foldl (fun s x => (step fixed c x.1 s x.2).1) st

end Hc.PairVerify
