/-
  C14 — accessory ids and instance ids (core Lean only).

  Go ↔ Lean
    accessory.New (idCount: 1, ID: info.ID, services: [info service, …])   ↔ `Acc.mk'` / `AccSpec.build`
    (*Accessory).UpdateIDs   accessory/accessory.go:111-121                 ↔ `Acc.updateIDs` (`assignSvcs`, `assignChars`)
    accessory.NewContainer   accessory/container.go:19-25                   ↔ `Container.init`
    (*Container).AddAccessory accessory/container.go:29-43                  ↔ `Container.add`
    (*Container).RemoveAccessory accessory/container.go:46-52               ↔ `Container.remove`
    (*Service).MarshalJSON "linked": ids of the linked services             ↔ `linkedIds`

  Objects are values. The Go heap is modelled by a *pool* of accessory objects (index = object identity): adding an
  accessory mutates the object (UpdateIDs always, `a.ID` when it was 0) even when the container then rejects it, and
  the container refers to objects by pool index. Services and characteristics are owned by exactly one accessory
  (hypothesis of the property: no service / characteristic object is shared between parents or listed twice); a linked
  service is referred to by its index in the accessory's service list (an index outside the list models a linked
  service that was never added to the accessory: its id stays 0).
  Ids are `Nat`; Go uses uint64 — wrap-around needs 2^64 assignments and is not modelled.
  `Container.as` is never cleaned by RemoveAccessory: `keys` only grows.
-/
namespace Hc.Ids

structure Svc where
  id : Nat := 0
  /-- ids of the characteristics, in order (0 = not assigned yet) -/
  chars : List Nat
  /-- linked services, by index into the accessory's service list -/
  linked : List Nat := []
  hidden : Bool := false
  primary : Bool := false
  deriving Repr, DecidableEq

structure Acc where
  id : Nat
  idCount : Nat := 1
  svcs : List Svc
  deriving Repr, DecidableEq

/-- inner loop of UpdateIDs: `c.ID = a.idCount; a.idCount++` -/
def assignChars (c : Nat) : List Nat → List Nat × Nat
  | [] => ([], c)
  | _ :: r => let p := assignChars (c + 1) r; (c :: p.1, p.2)

/-- outer loop of UpdateIDs: `s.ID = a.idCount; a.idCount++; for c in s.Characteristics …` -/
def assignSvcs (c : Nat) : List Svc → List Svc × Nat
  | [] => ([], c)
  | s :: r =>
    let cs := assignChars (c + 1) s.chars
    let p := assignSvcs cs.2 r
    ({ s with id := c, chars := cs.1 } :: p.1, p.2)

/-- `UpdateIDs`: numbering starts at 1 on every call (F49 repair) — the ids are a function of the list of services and
    characteristics alone, however often the accessory is numbered (every `AddAccessory` numbers it, also one that is
    refused, and every new container does) -/
def Acc.updateIDs (a : Acc) : Acc :=
  let p := assignSvcs 1 a.svcs
  { a with svcs := p.1, idCount := p.2 }

/-- before the repair the numbering went on from where the previous call had stopped -/
def Acc.updateIDsOld (a : Acc) : Acc :=
  let p := assignSvcs a.idCount a.svcs
  { a with svcs := p.1, idCount := p.2 }

/-- all instance ids of an accessory in traversal order (service, its characteristics, next service, …) -/
def flatIds (ss : List Svc) : List Nat := ss.flatMap (fun s => s.id :: s.chars)

/-- number of instance ids an accessory needs -/
def size (ss : List Svc) : Nat := (ss.map (fun s => 1 + s.chars.length)).sum

/-- the construction-order shape: number of characteristics of each service -/
def shape (ss : List Svc) : List Nat := ss.map (·.chars.length)

/-- what MarshalJSON prints under "linked" -/
def linkedIds (ss : List Svc) (s : Svc) : List Nat := s.linked.map (fun i => ((ss[i]?).map (·.id)).getD 0)

/-- description of a freshly constructed accessory: explicit id (0 = automatic) and, per service,
    number of characteristics, linked indices, hidden, primary -/
structure SvcSpec where
  nchars : Nat
  linked : List Nat := []
  hidden : Bool := false
  primary : Bool := false
  deriving Repr, DecidableEq

structure AccSpec where
  id : Nat
  svcs : List SvcSpec
  deriving Repr, DecidableEq

def SvcSpec.build (s : SvcSpec) : Svc :=
  { id := 0, chars := List.replicate s.nchars 0, linked := s.linked, hidden := s.hidden, primary := s.primary }

/-- `AddService` (F60 repair): the service is appended and the accessory numbered — "adds a service to the accessory and
    updates the ids of the service and the corresponding characteristics", as its comment always said. -/
def Acc.addService (a : Acc) (s : Svc) : Acc := ({ a with svcs := a.svcs ++ [s] } : Acc).updateIDs

/-- before the repair it only appended: a service added to an accessory that is served already kept id 0 -/
def Acc.addServiceOld (a : Acc) (s : Svc) : Acc := { a with svcs := a.svcs ++ [s] }

/-- accessory.New + AddService calls. Every `AddService` numbers the accessory from 1 (the numbering is a function of
    the list of services alone, `renumbering_is_idempotent`), so a constructed accessory carries the ids 1, 2, 3, … of
    its whole list of services before it has seen a container. (Until F60 the ids were all 0 at this point.) -/
def AccSpec.build (a : AccSpec) : Acc :=
  ({ id := a.id, idCount := 1, svcs := a.svcs.map SvcSpec.build } : Acc).updateIDs

-- ---------------------------------------------------------------------------------------------------

structure Container where
  /-- every accessory object of the program (the heap); index = identity -/
  pool : List Acc
  /-- `Container.Accessories` as pool indices, in order -/
  accs : List Nat := []
  /-- keys of the map `Container.as` -/
  keys : List Nat := []
  idCount : Nat := 1
  deriving Repr

def Container.init (pool : List Acc) : Container := { pool := pool }

inductive Outcome | ok | duplicate (id : Nat) | removed | noObject
  deriving Repr, DecidableEq

/-- `if a.ID == 0 { a.ID = m.idCount }` -/
def Acc.autoId (a : Acc) (n : Nat) : Acc := if a.id = 0 then { a with id := n } else a

/-- `for m.as[m.idCount] != nil { m.idCount++ }`: the first number from `n` on that is no key of the map (at most
    `fuel` steps — with `fuel` > the number of keys the result is free: `nextFree_free`) -/
def nextFree (keys : List Nat) : Nat → Nat → Nat
  | 0, n => n
  | fuel+1, n => if keys.contains n then nextFree keys fuel (n + 1) else n

/-- AddAccessory(pool[k]). F54 repair: an automatic id is the next number that no accessory of the container has (ids
    can also be given explicitly); before it the counter alone decided, and the accessory was refused when an explicit id
    had taken that number (`addOld`). -/
def Container.add (m : Container) (k : Nat) : Container × Outcome :=
  match m.pool[k]? with
  | none => (m, .noObject)
  | some a =>
    let n := nextFree m.keys (m.keys.length + 1) m.idCount
    let a2 := a.updateIDs.autoId n
    let cnt := if a.id = 0 then n + 1 else m.idCount    -- `m.idCount++` only for an automatic id
    let pool' := m.pool.set k a2
    if m.keys.contains a2.id then
      ({ m with pool := pool', idCount := cnt }, .duplicate a2.id)
    else
      ({ pool := pool', accs := m.accs ++ [k], keys := a2.id :: m.keys, idCount := cnt }, .ok)

/-- AddAccessory before the F54 repair -/
def Container.addOld (m : Container) (k : Nat) : Container × Outcome :=
  match m.pool[k]? with
  | none => (m, .noObject)
  | some a =>
    let a2 := a.updateIDs.autoId m.idCount
    let cnt := if a.id = 0 then m.idCount + 1 else m.idCount
    let pool' := m.pool.set k a2
    if m.keys.contains a2.id then
      ({ m with pool := pool', idCount := cnt }, .duplicate a2.id)
    else
      ({ pool := pool', accs := m.accs ++ [k], keys := a2.id :: m.keys, idCount := cnt }, .ok)

/-- RemoveAccessory(pool[k]) (pointer comparison = index comparison; an index occurs at most once in `accs`,
    see `Inv` in the proofs, so the in-place removal loop of the Go code is a filter) -/
def Container.remove (m : Container) (k : Nat) : Container × Outcome :=
  ({ m with accs := m.accs.filter (· != k) }, .removed)

/-- `pool[k].AddService(s)`: the application adds a service to an accessory object — one that no container has seen yet, one
    that is being served, one that was removed -/
def Container.addSvc (m : Container) (k : Nat) (s : SvcSpec) : Container × Outcome :=
  match m.pool[k]? with
  | none => (m, .noObject)
  | some a => ({ m with pool := m.pool.set k (a.addService s.build) }, .ok)

inductive Op | add (k : Nat) | remove (k : Nat) | addSvc (k : Nat) (s : SvcSpec)
  deriving Repr, DecidableEq

def Container.step (m : Container) : Op → Container × Outcome
  | .add k => m.add k
  | .remove k => m.remove k
  | .addSvc k s => m.addSvc k s

def Container.run (m : Container) : List Op → Container × List Outcome
  | [] => (m, [])
  | o :: r =>
    let p := m.step o
    let q := p.1.run r
    (q.1, p.2 :: q.2)

/-- id of the accessory object `k` (0 for a dangling index) -/
def Container.idOf (m : Container) (k : Nat) : Nat := ((m.pool[k]?).map (·.id)).getD 0

/-- the accessory ids served under /accessories, in order -/
def Container.listedIds (m : Container) : List Nat := m.accs.map m.idOf

end Hc.Ids
