import HcModel.Bytes
/-
  Model of `plainRequest` in hap/connection.go (the F19 repair): how a connection WITHOUT a cryptographer finds the end
  of the request it is receiving, and refuses whatever follows before a response has been written.

    Go                                                   Lean
    plainRequest{header, body, inBody, complete}         St
    accept(b) — one raw read of the connection           feed
      header byte by byte until "\n\n" or "\n\r\n"       endsHeader
      http.ReadRequest(header).ContentLength             parameter `cl : Bytes → Option Nat`  (none: parse error, or
                                                          a request of unknown length — chunked coding)
      body counted down                                  .inBody
      bytes after a complete request                     none  (the connection is closed)
    responseWritten() (called by Write before it writes) respond   — for the final response of the request; an INTERIM
                                                          response (`HTTP/1.1 100 Continue`, which net/http writes when a
                                                          handler starts to read the body of a request that carries
                                                          `Expect: 100-continue`) is not the response: `interim` (F48)

  The body is consumed here one byte at a time; the Go code takes min(len(b), body) bytes in one step, which is the same
  function (tied by the correspondence stream `plain`).
-/
namespace Hc.PlainFraming
open Hc

structure St where
  header : Bytes          -- bytes of the request line and header fields received so far (while in the header)
  body : Nat              -- bytes of the body still to come
  inBody : Bool
  complete : Bool         -- the whole request was received and no response has been written yet
deriving DecidableEq, Repr

def init : St := ⟨[], 0, false, false⟩

/-- "\n\n" or "\n\r\n" at the end -/
def endsHeader (h : Bytes) : Bool :=
  [10, 10].isSuffixOf h || [10, 13, 10].isSuffixOf h

/-- one byte arrives; `none`: refused (the connection is closed) -/
def byte (cl : Bytes → Option Nat) (maxHeader : Nat) (s : St) (x : UInt8) : Option St :=
  if s.complete then none
  else if s.inBody then
    some { s with body := s.body - 1, inBody := decide (s.body - 1 > 0), complete := decide (s.body - 1 = 0) }
  else
    let h := s.header ++ [x]
    if endsHeader h then
      match cl h with
      | none => none
      | some n => some { header := [], body := n, inBody := decide (n > 0), complete := decide (n = 0) }
    else if h.length > maxHeader then none
    else some { s with header := h }

/-- When a byte is refused: is the peer told? A refusal that comes from the HEADER of a request — it does not parse, its
    length is unknown (chunked coding), it does not end — is answered with an HTTP error response before the connection is
    closed (F62 repair: 400 / 411 / 431, what net/http itself would have answered; before it the connection was closed
    without a word). Bytes that follow a complete request before its response are the one thing that is refused silently. -/
def answered (s : St) : Bool := !s.complete && !s.inBody

/-- the refusal of a whole read: `none` = the read is accepted; `some told` = refused, and whether the peer is told -/
def refusal (cl : Bytes → Option Nat) (maxHeader : Nat) : St → Bytes → Option Bool
  | _, [] => none
  | s, x :: xs =>
    match byte cl maxHeader s x with
    | none => some (answered s)
    | some s' => refusal cl maxHeader s' xs

/-- one raw read -/
def feed (cl : Bytes → Option Nat) (maxHeader : Nat) : St → Bytes → Option St
  | s, [] => some s
  | s, x :: xs =>
    match byte cl maxHeader s x with
    | none => none
    | some s' => feed cl maxHeader s' xs

/-- a response is about to be written: the next request may follow -/
def respond (s : St) : St := { s with complete := false }

/-- an interim response (1xx) is written: nothing changes — the request is still waiting for its response.
    `fixed := false`: before the repair of F48 every plaintext write counted as the response -/
def interim (fixed : Bool) (s : St) : St := if fixed then s else respond s

inductive Ev
  | read (b : Bytes)
  | respond
  | interim
deriving Repr

/-- a history of raw reads and responses; `none` as soon as a read is refused -/
def runF (fixed : Bool) (cl : Bytes → Option Nat) (maxHeader : Nat) : St → List Ev → Option St
  | s, [] => some s
  | s, .read b :: es =>
    match feed cl maxHeader s b with
    | none => none
    | some s' => runF fixed cl maxHeader s' es
  | s, .respond :: es => runF fixed cl maxHeader (respond s) es
  | s, .interim :: es => runF fixed cl maxHeader (interim fixed s) es

def run (cl : Bytes → Option Nat) (maxHeader : Nat) : St → List Ev → Option St := runF true cl maxHeader

/-- number of bytes of `b` that are accepted before the first refusal (all of them if none is refused) -/
def accepted (cl : Bytes → Option Nat) (maxHeader : Nat) : St → Bytes → Nat
  | _, [] => 0
  | s, x :: xs =>
    match byte cl maxHeader s x with
    | none => 0
    | some s' => 1 + accepted cl maxHeader s' xs

end Hc.PlainFraming
