import HcModel.Storage
/-
  `db.Entities()` while another goroutine removes pairings (two connections: one lists — `isPaired`, a pair-verify
  lookup of all entities — while the other handles a remove-pairing request).

  Go ↔ Lean:
    ks := storage.KeysWithSuffix(".entity") on the directory as it is at that moment (`d0`)  ↔ `listSuffix d0 entitySuffix`
    for each k: storage.Get(k) on the directory as it is THEN (`at k`)                         ↔ `readListed C fixed (at k) k`
    F55 repair: a key whose file has vanished since the listing (`os.IsNotExist`) is skipped;
    before it the whole listing failed (`fixed = false`), and `isPaired` reads a failed listing as "not paired".
-/
namespace Hc.Storage
open Hc Hc.Fs

/-- one read of a listed key: `none` = the listing fails (an undecodable file, a refused key — still errors);
    `some none` = the file is gone (skipped with the repair); `some (some e)` = the entity -/
def readListed (C : Codec) (fixed : Bool) (d : Dir) (k : Key) : Option (Option Entity) :=
  let n := fileName k
  if isTempName n || n.contains 47 || isDirName n then none
  else match lookup d n with
    | some b => (C.dec b).map some
    | none => if fixed then some none else none

def collect : List (Option (Option Entity)) → Option (List Entity)
  | [] => some []
  | none :: _ => none
  | some none :: r => collect r
  | some (some e) :: r => (collect r).map (e :: ·)

/-- `Entities()` with the keys listed from `d0` and key `k` read from the directory `at k` -/
def entitiesRace (C : Codec) (fixed : Bool) (d0 : Dir) (at_ : Key → Dir) : DbRes :=
  match collect ((listSuffix d0 entitySuffix).map fun k => readListed C fixed (at_ k) k) with
  | some l => .entities l
  | none => .err

end Hc.Storage
