import HcModel.PairSetup
import HcModel.PairVerify
import HcModel.Generated.Routes
/-
  Model of request dispatch on the accessory's HTTP server, at the level C01 needs:
    hap/http/server.go          (setupEndpoints: the route table — taken from Generated/Routes.lean, not hand-written)
    hap/http/characteristics.go (Authenticate: refuse unless the session has an encrypter, then return)
    hap/connection.go, hap/context.go, hap/session.go (one session per accepted connection, keyed by remote address;
                                 the cryptographer is set only by the pair-verify endpoint)
    ip_transport.go             (/resource registration)

  Everything behind the middleware (accessories, characteristics, pairings, resource handlers) is an *arbitrary*
  function `Handlers.guarded` on an opaque application state `App` (characteristic values, callbacks,
  subscriptions) and the pairing store: the theorems hold whatever those handlers do.
-/
namespace Hc.Http

inductive Endpoint
  | accessories | characteristics | pairings | resource | identify | pairSetup | pairVerify | other
deriving DecidableEq, Repr

def Endpoint.path : Endpoint → String
  | .accessories => "/accessories"
  | .characteristics => "/characteristics"
  | .pairings => "/pairings"
  | .resource => "/resource"
  | .identify => "/identify"
  | .pairSetup => "/pair-setup"
  | .pairVerify => "/pair-verify"
  | .other => "/"

/-- endpoints that need no verified session by specification -/
def publicPaths : List String := ["/pair-setup", "/pair-verify", "/identify"]

abbrev Routes := List Hc.Generated.Route

def lookup (rs : Routes) (p : String) : Option Hc.Generated.Route := rs.find? (·.path == p)

/-- pairing store as the pair-verify model sees it -/
abbrev Store := Hc.PairVerify.Store

/-- a request: endpoint plus an opaque payload (method, query, body) for the protected handlers, or the symbolic
    pairing message for the two pairing endpoints -/
inductive Req (P : Type)
  | plain (ep : Endpoint) (payload : P)
  | setup (m : Hc.PairSetup.In)
  | verify (m : Hc.PairVerify.In)

inductive Resp (R : Type)
  | refused                              -- HTTP 470, body {"status": -70401}; constant
  | notFound                             -- no route
  | served (r : R)                       -- whatever the protected / public handler answered
  | setup (o : Hc.PairSetup.Out)
  | verify (o : Hc.PairVerify.Out)
deriving Repr

structure Conn where
  pv : Hc.PairVerify.St
  ps : Hc.PairSetup.St

def Conn.init : Conn := ⟨Hc.PairVerify.init, Hc.PairSetup.init⟩

/-- a connection counts as verified iff the pair-verify endpoint installed a cryptographer on its session -/
def Conn.verified (c : Conn) : Bool := c.pv.installed.isSome

structure World (App : Type) where
  conns : Nat → Conn
  store : Store
  app : App

structure Handlers (App P R : Type) where
  /-- any handler behind the middleware: may read and change the application state and the pairing store -/
  guarded : Endpoint → Nat → P → App → Store → App × Store × R
  /-- /identify (public): may change application state (it calls the identify callbacks) but not the store -/
  identify : P → App → App × R
  /-- how a stored pairing of pair-setup enters the store seen by pair-verify (name, key ↦ store update) -/
  save : Store → Nat → Nat → Store

def setConn {App} (w : World App) (c : Nat) (k : Conn) : World App :=
  { w with conns := fun d => if d = c then k else w.conns d }

/-- one request arriving on connection `c` -/
def serve {App P R} (rs : Routes) (H : Handlers App P R) (w : World App) (c : Nat) : Req P → World App × Resp R
  | .setup m =>
    let (ps', o, sv) := Hc.PairSetup.step true c (w.conns c).ps m
    let w1 := setConn w c { (w.conns c) with ps := ps' }
    (match sv with
     | some (n, k) => { w1 with store := H.save w.store n k }
     | none => w1, .setup o)
  | .verify m =>
    let (pv', o) := Hc.PairVerify.step true c w.store (w.conns c).pv m
    (setConn w c { (w.conns c) with pv := pv' }, .verify o)
  | .plain ep p =>
    match lookup rs ep.path with
    | none => (w, .notFound)
    | some r =>
      if r.auth && !(w.conns c).verified then (w, .refused)
      else if ep = .identify then
        let (a', resp) := H.identify p w.app
        ({ w with app := a' }, .served resp)
      else
        let (a', s', resp) := H.guarded ep c p w.app w.store
        ({ w with app := a', store := s' }, .served resp)

/-- events on the server: a request on a connection, or a connection closing (its session is deleted; a new
    connection with that id starts with a fresh session) -/
inductive Ev (P : Type)
  | req (c : Nat) (r : Req P)
  | close (c : Nat)

def stepEv {App P R} (rs : Routes) (H : Handlers App P R) (w : World App) : Ev P → World App × Option (Resp R)
  | .req c r => let (w', o) := serve rs H w c r; (w', some o)
  | .close c => (setConn w c Conn.init, none)

def runEv {App P R} (rs : Routes) (H : Handlers App P R) (w : World App) (evs : List (Ev P)) : World App :=
  evs.foldl (fun w e => (stepEv rs H w e).1) w

/-- the endpoints the property calls protected -/
def Endpoint.isProtected : Endpoint → Bool
  | .accessories | .characteristics | .pairings | .resource => true
  | _ => false

/-- checker over the regenerated route table: every registered path that is not public is wrapped, and every
    protected endpoint of the model is registered-and-wrapped or not registered at all -/
def routesOk (rs : Routes) : Bool :=
  rs.all (fun r => publicPaths.contains r.path || r.auth)

end Hc.Http
