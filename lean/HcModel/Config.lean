import HcModel.Bytes
import HcModel.Pin
import HcModel.Xhm
/-
  Model of the persisted identity / configuration number / discoverability of an ip transport.

  Go                                                     | here
  -------------------------------------------------------+---------------------------------------------
  JSON of accessory.Container (json.Marshal → map)       | J (leaf = null/bool/number/string, atomically coded)
  accessory.deleteFieldFromDict/Array/Interface("value") | strip / stripList / stripKvs
  (*Container).ContentHash = md5(json(strip(json m)))    | H (strip db), H an uninterpreted parameter
  characteristic value update                            | setAt path v (replaces what is stored under a "value" key)
  files uuid / version / configHash, *.entity            | Store.uuid / version / configHash / entities
  db.EntityWithName / SaveEntity / DeleteEntity          | lookup / upsert / remove
  hap.NewDevice (load or create + save)                  | ensureDevice
  defaultConfig (random id, version 1) + (*Config).load  | `uuid.getD freshId`, `version.getD 1`, configHash
  ValidatePin error → NewIPTransport returns before load | Out.errPin, state unchanged
  empty accessory name → log.Info.Panic                  | Out.panicName, state unchanged
  (*ipTransport).isPaired: len(Entities()) > 1           | paired
  (*Config).updateConfigHash                             | bump
  (*Config).save                                         | the `store := …` of `start`
  Handle(DevicePaired/DeviceUnpaired) → updateMDNSReachability | refresh (only a constructed transport listens)
  pair.PairingController.Handle add / delete             | Step.pair / Step.unpair (entity ⟨name, key, none⟩)
  (*ipTransport).XHMURI                                  | Running.uri

  Fresh random values (device id from defaultConfig, key pair from db.NewRandomEntityWithName) are explicit
  arguments `freshId`, `freshKey` of a start; a key pair is one atom `k` (public = k, private = some k).
  file `version` / `configHash` found empty by load          | Step.wipe (then `getD 1` / `none` as on a fresh storage)
  Not modelled: an emptied `uuid` or damaged entity file, the failure branches of file I/O (storage errors are ignored by config.go as well), Start()/mDNS.
-/
namespace Hc.Config
open Hc

/-- JSON value; keys and atomic values are coded as numbers by the harness -/
inductive J where
  | leaf (n : Nat)
  | arr (xs : List J)
  | obj (kvs : List (Nat × J))
deriving Repr, Inhabited

/-- code of the key "value" -/
def valueKey : Nat := 0

mutual
/-- `deleteFieldFromInterface(·, "value")` applied to the whole document -/
def strip : J → J
  | .leaf n => .leaf n
  | .arr xs => .arr (stripList xs)
  | .obj kvs => .obj (stripKvs kvs)
def stripList : List J → List J
  | [] => []
  | x :: xs => strip x :: stripList xs
def stripKvs : List (Nat × J) → List (Nat × J)
  | [] => []
  | (k, v) :: r => if k = valueKey then stripKvs r else (k, strip v) :: stripKvs r
end

mutual
/-- a characteristic value change: follow `path` (child indices) and replace what is stored under a "value" key
    reached on the way by `v`; anything else (path leaves the tree, no "value" key on it) changes nothing -/
def setAt : List Nat → J → J → J
  | i :: p, v, .arr xs => .arr (setAtList i p v xs)
  | i :: p, v, .obj kvs => .obj (setAtKvs i p v kvs)
  | _, _, t => t
def setAtList : Nat → List Nat → J → List J → List J
  | _, _, _, [] => []
  | 0, p, v, x :: xs => setAt p v x :: xs
  | i+1, p, v, x :: xs => x :: setAtList i p v xs
def setAtKvs : Nat → List Nat → J → List (Nat × J) → List (Nat × J)
  | _, _, _, [] => []
  | 0, p, v, (k, x) :: r => if k = valueKey then (k, v) :: r else (k, setAt p v x) :: r
  | i+1, p, v, e :: r => e :: setAtKvs i p v r
end

mutual
/-- canonical text of a document (the driver's injective stand-in for the hash) -/
def J.show : J → String
  | .leaf n => toString n
  | .arr xs => "[" ++ showList xs ++ "]"
  | .obj kvs => "{" ++ showKvs kvs ++ "}"
def showList : List J → String
  | [] => ""
  | x :: xs => x.show ++ "," ++ showList xs
def showKvs : List (Nat × J) → String
  | [] => ""
  | (k, v) :: r => toString k ++ ":" ++ v.show ++ "," ++ showKvs r
end

-- storage -------------------------------------------------------------------------------------------

structure Entity where
  name : Nat
  pub : Nat
  priv : Option Nat
deriving DecidableEq, Repr

def lookup (n : Nat) (es : List Entity) : Option Entity := es.find? (·.name = n)

/-- SaveEntity: one file per name, overwritten -/
def upsert (e : Entity) : List Entity → List Entity
  | [] => [e]
  | x :: xs => if x.name = e.name then e :: xs else x :: upsert e xs

/-- DeleteEntity -/
def remove (n : Nat) (es : List Entity) : List Entity := es.filter (·.name ≠ n)

structure Store (β : Type) where
  uuid : Option Nat := none
  version : Option Nat := none
  configHash : Option β := none
  entities : List Entity := []
deriving Repr

/-- in-memory state of a constructed transport (its `*Config`, device and container) -/
structure Running (β : Type) where
  id : Nat
  version : Nat
  configHash : β
  discoverable : Bool
  devPub : Nat
  devPriv : Option Nat
  pin : Bytes
  setupId : Bytes
  cat : UInt8
  db : J
deriving Repr

structure St (β : Type) where
  store : Store β := {}
  run : Option (Running β) := none
deriving Repr

/-- what the application passes to `NewIPTransport` -/
structure StartCfg where
  pin : Bytes
  setupId : Bytes
  cat : UInt8
  nameEmpty : Bool
  freshId : Nat
  freshKey : Nat
  db : J
deriving Repr

/-- the two files an interrupted write can leave empty without touching identity (an empty file is "absent" for
    `(*Config).load`: `len(b) > 0`) -/
inductive CfgKey | version | configHash
deriving DecidableEq, Repr

inductive Step
  | start (c : StartCfg)
  | pair (name key : Nat)
  | unpair (name : Nat)
  | setValue (path : List Nat) (v : J)
  | stop
  | wipe (k : CfgKey)
deriving Repr

inductive Out | started | errPin | panicName | done
deriving DecidableEq, Repr

/-- `isPaired` -/
def paired (es : List Entity) : Bool := decide (es.length > 1)

/-- `updateConfigHash` on the loaded version -/
def bump [DecidableEq β] (stored : Option β) (h : β) (ver : Nat) : Nat :=
  match stored with
  | some old => if old ≠ h then ver + 1 else ver
  | none => ver

/-- `updateMDNSReachability` of the live transport, if any -/
def refresh (es : List Entity) (r : Option (Running β)) : Option (Running β) :=
  r.map fun r => { r with discoverable := !paired es }

/-- `hap.NewDevice`: the entity stored under the device id, else a new random one that is saved -/
def ensureDevice (id freshKey : Nat) (es : List Entity) : Entity × List Entity :=
  match lookup id es with
  | some e => (e, es)
  | none => (⟨id, freshKey, some freshKey⟩, upsert ⟨id, freshKey, some freshKey⟩ es)

variable {β : Type} [DecidableEq β]

/-- `NewIPTransport` -/
def start (H : J → β) (s : St β) (c : StartCfg) : St β × Out :=
  if c.nameEmpty then (s, .panicName)
  else match Pin.validatePin c.pin with
  | .error _ => (s, .errPin)
  | .ok _ =>
    let id := s.store.uuid.getD c.freshId
    let ver := s.store.version.getD 1
    let dev := (ensureDevice id c.freshKey s.store.entities).1
    let ents := (ensureDevice id c.freshKey s.store.entities).2
    let h := H (strip c.db)
    let ver' := bump s.store.configHash h ver
    ({ store := { uuid := some id, version := some ver', configHash := some h, entities := ents },
       run := some { id := id, version := ver', configHash := h, discoverable := !paired ents,
                     devPub := dev.pub, devPriv := dev.priv, pin := c.pin, setupId := c.setupId, cat := c.cat, db := c.db } },
     .started)

/-- the entity stored under `n` holds a private key: it is the accessory's own, not a pairing. Pair-setup M5 and
    /pairings refuse to store or remove a pairing under such a name (F16 repair; before it a controller that named itself
    like the accessory replaced the accessory's key pair). -/
def ownEntity (n : Nat) (es : List Entity) : Bool :=
  match lookup n es with
  | some e => e.priv.isSome
  | none => false

def step (H : J → β) (s : St β) : Step → St β × Out
  | .start c => start H s c
  | .pair n k =>
    if ownEntity n s.store.entities then (s, .done) else
    let es := upsert ⟨n, k, none⟩ s.store.entities
    ({ store := { s.store with entities := es }, run := refresh es s.run }, .done)
  | .unpair n =>
    if ownEntity n s.store.entities then (s, .done) else
    let es := remove n s.store.entities
    ({ store := { s.store with entities := es }, run := refresh es s.run }, .done)

  | .setValue p v => ({ s with run := s.run.map fun r => { r with db := setAt p v r.db } }, .done)
  | .stop => ({ s with run := none }, .done)
  | .wipe .version => ({ s with store := { s.store with version := none } }, .done)
  | .wipe .configHash => ({ s with store := { s.store with configHash := none } }, .done)

/-- the same without the guard: the behaviour before the repair of F16 -/
def stepOld (H : J → β) (s : St β) : Step → St β × Out
  | .pair n k =>
    let es := upsert ⟨n, k, none⟩ s.store.entities
    ({ store := { s.store with entities := es }, run := refresh es s.run }, .done)
  | .unpair n =>
    let es := remove n s.store.entities
    ({ store := { s.store with entities := es }, run := refresh es s.run }, .done)
  | st => step H s st

def run (H : J → β) (s : St β) : List Step → St β
  | [] => s
  | x :: xs => run H (step H s x).1 xs

/-- `(*ipTransport).XHMURI()`: flag IP = 2 -/
def Running.uri (r : Running β) : Option Bytes := Xhm.xhmUri r.pin r.setupId r.cat [2]

/-- the name a step stores or deletes an entity under -/
def Step.name? : Step → Option Nat
  | .pair n _ => some n
  | .unpair n => some n
  | _ => none

def Step.isStart : Step → Bool
  | .start _ => true
  | _ => false

/-- steps that can change the stored content hash / configuration number -/
def Step.touchesConfig : Step → Bool
  | .start _ => true
  | .wipe _ => true
  | _ => false

/-! ## a restart during which stored values cannot be read (F64)

  `util.Storage.Get` can fail for a reason other than "there is no such value" (no file descriptor left, an I/O error,
  a permission): `Faults` says which of the four reads of `NewIPTransport` fail that way during one start. -/

structure Faults where
  uuid : Bool := false
  version : Bool := false
  configHash : Bool := false
  /-- the read of the entity stored under the device id (`hap.NewDevice`) -/
  entity : Bool := false
deriving DecidableEq, Repr

/-- `(*Config).load` returns the error -/
def Faults.load (f : Faults) : Bool := f.uuid || f.version || f.configHash

/-- `NewIPTransport` when some reads fail: the name and the setup code are checked first; `load` returns before anything
    is written; the id is stored; `hap.NewDevice` creates a key pair only when there is no entity (`os.IsNotExist`) and
    returns every other error. `none`: the constructor returned that error (there is no transport). -/
def startF (H : J → β) (s : St β) (c : StartCfg) (f : Faults) : St β × Option Out :=
  if (start H s c).2 = .started then
    if f.load then (s, none)
    else if f.entity then
      ({ s with store := { s.store with uuid := some (s.store.uuid.getD c.freshId) } }, none)
    else ((start H s c).1, some .started)
  else start H s c |>.map id some

/-- what the start sees of the storage when an unreadable value is taken for a missing one -/
def mask (f : Faults) (c : StartCfg) (s : St β) : St β :=
  let uuid := if f.uuid then none else s.store.uuid
  { s with store :=
      { uuid := uuid
        version := if f.version then none else s.store.version
        configHash := if f.configHash then none else s.store.configHash
        entities := if f.entity then remove (uuid.getD c.freshId) s.store.entities else s.store.entities } }

/-- the behaviour before the repair of F64: every error of a read was "no such value" – a new id, version 1 and a new
    key pair were stored over the values which could not be read right now -/
def startFOld (H : J → β) (s : St β) (c : StartCfg) (f : Faults) : St β × Option Out :=
  if (start H s c).2 = .started then start H (mask f c s) c |>.map id some
  else start H s c |>.map id some

/-- a history of steps, each start with the reads which fail during it -/
def runF (H : J → β) (s : St β) : List (Step × Faults) → St β
  | [] => s
  | (.start c, f) :: xs => runF H (startF H s c f).1 xs
  | (st, _) :: xs => runF H (step H s st).1 xs

/-! ## the advertisement when the pairings cannot be listed (F66)

  `isPaired` lists the entities (`Database.Entities`: the directory, then every entity file). The listing can fail — the
  directory cannot be opened, one entity file cannot be read or does not parse. -/

/-- `sf` after `updateMDNSReachability` / at the end of `NewIPTransport`: discoverable only when the listing succeeded
    and holds no controller -/
def advertised (listingFails : Bool) (es : List Entity) : Bool := !(listingFails || paired es)

/-- before the repair: a failed listing was "not paired" -/
def advertisedOld (listingFails : Bool) (es : List Entity) : Bool := listingFails || !paired es

end Hc.Config
