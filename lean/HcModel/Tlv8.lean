import HcModel.Bytes
/-
  Model of util/tlv8.go (the TLV8 container used on all pairing paths).

  Go                                   | here
  -------------------------------------+--------------------------------
  tlv8{tag,length,value}               | Item (length = val.length)
  (*tlv8Container).SetBytes            | setBytes   (fragments = chunks 255; empty value adds nothing)
  (*tlv8Container).BytesBuffer         | serialize
  NewTLV8ContainerFromReader           | parse      (binary.Read/io.ReadFull on a byte source)
  GetBytes / GetByte                   | getBytes / getByte
-/
namespace Hc.Tlv8

structure Item where
  tag : UInt8
  val : Bytes
deriving DecidableEq, Repr

abbrev Container := List Item

def Item.ok (i : Item) : Prop := i.val.length ≤ 255
def ItemsOk (c : Container) : Prop := ∀ i ∈ c, i.ok

def setBytes (c : Container) (t : UInt8) (v : Bytes) : Container :=
  c ++ (chunks 255 v).map (Item.mk t)

def setByte (c : Container) (t : UInt8) (b : UInt8) : Container := setBytes c t [b]

def serialize : Container → Bytes
  | [] => []
  | i :: is => i.tag :: UInt8.ofNat i.val.length :: (i.val ++ serialize is)

/-- error kinds of the Go parser: `io.EOF` (length byte missing, or value entirely missing) and
    `io.ErrUnexpectedEOF` (value cut short) -/
inductive Err | eof | unexpectedEof
deriving DecidableEq, Repr

/-- follows NewTLV8ContainerFromReader: tag, length, value; EOF is only accepted at an item boundary -/
def parse : (bs : Bytes) → Except Err Container
  | [] => .ok []
  | [_] => .error .eof
  | t :: n :: rest =>
    if n.toNat ≤ rest.length then
      match parse (rest.drop n.toNat) with
      | .ok is => .ok (⟨t, rest.take n.toNat⟩ :: is)
      | .error e => .error e
    else if rest.isEmpty then .error .eof else .error .unexpectedEof
termination_by bs => bs.length
decreasing_by simp [List.length_drop]; omega

def getBytes (c : Container) (t : UInt8) : Bytes :=
  (c.filter (fun i => i.tag == t)).flatMap Item.val

def getByte (c : Container) (t : UInt8) : UInt8 :=
  match getBytes c t with
  | [] => 0
  | b :: _ => b

/-- A standard TLV8 reader (HAP spec §14.1): an item continues its predecessor iff the tags are
    equal and the predecessor fragment was 255 bytes long. `acc` is the item being assembled together
    with the length of its last fragment. -/
def stdMerge : Option (Item × Nat) → Container → Container
  | none, [] => []
  | some (a, _), [] => [a]
  | none, i :: is => stdMerge (some (i, i.val.length)) is
  | some (a, last), i :: is =>
    if a.tag == i.tag && last == 255 then stdMerge (some (⟨a.tag, a.val ++ i.val⟩, i.val.length)) is
    else a :: stdMerge (some (i, i.val.length)) is

def stdParse (bs : Bytes) : Except Err Container :=
  match parse bs with
  | .ok is => .ok (stdMerge none is)
  | .error e => .error e

/-- a sequence of set operations -/
def runSets (ops : List (UInt8 × Bytes)) : Container :=
  ops.foldl (fun c op => setBytes c op.1 op.2) []

end Hc.Tlv8
