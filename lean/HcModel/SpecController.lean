import HcModel.Sym
import HcModel.Generated.PairLabels
/-
  C04: a controller written from the HAP specification (R2 §5.6 pair setup, §5.7 pair verify, §6.5 session security)
  run against the accessory procedure *as parameterised by the labels, nonces and material orders that the
  extractor reads from /repo* (Generated/PairLabels.lean).

  Accessory side follows hap/pair/setup_server_controller.go, verify_server_controller.go, crypto/secure_session.go;
  controller side is the specification. Both are straight-line symbolic computations over `Sym.Term`.
-/
namespace Hc.Spec
open Hc.Sym Hc.Sym.Term

/-- fields a signature material can be built from -/
inductive Field | hash | name | ltpk | ownEph | peerEph
deriving DecidableEq, Repr

structure Labels where
  srpUser : String
  srpGroup : String
  srpHash : String
  setupEncSalt : String
  setupEncInfo : String
  ctrlSignSalt : String
  ctrlSignInfo : String
  accSignSalt : String
  accSignInfo : String
  nonceM5 : String
  nonceM6 : String
  verifyEncSalt : String
  verifyEncInfo : String
  nonceV2 : String
  nonceV3 : String
  controlSalt : String
  accEncInfo : String        -- accessory → controller direction key
  accDecInfo : String        -- controller → accessory direction key
  ctrlSignOrder : List Field -- material the accessory checks in M5
  accSignOrder : List Field  -- material the accessory signs in M6
  accVerifyOrder : List Field  -- material the accessory signs in pair-verify M2
  ctrlVerifyOrder : List Field -- material the accessory checks in pair-verify M3
deriving DecidableEq, Repr

/-- the specification's constants (HAP R2, transcribed by hand; DESIGN.md §6 C04 "Limits") -/
def specLabels : Labels :=
  { srpUser := "Pair-Setup", srpGroup := "rfc5054.3072", srpHash := "sha512.New",
    setupEncSalt := "Pair-Setup-Encrypt-Salt", setupEncInfo := "Pair-Setup-Encrypt-Info",
    ctrlSignSalt := "Pair-Setup-Controller-Sign-Salt", ctrlSignInfo := "Pair-Setup-Controller-Sign-Info",
    accSignSalt := "Pair-Setup-Accessory-Sign-Salt", accSignInfo := "Pair-Setup-Accessory-Sign-Info",
    nonceM5 := "PS-Msg05", nonceM6 := "PS-Msg06",
    verifyEncSalt := "Pair-Verify-Encrypt-Salt", verifyEncInfo := "Pair-Verify-Encrypt-Info",
    nonceV2 := "PV-Msg02", nonceV3 := "PV-Msg03",
    controlSalt := "Control-Salt",
    accEncInfo := "Control-Read-Encryption-Key", accDecInfo := "Control-Write-Encryption-Key",
    ctrlSignOrder := [.hash, .name, .ltpk], accSignOrder := [.hash, .name, .ltpk],
    accVerifyOrder := [.ownEph, .name, .peerEph], ctrlVerifyOrder := [.peerEph, .name, .ownEph] }

-- reading the labels out of the regenerated rows ----------------------------------------------------------------

open Hc.Generated in
def rowsOf (rows : List LabelRow) (file func kind : String) : List LabelRow :=
  rows.filter (fun r => r.file == file && r.func == func && r.kind == kind)

def fieldOfExpr (e : String) : Option Field :=
  if e == "hash[:]" then some .hash
  else if e == "[]byte(username)" || e == "[]byte(setup.session.Username)" || e == "device.Name()" then some .name
  else if e == "clientltpk" || e == "ltpk" then some .ltpk
  else if e == "verify.session.PublicKey[:]" then some .ownEph
  else if e == "verify.session.OtherPublicKey[:]" || e == "clientPublicKey" then some .peerEph
  else none

open Hc.Generated in
/-- the `group`-th append chain of signature material in a function: one row per operand, in source order -/
def orderOf (rows : List LabelRow) (file func group : String) : Option (List Field) :=
  ((rows.filter (fun r => r.file == file && r.func == func && r.kind == "material" && r.a == group)).map (·.b)).mapM fieldOfExpr

def setupCtl := "hap/pair/setup_server_controller.go"
def verifyCtl := "hap/pair/verify_server_controller.go"
def secSess := "crypto/secure_session.go"
def fnKeyEx := "*SetupServerController.handleKeyExchange"
def fnM3 := "*SetupServerController.handlePairVerify"
def fnV1 := "*VerifyServerController.handlePairVerifyStart"
def fnV3 := "*VerifyServerController.handlePairVerifyFinish"

open Hc.Generated in
/-- the accessory's labels, by call site. `none` if a call site is missing or has an unexpected shape. -/
def labelsOf (rows : List LabelRow) : Option Labels := do
  let [enc] := rowsOf rows setupCtl fnM3 "hkdf" | none
  let [cs, as] := rowsOf rows setupCtl fnKeyEx "hkdf" | none
  let [n5] := rowsOf rows setupCtl fnKeyEx "DecryptAndVerify" | none
  let [n6] := rowsOf rows setupCtl fnKeyEx "EncryptAndSeal" | none
  let [venc] := rowsOf rows verifyCtl fnV1 "hkdf" | none
  let [v2] := rowsOf rows verifyCtl fnV1 "EncryptAndSeal" | none
  let [v3] := rowsOf rows verifyCtl fnV3 "DecryptAndVerify" | none
  let [se, sd] := rowsOf rows secSess "NewSecureSessionFromSharedKey" "hkdf" | none
  let [user] := (rowsOf rows "hap/pair/setup_server_session.go" "NewSetupServerSession" "local").filter (·.a == "pairName") | none
  let [srp] := rowsOf rows "hap/pair/setup_server_session.go" "NewSetupServerSession" "srp" | none
  -- AEAD associated data of the pairing messages must be absent, salts of the two session keys equal
  if n5.b != "nil" || n6.b != "nil" || v2.b != "nil" || v3.b != "nil" || se.a != sd.a then none
  pure { srpUser := user.b, srpGroup := srp.a, srpHash := srp.b,
         setupEncSalt := enc.a, setupEncInfo := enc.b, ctrlSignSalt := cs.a, ctrlSignInfo := cs.b,
         accSignSalt := as.a, accSignInfo := as.b, nonceM5 := n5.a, nonceM6 := n6.a,
         verifyEncSalt := venc.a, verifyEncInfo := venc.b, nonceV2 := v2.a, nonceV3 := v3.a,
         controlSalt := se.a, accEncInfo := se.b, accDecInfo := sd.b,
         ctrlSignOrder := ← orderOf rows setupCtl fnKeyEx "0", accSignOrder := ← orderOf rows setupCtl fnKeyEx "1",
         accVerifyOrder := ← orderOf rows verifyCtl fnV1 "0", ctrlVerifyOrder := ← orderOf rows verifyCtl fnV3 "0" }

-- the two parties ---------------------------------------------------------------------------------------------------

structure Params where
  code : Term          -- setup code as formatted by the accessory (XXX-XX-XXX); C20 pin theorems cover the formatting
  ctrlCode : Term      -- the code the controller's user typed
  ctrlName : Term
  ctrlSk : Term        -- controller long-term secret key
  accName : Term
  accSk : Term         -- accessory long-term secret key
  salt : Term
  a : Term
  b : Term             -- SRP secrets
  ctrlEphSk : Term
  accEphSk : Term      -- Curve25519 ephemeral secrets

def S (s : String) : Term := str s

def material (order : List Field) (hash name ltpk ownEph peerEph : Term) : Term :=
  catL (order.map fun
    | .hash => hash | .name => name | .ltpk => ltpk | .ownEph => ownEph | .peerEph => peerEph)

structure Result where
  m4Accepted : Bool          -- accessory accepted the controller's proof
  m4ProofOk : Bool           -- controller verified the accessory's proof M2
  stored : Option (Term × Term)  -- what the accessory stored after M5
  m6Ok : Bool                -- controller opened M6 and verified the accessory's signature and identity
  v2Ok : Bool                -- controller opened pair-verify M2 and verified the accessory's signature
  v4Ok : Bool                -- accessory opened M3 and verified the controller's signature against the stored key
  keysAgree : Bool           -- controller-write = accessory-read key and vice versa, and the two directions differ
deriving DecidableEq, Repr

/-- the whole honest exchange: controller per specification (`specLabels`), accessory per labels `L` -/
def honestRun (L : Labels) (p : Params) : Result :=
  let SL := specLabels
  -- pair-setup, accessory
  let xAcc := srpx (S L.srpUser) p.code p.salt
  let B := srpB p.b xAcc
  -- controller
  let A := srpA p.a
  let xCtl := srpx (S SL.srpUser) p.ctrlCode p.salt
  let Kc := srpClientK p.a B xCtl
  let M1 := srpM1 (S SL.srpUser) p.salt A B Kc
  -- accessory M3/M4
  let Ka := srpServerK A p.b xAcc
  let accepted := M1 == srpM1 (S L.srpUser) p.salt A B Ka
  let M2 := srpM2 A M1 Ka
  let proofOk := M2 == srpM2 A M1 Kc
  -- controller M5
  let encC := hkdf Kc (S SL.setupEncSalt) (S SL.setupEncInfo)
  let hC := hkdf Kc (S SL.ctrlSignSalt) (S SL.ctrlSignInfo)
  let ltpkC := edpub p.ctrlSk
  let sigC := sig p.ctrlSk (material SL.ctrlSignOrder hC p.ctrlName ltpkC empty empty)
  let m5 := aead encC (S SL.nonceM5) empty (catL [p.ctrlName, ltpkC, sigC])
  -- accessory M5/M6
  let encA := hkdf Ka (S L.setupEncSalt) (S L.setupEncInfo)
  let (stored, m6) :=
    if !accepted then (none, empty) else
    match openAead encA (S L.nonceM5) empty m5 with
    | some (cat name (cat ltpk (cat sg empty))) =>
      let hA := hkdf Ka (S L.ctrlSignSalt) (S L.ctrlSignInfo)
      if verifySig ltpk (material L.ctrlSignOrder hA name ltpk empty empty) sg then
        let hA2 := hkdf Ka (S L.accSignSalt) (S L.accSignInfo)
        let ltpkA := edpub p.accSk
        let sgA := sig p.accSk (material L.accSignOrder hA2 p.accName ltpkA empty empty)
        (some (name, ltpk), aead encA (S L.nonceM6) empty (catL [p.accName, ltpkA, sgA]))
      else (none, empty)
    | _ => (none, empty)
  -- controller M6
  let m6Ok :=
    match openAead encC (S SL.nonceM6) empty m6 with
    | some (cat name (cat ltpk (cat sg empty))) =>
      let h := hkdf Kc (S SL.accSignSalt) (S SL.accSignInfo)
      verifySig ltpk (material SL.accSignOrder h name ltpk empty empty) sg && name == p.accName
    | _ => false
  let accLtpk := edpub p.accSk
  -- pair-verify: controller M1, accessory M2
  let ctrlEph := xpub p.ctrlEphSk
  let accEph := xpub p.accEphSk
  let sharedA := dhAcc p.accEphSk ctrlEph
  let vkA := hkdf sharedA (S L.verifyEncSalt) (S L.verifyEncInfo)
  let sgV2 := sig p.accSk (material L.accVerifyOrder empty p.accName empty accEph ctrlEph)
  let v2 := aead vkA (S L.nonceV2) empty (catL [p.accName, sgV2])
  -- controller checks M2, sends M3
  let sharedC := dhCtrl p.ctrlEphSk accEph
  let vkC := hkdf sharedC (S SL.verifyEncSalt) (S SL.verifyEncInfo)
  let v2Ok :=
    match openAead vkC (S SL.nonceV2) empty v2 with
    | some (cat name (cat sg empty)) =>
      -- specification: AccessoryInfo = accessory ephemeral key ‖ AccessoryPairingID ‖ controller ephemeral key
      verifySig accLtpk (catL [accEph, name, ctrlEph]) sg && name == p.accName
    | _ => false
  let sgV3 := sig p.ctrlSk (catL [ctrlEph, p.ctrlName, accEph])
  let v3 := aead vkC (S SL.nonceV3) empty (catL [p.ctrlName, sgV3])
  -- accessory checks M3 against the stored key
  let v4Ok :=
    match openAead vkA (S L.nonceV3) empty v3, stored with
    | some (cat name (cat sg empty)), some (sname, skey) =>
      name == sname && verifySig skey (material L.ctrlVerifyOrder empty name empty accEph ctrlEph) sg
    | _, _ => false
  -- session keys
  let accEnc := hkdf sharedA (S L.controlSalt) (S L.accEncInfo)
  let accDec := hkdf sharedA (S L.controlSalt) (S L.accDecInfo)
  let ctlEnc := hkdf sharedC (S SL.controlSalt) (S "Control-Write-Encryption-Key")
  let ctlDec := hkdf sharedC (S SL.controlSalt) (S "Control-Read-Encryption-Key")
  { m4Accepted := accepted, m4ProofOk := proofOk, stored := stored, m6Ok := m6Ok, v2Ok := v2Ok, v4Ok := v4Ok,
    keysAgree := accEnc == ctlDec && accDec == ctlEnc && accEnc != accDec }

/-- expected TLV8 tag / state / error / method constants of the specification (HAP R2 tables 5-5, 5-6) -/
def specConsts : List (String × String) :=
  [("TagPairingMethod", "0"), ("TagUsername", "1"), ("TagSalt", "2"), ("TagPublicKey", "3"), ("TagProof", "4"),
   ("TagEncryptedData", "5"), ("TagSequence", "6"), ("TagErrCode", "7"), ("TagSignature", "10"), ("TagPermission", "11"),
   ("PairStepStartRequest", "1"), ("PairStepStartResponse", "2"), ("PairStepVerifyRequest", "3"),
   ("PairStepVerifyResponse", "4"), ("PairStepKeyExchangeRequest", "5"), ("PairStepKeyExchangeResponse", "6"),
   ("VerifyStepStartRequest", "1"), ("VerifyStepStartResponse", "2"), ("VerifyStepFinishRequest", "3"),
   ("VerifyStepFinishResponse", "4"),
   ("ErrCodeUnknown", "1"), ("ErrCodeAuthenticationFailed", "2"), ("ErrCodeUnknownPeer", "4"),
   ("PairingMethodDefault", "0"), ("PairingMethodAdd", "3"), ("PairingMethodDelete", "4"),
   ("SRPGroup", "rfc5054.3072")]

end Hc.Spec
