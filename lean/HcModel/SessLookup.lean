/-
  Model of how a hap.Connection finds its session while the connection may be closed at the same time
  (hap/connection.go Write / EncryptedWrite / Read / DecryptedRead; hap/context.go; Connection.Close deletes the
  session from the context, then closes the socket).

  The session — and with it the cryptographer — is looked up in the shared context. `Close` (run by net/http's
  connection goroutine) may delete it between any two lookups of a `Write` (run by the application's goroutine that
  sends a notification) or of a `Read` (net/http's background read). `d = some n`: exactly the first `n` lookups of
  the operation still see the session; `d = none`: the session is never deleted.

  `fixed = false` is the code before the F20 repair: Write asked `getEncrypter() != nil`, then EncryptedWrite called
  `getEncrypter().Encrypt(..)` again — a nil dereference in the APPLICATION's goroutine when the session vanished in
  between — and with no session at the first lookup the payload went out in PLAINTEXT on a verified connection.
-/
namespace Hc.SessLookup

inductive Out
  | sealed      -- went through the session's cryptographer (encrypted on write, decrypted on read)
  | raw         -- bytes passed through untouched (plaintext on the wire / undecrypted bytes to the reader)
  | refused     -- error returned, nothing written / delivered
  | panic
deriving DecidableEq, Repr

def present (d : Option Nat) (k : Nat) : Bool :=
  match d with
  | none => true
  | some n => k < n

/-- Connection.Write on a connection whose session has (`verified`) or has not a cryptographer -/
def write (fixed verified : Bool) (d : Option Nat) : Out :=
  if fixed then
    if present d 0 then (if verified then .sealed else .raw) else .refused
  else
    if present d 0 && verified then (if present d 1 then .sealed else .panic) else .raw

/-- Connection.Read with one complete frame available -/
def read (fixed verified : Bool) (d : Option Nat) : Out :=
  if present d 0 && verified then
    (if present d 1 then .sealed else if fixed then .refused else .panic)
  else .raw

end Hc.SessLookup
