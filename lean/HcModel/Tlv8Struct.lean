import HcModel.Tlv8
/-
  Model of tlv8/{encoder,writer,reader,decoder}.go (struct TLV8 marshalling, used by rtp/*.go),
  as repaired by the five `fix:` commits of F12. Core Lean only.

  Go                                            | here
  ----------------------------------------------+-------------------------------------------------
  a Go struct type with `tlv8:"N"` field tags   | Ty.struct / Fields (deep embedding; the harness reflects Go types into it)
  a []T field (T a struct), tag "N" or "-"      | Ty.list inline fields
  a Go value of such a type                     | Val (uint*, float32 bits: nat; int*: int; string/[]byte: bytes)
  writer.writeBytes                             | frag          (chunks of 255; empty value writes nothing)
  writer.writeByte/Bool/Uint16/…/Float32/String | payload       (little-endian value bytes) + frag
  structPayload (encoder.go)                    | encFields / encField / joinElems (`00 00` between list elements)
  Marshal                                       | marshal       (= serialize of the item list)
  read (reader.go)                              | read = Tlv8.parse then foldl addItem (bucket map, fragment merging, delimiters)
  reader{m,n}, readBytes, len, eof              | Rd, Rd.readBytes, (inlined in decScalar), Rd.eof
  readByte/readUint16/…/readint64/readFloat32   | decScalar     (width promotion; `b[i]` on a short value = DRes.panic)
  decoder.decode                                | decFields / decField / loopTagged / loopInline
  Unmarshal                                     | unmarshal

  Not modelled: pointer fields (`*T`, `[]*T`), top-level slices (encodeSlice/decodeSlice), fields of
  kinds the Go code does not support (they panic in reflect), decoding into a non-zero target value.
  `decoder.decode` can only fail with io.ErrUnexpectedEOF (readFloat32 on a short value, or a nested
  struct whose bytes are cut short); its `err == io.EOF` tests are dead for that reason, and `DRes`
  has a single error. `Unmarshal` itself can also fail with io.EOF from `read`.
-/
namespace Hc.Tlv8Struct
open Hc Hc.Tlv8

mutual
inductive Ty
  | u8 | u16 | u32 | u64 | i8 | i16 | i32 | i64 | f32 | bool | str | bytes
  | struct (fs : Fields)
  /-- `[]T` with `T` a struct of the given fields; `inline` = tagged `tlv8:"-"` -/
  | list (inline : Bool) (fs : Fields)
inductive Fields
  | nil
  | cons (tag : UInt8) (t : Ty) (rest : Fields)
end

inductive Val
  | nat (n : Nat)
  | int (i : Int)
  | bool (b : Bool)
  | bytes (b : Bytes)
  | struct (vs : List Val)
  | list (vs : List Val)

/-- two's complement of a `w`-bit signed integer -/
def toU (w : Nat) (i : Int) : Nat := (i % (2 ^ w : Nat)).toNat
def ofU (w : Nat) (n : Nat) : Int := if n < 2 ^ (w - 1) then (n : Int) else (n : Int) - (2 ^ w : Nat)

-- ---------------------------------------------------------------------------------- encoder

/-- writer.writeBytes: fragments of at most 255 bytes; nothing at all for an empty value -/
def frag (t : UInt8) (v : Bytes) : List Item := (chunks 255 v).map (Item.mk t)

/-- `00 00` -/
def delim : Item := ⟨0, []⟩

/-- items of the elements of a list field: `wr.write({0,0})` before every element but the first -/
def joinElems : List (List Item) → List Item
  | [] => []
  | [e] => e
  | e :: es => e ++ delim :: joinElems es

def structVals : Val → List Val
  | .struct vs => vs
  | _ => []

/-- the value bytes handed to writeBytes for a field of scalar / string / bytes kind
    (writeByte and writeBool write `tag 01 b` directly, which is the same single item) -/
def scalarPayload : Ty → Val → Bytes
  | .u8, .nat n => [UInt8.ofNat n]
  | .u16, .nat n => leN 2 n
  | .u32, .nat n => leN 4 n
  | .u64, .nat n => leN 8 n
  | .f32, .nat n => leN 4 n
  | .i8, .int i => [UInt8.ofNat (toU 8 i)]
  | .i16, .int i => leN 2 (toU 16 i)
  | .i32, .int i => leN 4 (toU 32 i)
  | .i64, .int i => leN 8 (toU 64 i)
  | .bool, .bool b => [if b then 1 else 0]
  | .str, .bytes b => b
  | .bytes, .bytes b => b
  | _, _ => []

mutual
/-- structPayload, one field -/
def encField (tag : UInt8) : Ty → Val → List Item
  | .struct fs, .struct vs => frag tag (serialize (encFields fs vs))
  | .struct _, _ => []
  | .list true fs, .list vs => joinElems (vs.map fun v => encFields fs (structVals v))
  | .list false fs, .list vs => joinElems (vs.map fun v => frag tag (serialize (encFields fs (structVals v))))
  | .list _ _, _ => []
  | t, v => frag tag (scalarPayload t v)

/-- structPayload -/
def encFields : Fields → List Val → List Item
  | .nil, _ => []
  | .cons _ _ _, [] => []
  | .cons tag t rest, v :: vs => encField tag t v ++ encFields rest vs
end

/-- the value bytes of a non-list field -/
def payload : Ty → Val → Bytes
  | .struct fs, .struct vs => serialize (encFields fs vs)
  | .struct _, _ => []
  | t, v => scalarPayload t v

/-- tlv8.Marshal of a struct value -/
def marshal : Ty → Val → Bytes
  | .struct fs, .struct vs => serialize (encFields fs vs)
  | _, _ => []

-- ---------------------------------------------------------------------------------- reader

/-- `map[byte][]bucket`; a key is present iff its list is non-empty -/
abbrev RMap := List (UInt8 × List Bytes)

def RMap.get (m : RMap) (t : UInt8) : List Bytes :=
  match m.find? (fun p => p.1 == t) with
  | some p => p.2
  | none => []

def RMap.set (m : RMap) (t : UInt8) (l : List Bytes) : RMap :=
  (if l.isEmpty then [] else [(t, l)]) ++ m.filter (fun p => !(p.1 == t))

/-- number of buckets (an upper bound of the number of values that can still be read) -/
def RMap.size : RMap → Nat
  | [] => 0
  | p :: m => p.2.length + RMap.size m

def appendLast : List Bytes → Bytes → List Bytes
  | [], v => [v]
  | [x], v => [x ++ v]
  | x :: xs, v => x :: appendLast xs v

/-- one turn of the loop in `read`: state = (h, lastItemWasDelimiter) -/
def addItem (st : RMap × Bool) (i : Item) : RMap × Bool :=
  let h :=
    if i.val.isEmpty then st.1
    else match st.1.get i.tag with
      | [] => st.1.set i.tag [i.val]
      | l => if st.2 then st.1.set i.tag (l ++ [i.val]) else st.1.set i.tag (appendLast l i.val)
  (h, i.tag == 0 && i.val.isEmpty)

def readItems (is : List Item) : RMap := (is.foldl addItem ([], false)).1

/-- reader.go `read` -/
def read (bs : Bytes) : Except Err RMap :=
  match parse bs with
  | .ok is => .ok (readItems is)
  | .error e => .error e

structure Rd where
  m : RMap
  /-- number of values read so far -/
  n : Nat

def Rd.eof (r : Rd) : Bool := r.m.isEmpty

/-- reader.readBytes: `none` = io.EOF -/
def Rd.readBytes (r : Rd) (t : UInt8) : Option Bytes × Rd :=
  match r.m.get t with
  | [] => (none, r)
  | b :: rest => (some b, ⟨r.m.set t rest, r.n + 1⟩)

/-- result of decoder.decode: `err` = io.ErrUnexpectedEOF; `panic` = Go run-time panic (index out of
    range); `fuel` = the bound of an inline-list loop was exhausted (shown unreachable) -/
inductive DRes (α : Type)
  | ok (a : α) | err | panic | fuel

/-- `b[0]` -/
def byte0 : Bytes → DRes Nat
  | [] => .panic
  | x :: _ => .ok x.toNat

/-- binary.LittleEndian.UintK(b) / `b[0] | b[1]<<8 | …` -/
def leAt (k : Nat) (b : Bytes) : DRes Nat :=
  if b.length < k then .panic else .ok (unleN (b.take k))

def DRes.map (f : α → β) : DRes α → DRes β
  | .ok a => .ok (f a)
  | .err => .err
  | .panic => .panic
  | .fuel => .fuel

def decU16 (b : Bytes) : DRes Nat := if b.length < 2 then byte0 b else leAt 2 b
def decU32 (b : Bytes) : DRes Nat := if b.length < 4 then decU16 b else leAt 4 b
def decU64 (b : Bytes) : DRes Nat := if b.length < 8 then decU32 b else leAt 8 b
def decI16 (b : Bytes) : DRes Int := if b.length < 2 then (byte0 b).map Int.ofNat else (leAt 2 b).map (ofU 16)
def decI32 (b : Bytes) : DRes Int := if b.length < 4 then decI16 b else (leAt 4 b).map (ofU 32)
def decI64 (b : Bytes) : DRes Int := if b.length < 8 then decI32 b else (leAt 8 b).map (ofU 64)

/-- `field.SetFloat(float64(v))`: the float32 → float64 → float32 conversions turn a signalling NaN
    (exponent all ones, mantissa ≠ 0, top mantissa bit clear) into the quiet NaN with the same payload
    (measured on go1.23/amd64; platform assumption). Every other bit pattern is unchanged. -/
def quietNaN (n : Nat) : Nat :=
  if n / 2 ^ 23 % 256 = 255 ∧ n % 2 ^ 23 ≠ 0 ∧ n / 2 ^ 22 % 2 = 0 then n + 2 ^ 22 else n

/-- the per-kind readers applied to the first value `b` of the tag -/
def decScalar : Ty → Bytes → DRes Val
  | .u8, b => (byte0 b).map .nat
  | .u16, b => (decU16 b).map .nat
  | .u32, b => (decU32 b).map .nat
  | .u64, b => (decU64 b).map .nat
  | .i8, b => (byte0 b).map fun n => .int (ofU 8 n)
  | .i16, b => (decI16 b).map .int
  | .i32, b => (decI32 b).map .int
  | .i64, b => (decI64 b).map .int
  | .f32, b => if b.length < 4 then .err else (leAt 4 b).map fun n => .nat (quietNaN n)
  | .bool, b => (byte0 b).map fun x => .bool (x == 1)
  | .str, b => .ok (.bytes b)
  | .bytes, b => .ok (.bytes b)
  | .struct _, _ => .panic
  | .list _ _, _ => .panic

mutual
/-- the zero value of a Go type -/
def zero : Ty → Val
  | .u8 | .u16 | .u32 | .u64 | .f32 => .nat 0
  | .i8 | .i16 | .i32 | .i64 => .int 0
  | .bool => .bool false
  | .str | .bytes => .bytes []
  | .struct fs => .struct (zeros fs)
  | .list _ _ => .list []
def zeros : Fields → List Val
  | .nil => []
  | .cons _ t rest => zero t :: zeros rest
end

/-- tail of one turn of a list loop: append on success, `if d.r.eof() { break }`, `if err != nil { return err }` -/
def loopTail (r : DRes (List Val)) (rd : Rd) (acc : List Val)
    (next : List Val → Rd × DRes (List Val)) : Rd × DRes (List Val) :=
  match r with
  | .panic => (rd, .panic)
  | .fuel => (rd, .fuel)
  | .ok vs => if rd.eof then (rd, .ok (acc ++ [.struct vs])) else next (acc ++ [.struct vs])
  | .err => if rd.eof then (rd, .ok acc) else (rd, .err)

/-- the loop over the elements of a tagged list; the list argument mirrors `d.r.m[tag]` -/
def loopTagged (dec : RMap → DRes (List Val)) (tag : UInt8) : List Bytes → Rd → List Val → Rd × DRes (List Val)
  | [], rd, acc => (rd, .ok acc)                     -- readBytes: io.EOF → break
  | b :: bs, rd, acc =>
    let rd' := (rd.readBytes tag).2
    match read b with
    | .error _ => (rd', .ok acc)                     -- newDecoder failed: break, the error is dropped
    | .ok m => loopTail (dec m) rd' acc (loopTagged dec tag bs rd')

/-- the loop over the elements of an inline list -/
def loopInline (dec : Rd → Rd × DRes (List Val)) : Nat → Rd → List Val → Rd × DRes (List Val)
  | 0, rd, _ => (rd, .fuel)
  | k+1, rd, acc =>
    match dec rd with
    | (rd', .panic) => (rd', .panic)
    | (rd', .fuel) => (rd', .fuel)
    | (rd', r) =>
      if rd'.n == rd.n then (rd', .ok acc)           -- no value was read: break
      else loopTail r rd' acc (loopInline dec k rd')

mutual
/-- one field of decoder.decode -/
def decField (tag : UInt8) : Ty → Rd → Rd × DRes Val
  | .struct fs, rd =>
    match rd.readBytes tag with
    | (none, _) => (rd, .ok (zero (.struct fs)))               -- io.EOF: field keeps its zero value
    | (some data, rd') =>
      match read data with
      | .error .eof => (rd', .ok (zero (.struct fs)))          -- unmarshal returned io.EOF: same
      | .error .unexpectedEof => (rd', .err)
      | .ok m => (rd', ((decFields fs ⟨m, 0⟩).2).map .struct)
  | .list true fs, rd =>
    let r := loopInline (fun rd => decFields fs rd) (rd.m.size + 1) rd []
    (r.1, r.2.map .list)
  | .list false fs, rd =>
    let r := loopTagged (fun m => (decFields fs ⟨m, 0⟩).2) tag (rd.m.get tag) rd []
    (r.1, r.2.map .list)
  | t, rd =>
    match rd.readBytes tag with
    | (none, _) => (rd, .ok (zero t))
    | (some b, rd') => (rd', decScalar t b)

/-- decoder.decode on a struct -/
def decFields : Fields → Rd → Rd × DRes (List Val)
  | .nil, rd => (rd, .ok [])
  | .cons tag t rest, rd =>
    match decField tag t rd with
    | (rd', .ok v) =>
      match decFields rest rd' with
      | (rd'', .ok vs) => (rd'', .ok (v :: vs))
      | x => x
    | (rd', .err) => (rd', .err)
    | (rd', .panic) => (rd', .panic)
    | (rd', .fuel) => (rd', .fuel)
end

/-- outcome of tlv8.Unmarshal -/
inductive Res (α : Type)
  | ok (a : α) | err (e : Err) | panic | fuel

/-- tlv8.Unmarshal into a zero struct value. A non-struct target makes reflect panic (`NumField`);
    top-level slices are not modelled and never sent by the harness. -/
def unmarshal : Ty → Bytes → Res Val
  | .struct fs, bs =>
    match read bs with
    | .error e => .err e
    | .ok m =>
      match (decFields fs ⟨m, 0⟩).2 with
      | .ok vs => .ok (.struct vs)
      | .err => .err .unexpectedEof
      | .panic => .panic
      | .fuel => .fuel
  | _, _ => .panic

-- ---------------------------------------------------------------------------------- reference encoder

/-- one TLV8 item per at most 255 bytes of value, straight to bytes -/
def refTlv (t : UInt8) (v : Bytes) : Bytes :=
  ((chunks 255 v).map fun c => t :: UInt8.ofNat c.length :: c).flatten

def refJoin : List Bytes → Bytes
  | [] => []
  | [e] => e
  | e :: es => e ++ 0 :: 0 :: refJoin es

mutual
/-- Specification of the wire format written independently of the item representation:
    little-endian fixed-width integers, IEEE-754 bits of float32, one byte for bool, raw bytes of
    strings, nested structs as the value of their tag, list elements separated by `00 00`. -/
def refField (tag : UInt8) : Ty → Val → Bytes
  | .u8, .nat n => [tag, 1, UInt8.ofNat n]
  | .bool, .bool b => [tag, 1, if b then 1 else 0]
  | .u16, .nat n => tag :: 2 :: leN 2 n
  | .u32, .nat n => tag :: 4 :: leN 4 n
  | .u64, .nat n => tag :: 8 :: leN 8 n
  | .f32, .nat n => tag :: 4 :: leN 4 n
  | .i8, .int i => [tag, 1, UInt8.ofNat (toU 8 i)]
  | .i16, .int i => tag :: 2 :: leN 2 (toU 16 i)
  | .i32, .int i => tag :: 4 :: leN 4 (toU 32 i)
  | .i64, .int i => tag :: 8 :: leN 8 (toU 64 i)
  | .str, .bytes b => refTlv tag b
  | .bytes, .bytes b => refTlv tag b
  | .struct fs, .struct vs => refTlv tag (refFields fs vs)
  | .list true fs, .list vs => refJoin (vs.map fun v => refFields fs (structVals v))
  | .list false fs, .list vs => refJoin (vs.map fun v => refTlv tag (refFields fs (structVals v)))
  | _, _ => []
def refFields : Fields → List Val → Bytes
  | .nil, _ => []
  | .cons _ _ _, [] => []
  | .cons tag t rest, v :: vs => refField tag t v ++ refFields rest vs
end

def refEncode : Ty → Val → Bytes
  | .struct fs, .struct vs => refFields fs vs
  | _, _ => []

-- ---------------------------------------------------------------------------------- well-formedness

def Fields.length : Fields → Nat
  | .nil => 0
  | .cons _ _ r => r.length + 1

def isList : Ty → Bool
  | .list _ _ => true
  | _ => false

/-- the tag under which the values of a field are found by the reader: the field's own tag, or, for an
    inline list, the tag of the single field of its elements -/
def ownTag (tag : UInt8) : Ty → UInt8
  | .list true (.cons t _ .nil) => t
  | _ => tag

def ownTags : Fields → List UInt8
  | .nil => []
  | .cons tag t rest => ownTag tag t :: ownTags rest

def distinct : List UInt8 → Bool
  | [] => true
  | t :: ts => !ts.contains t && distinct ts

mutual
/-- Type-level well-formedness: within one struct all tags under which values are read are distinct,
    and the elements of an inline list have exactly one field, which is not itself a list. -/
def wfTy : Ty → Bool
  | .struct fs => wfFields fs && distinct (ownTags fs)
  | .list false fs => wfFields fs && distinct (ownTags fs)
  | .list true (.cons _ t .nil) => !isList t && wfTy t
  | .list true _ => false
  | _ => true
def wfFields : Fields → Bool
  | .nil => true
  | .cons _ t rest => wfTy t && wfFields rest
end

def inRange (w : Nat) (i : Int) : Bool := decide (-(2 ^ (w - 1) : Nat) ≤ i) && decide (i < (2 ^ (w - 1) : Nat))

def allB (p : Val → Bool) : List Val → Bool
  | [] => true
  | v :: vs => p v && allB p vs

mutual
/-- Value-level well-formedness: the value has the shape and ranges of the Go type, and no element of a
    list encodes to nothing (such an element vanishes from the wire). -/
def wfVal : Ty → Val → Bool
  | .u8, .nat n => decide (n < 2 ^ 8)
  | .u16, .nat n => decide (n < 2 ^ 16)
  | .u32, .nat n => decide (n < 2 ^ 32)
  | .u64, .nat n => decide (n < 2 ^ 64)
  | .f32, .nat n => decide (n < 2 ^ 32) && decide (quietNaN n = n)   -- not a signalling NaN
  | .i8, .int i => inRange 8 i
  | .i16, .int i => inRange 16 i
  | .i32, .int i => inRange 32 i
  | .i64, .int i => inRange 64 i
  | .bool, .bool _ => true
  | .str, .bytes _ => true
  | .bytes, .bytes _ => true
  | .struct fs, .struct vs => wfVals fs vs
  | .list _ fs, .list vs =>
    allB (fun v => match v with
      | .struct es => wfVals fs es && !(encFields fs es).isEmpty
      | _ => false) vs
  | _, _ => false
def wfVals : Fields → List Val → Bool
  | .nil, [] => true
  | .cons _ t rest, v :: vs => wfVal t v && wfVals rest vs
  | _, _ => false
end

def isStruct : Ty → Bool
  | .struct _ => true
  | _ => false

/-- `WF ty v`: the hypothesis of the round-trip theorem -/
def WF (ty : Ty) (v : Val) : Bool := isStruct ty && wfTy ty && wfVal ty v

end Hc.Tlv8Struct
