/-
  Vocabulary of the regenerated catalog tables (C15, C14) — core Lean only.

  The *data* lives in `HcModel/Generated/Catalog.lean` and `HcModel/Generated/JsonShape.lean`, rewritten from the
  working tree of brutella/hc by `harness/cmd/extract` (targets `Catalog`, `JsonShape`) on every run:
    * `metaChars`, `metaSvcs`, `metaCats`  ← gen/metadata.json (numbers as exact decimals `m·10^e`, taken from
      the JSON literal; permissions mapped like gen/golang/characteristic.go: read→pr, write→pw, cnotify→ev,
      uncnotify ignored; constraint keys read exactly like the generator does: MinimumValue, MaximumValue,
      StepValue, MaximumLength)
    * `charRows`, `svcRows`, `accRows`      ← one row per call of every exported `New*` function of the packages
      characteristic / service / accessory (zero-argument ones directly, the others with synthesised sample
      arguments), executed under `recover` by a generated program; floats are printed with the shortest
      round-trip representation and stored as exact decimals, so "constructor value = metadata literal" is
      "the float64 is the one nearest to the literal".
    * per row, by go/ast: the value of the package constant `Type<Name>` for `New<Name>` (when declared),
      whether the body names it, and whether the body sets the unexported `updateOnSameValue`.
  This file: the row types and the boolean checkers; `HcProofs/Props/C15.lean` / `C14.lean` evaluate the checkers
  with `decide +kernel` and lift them to ∀/∃ statements.
-/
namespace Hc.Catalog

inductive Format | string | bool | float | uint8 | uint16 | uint32 | int32 | uint64 | data | tlv8 | unknown
  deriving DecidableEq, Repr

/-- HAP unit (`none` = no unit field) -/
inductive HUnit | none | percentage | arcdegrees | celsius | lux | seconds | ppm | unknown
  deriving DecidableEq, Repr

inductive Perm | pr | pw | ev | hd | wr | unknown
  deriving DecidableEq, Repr

/-- exact decimal `m · 10^e` -/
structure Dec where
  m : Int
  e : Int
  deriving DecidableEq, Repr

namespace Dec
def scale (a : Dec) (lo : Int) : Int := a.m * (10 : Int) ^ (a.e - lo).toNat
def le (a b : Dec) : Bool := let lo := min a.e b.e; decide (a.scale lo ≤ b.scale lo)
def eqv (a b : Dec) : Bool := let lo := min a.e b.e; decide (a.scale lo = b.scale lo)
def ofInt (n : Int) : Dec := ⟨n, 0⟩
end Dec

/-- dynamic Go value found in a `Value` / `MinValue` / `MaxValue` / `StepValue` field -/
inductive Val
  | none | int (n : Int) | float (d : Dec) | bool (b : Bool) | str (s : String) | other (goType : String)
  deriving DecidableEq, Repr

namespace Val
def num? : Val → Option Dec
  | .int n => some (Dec.ofInt n)
  | .float d => some d
  | _ => Option.none
def isNone : Val → Bool
  | .none => true
  | _ => false
end Val

/-- one call of an exported constructor of package `characteristic` -/
structure CharRow where
  ctor : String
  nargs : Nat
  panicked : Bool
  /-- type string parsed as hex; `none` unless it is the canonical short form (1–8 upper-case hex digits, no leading 0) -/
  typ : Option Nat
  /-- value of the package constant `Type<Name>` (for `New<Name>`), when declared -/
  ownConst : Option Nat
  namesOwnConst : Bool
  format : Format
  perms : List Perm
  unit : HUnit
  min : Val
  max : Val
  step : Val
  value : Val
  maxLen : Nat
  updateOnSame : Bool
  deriving Repr

structure MetaChar where
  uuid : Nat
  name : String
  format : Format
  perms : List Perm
  unit : HUnit
  min : Option Dec
  max : Option Dec
  step : Option Dec
  maxLen : Option Nat
  /-- keys of `ValidValues` (empty = no such constraint) -/
  validValues : List Int
  deriving Repr

structure SvcRow where
  ctor : String
  nargs : Nat
  panicked : Bool
  typ : Option Nat
  ownConst : Option Nat
  namesOwnConst : Bool
  chars : List (Option Nat)
  deriving Repr

structure MetaSvc where
  uuid : Nat
  name : String
  required : List Nat
  optional : List Nat
  deriving Repr

structure AccRow where
  ctor : String
  args : String
  panicked : Bool
  isAccessory : Bool          -- false for accessory.NewContainer (not an accessory)
  category : Nat
  aid : Nat
  services : List (Option Nat × List (Option Nat))
  deriving Repr

/-- a JSON struct field: Go field name, JSON key, `omitempty` -/
structure JField where
  field : String
  key : String
  omitEmpty : Bool
  deriving Repr

-- ---------------------------------------------------------------------------------------------
-- checkers (Bool), evaluated by `decide +kernel` in HcProofs/Props/C15.lean

def permSubset (a b : List Perm) : Bool := a.all (b.contains ·)
def permsEq (a b : List Perm) : Bool := permSubset a b && permSubset b a

/-- constructor value `v` equals the metadata constraint `m` (both absent, or numerically equal) -/
def boundEq (v : Val) (m : Option Dec) : Bool :=
  match v, m with
  | .none, Option.none => true
  | v, some d => match v.num? with
    | some x => Dec.eqv x d
    | Option.none => false
  | _, Option.none => false

/-- row `c` realises metadata characteristic `m` -/
def CharRow.realises (c : CharRow) (m : MetaChar) : Bool :=
  c.nargs == 0 && !c.panicked && c.typ == some m.uuid && c.format == m.format && permsEq c.perms m.perms &&
  c.unit == m.unit && boundEq c.min m.min && boundEq c.max m.max && boundEq c.step m.step

def isIntFormat : Format → Bool
  | .uint8 | .uint16 | .uint32 | .int32 | .uint64 => true
  | _ => false

/-- natural range of an integer format (what the wire format can carry) -/
def formatRange : Format → Option (Int × Int)
  | .uint8 => some (0, 255)
  | .uint16 => some (0, 65535)
  | .uint32 => some (0, 4294967295)
  | .int32 => some (-2147483648, 2147483647)
  | .uint64 => some (0, 18446744073709551615)
  | _ => Option.none

/-- `v` has the Go dynamic type the library uses for values of format `f` -/
def typedFor (f : Format) (v : Val) : Bool :=
  match f, v with
  | .float, .float _ => true
  | .bool, .bool _ => true
  | .string, .str _ => true
  | .tlv8, .str _ => true
  | .data, .str _ => true
  | f, .int n => match formatRange f with
    | some (lo, hi) => decide (lo ≤ n) && decide (n ≤ hi)
    | Option.none => false
  | _, _ => false

/-- an optional bound is absent or typed for the format -/
def boundTyped (f : Format) (v : Val) : Bool := v.isNone || ((isIntFormat f || f == .float) && typedFor f v)

def leVal (a b : Val) : Bool :=
  match a.num?, b.num? with
  | some x, some y => Dec.le x y
  | _, _ => true          -- absent bound: no constraint

/-- the default value of a zero-argument constructor row: present and typed iff readable, within min/max -/
def CharRow.defaultOk (c : CharRow) : Bool :=
  if c.perms.contains .pr then typedFor c.format c.value && leVal c.min c.value && leVal c.value c.max
  else c.value.isNone

def CharRow.boundsOk (c : CharRow) : Bool :=
  boundTyped c.format c.min && boundTyped c.format c.max && boundTyped c.format c.step && leVal c.min c.max

/-- a readable parameterless constructor of a characteristic with enumerated valid values starts at one of them -/
def CharRow.defaultValidFor (c : CharRow) (m : MetaChar) : Bool :=
  m.validValues.isEmpty || c.nargs != 0 || c.typ != some m.uuid || !c.perms.contains .pr ||
    (match c.value with
     | .int n => m.validValues.contains n
     | _ => false)

def nodupB [BEq α] : List α → Bool
  | [] => true
  | a :: r => !r.contains a && nodupB r

def SvcRow.realises (s : SvcRow) (m : MetaSvc) : Bool :=
  s.nargs == 0 && !s.panicked && s.typ == some m.uuid && m.required.all (fun r => s.chars.contains (some r))

def knownPerm : Perm → Bool
  | .unknown => false
  | _ => true

def permsValid (ps : List Perm) : Bool := !ps.isEmpty && ps.all knownPerm && nodupB ps

/-- the type id of service "Accessory Information" -/
def accessoryInformation : Nat := 0x3E

/-- the one constructor without a format of its own: `NewCharacteristic(typ)`, the untyped base of the typed wrappers
    (its caller assigns `Format`) -/
def CharRow.untyped (c : CharRow) : Bool := c.ctor == "NewCharacteristic"

def CharRow.usable (c : CharRow) : Bool :=
  !c.panicked && c.typ.isSome && c.unit != .unknown && permsValid c.perms && (c.format != .unknown || c.untyped)

def SvcRow.usable (s : SvcRow) : Bool := !s.panicked && s.typ.isSome && s.chars.all (·.isSome)

def svcShapeOk (s : Option Nat × List (Option Nat)) : Bool := s.1.isSome && s.2.all (·.isSome) && nodupB s.2

def AccRow.usable (a : AccRow) : Bool :=
  !a.panicked && (!a.isAccessory ||
    (a.services.all svcShapeOk && (a.services.head?.map (·.1)) == some (some accessoryInformation)))

/-- a constructor for which the package declares `Type<Name>` has that type id and names the constant -/
def ownConstOk (typ own : Option Nat) (names : Bool) : Bool :=
  match own with
  | Option.none => true
  | some v => typ == some v && names

/-- every characteristic the constructor puts into a metadata-defined service is required or optional there -/
def SvcRow.allowedBy (s : SvcRow) (m : MetaSvc) : Bool :=
  s.typ != some m.uuid || s.chars.all (fun t => match t with
    | some t => m.required.contains t || m.optional.contains t
    | Option.none => false)

/-- each service an accessory constructor assembles has the characteristics the metadata requires for its type -/
def AccRow.servicesComplete (a : AccRow) (ms : List MetaSvc) : Bool :=
  a.services.all (fun s => ms.all (fun m => s.1 != some m.uuid || m.required.all (fun r => s.2.contains (some r))))

/-- every key of `req` is printed for a zero-valued object and declared without `omitempty` -/
def requiredKeys (req zero : List String) (fs : List JField) : Bool :=
  req.all (fun k => zero.contains k && fs.any (fun f => f.key == k && !f.omitEmpty))

end Hc.Catalog
