/-
  Model of the write path of an encrypted hap.Connection under concurrency (C08).

  Go (hap/connection.go, after `fix: serialize encrypt-and-write`)   | here
  --------------------------------------------------------------------+---------------------------------
  goroutine about to call Connection.Write                            | Pc.idle   (todo i ≠ [])
  con.writeMutex.Lock() in EncryptedWrite                             | step from Pc.idle  (no-op while the lock is held)
  getEncrypter().Encrypt(..): one counter per frame of ≤1024 bytes    | step from Pc.locked: ctr += nframes len
  con.connection.Write(encryptedBytes)                                | step from Pc.sealed f: frames appended to sock
  deferred con.writeMutex.Unlock(), Write returns                     | step from Pc.sent
  crypto/secure_session.go Encrypt: packetsFromBytes                  | nframes len = ⌈len/1024⌉ (0 for an empty payload)

  A schedule is any list of thread ids; a step of a thread that cannot move is skipped.
  Frames are symbolic: (writer, index of the write, index of the frame in the payload, counter used as nonce).
  `StU/stepU` is the lock-free program of the code before the repair (counter read and counter write split),
  kept only for the refutation.
-/
namespace Hc.ConnWrite

/-- number of frames `Encrypt` produces for a payload of `len` bytes -/
def nframes (len : Nat) : Nat := (len + 1023) / 1024

structure Frame where
  tid : Nat
  w   : Nat
  j   : Nat
  ctr : Nat
deriving DecidableEq, Repr

/-- the `k` frames of write `w` of writer `tid`, sealed under counters `first, first+1, …` -/
def block (tid w first : Nat) : Nat → List Frame
  | 0 => []
  | k+1 => block tid w first k ++ [⟨tid, w, k, first + k⟩]

inductive Pc | idle | locked | sealed (first : Nat) | sent
deriving DecidableEq, Repr

/-- one completed socket write: writer, index of the write, payload length -/
structure Wr where
  tid : Nat
  w   : Nat
  len : Nat
deriving DecidableEq, Repr

structure St where
  lock : Option Nat
  ctr  : Nat
  sock : List Frame
  pc   : Nat → Pc
  todo : Nat → List Nat        -- payload lengths still to be written (head = the write in progress)
  done : Nat → Nat             -- completed writes per writer
  log  : List Wr               -- ghost: writes in the order their bytes reached the socket

def upd {β : Type} (f : Nat → β) (i : Nat) (p : β) : Nat → β := fun j => if j = i then p else f j

def cur (s : St) (i : Nat) : Nat := (s.todo i).headD 0

def step (s : St) (i : Nat) : St :=
  match s.pc i with
  | .idle =>
    match s.todo i with
    | [] => s
    | _ :: _ => if s.lock = none then { s with pc := upd s.pc i .locked, lock := some i } else s
  | .locked => { s with pc := upd s.pc i (.sealed s.ctr), ctr := s.ctr + nframes (cur s i) }
  | .sealed f => { s with pc := upd s.pc i .sent,
                          sock := s.sock ++ block i (s.done i) f (nframes (cur s i)),
                          log := s.log ++ [⟨i, s.done i, cur s i⟩] }
  | .sent => { s with pc := upd s.pc i .idle, lock := none,
                      todo := upd s.todo i (s.todo i).tail, done := upd s.done i (s.done i + 1) }

def run (s : St) (sched : List Nat) : St := sched.foldl step s

def init (todo : Nat → List Nat) : St :=
  { lock := none, ctr := 0, sock := [], pc := fun _ => .idle, todo := todo, done := fun _ => 0, log := [] }

/-- what the socket carries when the writes of `log` were sealed one after the other starting at counter `c` -/
def wire (c : Nat) : List Wr → List Frame
  | [] => []
  | x :: r => block x.tid x.w c (nframes x.len) ++ wire (c + nframes x.len) r

def total : List Wr → Nat
  | [] => 0
  | x :: r => nframes x.len + total r

/-- the peer: frame number `n` of the stream is opened with nonce `n`; it authenticates iff it was sealed with `n` -/
def recv (n : Nat) : List Frame → Option (List (Nat × Nat × Nat))
  | [] => some []
  | f :: r => if f.ctr = n then (recv (n+1) r).map ((f.tid, f.w, f.j) :: ·) else none

-- observable events of one run of the real code (harness instrumentation points) ------------------

inductive Ev
  | enter (t : Nat)    -- Encrypt entered (the writer is inside the critical section)
  | sealed (t : Nat)   -- Encrypt returned
  | sock (t : Nat)     -- the bytes of the write were appended to the socket
  | ret (t : Nat)      -- Connection.Write returned to its caller
  | blocked (t : Nat)  -- the writer called Write and is parked (has not reached Encrypt)
deriving DecidableEq, Repr

/-- acceptor state: model state + writers whose unlock already happened silently (their `ret` is still to come) -/
structure Acc where
  s : St
  unlocked : List Nat

/-- the unlock at the end of EncryptedWrite is not observable by itself: it is performed silently when needed -/
def autoRelease (a : Acc) : Acc :=
  match a.s.lock with
  | some h => if a.s.pc h = .sent then { s := step a.s h, unlocked := h :: a.unlocked } else a
  | none => a

def accept1 (a : Acc) : Ev → Option Acc
  | .enter t =>
    let a := autoRelease a
    if a.s.pc t = .idle ∧ a.s.todo t ≠ [] ∧ a.s.lock = none ∧ ¬ a.unlocked.contains t
    then some { a with s := step a.s t } else none
  | .sealed t => if a.s.pc t = .locked then some { a with s := step a.s t } else none
  | .sock t => match a.s.pc t with
    | .sealed _ => some { a with s := step a.s t }
    | _ => none
  | .ret t =>
    if a.s.pc t = .sent then some { a with s := step a.s t }
    else if a.unlocked.contains t then some { a with unlocked := a.unlocked.erase t } else none
  | .blocked t =>
    -- `step a.s t` is the identity in this situation (the lock is held by another writer)
    if a.s.pc t = .idle ∧ a.s.todo t ≠ [] ∧ a.s.lock ≠ none ∧ a.s.lock ≠ some t then some a else none

/-- index of the first rejected event, or the final state -/
def accept (a : Acc) : List Ev → Nat → Except Nat Acc
  | [], _ => .ok a
  | e :: r, n => match accept1 a e with
    | some a' => accept a' r (n+1)
    | none => .error n

-- the lock-free program of the code before the repair ---------------------------------------------

inductive PcU | idle | read (c : Nat) | bumped (first : Nat) | done
deriving DecidableEq, Repr

structure StU where
  ctr  : Nat
  sock : List Frame
  pc   : Nat → PcU
  len  : Nat → Nat

/-- one write per writer; `encryptCount` is read and written back in two steps (no mutual exclusion) -/
def stepU (s : StU) (i : Nat) : StU :=
  match s.pc i with
  | .idle => { s with pc := upd s.pc i (.read s.ctr) }
  | .read c => { s with pc := upd s.pc i (.bumped c), ctr := c + nframes (s.len i) }
  | .bumped f => { s with pc := upd s.pc i .done, sock := s.sock ++ block i 0 f (nframes (s.len i)) }
  | .done => s

def runU (s : StU) (sched : List Nat) : StU := sched.foldl stepU s

def initU (len : Nat → Nat) : StU := { ctr := 0, sock := [], pc := fun _ => .idle, len := len }

end Hc.ConnWrite
