/- row type of the regenerated panic-site inventory (Generated/PanicSites.lean) -/
namespace Hc.PanicSite

structure Site where
  file : String
  func : String
  kind : String      -- call | slice | assert
  expr : String
deriving DecidableEq, Repr

end Hc.PanicSite
