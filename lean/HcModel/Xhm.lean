import HcModel.Bytes
import HcModel.Pin
/-
  Model of util/xhmurl.go (setup URI `X-HM://<9 base-36 digits><setup id>`).

  Go                                                   | here
  -----------------------------------------------------+------------------------------------
  strings.Replace(pincode, "-", "", -1)                | stripDash
  strconv.ParseUint(pincode, 10, 64)                   | parseUint64 (empty / non-digit / ≥ 2^64 → error)
  mergedFlags |= uint64(item)                          | mergeFlags
  payload = (((v&7)<<4 | r&0xf)<<8 | cat)<<4 | f&0xf)<<27 | code&0x7ffffff   | payload
  9 × { base36[payload%36]; payload /= 36 } (msd first)| base36Digits 9, b36char
  "X-HM://" + digits + setupId                         | xhmUri

  `payload` is computed in `Nat`; the Go code computes in uint64. `HcProofs.Lemmas.Xhm.payload_lt`
  shows payload < 2^39 for the uint8 category and merged uint8 flags, so no uint64 operation wraps.
  `decodeUri` is the inverse direction (what a controller does with the scanned code); it has no Go counterpart
  in hc and is mirrored by an independent Go decoder in the harness.
-/
namespace Hc.Xhm
open Hc.Pin

def stripDash (s : Bytes) : Bytes := s.filter (· ≠ dash)

def digitVal (b : UInt8) : Nat := b.toNat - 48

def decVal (s : Bytes) : Nat := s.foldl (fun a b => a * 10 + digitVal b) 0

/-- `strconv.ParseUint(s, 10, 64)`: `none` stands for any error (syntax or range) -/
def parseUint64 (s : Bytes) : Option Nat :=
  if s = [] then none
  else if !s.all isDigit then none
  else if decVal s < 2 ^ 64 then some (decVal s) else none

def mergeFlags (fs : List UInt8) : Nat := fs.foldl (fun a f => a ||| f.toNat) 0

/-- version = 0, reserved = 0 as in the Go code -/
def payload (code cat flags : Nat) : Nat :=
  (((((0 &&& 0x7) <<< 4 ||| (0 &&& 0xf)) <<< 8 ||| cat) <<< 4 ||| (flags &&& 0xf)) <<< 27) ||| (code &&& 0x7ffffff)

/-- `k` base-36 digits of `p`, most significant first (the Go loop fills the array from the back) -/
def base36Digits : Nat → Nat → List Nat
  | 0, _ => []
  | k+1, p => base36Digits k (p / 36) ++ [p % 36]

/-- `base36[d]`: "0".."9","A".."Z" -/
def b36char (d : Nat) : UInt8 := if d < 10 then UInt8.ofNat (48 + d) else UInt8.ofNat (55 + d)

/-- "X-HM://" -/
def scheme : Bytes := [88, 45, 72, 77, 58, 47, 47]

/-- `util.XHMURI(pincode, setupId, categoryId, flags)`; `none` = the ParseUint error is returned -/
def xhmUri (pincode setupId : Bytes) (cat : UInt8) (flags : List UInt8) : Option Bytes :=
  match parseUint64 (stripDash pincode) with
  | none => none
  | some code =>
    some (scheme ++ (base36Digits 9 (payload code cat.toNat (mergeFlags flags))).map b36char ++ setupId)

-- decoding (controller side) ---------------------------------------------------------------------

def b36val (c : UInt8) : Option Nat :=
  if 48 ≤ c.toNat ∧ c.toNat ≤ 57 then some (c.toNat - 48)
  else if 65 ≤ c.toNat ∧ c.toNat ≤ 90 then some (c.toNat - 55)
  else none

def unbase36 (ds : List Nat) : Nat := ds.foldl (fun a d => a * 36 + d) 0

structure Setup where
  code : Nat
  cat : Nat
  flags : Nat
deriving DecidableEq, Repr

/-- fields of a 45-bit payload: P = low 27 bits, F = next 4, C = next 8 -/
def fields (p : Nat) : Setup := { code := p % 2 ^ 27, flags := p / 2 ^ 27 % 16, cat := p / 2 ^ 31 % 256 }

def optAll : List (Option α) → Option (List α)
  | [] => some []
  | none :: _ => none
  | some a :: r => (optAll r).map (a :: ·)

/-- decode `X-HM://DDDDDDDDDsetupid` into (fields, setup id) -/
def decodeUri (u : Bytes) : Option (Setup × Bytes) :=
  if u.take 7 ≠ scheme then none
  else if (u.drop 7).length < 9 then none
  else match optAll (((u.drop 7).take 9).map b36val) with
    | none => none
    | some ds => some (fields (unbase36 ds), u.drop 16)

end Hc.Xhm
