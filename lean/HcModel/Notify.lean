/-
  Model of event notification fan-out:
    ip_transport.go           (addAccessory: callbacks on every characteristic; notifyListener: loop over the active
                               connections, skipping the originator, sessions that are gone, and unsubscribed sessions)
    characteristic/characteristic.go (updateValue: no callback when the value is unchanged unless updateOnSameValue;
                               remote writes need the write permission; the value is stored only when readable)
    hap/http/characteristics.go (PUT: `ev` subscribes / unsubscribes only observable characteristics; behind the
                               authentication middleware, so only verified connections get that far — C01)
    hap/session.go, hap/context.go, hap/connection.go (subscriptions live in the session; the session is dropped when
                               the connection closes; active connections = sessions in the context, keyed by address)
  Values are abstract (`Nat`); typing / clamping of values is C12's subject.
-/
namespace Hc.Notify

structure Char where
  readable : Bool
  writable : Bool
  observable : Bool
  updateOnSame : Bool          -- characteristic.updateOnSameValue (ProgrammableSwitchEvent)
  value : Option Nat           -- Characteristic.Value (nil for characteristics without read permission)
deriving DecidableEq, Repr

structure Conn where
  id : Nat
  verified : Bool
  subs : List Nat              -- characteristics this session is subscribed to
deriving DecidableEq, Repr

structure St where
  conns : List Conn            -- sessions registered in the context (one per open connection)
  chars : Nat → Char

inductive In
  | connect (c : Nat)                       -- TCP accept: new session (replaces a stale one with the same key)
  | verify (c : Nat)                        -- pair-verify completed on c (C03)
  | close (c : Nat)
  | subscribe (c ch : Nat)                  -- PUT {"ev": true}
  | unsubscribe (c ch : Nat)                -- PUT {"ev": false}
  | localSet (ch v : Nat)                   -- application calls UpdateValue / SetValue
  | remoteWrite (c ch v : Nat)              -- PUT {"value": v} from connection c
deriving DecidableEq, Repr

/-- an EVENT message: receiver, characteristic, value carried (`c.Value` at the time of sending) -/
structure Event where
  to : Nat
  ch : Nat
  value : Option Nat
deriving DecidableEq, Repr

def findConn (s : St) (c : Nat) : Option Conn := s.conns.find? (·.id == c)

def updConn (s : St) (c : Nat) (f : Conn → Conn) : St :=
  { s with conns := s.conns.map (fun k => if k.id == c then f k else k) }

def setChar (s : St) (ch : Nat) (k : Char) : St :=
  { s with chars := fun i => if i = ch then k else s.chars i }

/-- notifyListener: one event per active session other than `except` that is subscribed -/
def notify (s : St) (ch : Nat) (except : Option Nat) : List Event :=
  s.conns.filterMap fun k =>
    if some k.id == except then none
    else if k.subs.contains ch then some ⟨k.id, ch, (s.chars ch).value⟩
    else none

/-- Characteristic.updateValue followed by the callbacks wired in addAccessory -/
def update (s : St) (ch v : Nat) (origin : Option Nat) (checkPerms : Bool) : St × List Event :=
  let k := s.chars ch
  if k.value == some v && !k.updateOnSame then (s, [])
  else if checkPerms && !k.writable then (s, [])
  else
    let s' := if k.readable then setChar s ch { k with value := some v } else s
    (s', notify s' ch origin)

def step (s : St) : In → St × List Event
  | .connect c => ({ s with conns := ⟨c, false, []⟩ :: s.conns.filter (·.id != c) }, [])
  | .verify c => (updConn s c (fun k => { k with verified := true }), [])
  | .close c => ({ s with conns := s.conns.filter (·.id != c) }, [])
  | .subscribe c ch =>
    match findConn s c with
    | some k =>
      if k.verified && (s.chars ch).observable then
        (updConn s c (fun k => { k with subs := ch :: k.subs.filter (· != ch) }), [])
      else (s, [])
    | none => (s, [])
  | .unsubscribe c ch =>
    match findConn s c with
    | some k =>
      if k.verified && (s.chars ch).observable then
        (updConn s c (fun k => { k with subs := k.subs.filter (· != ch) }), [])
      else (s, [])
    | none => (s, [])
  | .localSet ch v => update s ch v none false
  | .remoteWrite c ch v =>
    match findConn s c with
    | some k => if k.verified then update s ch v (some c) true else (s, [])
    | none => (s, [])

def run (s : St) : List In → St × List (List Event)
  | [] => (s, [])
  | i :: is =>
    let (s', e) := step s i
    let (sf, es) := run s' is
    (sf, e :: es)

def stAfter (s : St) (h : List In) : St := h.foldl (fun s i => (step s i).1) s

def init (chars : Nat → Char) : St := { conns := [], chars := chars }

end Hc.Notify
