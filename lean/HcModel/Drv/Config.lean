import HcModel.Config
import HcModel.FirstStart
import HcModel.Drv.Util
/- driver ops of the restart-history model (C20). The content hash is instantiated by the canonical text of the
   stripped document (injective), so the model predicts "version + 1 iff the stripped documents differ". -/
namespace Hc.Drv.Config
open Hc Hc.Drv Hc.Config

-- tree tokens: `L<n>` | `A<k>` then k values | `O<k>` then k × (`K<n>` value) ----------------------------------------

def tagNum (t : String) : Option (Char × Nat) :=
  match t.toList with
  | c :: rest => (String.ofList rest).toNat?.map (c, ·)
  | [] => none

mutual
def parseJ : Nat → List String → Option (J × List String)
  | 0, _ => none
  | fuel+1, t :: ts =>
    match tagNum t with
    | some ('L', n) => some (.leaf n, ts)
    | some ('A', k) => (parseList fuel k ts).map fun (xs, r) => (.arr xs, r)
    | some ('O', k) => (parseKvs fuel k ts).map fun (kvs, r) => (.obj kvs, r)
    | _ => none
  | _, [] => none
def parseList : Nat → Nat → List String → Option (List J × List String)
  | 0, _, _ => none
  | _, 0, ts => some ([], ts)
  | fuel+1, k+1, ts =>
    match parseJ fuel ts with
    | some (x, r) => (parseList fuel k r).map fun (xs, r') => (x :: xs, r')
    | none => none
def parseKvs : Nat → Nat → List String → Option (List (Nat × J) × List String)
  | 0, _, _ => none
  | _, 0, ts => some ([], ts)
  | fuel+1, k+1, t :: ts =>
    match tagNum t with
    | some ('K', n) =>
      match parseJ fuel ts with
      | some (x, r) => (parseKvs fuel k r).map fun (xs, r') => ((n, x) :: xs, r')
      | none => none
    | _ => none
  | _, _, [] => none
end

def parseTree (s : String) : Option J :=
  let ts := s.splitOn ","
  match parseJ (2 * ts.length + 2) ts with
  | some (t, []) => some t
  | _ => none

inductive Tok
  | step (s : Step)
  | pairSelf (key : Nat)      -- name = the stored device id
  | unpairSelf

def parseTok (t : String) : Option Tok :=
  match t.splitOn ":" with
  | ["S", pin, sid, cat, ne, fid, fk, tree] => do
    let pin ← fromHex pin
    let sid ← fromHex sid
    let cat ← cat.toNat?
    let fid ← fid.toNat?
    let fk ← fk.toNat?
    let db ← parseTree tree
    pure (.step (.start { pin, setupId := sid, cat := UInt8.ofNat cat, nameEmpty := ne == "1", freshId := fid, freshKey := fk, db }))
  | ["P", "D", k] => k.toNat?.map .pairSelf
  | ["P", n, k] => do pure (.step (.pair (← n.toNat?) (← k.toNat?)))
  | ["U", "D"] => some .unpairSelf
  | ["U", n] => n.toNat?.map fun n => .step (.unpair n)
  | ["V", p, v] => do
    let p ← optAll ((p.splitOn ".").map String.toNat?)
    pure (.step (.setValue p (.leaf (← v.toNat?))))
  | ["X"] => some (.step .stop)
  | ["W", "v"] => some (.step (.wipe .version))
  | ["W", "h"] => some (.step (.wipe .configHash))
  | _ => none

-- canonical names: device ids ≥ 10000 → I<k>, device keys ≥ 20000 → K<k>, hashes → H<k>, by first appearance -----------

structure Names where
  ids : List Nat := []
  keys : List Nat := []
  hashes : List String := []

def internIn [BEq α] (x : α) (l : List α) : Nat × List α :=
  match l.idxOf? x with
  | some i => (i, l)
  | none => (l.length, l ++ [x])

def showId (n : Nat) (nm : Names) : String × Names :=
  if n ≥ 10000 then
    let (i, l) := internIn n nm.ids
    (s!"I{i}", { nm with ids := l })
  else (s!"c{n}", nm)

def showKey (n : Nat) (nm : Names) : String × Names :=
  if n ≥ 20000 then
    let (i, l) := internIn n nm.keys
    (s!"K{i}", { nm with keys := l })
  else (s!"k{n}", nm)

def showPriv (p : Option Nat) (nm : Names) : String × Names :=
  match p with
  | none => ("-", nm)
  | some k => showKey k nm

def insertBy (lt : α → α → Bool) (x : α) : List α → List α
  | [] => [x]
  | y :: ys => if lt x y then x :: y :: ys else y :: insertBy lt x ys

def sortBy (lt : α → α → Bool) (l : List α) : List α := l.foldr (insertBy lt) []

/-- device-like entities (by intern index of their name; all are interned when they first show up in a listing,
    new ones in stored order) first, then controllers by number -/
def showEnts (es : List Entity) (nm : Names) : String × Names :=
  let devs := es.filter (·.name ≥ 10000)
  let nm := devs.foldl (fun nm e => (showId e.name nm).2) nm
  let rank (e : Entity) : Nat := (nm.ids.idxOf? e.name).getD 0
  let devs := sortBy (fun a b => rank a < rank b) devs
  let ctls := sortBy (fun a b => a.name < b.name) (es.filter (·.name < 10000))
  let (parts, nm) := (devs ++ ctls).foldl (fun (acc : List String × Names) e =>
    let (n, nm) := showId e.name acc.2
    let (k, nm) := showKey e.pub nm
    let (p, nm) := showPriv e.priv nm
    (acc.1 ++ [s!"{n}:{k}:{p}"], nm)) ([], nm)
  ((if parts.isEmpty then "-" else ",".intercalate parts), nm)

def showSf (r : Option (Running String)) : String :=
  match r with
  | none => "-"
  | some r => if r.discoverable then "1" else "0"

def H (t : J) : String := t.show

def runTok (st : St String × Names) (t : Tok) : (St String × Names) × String :=
  let (s, nm) := st
  let stp : Step := match t with
    | .step x => x
    | .pairSelf k => .pair (s.store.uuid.getD 0) k
    | .unpairSelf => .unpair (s.store.uuid.getD 0)
  let (s', out) := step H s stp
  match out with
  | .started =>
    match s'.run with
    | none => ((s', nm), "bad-state")
    | some r =>
      let (i, nm) := showId r.id nm
      let (k, nm) := showKey r.devPub nm
      let (p, nm) := showPriv r.devPriv nm
      let (h, hs) := internIn r.configHash nm.hashes
      let nm := { nm with hashes := hs }
      let (es, nm) := showEnts s'.store.entities nm
      let uri := match r.uri with | some u => hexOrDash u | none => "err"
      ((s', nm), s!"started id={i} key={k}/{p} ver={r.version} sf={showSf s'.run} hash=H{h} ci={r.cat.toNat} uri={uri} ents={es}")
  | .errPin =>
    let (es, nm) := showEnts s'.store.entities nm
    ((s', nm), s!"err-pin sf={showSf s'.run} ents={es}")
  | .panicName =>
    let (es, nm) := showEnts s'.store.entities nm
    ((s', nm), s!"panic-name sf={showSf s'.run} ents={es}")
  | .done =>
    let (es, nm) := showEnts s'.store.entities nm
    ((s', nm), s!"ok sf={showSf s'.run} ents={es}")

/-- `run <step token> …` → one segment per step, joined by ` | ` -/
def handle : List String → String
  | "run" :: toks =>
    match optAll (toks.map parseTok) with
    | none => "bad-op"
    | some ts =>
      let (_, outs) := ts.foldl (fun (acc : (St String × Names) × List String) t =>
        let (st, o) := runTok acc.1 t
        (st, acc.2 ++ [o])) (({}, {}), [])
      " | ".intercalate outs
  | ["cfgcrash", hf, v, h0, h, k] =>
    -- a start with structure hash h on a disk holding version v / hash h0, killed after k configuration writes, then a complete start
    match hf.toNat?, v.toNat?, h0.toNat?, h.toNat?, k.toNat? with
    | some hf, some v, some h0, some h, some k =>
      let d := Hc.CfgCrash.crashThenStart (hf == 1) ⟨some v, some h0⟩ h k
      s!"version={d.version.getD 0} hash={d.hash.getD 0}"
    | _, _, _, _, _ => "bad-op"
  | ["sf", fails, n] =>
    -- the advertisement of an accessory with n stored controller pairings when the listing of the entities fails / succeeds
    match n.toNat? with
    | some n =>
      let es : List Entity := ⟨10000, 20000, some 20000⟩ :: (List.range n).map fun i => ⟨i + 1, 500 + i, none⟩
      s!"sf={if advertised (fails == "1") es then 1 else 0}"
    | none => "bad-op"
  | ["startf", flags, restructured] =>
    -- a storage left by a first start and one pairing; then a restart during which the reads named by the four flags
    -- (id, number, hash, own entity) fail; `restructured` = 1: the restart comes with another accessory structure
    match flags.toList with
    | [u, v, h, e] =>
      let c : StartCfg := ⟨[48,48,49,48,50,48,48,51], [], 8, false, 10000, 20000, .obj []⟩
      let s := run H ({} : St String) [.start c, .pair 1 501]
      let c' : StartCfg := { c with freshId := 10001, freshKey := 20001, db := if restructured == "1" then .obj [(1, .leaf 0)] else .obj [] }
      let (s', o) := startF H s c' { uuid := u == '1', version := v == '1', configHash := h == '1', entity := e == '1' }
      let out := match o with | none => "error" | some .started => "started" | some _ => "refused"
      let idS := if s'.store.uuid == some 10000 then "same" else "other"
      let keyS := match lookup (s'.store.uuid.getD 0) s'.store.entities with
        | some d => if d.pub == 20000 && d.priv == some 20000 then "same" else "other"
        | none => "none"
      s!"{out} id={idS} key={keyS} entities={s'.store.entities.length} version={s'.store.version.getD 0}"
    | _ => "bad-op"
  | _ => "bad-op"

end Hc.Drv.Config
