import HcModel.ConnWrite
import HcModel.Drv.Util
namespace Hc.Drv.ConnWrite
open Hc Hc.ConnWrite Hc.Drv

def parseNats (s : String) : Option (List Nat) :=
  if s = "-" then some [] else optAll ((s.splitOn ",").map String.toNat?)

def parseEv (s : String) : Option Ev :=
  match s.toList with
  | c :: rest =>
    match (String.ofList rest).toNat? with
    | none => none
    | some t =>
      if c = 'E' then some (.enter t) else if c = 'S' then some (.sealed t) else if c = 'K' then some (.sock t)
      else if c = 'R' then some (.ret t) else if c = 'B' then some (.blocked t) else none
  | [] => none

def showFrame (f : Frame) : String := s!"{f.tid}.{f.w}.{f.j}.{f.ctr}"
def showWr (x : Wr) : String := s!"{x.tid}.{x.w}.{x.len}"
def listOrDash (l : List String) : String := if l.isEmpty then "-" else ",".intercalate l

/-- ops:
    `trace <todo0;todo1;…> <ev> …`   todo_i = comma separated payload lengths (`-` = none); events `E<t>` Encrypt
        entered, `S<t>` Encrypt returned, `K<t>` bytes on the socket, `R<t>` Write returned, `B<t>` writer parked
      → `ok ctr=<n> lock=<t|-> sock=<tid.w.j.ctr,…> log=<tid.w.len,…>` | `reject <index of first rejected event>`
    `nframes <len>` → number of frames -/
def handle : List String → String
  | ["nframes", n] => match n.toNat? with
    | some n => toString (nframes n)
    | none => "bad-op"
  | "trace" :: todos :: evs =>
    match optAll ((todos.splitOn ";").map parseNats), optAll (evs.map parseEv) with
    | some tds, some evs =>
      let t0 : Nat → List Nat := fun i => tds.getD i []
      match accept ⟨init t0, []⟩ evs 0 with
      | .error n => s!"reject {n}"
      | .ok a =>
        let lock := match a.s.lock with | some h => toString h | none => "-"
        s!"ok ctr={a.s.ctr} lock={lock} sock={listOrDash (a.s.sock.map showFrame)} log={listOrDash (a.s.log.map showWr)}"
    | _, _ => "bad-op"
  | _ => "bad-op"

end Hc.Drv.ConnWrite
