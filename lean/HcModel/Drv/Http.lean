import HcModel.Http
import HcModel.Drv.Pair
/-
  Driver op for the HTTP dispatch model (C01):
    http run <ev> ; <ev> ; …
      ev := req <c> plain <endpoint> | req <c> verify <pairverify msg, see Drv/Pair.lean> | close <c>
      endpoint := accessories | characteristics | pairings | resource | identify | other
  Answer per event: refused | notfound | served | verify <out…> <0|1 verified> | closed, then ` | served=<n>`
  (number of requests that reached a handler behind the middleware or /identify).
  The handlers are instantiated by a counter; the route table is Generated.routes.
-/
namespace Hc.Drv.Http
open Hc.Http Hc.Drv Hc.Drv.Pair

def pEndpoint : String → Option Endpoint
  | "accessories" => some .accessories
  | "characteristics" => some .characteristics
  | "pairings" => some .pairings
  | "resource" => some .resource
  | "identify" => some .identify
  | "other" => some .other
  | _ => none

def H : Handlers Nat Unit Unit :=
  { guarded := fun _ _ _ a s => (a + 1, s, ()),
    identify := fun _ a => (a + 1, ()),
    save := fun s n k => fun m => if m = n then .key k else s m }

/-- an event together with the store entry its verify message claims (the harness tells the model what the real
    pairing database holds for the claimed name at that moment) -/
def pEv : List String → Option (Hc.PairVerify.Store × Ev Unit)
  | ["close", c] => c.toNat?.map fun n => (fun _ => .none, .close n)
  | ["req", c, "plain", ep] => do
    let n ← c.toNat?
    let e ← pEndpoint ep
    pure (fun _ => .none, .req n (.plain e ()))
  | "req" :: c :: "verify" :: rest => do
    let n ← c.toNat?
    match V.pIn rest with
    | some ((db, m), []) => pure (db, .req n (.verify m))
    | _ => none
  | _ => none

def showResp (w : World Nat) (c : Nat) : Option (Resp Unit) → String
  | none => "closed"
  | some .refused => "refused"
  | some .notFound => "notfound"
  | some (.served _) => "served"
  | some (.setup _) => "setup"
  | some (.verify o) => "verify " ++ V.showOut o (w.conns c).pv

def evConn : Ev Unit → Nat
  | .req c _ => c
  | .close c => c

def run (msgs : List (List String)) : Option String := do
  let evs ← optAll (msgs.map pEv)
  let w0 : World Nat := { conns := fun _ => Conn.init, store := fun _ => .none, app := 0 }
  let (w, outs) := evs.foldl (fun (acc : World Nat × List String) x =>
    let w1 := { acc.1 with store := x.1 }
    -- accessory keys in a verify message are named relative to the connection's current one (Drv/Pair.lean)
    let ev : Ev Unit := match x.2 with
      | .req c (.verify m) => .req c (.verify (V.resolve c (w1.conns c).pv m))
      | e => e
    let (w', o) := stepEv Hc.Generated.routes H w1 ev
    (w', acc.2 ++ [showResp w' (evConn ev) o])) (w0, [])
  pure (" ; ".intercalate outs ++ s!" | served={w.app}")

def handle : List String → String
  | "run" :: rest => (run (splitMsgs rest)).getD "bad-op"
  | _ => "bad-op"

end Hc.Drv.Http
