import HcModel.Tlv8
import HcModel.Drv.Util
namespace Hc.Drv.Tlv8
open Hc Hc.Tlv8 Hc.Drv

def showItems (is : Container) : String :=
  " ".intercalate (is.map fun i => showTagged (i.tag, i.val))

def showErr : Err → String
  | .eof => "err eof"
  | .unexpectedEof => "err unexpected"

def dedup (l : List UInt8) : List UInt8 := l.foldl (fun acc x => if acc.contains x then acc else acc ++ [x]) []

/-- ops:
    `parse <hex>`            → `ok <items…>` | `err eof|unexpected`
    `std <hex>`              → same, after standard fragment merging
    `sets <t:hex> …`         → `ser <hex> | items <items…> | get <t:hex> … | byte <t:hex> …` (after serialise→parse) -/
def handle : List String → String
  | ["parse", h] =>
    match fromHex h with
    | none => "bad-op"
    | some bs => match parse bs with
      | .ok is => "ok " ++ showItems is
      | .error e => showErr e
  | ["std", h] =>
    match fromHex h with
    | none => "bad-op"
    | some bs => match stdParse bs with
      | .ok is => "ok " ++ showItems is
      | .error e => showErr e
  | "sets" :: ops =>
    match optAll (ops.map parseTagged) with
    | none => "bad-op"
    | some ops =>
      let c := runSets ops
      let ser := serialize c
      match parse ser with
      | .error e => "ser " ++ hexOrDash ser ++ " | " ++ showErr e
      | .ok c' =>
        let tags := dedup (ops.map (·.1))
        "ser " ++ hexOrDash ser ++ " | items " ++ showItems c ++ " | get " ++
          " ".intercalate (tags.map fun t => showTagged (t, getBytes c' t)) ++ " | byte " ++
          " ".intercalate (tags.map fun t => showTagged (t, [getByte c' t]))
  | _ => "bad-op"

end Hc.Drv.Tlv8
