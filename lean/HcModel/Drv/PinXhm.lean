import HcModel.Pin
import HcModel.Xhm
import HcModel.Drv.Util
/- driver ops of the setup-code / setup-URI models (C20) -/
namespace Hc.Drv.PinXhm
open Hc Hc.Drv

/-- `validate <hex>` → `ok <hex>` | `err trivial|length|nondigit` -/
def handlePin : List String → String
  | ["validate", h] =>
    match fromHex h with
    | none => "bad-op"
    | some bs => match Pin.validatePin bs with
      | .ok r => "ok " ++ hexOrDash r
      | .error .trivial => "err trivial"
      | .error .length => "err length"
      | .error .nondigit => "err nondigit"
  | _ => "bad-op"

/-- `uri <pin hex> <setup id hex> <category decimal> <flags hex>` → `ok <uri hex>` | `err`
    `decode <uri hex>` → `ok <code> <cat> <flags> <setup id hex>` | `err` -/
def handleXhm : List String → String
  | ["uri", p, s, c, f] =>
    match fromHex p, fromHex s, c.toNat?, fromHex f with
    | some p, some s, some c, some f =>
      if c < 256 then
        match Xhm.xhmUri p s (UInt8.ofNat c) f with
        | some u => "ok " ++ hexOrDash u
        | none => "err"
      else "bad-op"
    | _, _, _, _ => "bad-op"
  | ["decode", u] =>
    match fromHex u with
    | none => "bad-op"
    | some u => match Xhm.decodeUri u with
      | some (f, sid) => s!"ok {f.code} {f.cat} {f.flags} {hexOrDash sid}"
      | none => "err"
  | _ => "bad-op"

end Hc.Drv.PinXhm
