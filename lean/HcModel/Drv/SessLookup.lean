import HcModel.SessLookup
/-
  sess write <fixed 0|1> <verified 0|1> <d | ->      sess read <fixed 0|1> <verified 0|1> <d | ->
  d = number of context lookups that still see the session ("-": never deleted).  Answer: sealed | raw | refused | panic
-/
namespace Hc.Drv.SessLookup
open Hc.SessLookup

def outStr : Out → String
  | .sealed => "sealed" | .raw => "raw" | .refused => "refused" | .panic => "panic"

def pD (s : String) : Option (Option Nat) := if s == "-" then some none else s.toNat?.map some

def handle : List String → String
  | [op, f, v, d] =>
    match pD d with
    | none => "bad-op"
    | some d =>
      if op == "write" then outStr (write (f == "1") (v == "1") d)
      else if op == "read" then outStr (read (f == "1") (v == "1") d)
      else "bad-op"
  | _ => "bad-op"

end Hc.Drv.SessLookup
