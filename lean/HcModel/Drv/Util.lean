import HcModel.Bytes
/- helpers of the line-protocol driver -/
namespace Hc.Drv

def splitTok (s : String) : List String :=
  (s.splitOn " ").filter (· ≠ "")

/-- `tt:hex` pairs -/
def parseTagged (s : String) : Option (UInt8 × Bytes) :=
  match s.splitOn ":" with
  | [t, v] => do
    let tb ← fromHex t
    match tb with
    | [tag] => do
      let val ← fromHex v
      pure (tag, val)
    | _ => none
  | _ => none

def showTagged (p : UInt8 × Bytes) : String := toHex [p.1] ++ ":" ++ hexOrDash p.2

def optAll : List (Option α) → Option (List α)
  | [] => some []
  | none :: _ => none
  | some a :: r => (optAll r).map (a :: ·)

end Hc.Drv
