import HcModel.Framing
import HcModel.Drv.Util
/-
  Line-protocol ops of the framing model (module `frame`). The driver never computes real cryptography:
  * `enc`  prints frame *descriptors* (header, nonce, associated data, chunk, key labels); the Go side seals
           them with golang.org/x/crypto and compares byte for byte with hc's output;
  * `dec`  runs the byte-level `decrypt` with the ideal AEAD given as a table of the frames that were really
           sealed under the receiver's key (nonce.ad.ct‖tag.plaintext) — everything else does not open;
  * `rx`   runs the frame-level receiver `rxCall` on a recipe of `DFrame`s.
-/
namespace Hc.Drv.Framing
open Hc Hc.Framing Hc.Drv

/-- split a token list at a separator token -/
def splitAt (sep : String) : List String → List (List String)
  | [] => [[]]
  | t :: ts =>
    match splitAt sep ts with
    | [] => [[]]
    | g :: gs => if t = sep then [] :: g :: gs else (t :: g) :: gs

/-- descriptor crypto: a key is printed as `salt / info`; sealing is never evaluated -/
def descCrypto : Crypto :=
  { kdf := fun _ salt info => salt ++ [0x2f] ++ info, sealB := fun _ _ _ m => m, openB := fun _ _ _ _ => none }

def showFrameD (d : FrameD) : String :=
  toHex (le16 d.chunk.length) ++ "." ++ toHex (nonce12 d.ctr) ++ "." ++ toHex (le16 d.chunk.length) ++ "." ++ hexOrDash d.chunk

/-- a sequence of Encrypt calls on one session: per message the frame descriptors -/
def encSeq (s : Sess) : List Reader → List (List FrameD) × Sess
  | [] => ([], s)
  | r :: rs =>
    let ps := packets r
    let s' := (encrypt descCrypto s r).1
    let (ds, s'') := encSeq s' rs
    (frameDescs s.encCnt ps :: ds, s'')

structure Entry where
  nonce : Bytes
  ad : Bytes
  ct : Bytes
  pt : Bytes

def parseEntry (t : String) : Option Entry :=
  match t.splitOn "." with
  | [n, a, c, p] => do
    let n ← fromHex n; let a ← fromHex a; let c ← fromHex c; let p ← fromHex p
    pure ⟨n, a, c, p⟩
  | _ => none

/-- ideal AEAD for the receiver's key: opens exactly what was sealed -/
def tableCrypto (tbl : List Entry) : Crypto :=
  { kdf := fun _ _ _ => [], sealB := fun _ _ _ m => m,
    openB := fun _ n ad c => (tbl.find? fun e => e.nonce == n && e.ad == ad && e.ct == c).map (·.pt) }

def showDecErr : DecErr → String
  | .eof => "eof" | .unexpectedEof => "unexpected" | .auth => "auth"

def decSeq (C : Crypto) (s : Sess) : List Bytes → List String
  | [] => []
  | inp :: rest =>
    let (s', res, left) := decrypt C s inp
    let line := match res with
      | .ok out => "ok " ++ hexOrDash out ++ " cnt=" ++ toString s'.decCnt ++ " rest=" ++ toString left.length
      | .error e => "err " ++ showDecErr e ++ " cnt=" ++ toString s'.decCnt
    line :: decSeq C s' rest

def parseDFrame (t : String) : Option DFrame :=
  if t = "F" then some .forged
  else if t = "T" then some .truncated
  else match t.toList with
    | 'g' :: ds => (String.ofList ds).toNat?.map .genuine
    | _ => none

def rxSeq (sent : List Bytes) (s : Rx) : List (List DFrame) → List String × Rx
  | [] => ([], s)
  | b :: bs =>
    let (s', res) := rxCall sent s b
    let line := match res with
      | .ok is r => "ok " ++ (if is.isEmpty then "-" else ",".intercalate (is.map toString)) ++ " rest=" ++ toString r.length
      | .error .auth => "err auth"
      | .error .short => "err short"
    let (ls, s'') := rxSeq sent s' bs
    (line :: ls, s'')

def handle : List String → String
  | "enc" :: role :: cnt :: toks =>
    match cnt.toNat?, optAll ((splitAt "/" toks).map fun m => optAll (m.map fromHex)) with
    | some cnt, some msgs =>
      let s0 := if role = "s" then some (serverSess descCrypto []) else if role = "c" then some (clientSess descCrypto []) else none
      match s0 with
      | none => "bad-op"
      | some s0 =>
        let s := { s0 with encCnt := cnt }
        let (ds, s') := encSeq s msgs
        "key " ++ toHex s.encKey ++ " | " ++ " / ".intercalate (ds.map fun m => " ".intercalate (m.map showFrameD)) ++
          " | cnt " ++ toString s'.encCnt
    | _, _ => "bad-op"
  | "dec" :: cnt :: toks =>
    match cnt.toNat?, splitAt "|" toks with
    | some cnt, [tbl, streams] =>
      match optAll (tbl.map parseEntry), optAll (streams.map fromHex) with
      | some tbl, some streams =>
        " | ".intercalate (decSeq (tableCrypto tbl) { encKey := [], decKey := [], encCnt := 0, decCnt := cnt } streams)
      | _, _ => "bad-op"
    | _, _ => "bad-op"
  | "rx" :: cnt :: toks =>
    match cnt.toNat?, splitAt "|" toks with
    | some cnt, [lens, calls] =>
      match optAll (lens.map String.toNat?), optAll ((splitAt "/" calls).map fun c => optAll (c.map parseDFrame)) with
      | some lens, some calls =>
        let sent := lens.map fun n => List.replicate n (0 : UInt8)
        let (ls, s') := rxSeq sent { cnt := cnt, released := [] } calls
        " | ".intercalate ls ++ " | cnt=" ++ toString s'.cnt
      | _, _ => "bad-op"
    | _, _ => "bad-op"
  | ["labels"] => saltControlS ++ " " ++ infoReadS ++ " " ++ infoWriteS
  | _ => "bad-op"

end Hc.Drv.Framing
