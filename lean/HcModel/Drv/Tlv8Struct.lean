import HcModel.Tlv8Struct
import HcModel.Drv.Util
/-
  Line protocol of the struct-TLV8 model (module `tlvs`).

  type tokens   : u8 u16 u32 u64 i8 i16 i32 i64 f32 bool str bytes
                  S <n> (<tag> <type>)*n        struct
                  L <n> (<tag> <type>)*n        []struct under the field's tag
                  I <n> (<tag> <type>)*n        []struct, inline (`tlv8:"-"`)
  value tokens  : type-directed — decimal for integers (float32 as its 32 bits), t/f, hex or `-` for
                  string/bytes, the fields of a struct in order, `<count>` then the elements for a list
  printed value : untyped — decimal, t/f, hex, `( … )` for a struct, `[ … ]` for a list

  ops: `rt <type> <value>`  → `wf <0|1> | enc <hex> | dec <outcome>`   (marshal, then unmarshal of the bytes)
       `dec <type> <hex>`   → `<outcome>`                               (unmarshal of arbitrary bytes)
  outcome: `ok <value>` | `err eof` | `err unexpected` | `panic` | `fuel`
-/
namespace Hc.Drv.Tlv8Struct
open Hc Hc.Tlv8 Hc.Tlv8Struct Hc.Drv

def parseTag (s : String) : Option UInt8 :=
  match s.toNat? with
  | some n => if n < 256 then some (UInt8.ofNat n) else none
  | none => none

mutual
partial def parseTy : List String → Option (Ty × List String)
  | "u8" :: r => some (.u8, r) | "u16" :: r => some (.u16, r) | "u32" :: r => some (.u32, r)
  | "u64" :: r => some (.u64, r) | "i8" :: r => some (.i8, r) | "i16" :: r => some (.i16, r) | "i32" :: r => some (.i32, r)
  | "i64" :: r => some (.i64, r) | "f32" :: r => some (.f32, r) | "bool" :: r => some (.bool, r)
  | "str" :: r => some (.str, r) | "bytes" :: r => some (.bytes, r)
  | "S" :: n :: r => do
    let k ← n.toNat?
    let (fs, r') ← parseFields k r
    pure (.struct fs, r')
  | "L" :: n :: r => do
    let k ← n.toNat?
    let (fs, r') ← parseFields k r
    pure (.list false fs, r')
  | "I" :: n :: r => do
    let k ← n.toNat?
    let (fs, r') ← parseFields k r
    pure (.list true fs, r')
  | _ => none
partial def parseFields : Nat → List String → Option (Fields × List String)
  | 0, r => some (.nil, r)
  | k+1, t :: r => do
    let tag ← parseTag t
    let (ty, r') ← parseTy r
    let (fs, r'') ← parseFields k r'
    pure (.cons tag ty fs, r'')
  | _, _ => none
end

def parseInt (s : String) : Option Int :=
  if s.startsWith "-" then (s.drop 1).toString.toNat?.map fun n => -(n : Int) else s.toNat?.map Int.ofNat

mutual
partial def parseVal : Ty → List String → Option (Val × List String)
  | .struct fs, r => do
    let (vs, r') ← parseVals fs r
    pure (.struct vs, r')
  | .list _ fs, n :: r => do
    let k ← n.toNat?
    let (vs, r') ← parseElems fs k r
    pure (.list vs, r')
  | .list _ _, [] => none
  | .i8, s :: r | .i16, s :: r | .i32, s :: r | .i64, s :: r => (parseInt s).map fun i => (.int i, r)
  | .bool, "t" :: r => some (.bool true, r)
  | .bool, "f" :: r => some (.bool false, r)
  | .bool, _ => none
  | .str, s :: r | .bytes, s :: r => (fromHex s).map fun b => (.bytes b, r)
  | _, s :: r => s.toNat?.map fun n => (.nat n, r)
  | _, [] => none
partial def parseVals : Fields → List String → Option (List Val × List String)
  | .nil, r => some ([], r)
  | .cons _ t rest, r => do
    let (v, r') ← parseVal t r
    let (vs, r'') ← parseVals rest r'
    pure (v :: vs, r'')
partial def parseElems (fs : Fields) : Nat → List String → Option (List Val × List String)
  | 0, r => some ([], r)
  | k+1, r => do
    let (vs, r') ← parseVals fs r
    let (es, r'') ← parseElems fs k r'
    pure (.struct vs :: es, r'')
end

partial def showVal : Val → String
  | .nat n => toString n
  | .int i => toString i
  | .bool b => if b then "t" else "f"
  | .bytes b => hexOrDash b
  | .struct vs => "( " ++ String.join (vs.map fun v => showVal v ++ " ") ++ ")"
  | .list vs => "[ " ++ String.join (vs.map fun v => showVal v ++ " ") ++ "]"

def showRes : Res Val → String
  | .ok v => "ok " ++ showVal v
  | .err .eof => "err eof"
  | .err .unexpectedEof => "err unexpected"
  | .panic => "panic"
  | .fuel => "fuel"

def handle : List String → String
  | "rt" :: rest =>
    match parseTy rest with
    | none => "bad-op"
    | some (ty, r) =>
      match parseVal ty r with
      | some (v, []) =>
        let enc := marshal ty v
        "wf " ++ (if WF ty v then "1" else "0") ++ " | enc " ++ hexOrDash enc ++ " | dec " ++ showRes (unmarshal ty enc)
      | _ => "bad-op"
  | "dec" :: rest =>
    match parseTy rest with
    | some (ty, [h]) =>
      match fromHex h with
      | some bs => showRes (unmarshal ty bs)
      | none => "bad-op"
    | _ => "bad-op"
  | _ => "bad-op"

end Hc.Drv.Tlv8Struct
