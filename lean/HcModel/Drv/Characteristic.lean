import HcModel.Characteristic
import HcModel.Reentrant
import HcModel.Drv.Util
/-
  Line protocol of the characteristic model.

    char run <format> <perms> <min> <max> <same> <tcb> <op>…   → one observation per op, joined by " | "
    char pf <hex>        → parseFloat of the UTF-8 string        (ties the strconv model)
    char fg <float>      → fmtG                                  (hex of the text)

  values (no blanks):  n | t | f | i<int> | dnan | d+inf | d-inf | d<sign><m>e<exp> | s<hex utf-8>
                       | a(<v>,…) | o(<hexkey>=<v>,…)
  perms: subset of pr+pw+ev+hd+wr joined by '+', or '-'
  ops:   u<fc><cp>=<v>          updateValue(v, conn?, checkPerms?)
         g<fc>  |  g<fc>=<v>    getValue(conn?) without / with a get function returning v
         p=<v>~<ev>;<v>~<ev>…   PUT entries (value, ev; n = absent)
  observation: <ok|panic> v=<value> cb=<L|C(new;old)…|-> g=<bool,int,float64,string getter: o|P> enc=<0|1>
               r=<value read> st=<statuses|-> sub=<0|1>
-/
namespace Hc.Drv.Characteristic
open Hc Hc.Charac Hc.Drv

def showF : F64 → String
  | .nan => "dnan"
  | .inf neg => if neg then "d-inf" else "d+inf"
  | .fin neg m e => "d" ++ (if neg then "-" else "+") ++ toString m ++ "e" ++ toString e

def hexStr (s : String) : String := toHex s.toUTF8.toList

mutual
  def showJ : JVal → String
    | .null => "n"
    | .bool b => if b then "t" else "f"
    | .num x => showF x
    | .str s => "s" ++ hexStr s
    | .arr l => "a(" ++ ",".intercalate (showJL l) ++ ")"
    | .obj kvs => "o(" ++ ",".intercalate (showJKV kvs) ++ ")"
  def showJL : List JVal → List String
    | [] => []
    | v :: r => showJ v :: showJL r
  def showJKV : List (String × JVal) → List String
    | [] => []
    | (k, v) :: r => (hexStr k ++ "=" ++ showJ v) :: showJKV r
end

def showG : GVal → String
  | .nil => "n"
  | .bool b => if b then "t" else "f"
  | .int i => "i" ++ toString i
  | .float x => showF x
  | .str s => "s" ++ hexStr s
  | .comp j => showJ j

-- parsing ----------------------------------------------------------------------------------------

def takeWhileC (p : Char → Bool) : List Char → List Char × List Char
  | [] => ([], [])
  | c :: r => if p c then let x := takeWhileC p r; (c :: x.1, x.2) else ([], c :: r)

def parseNat? (cs : List Char) : Option Nat :=
  if cs.isEmpty || !cs.all isDigit then none else some (digitsVal 10 cs 0)

def parseInt? (cs : List Char) : Option Int :=
  match cs with
  | '-' :: r => (parseNat? r).map fun n => -(n : Int)
  | '+' :: r => (parseNat? r).map fun n => (n : Int)
  | _ => (parseNat? cs).map fun n => (n : Int)

def strOfHex (cs : List Char) : Option String := do
  let bs ← fromHexChars cs
  String.fromUTF8? (ByteArray.mk bs.toArray)

def isHexC (c : Char) : Bool := (hexVal c).isSome

/-- float after the leading `d` -/
def parseF (cs : List Char) : Option (F64 × List Char) :=
  match cs with
  | 'n' :: 'a' :: 'n' :: r => some (.nan, r)
  | '+' :: 'i' :: 'n' :: 'f' :: r => some (.inf false, r)
  | '-' :: 'i' :: 'n' :: 'f' :: r => some (.inf true, r)
  | sg :: r =>
    if sg != '+' && sg != '-' then none else
    let (ms, r1) := takeWhileC isDigit r
    match r1 with
    | 'e' :: r2 =>
      let (es, r3) := takeWhileC (fun c => isDigit c || c == '-') r2
      match parseNat? ms, parseInt? es with
      | some m, some e => some (F64.mkFin (sg == '-') m e, r3)
      | _, _ => none
    | _ => none
  | [] => none

mutual
  def parseJ : Nat → List Char → Option (JVal × List Char)
    | 0, _ => none
    | fuel+1, cs =>
      match cs with
      | 'n' :: r => some (.null, r)
      | 't' :: r => some (.bool true, r)
      | 'f' :: r => some (.bool false, r)
      | 'd' :: r => (parseF r).map fun p => (.num p.1, p.2)
      | 's' :: r =>
        let (h, r1) := takeWhileC isHexC r
        (strOfHex h).map fun s => (.str s, r1)
      | 'a' :: '(' :: ')' :: r => some (.arr [], r)
      | 'a' :: '(' :: r => (parseJL fuel r).map fun p => (.arr p.1, p.2)
      | 'o' :: '(' :: ')' :: r => some (.obj [], r)
      | 'o' :: '(' :: r => (parseJKV fuel r).map fun p => (.obj p.1, p.2)
      | _ => none
  /-- elements up to and including the closing parenthesis -/
  def parseJL : Nat → List Char → Option (List JVal × List Char)
    | 0, _ => none
    | fuel+1, cs =>
      match parseJ fuel cs with
      | some (v, ',' :: r) => (parseJL fuel r).map fun p => (v :: p.1, p.2)
      | some (v, ')' :: r) => some ([v], r)
      | _ => none
  def parseJKV : Nat → List Char → Option (List (String × JVal) × List Char)
    | 0, _ => none
    | fuel+1, cs =>
      let (h, r1) := takeWhileC isHexC cs
      match strOfHex h, r1 with
      | some k, '=' :: r2 =>
        match parseJ fuel r2 with
        | some (v, ',' :: r) => (parseJKV fuel r).map fun p => ((k, v) :: p.1, p.2)
        | some (v, ')' :: r) => some ([(k, v)], r)
        | _ => none
      | _, _ => none
end

def parseJAll (cs : List Char) : Option JVal :=
  match parseJ (cs.length + 1) cs with
  | some (v, []) => some v
  | _ => none

def parseG (s : String) : Option GVal :=
  match s.toList with
  | 'i' :: r => (parseInt? r).map .int
  | cs => (parseJAll cs).map ofJson

def parseFormat : String → Option Format
  | "float" => some .float | "uint8" => some .uint8 | "uint16" => some .uint16
  | "uint32" => some .uint32 | "int32" => some .int32 | "uint64" => some .uint64
  | "bool" => some .bool | "string" => some .string | "tlv8" => some .tlv8 | "data" => some .data
  | "other" => some .other
  | _ => none

def parsePerms (s : String) : Option Perms :=
  if s == "-" then some ⟨false, false, false, false, false⟩ else
  let ps := s.splitOn "+"
  if ps.all (fun p => p == "pr" || p == "pw" || p == "ev" || p == "hd" || p == "wr") then
    some ⟨ps.contains "pr", ps.contains "pw", ps.contains "ev", ps.contains "hd", ps.contains "wr"⟩
  else none

def parseGType : String → Option (Option GType)
  | "-" => some none | "bool" => some (some .bool) | "int" => some (some .int)
  | "float64" => some (some .float64) | "string" => some (some .string)
  | _ => none

def parseBit : Char → Option Bool
  | '0' => some false | '1' => some true | _ => none

def splitAt1 (c : Char) (cs : List Char) : List Char × Option (List Char) :=
  let (a, r) := takeWhileC (· != c) cs
  match r with
  | _ :: r' => (a, some r')
  | [] => (a, none)

def splitAll (c : Char) (cs : List Char) : List (List Char) :=
  (String.ofList cs).splitOn (String.singleton c) |>.map String.toList

def parseEntry (cs : List Char) : Option PutEntry :=
  match splitAt1 '~' cs with
  | (a, some b) => do
    let v ← parseJAll a
    let e ← parseJAll b
    pure ⟨v, e⟩
  | _ => none

def parseOp (s : String) : Option Op :=
  match s.toList with
  | 'u' :: fc :: cp :: '=' :: r => do
    let fc ← parseBit fc
    let cp ← parseBit cp
    let v ← parseG (String.ofList r)
    pure (.update v fc cp)
  | 'g' :: fc :: [] => do
    let fc ← parseBit fc
    pure (.get fc none)
  | 'g' :: fc :: '=' :: r => do
    let fc ← parseBit fc
    let v ← parseG (String.ofList r)
    pure (.get fc (some v))
  | 'p' :: '=' :: r => do
    let es ← optAll ((splitAll ';' r).map parseEntry)
    pure (.put es)
  | _ => none

def showOutcome : Outcome → String
  | .ok => "ok" | .panic => "panic"

def showCb (es : List CbEntry) : String :=
  if es.isEmpty then "-" else
  String.join (es.map fun e => (if e.fromConn then "C(" else "L(") ++ showG e.new ++ ";" ++ showG e.old ++ ")")

def flag (o : Outcome) : String := match o with | .ok => "o" | .panic => "P"

def observe (before : St) (r : St × Out) : String :=
  let c := r.1.char
  showOutcome r.2.outcome ++ " v=" ++ showG c.value ++
  " cb=" ++ showCb (c.log.drop before.char.log.length) ++
  " g=" ++ flag (typedGet c .bool) ++ flag (typedGet c .int) ++ flag (typedGet c .float64) ++ flag (typedGet c .string) ++
  " enc=" ++ (if encodable (carried c) then "1" else "0") ++
  " r=" ++ showG r.2.read ++
  " st=" ++ (if r.2.statuses.isEmpty then "-" else ",".intercalate (r.2.statuses.map toString)) ++
  " sub=" ++ (if r.1.sub then "1" else "0")

def runObs : St → List Op → List String
  | _, [] => []
  | s, o :: os => let r := step s o; observe s r :: runObs r.1 os

def handle : List String → String
  | "run" :: f :: p :: mn :: mx :: same :: tcb :: ops =>
    match parseFormat f, parsePerms p, parseG mn, parseG mx, same.toList, parseGType tcb, optAll (ops.map parseOp) with
    | some f, some p, some mn, some mx, [sb], some tcb, some ops =>
      match parseBit sb with
      | some same =>
        let cfg : Config := ⟨f, p, mn, mx, same, tcb⟩
        " | ".intercalate (runObs (start cfg) ops)
      | none => "bad-op"
    | _, _, _, _, _, _, _ => "bad-op"
  | ["reent", g, f, p, mn, mx, same, tcb, iv, op, tbl] =>
    -- one update (op) of a characteristic holding iv, whose callbacks react as in tbl ("a:b,c:d" or "-")
    let pairs : Option (List (Int × Int)) :=
      if tbl == "-" then some [] else
      optAll ((tbl.splitOn ",").map fun e => match e.splitOn ":" with
        | [a, b] => do pure ((← parseInt? a.toList), (← parseInt? b.toList))
        | _ => none)
    match parseFormat f, parsePerms p, parseG mn, parseG mx, same.toList, parseGType tcb, parseG iv, parseOp op, pairs, g.toList with
    | some f, some p, some mn, some mx, [sb], some tcb, some iv, some (.update v fc cp), some pairs, [gb] =>
      match parseBit sb, parseBit gb with
      | some same, some g =>
        let cfg : Config := ⟨f, p, mn, mx, same, tcb⟩
        let c0 := (updateValue (init cfg) iv false false).1
        let r := updateRe g (reactOf pairs) (pairs.length + 2) c0 v fc cp
        showOutcome r.2 ++ " v=" ++ showG r.1.value ++ " cb=" ++ showCb (r.1.log.drop c0.log.length)
      | _, _ => "bad-op"
    | _, _, _, _, _, _, _, _, _, _ => "bad-op"
  | ["pf", h] =>
    match strOfHex (if h == "-" then [] else h.toList) with
    | some s => showF (parseFloat s)
    | none => "bad-op"
  | ["pi", h] =>
    match strOfHex (if h == "-" then [] else h.toList) with
    | some s => toString (parseInt s)
    | none => "bad-op"
  | ["fi", v] =>
    match v.toList with
    | 'd' :: r => match parseF r with
      | some (x, []) => toString x.toInt64
      | _ => "bad-op"
    | _ => "bad-op"
  | ["fg", v] =>
    match v.toList with
    | 'd' :: r => match parseF r with
      | some (x, []) => hexOrDash x.fmtG.toUTF8.toList
      | _ => "bad-op"
    | _ => "bad-op"
  | _ => "bad-op"

end Hc.Drv.Characteristic
