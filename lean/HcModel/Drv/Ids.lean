import HcModel.Ids
import HcModel.Drv.Util
namespace Hc.Drv.Ids
open Hc Hc.Ids Hc.Drv

def parseNats (s : String) : Option (List Nat) :=
  if s = "-" then some [] else optAll ((s.splitOn ".").map String.toNat?)

/-- `n/flags/linked`, flags ∈ `-`,`h`,`p`,`hp`; linked `-` or `i.j.k` -/
def parseSvc (s : String) : Option SvcSpec :=
  match s.splitOn "/" with
  | [n, f, l] => do
    let n ← n.toNat?
    let l ← parseNats l
    let (h, p) ← match f with
      | "-" => some (false, false)
      | "h" => some (true, false)
      | "p" => some (false, true)
      | "hp" => some (true, true)
      | _ => none
    pure { nchars := n, linked := l, hidden := h, primary := p }
  | _ => none

/-- `a<id>:<svc>;<svc>…` (no service: `a<id>:`) -/
def parseAcc (s : String) : Option AccSpec :=
  match (s.drop 1).toString.splitOn ":" with
  | [i, ss] => do
    let i ← i.toNat?
    let svcs ← if ss = "" then some [] else optAll ((ss.splitOn ";").map parseSvc)
    pure { id := i, svcs := svcs }
  | _ => none

/-- `+k` AddAccessory(pool[k]) | `-k` RemoveAccessory(pool[k]) | `*k:<svc>` pool[k].AddService(<svc>) -/
def parseOp (s : String) : Option Op :=
  if s.startsWith "+" then (s.drop 1).toString.toNat?.map Op.add
  else if s.startsWith "-" then (s.drop 1).toString.toNat?.map Op.remove
  else if s.startsWith "*" then
    match (s.drop 1).toString.splitOn ":" with
    | [k, sv] => do
      let k ← k.toNat?
      let sv ← parseSvc sv
      pure (Op.addSvc k sv)
    | _ => none
  else none

def showNats (sep : String) (l : List Nat) : String := sep.intercalate (l.map toString)

def showSvc (ss : List Svc) (s : Svc) : String :=
  toString s.id ++ "[" ++ showNats "," s.chars ++ "]" ++ (if s.hidden then "h" else "") ++ (if s.primary then "p" else "") ++
    "L" ++ showNats "." (linkedIds ss s)

def showAcc (a : Acc) : String :=
  toString a.id ++ "{" ++ ";".intercalate (a.svcs.map (showSvc a.svcs)) ++ "}"

def showOutcome : Outcome → String
  | .ok => "ok"
  | .duplicate i => "dup" ++ toString i
  | .removed => "rm"
  | .noObject => "noobj"

/-- `run a… ops…` → `<outcomes> | <listed pool indices> | <every pool object>` -/
def handle : List String → String
  | "run" :: toks =>
    let accT := toks.filter (·.startsWith "a")
    let opT := toks.filter (fun t => !t.startsWith "a")
    match optAll (accT.map parseAcc), optAll (opT.map parseOp) with
    | some specs, some ops =>
      let r := (Container.init (specs.map AccSpec.build)).run ops
      " ".intercalate (r.2.map showOutcome) ++ " | " ++ showNats "," r.1.accs ++ " | " ++
        " ".intercalate (r.1.pool.map showAcc)
    | _, _ => "bad-op"
  | _ => "bad-op"

end Hc.Drv.Ids
