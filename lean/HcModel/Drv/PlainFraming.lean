import HcModel.PlainFraming
import HcModel.Drv.Util
/-
  plain run <maxHeader> <table> | <ev> ; <ev> ; …
     table := comma-separated  <hex header>=<n | x>   (what net/http's parser says about that header: content length, or x = error /
              unknown length); headers not in the table count as x
     ev    := r <hex bytes>   one raw read        |   w   a response is written
  Answer: one token per event — ok | refused (silently) | refused-answered (an HTTP error response was written first) (and `closed` for every event after a refusal) — then ` | hdr=<n> body=<n> <inBody> <complete>`
-/
namespace Hc.Drv.PlainFraming
open Hc Hc.PlainFraming

def parseTable (s : String) : Option (List (Bytes × Option Nat)) :=
  if s == "-" then some [] else
  (s.splitOn ",").mapM fun e =>
    match e.splitOn "=" with
    | [h, v] => do
      let hb ← fromHex h
      if v == "x" then pure (hb, none) else do
        let n ← v.toNat?
        pure (hb, some n)
    | _ => none

def lookup (t : List (Bytes × Option Nat)) (h : Bytes) : Option Nat :=
  match t.find? (fun e => e.1 == h) with
  | some e => e.2
  | none => none

/-- split a token list at ";" -/
def splitSemi (toks : List String) : List (List String) :=
  let (cur, acc) := toks.foldl (fun (st : List String × List (List String)) t =>
    if t == ";" then ([], st.2 ++ [st.1]) else (st.1 ++ [t], st.2)) ([], [])
  (acc ++ [cur]).filter (· ≠ [])

def pEv : List String → Option Ev
  | ["r", h] => (fromHex h).map Ev.read
  | ["w"] => some .respond
  | ["i"] => some .interim
  | _ => none

def handle : List String → String
  | "run" :: mx :: tbl :: "|" :: rest =>
    match mx.toNat?, parseTable tbl with
    | some m, some t =>
      let evs := (splitSemi rest).mapM pEv
      match evs with
      | none => "bad-op"
      | some evs =>
        let cl := lookup t
        let (st, outs) := evs.foldl (fun (acc : Option St × List String) e =>
          match acc.1 with
          | none => (none, acc.2 ++ ["closed"])
          | some s =>
            match e with
            | .read b =>
              match feed cl m s b with
              | none => (none, acc.2 ++ [if refusal cl m s b == some true then "refused-answered" else "refused"])
              | some s' => (some s', acc.2 ++ ["ok"])
            | .respond => (some (respond s), acc.2 ++ ["ok"])
            | .interim => (some (interim true s), acc.2 ++ ["ok"])) (some PlainFraming.init, [])
        let fin := match st with
          | none => "closed"
          | some s => s!"hdr={s.header.length} body={s.body} {s.inBody} {s.complete}"
        " ".intercalate outs ++ " | " ++ fin
    | _, _ => "bad-op"
  | _ => "bad-op"

end Hc.Drv.PlainFraming
