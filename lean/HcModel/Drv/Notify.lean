import HcModel.Notify
import HcModel.NotifyWire
import HcModel.Drv.Pair
/-
  Driver op for the notification fan-out model (C10):
    notify run <char> <char> … | <ev> ; <ev> ; …
      char := <idx>:<flags r w e u or ->:<initial value or ->        e.g. 0:rwe-:0   2:-we-:-
      ev := connect c | verify c | close c | sub c ch | unsub c ch | local ch v | remote c ch v
  Answer: per event the emitted EVENT messages `to:ch:value` sorted by receiver (`-` if none), separated by ` ; `.
-/
namespace Hc.Drv.Notify
open Hc.Notify Hc.Drv Hc.Drv.Pair

def pChar (s : String) : Option (Nat × Hc.Notify.Char) :=
  match s.splitOn ":" with
  | [i, f, v] => do
    let idx ← i.toNat?
    let fl := f.toList
    if fl.length != 4 then none
    let val ← if v == "-" then some none else v.toNat?.map some
    pure (idx, ⟨fl[0]! == 'r', fl[1]! == 'w', fl[2]! == 'e', fl[3]! == 'u', val⟩)
  | _ => none

def pEv : List String → Option In
  | ["connect", c] => c.toNat?.map .connect
  | ["verify", c] => c.toNat?.map .verify
  | ["close", c] => c.toNat?.map .close
  | ["sub", c, ch] => do pure (.subscribe (← c.toNat?) (← ch.toNat?))
  | ["unsub", c, ch] => do pure (.unsubscribe (← c.toNat?) (← ch.toNat?))
  | ["local", ch, v] => do pure (.localSet (← ch.toNat?) (← v.toNat?))
  | ["remote", c, ch, v] => do pure (.remoteWrite (← c.toNat?) (← ch.toNat?) (← v.toNat?))
  | _ => none

def insertSorted (e : Event) : List Event → List Event
  | [] => [e]
  | x :: xs => if e.to ≤ x.to then e :: x :: xs else x :: insertSorted e xs

def showEvents (es : List Event) : String :=
  if es.isEmpty then "-" else
  " ".intercalate ((es.foldr insertSorted []).map fun e =>
    s!"{e.to}:{e.ch}:{match e.value with | some v => toString v | none => "-"}")

def run (toks : List String) : Option String := do
  let (cs, rest) := toks.span (· != "|")
  let chars ← optAll (cs.map pChar)
  let evs ← optAll ((splitMsgs (rest.drop 1)).map pEv)
  let table : Nat → Hc.Notify.Char := fun i =>
    match chars.find? (·.1 == i) with
    | some (_, k) => k
    | none => ⟨false, false, false, false, none⟩
  let (_, outs) := evs.foldl (fun (acc : St × List String) i =>
    let (s', es) := step acc.1 i
    (s', acc.2 ++ [showEvents es])) (init table, [])
  pure (" ; ".intercalate outs)

def handle : List String → String
  | "run" :: rest => (run rest).getD "bad-op"
  | ["fix", h] => match fromHex h with
    | some b => hexOrDash (Hc.NotifyWire.fixProto b)
    | none => "bad-op"
  | _ => "bad-op"

end Hc.Drv.Notify
