import HcModel.PairSetup
import HcModel.PairVerify
import HcModel.Drv.Util
/-
  Driver ops for the pair-setup / pair-verify models. A whole per-connection history travels on one line
  (messages separated by `;`), the answer lists one observation per message (separated by ` ; `).

  pairsetup run <fixed 0|1> <conn> <msg> ; <msg> ; …
     msg := m1 | m3 <A> <proof> | m5 <enc> | badmethod | badstate <n> | malformed
     A := good <a> | bad <n>          proof := valid <conn> <back> <a> <0|1> | garbage <n> | empty
     enc := short <n> | sealed <K> <nonceOk> <intact> <plain>
     K := zero | ofs <S> | rand <n>    S := nil | srp <conn> <back> <a>
     <back>: SRP sessions are named RELATIVE to the one that is current on the connection when the message is processed
     (0 = the session of the current exchange, k = k exchanges earlier; a value from before the first session never
     matches); for another connection's session the number is ignored. `valid <conn> <back> <a> <0|1>` likewise.
     plain := malformed | tlv <name> <key> <sig>     key := pk <n> | badlen <n>
     sig := valid <signer> <S> <name> <key> | garbage <n> | empty
  pairverify run <fixed 0|1> <conn> <msg> ; …      (each v3 carries the store entry of the name it claims)
     msg := v1 good <e> | v1 wronglen <n> | v3 <enc> <entry> | badmethod | badstate <n> | malformed
     enc := short <n> | sealed <K> <nonceOk> <intact> <plain>     K := zero | eph <conn> <back> <e> | rand <n>
     plain := malformed | tlv <name> <sig>
     sig := valid <signer> <ce | -> <name> <accConn> <back> | garbage <n> | empty
     <back>: the accessory's ephemeral keys are named RELATIVE to the one current on the connection when the message is
     processed (0 = the key of the latest start response, k = k start responses earlier); ignored for other connections.
     The observation "session <e> <back>" names the installed secret the same way.
     entry := none | nokey | badkey | key <pk> | own <pk>   (own: the entity also holds a private key — the accessory's)
-/
namespace Hc.Drv.Pair
open Hc.Drv

abbrev P (α : Type) := List String → Option (α × List String)

def pNat : P Nat
  | t :: r => t.toNat?.map (·, r)
  | [] => none

def pBool : P Bool
  | "1" :: r => some (true, r)
  | "0" :: r => some (false, r)
  | _ => none

namespace S
open Hc.PairSetup

def pS : P SRef
  | "nil" :: r => some (.nil, r)
  | "srp" :: r => do
    let (c, r) ← pNat r
    let (e, r) ← pNat r
    let (a, r) ← pNat r
    pure (.srp c e a, r)
  | _ => none

def pK : P KRef
  | "zero" :: r => some (.zero, r)
  | "ofs" :: r => do let (s, r) ← pS r; pure (.ofS s, r)
  | "rand" :: r => do let (n, r) ← pNat r; pure (.rand n, r)
  | _ => none

def pA : P ARef
  | "good" :: r => do let (n, r) ← pNat r; pure (.good n, r)
  | "bad" :: r => do let (n, r) ← pNat r; pure (.bad n, r)
  | _ => none

def pProof : P Proof
  | "valid" :: r => do
    let (c, r) ← pNat r
    let (e, r) ← pNat r
    let (a, r) ← pNat r
    let (ok, r) ← pBool r
    pure (.validFor c e a ok, r)
  | "garbage" :: r => do let (n, r) ← pNat r; pure (.garbage n, r)
  | "empty" :: r => some (.empty, r)
  | _ => none

def pSig : P SigRef
  | "valid" :: r => do
    let (sg, r) ← pNat r
    let (s, r) ← pS r
    let (n, r) ← pNat r
    let (k, r) ← pNat r
    pure (.valid sg s n k, r)
  | "garbage" :: r => do let (n, r) ← pNat r; pure (.garbage n, r)
  | "empty" :: r => some (.empty, r)
  | _ => none

def pKey : P KeyClass
  | "pk" :: r => do let (n, r) ← pNat r; pure (.pk n, r)
  | "badlen" :: r => do let (n, r) ← pNat r; pure (.badLen n, r)
  | _ => none

def pPlain : P Plain
  | "malformed" :: r => some (.malformed, r)
  | "tlv" :: r => do
    let (n, r) ← pNat r
    let (k, r) ← pKey r
    let (s, r) ← pSig r
    pure (.tlv n k s, r)
  | _ => none

def pEnc : P EncData
  | "short" :: r => do let (n, r) ← pNat r; pure (.short n, r)
  | "sealed" :: r => do
    let (k, r) ← pK r
    let (no, r) ← pBool r
    let (it, r) ← pBool r
    let (pt, r) ← pPlain r
    pure (.sealed k no it pt, r)
  | _ => none

def pIn : P In
  | "m1" :: r => some (.m1, r)
  | "m3" :: r => do
    let (a, r) ← pA r
    let (p, r) ← pProof r
    pure (.m3 a p, r)
  | "m5" :: r => do let (d, r) ← pEnc r; pure (.m5 d, r)
  | "badmethod" :: r => some (.badMethod, r)
  | "badstate" :: r => do let (n, r) ← pNat r; pure (.badState n, r)
  | "malformed" :: r => some (.malformedTlv, r)
  | _ => none

def b (x : Bool) : String := if x then "1" else "0"

def showOut : Out × Save → String
  | (o, s) =>
    let os := match o with
      | .http500 => "500"
      | .tlv st e k p en => s!"tlv {st} {match e with | some x => toString x | none => "-"} {b k} {b p} {b en}"
      | .panic => "panic"
    let ss := match s with
      | some (n, k) => s!" save {n} {k}"
      | none => " nosave"
    os ++ ss

def showStep : Step → String
  | .waiting => "waiting" | .startResp => "startResp" | .verifyResp => "verifyResp" | .exchResp => "exchResp"

end S

namespace V
open Hc.PairVerify

def pK : P KRef
  | "zero" :: r => some (.zero, r)
  | "eph" :: r => do
    let (c, r) ← pNat r
    let (k, r) ← pNat r
    let (e, r) ← pNat r
    pure (.ofEph c k e, r)
  | "rand" :: r => do let (n, r) ← pNat r; pure (.rand n, r)
  | _ => none

def pOptNat : P (Option Nat)
  | "-" :: r => some (none, r)
  | t :: r => t.toNat?.map (fun n => (some n, r))
  | [] => none

def pSig : P SigRef
  | "valid" :: r => do
    let (sg, r) ← pNat r
    let (ce, r) ← pOptNat r
    let (n, r) ← pNat r
    let (ac, r) ← pNat r
    let (ae, r) ← pNat r
    pure (.valid sg ce n ac ae, r)
  | "garbage" :: r => do let (n, r) ← pNat r; pure (.garbage n, r)
  | "empty" :: r => some (.empty, r)
  | _ => none

def pPlain : P Plain
  | "malformed" :: r => some (.malformed, r)
  | "tlv" :: r => do
    let (n, r) ← pNat r
    let (s, r) ← pSig r
    pure (.tlv n s, r)
  | _ => none

def pEnc : P EncData
  | "short" :: r => do let (n, r) ← pNat r; pure (.short n, r)
  | "sealed" :: r => do
    let (k, r) ← pK r
    let (no, r) ← pBool r
    let (it, r) ← pBool r
    let (pt, r) ← pPlain r
    pure (.sealed k no it pt, r)
  | _ => none

def pEntry : P Entry
  | "none" :: r => some (.none, r)
  | "nokey" :: r => some (.noKey, r)
  | "key" :: r => do let (n, r) ← pNat r; pure (.key n, r)
  | "own" :: r => do let (n, r) ← pNat r; pure (.own n, r)
  | "badkey" :: r => pure (.badKey, r)
  | _ => none

def nameOf : EncData → Option Nat
  | .sealed _ _ _ (.tlv n _) => some n
  | _ => none

def pIn : P (Store × In)
  | "v1" :: "good" :: r => do let (e, r) ← pNat r; pure ((fun _ => .none, .v1 (.good e)), r)
  | "v1" :: "wronglen" :: r => do let (n, r) ← pNat r; pure ((fun _ => .none, .v1 (.wrongLen n)), r)
  | "v1" :: "loworder" :: r => pure ((fun _ => .none, .v1 .lowOrder), r)
  | "v3" :: r => do
    let (d, r) ← pEnc r
    let (en, r) ← pEntry r
    let db : Store := fun n => if some n = nameOf d then en else .none
    pure ((db, .v3 d), r)
  | "badmethod" :: r => some ((fun _ => .none, .badMethod), r)
  | "badstate" :: r => do let (n, r) ← pNat r; pure ((fun _ => .none, .badState n), r)
  | "malformed" :: r => some ((fun _ => .none, .malformedTlv), r)
  | _ => none

def showInst (st : St) : String :=
  match st.installed with
  | none => "plain"
  | some none => "session zero"
  | some (some e) => s!"session {e} {st.epoch - st.instEpoch}"

def showOut (o : Out) (st : St) : String :=
  let os := match o with
    | .http500 => "500"
    | .tlv s e k en => s!"tlv {s} {match e with | some x => toString x | none => "-"} {S.b k} {S.b en}"
    | .panic => "panic"
  os ++ " " ++ showInst st

/-- relative number of an accessory key → absolute, on connection `c` in state `st` (keys 1..st.epoch exist) -/
def absEpoch (c : Nat) (st : St) (c' back : Nat) : Nat :=
  if c' = c then (if back < st.epoch then st.epoch - back else st.epoch + 1 + back) else 0
def resolve (c : Nat) (st : St) : In → In
  | .v3 (.sealed k no it pt) =>
    let k' := match k with | .ofEph c' b e => KRef.ofEph c' (absEpoch c st c' b) e | k => k
    let pt' := match pt with
      | .tlv n (.valid sg ce n' ac b) => Plain.tlv n (.valid sg ce n' ac (absEpoch c st ac b))
      | pt => pt
    .v3 (.sealed k' no it pt')
  | i => i

end V

def splitMsgs (toks : List String) : List (List String) :=
  (toks.foldr (fun t acc => match acc with
    | [] => [[t]]
    | cur :: rest => if t == ";" then [] :: cur :: rest else (t :: cur) :: rest) [[]]).filter (· ≠ [])

namespace S
open Hc.PairSetup
/-- relative session number → absolute, on connection `c` in state `st` -/
def absEpoch (c : Nat) (st : St) (c' back : Nat) : Nat :=
  if c' = c then (if back ≤ st.epoch then st.epoch - back else st.epoch + 1 + back) else 0
def resS (c : Nat) (st : St) : SRef → SRef
  | .srp c' k a => .srp c' (absEpoch c st c' k) a
  | s => s
def resolve (c : Nat) (st : St) : In → In
  | .m3 A (.validFor c' k a ok) => .m3 A (.validFor c' (absEpoch c st c' k) a ok)
  | .m5 (.sealed k no it pt) =>
    let k' := match k with | .ofS s => KRef.ofS (resS c st s) | k => k
    let pt' := match pt with
      | .tlv n key (.valid sg s n' k'') => Plain.tlv n key (.valid sg (resS c st s) n' k'')
      | pt => pt
    .m5 (.sealed k' no it pt')
  | i => i
end S

def runSetup (fixed : Bool) (c : Nat) (msgs : List (List String)) : Option String := do
  let ins ← optAll (msgs.map fun m => match S.pIn m with | some (i, []) => some i | _ => none)
  let (st, obs) := ins.foldl (fun (acc : Hc.PairSetup.St × List (Hc.PairSetup.Out × Hc.PairSetup.Save)) i =>
    let r := Hc.PairSetup.step fixed c acc.1 (S.resolve c acc.1 i)
    (r.1, acc.2 ++ [r.2])) (Hc.PairSetup.init, [])
  pure (" ; ".intercalate (obs.map S.showOut) ++ " | " ++ S.showStep st.step)

def runVerify (fixed : Bool) (c : Nat) (msgs : List (List String)) : Option String := do
  let ins ← optAll (msgs.map fun m => match V.pIn m with | some (i, []) => some i | _ => none)
  let (_, outs) := ins.foldl (fun (acc : Hc.PairVerify.St × List String) x =>
    let (st', o) := Hc.PairVerify.step fixed c x.1 acc.1 (V.resolve c acc.1 x.2)
    (st', acc.2 ++ [V.showOut o st'])) (Hc.PairVerify.init, [])
  pure (" ; ".intercalate outs)

def handleSetup : List String → String
  | "run" :: f :: c :: rest =>
    match pBool [f], c.toNat? with
    | some (fx, _), some cn => (runSetup fx cn (splitMsgs rest)).getD "bad-op"
    | _, _ => "bad-op"
  | _ => "bad-op"

def handleVerify : List String → String
  | "run" :: f :: c :: rest =>
    match pBool [f], c.toNat? with
    | some (fx, _), some cn => (runVerify fx cn (splitMsgs rest)).getD "bad-op"
    | _, _ => "bad-op"
  | _ => "bad-op"

end Hc.Drv.Pair
