import HcModel.Storage
import HcModel.Drv.Util
/-
  Line protocol for C18 / C19.

  `storage run <op>…`  one history on an initially empty directory (storage and database operations
      share the directory, as in hc); answer: results joined by " | ".
      ops: `set:<key>:<val>` `get:<key>` `del:<key>` `list:<suffix>` `reopen`
           `save:<name>:<pub>:<priv>` `ent:<name>` `dele:<name>` `all`
      results: `ok` `err` `unmodelled` `val:<hex>` `keys:<hex>,…` (sorted) `ent:<name>:<pub>:<priv>` `ents:<e>;<e>…`
  `fs apply <k> <dir> <op>…`  directory after the first k operations; `<dir>` = `-` or `name=content,…`
      ops: `c:<p>` `t:<p>` `w:<p>:<off>:<hex>` `r:<p>:<q>` `u:<p>` `x`; answer: sorted `name=content,…` or `-`
  `fs check <key> <new> <op>…`  → `true` | `false`   (checkTrace)
  all byte strings lowercase hex, empty = `-`.
-/
namespace Hc.Drv.Storage
open Hc Hc.Fs Hc.Storage Hc.Drv

def bytesLt : Bytes → Bytes → Bool
  | [], [] => false
  | [], _ :: _ => true
  | _ :: _, [] => false
  | a :: as, b :: bs => if a < b then true else if b < a then false else bytesLt as bs

def insertSorted (x : Bytes) : List Bytes → List Bytes
  | [] => [x]
  | y :: r => if bytesLt y x then y :: insertSorted x r else x :: y :: r

def sortBytes (l : List Bytes) : List Bytes := l.foldr insertSorted []

def showRes : Res → String
  | .ok => "ok"
  | .err => "err"
  | .unmodelled => "unmodelled"
  | .val b => "val:" ++ hexOrDash b
  | .keys l => "keys:" ++ ",".intercalate ((sortBytes l).map hexOrDash)

def showEntity (e : Entity) : String := hexOrDash e.name ++ ":" ++ hexOrDash e.pub ++ ":" ++ hexOrDash e.priv

/-- `Entities()` walks the sorted listing -/
def entitiesSorted (d : Dir) : String :=
  match allSome ((sortBytes (listSuffix d entitySuffix)).map (entityForKey modelCodec d)) with
  | some l => "ents:" ++ ";".intercalate (l.map showEntity)
  | none => "err"

def showDbRes (d : Dir) : DbRes → String
  | .ok => "ok"
  | .err => "err"
  | .unmodelled => "unmodelled"
  | .entity e => "ent:" ++ showEntity e
  | .entities _ => entitiesSorted d

def runOp (d : Dir) (tok : String) : Option (Dir × String) :=
  match tok.splitOn ":" with
  | ["set", k, v] => do
    let k ← fromHex k; let v ← fromHex v
    let (d', r) := Storage.set d k v
    pure (d', showRes r)
  | ["get", k] => do let k ← fromHex k; pure (d, showRes (get d k))
  | ["del", k] => do
    let k ← fromHex k
    let (d', r) := Storage.delete d k
    pure (d', showRes r)
  | ["list", s] => do let s ← fromHex s; pure (d, showRes (keysWithSuffix d s))
  | ["reopen"] => pure (reopen d, "ok")
  | ["save", n, p, s] => do
    let n ← fromHex n; let p ← fromHex p; let s ← fromHex s
    let (d', r) := saveEntity modelCodec d ⟨n, p, s⟩
    pure (d', showDbRes d' r)
  | ["ent", n] => do let n ← fromHex n; pure (d, showDbRes d (entityWithName modelCodec d n))
  | ["dele", n] => do
    let n ← fromHex n
    let (d', r) := deleteEntity d n
    pure (d', showDbRes d' r)
  | ["all"] => pure (d, showDbRes d (entities modelCodec d))
  | _ => none

def runAll : Dir → List String → List String → Option (List String)
  | _, [], acc => some acc.reverse
  | d, t :: ts, acc =>
    match runOp d t with
    | none => none
    | some (d', r) => runAll d' ts (r :: acc)

def parseFsOp (tok : String) : Option FsOp :=
  match tok.splitOn ":" with
  | ["c", p] => do pure (.create (← fromHex p))
  | ["t", p] => do pure (.truncate (← fromHex p))
  | ["w", p, off, b] => do pure (.write (← fromHex p) (← off.toNat?) (← fromHex b))
  | ["r", p, q] => do pure (.rename (← fromHex p) (← fromHex q))
  | ["u", p] => do pure (.unlink (← fromHex p))
  | ["x"] => some .close
  | _ => none

def parseDir (s : String) : Option Dir :=
  if s = "-" then some [] else
  optAll ((s.splitOn ",").map fun e =>
    match e.splitOn "=" with
    | [n, c] => do pure ((← fromHex n), (← fromHex c))
    | _ => none)

def showDir (d : Dir) : String :=
  if d.isEmpty then "-" else
  ",".intercalate ((sortBytes (names d)).map fun n => hexOrDash n ++ "=" ++ hexOrDash ((lookup d n).getD []))

def handle : List String → String
  | "run" :: ops =>
    match runAll [] ops [] with
    | some rs => " | ".intercalate rs
    | none => "bad-op"
  | _ => "bad-op"

def handleFs : List String → String
  | "apply" :: k :: dir :: ops =>
    match k.toNat?, parseDir dir, optAll (ops.map parseFsOp) with
    | some k, some d, some ops => showDir (apply d (ops.take k))
    | _, _, _ => "bad-op"
  | "check" :: key :: new :: ops =>
    match fromHex key, fromHex new, optAll (ops.map parseFsOp) with
    | some key, some new, some ops => toString (checkTrace key new ops)
    | _, _, _ => "bad-op"
  | _ => "bad-op"

end Hc.Drv.Storage
