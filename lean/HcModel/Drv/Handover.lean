import HcModel.Handover
/-
  Driver op for the hand-over model:  handover run <version 0|1|2> <op> …   op := readStart | setCrypt | writeResp | peerSends | readDone
  Answer: `resp=<plain|enc|none> delivered=<dec|plain|none> closed=<0|1> foreign=<0|1>`   events=<n written> queued=<n kept back>` (version 0: original code, 1: after the F18 repair, 2: after F18 and F19, 3: after F31 as well)
-/
namespace Hc.Drv.Handover
open Hc.Handover

def pOp : String → Option Op
  | "readStart" => some .readStart
  | "setCrypt" => some .setCrypt
  | "writeResp" => some .writeResp
  | "peerSends" => some .peerSends
  | "readDone" => some .readDone
  | "excess" => some .excess
  | "foreign" => some .foreign
  | "event" => some .event
  | "writeBegin" => some .writeBegin
  | "writeEnd" => some .writeEnd
  | _ => none

def handle : List String → String
  | "run" :: f :: ops =>
    match ops.mapM pOp with
    | none => "bad-op"
    | some os =>
      let s := run (f != "0") (f == "2" || f == "3") (f == "3") os
      let r := match s.respEncrypted with | none => "none" | some true => "enc" | some false => "plain"
      let d := match s.delivered with | none => "none" | some true => "dec" | some false => "plain"
      s!"resp={r} delivered={d} closed={if s.closed then 1 else 0} foreign={if s.foreignPlain then 1 else 0} events={s.evOut} queued={s.queued}"
  | _ => "bad-op"

end Hc.Drv.Handover
