import HcModel.Handover
/-
  Driver op for the hand-over model:  handover run <fixed 0|1> <op> …   op := readStart | setCrypt | writeResp | peerSends | readDone
  Answer: `resp=<plain|enc|none> delivered=<dec|plain|none>`
-/
namespace Hc.Drv.Handover
open Hc.Handover

def pOp : String → Option Op
  | "readStart" => some .readStart
  | "setCrypt" => some .setCrypt
  | "writeResp" => some .writeResp
  | "peerSends" => some .peerSends
  | "readDone" => some .readDone
  | _ => none

def handle : List String → String
  | "run" :: f :: ops =>
    match ops.mapM pOp with
    | none => "bad-op"
    | some os =>
      let s := run (f == "1") os
      let r := match s.respEncrypted with | none => "none" | some true => "enc" | some false => "plain"
      let d := match s.delivered with | none => "none" | some true => "dec" | some false => "plain"
      s!"resp={r} delivered={d}"
  | _ => "bad-op"

end Hc.Drv.Handover
