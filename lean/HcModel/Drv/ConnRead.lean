import HcModel.ConnRead
import HcModel.Drv.Util
namespace Hc.Drv.ConnRead
open Hc Hc.ConnRead Hc.Drv

/-- frames `<len>` (authentic) or `<len>x` (does not authenticate); plaintext symbols are stream offsets -/
def parseFrames : List String → Nat → Option (List (Frame Nat))
  | [], _ => some []
  | t :: r, off =>
    let bad := t.endsWith "x"
    let t' := if bad then (t.dropEnd 1).toString else t
    match t'.toNat? with
    | none => none
    | some n => (parseFrames r (off + n)).map (⟨List.range' off n, !bad⟩ :: ·)

def parseEv (s : String) : Option Ev :=
  if s = "i" then some .idle else if s = "c" then some .closed
  else match s.toList with
    | 's' :: r => (String.ofList r).toNat?.map .seg
    | _ => none

def showRes : Res Nat → String
  | .data [] => "d0"
  | .data (a :: r) => s!"d{a}+{r.length + 1}"
  | .eof => "eof"
  | .cut => "cut"
  | .timeout => "t"
  | .closed false => "c0"
  | .closed true => "c1"
  | .block => "b"

def splitBar (l : List String) : List (List String) :=
  l.foldr (fun t acc => if t = "|" then [] :: acc else match acc with
    | [] => [[t]]
    | h :: r => (t :: h) :: r) [[]]

/-- op `run <frames…> | <events…> | <buffer sizes…>`
      frames `<len>` / `<len>x`; events `s<n>` segment of n bytes, `i` deadline fires, `c` peer closed
    → one token per read: `d<offset>+<n>` data = plaintext[offset, offset+n) | `d0` | `t` timeout | `eof`
      | `c0` failed + closed, Close() = nil | `c1` failed, Close() = error | `b` blocks;
      then `; net=<number of unconsumed events>` -/
def handle : List String → String
  | "run" :: rest =>
    match splitBar rest with
    | [fr, evs, bufs] =>
      match parseFrames fr 0, optAll (evs.map parseEv), optAll (bufs.map String.toNat?) with
      | some fs, some net, some bs =>
        let x := run (init fs) net bs
        " ".intercalate (x.2.2.map showRes) ++
          s!" ; net={x.2.1.length}"
      | _, _, _ => "bad-op"
    | _ => "bad-op"
  | _ => "bad-op"

end Hc.Drv.ConnRead
