import HcModel.SpecController
/-
  Driver op for C04: `spec run <codeOk 0|1>` → the outcome of the symbolic honest run of the specification controller
  against the accessory procedure with the labels regenerated from /repo:
  `accepted=… proof=… stored=… m6=… v2=… v4=… keys=…`  (or `labels-unreadable` if the call sites changed shape)
-/
namespace Hc.Drv.Spec
open Hc.Spec Hc.Sym Hc.Sym.Term

def b (x : Bool) : String := if x then "1" else "0"

def params (codeOk : Bool) : Params :=
  { code := atom 1, ctrlCode := if codeOk then atom 1 else atom 99, ctrlName := atom 2, ctrlSk := atom 3, accName := atom 4,
    accSk := atom 5, salt := atom 6, a := atom 7, b := atom 8, ctrlEphSk := atom 9, accEphSk := atom 10 }

def handle : List String → String
  | ["run", c] =>
    match labelsOf Hc.Generated.labelRows with
    | none => "labels-unreadable"
    | some L =>
      let p := params (c == "1")
      let r := honestRun L p
      let stored := match r.stored with
        | some (n, k) => if n == p.ctrlName && k == edpub p.ctrlSk then "ctrl" else "other"
        | none => "none"
      s!"accepted={b r.m4Accepted} proof={b r.m4ProofOk} stored={stored} m6={b r.m6Ok} v2={b r.v2Ok} v4={b r.v4Ok} keys={b r.keysAgree}"
  | _ => "bad-op"

end Hc.Drv.Spec
