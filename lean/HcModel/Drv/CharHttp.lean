import HcModel.CharHttp
import HcModel.Drv.Util
/-
  Driver op for the id dispatch of GET /characteristics (C09):
    charhttp get <aid.iid.r|w> … | <tok> …      tok := <aid>.<iid> | bad
  Database entries in container order (r = readable, w = not readable). Answer:
    500 | 200 <aid.iid=V> … | 207 <aid.iid=V/0 | aid.iid=<status>> …      (V = "carries the stored value")
-/
namespace Hc.Drv.CharHttp
open Hc.CharHttp Hc.Charac Hc.Drv

def mkChr (readable : Bool) : Chr :=
  { cfg := { format := .bool, perms := ⟨readable, true, true, false, false⟩, min := .nil, max := .nil,
             updateOnSameValue := false, tcb := none },
    value := if readable then .bool true else .nil, log := [] }

def pEntry (s : String) : Option Entry :=
  match s.splitOn "." with
  | [a, i, f] => do pure ⟨← a.toNat?, ← i.toNat?, mkChr (f == "r"), false⟩
  | _ => none

def pTok (s : String) : Option IdTok :=
  if s == "bad" then some .bad else
  match s.splitOn "." with
  | [a, i] => do pure (.pair (← a.toNat?) (← i.toNat?))
  | _ => none

def showEntry (e : RespEntry) : String :=
  let v := if e.value.isNil then "" else "V"
  let st := match e.status with | some s => (if v == "" then "" else "/") ++ toString s | none => ""
  s!"{e.aid}.{e.iid}={v}{st}"

def handle : List String → String
  | "get" :: rest =>
    let (dbs, toks) := rest.span (· != "|")
    match optAll (dbs.map pEntry), optAll ((toks.drop 1).map pTok) with
    | some db, some ts =>
      match getChars db ts with
      | .http500 => "500"
      | .ok200 es => "200 " ++ " ".intercalate (es.map showEntry)
      | .multi207 es => "207 " ++ " ".intercalate (es.map showEntry)
    | _, _ => "bad-op"
  | _ => "bad-op"

end Hc.Drv.CharHttp
