import HcModel.CharHttp
import HcModel.ChunkedWriter
import HcModel.Drv.Util
/-
  Driver op for the id dispatch of GET /characteristics (C09):
    charhttp get <aid.iid.r|w> … | <tok> …      tok := <aid>.<iid> | bad
  Database entries in container order (r = readable, w = not readable). Answer:
    500 | 200 <aid.iid=V> … | 207 <aid.iid=V/0 | aid.iid=<status>> …      (V = "carries the stored value")
    charhttp put <aid.iid.perms> … | <aid.iid.<v|n><t|f|n>> …   (F75)  →  204 | 207 <aid.iid=status> … | panic
-/
namespace Hc.Drv.CharHttp
open Hc.CharHttp Hc.Charac Hc.Drv

def mkChr (readable : Bool) : Chr :=
  { cfg := { format := .bool, perms := ⟨readable, true, true, false, false⟩, min := .nil, max := .nil,
             updateOnSameValue := false, tcb := none },
    value := if readable then .bool true else .nil, log := [] }

def pEntry (s : String) : Option Entry :=
  match s.splitOn "." with
  | [a, i, f] => do pure ⟨← a.toNat?, ← i.toNat?, mkChr (f == "r"), false⟩
  | _ => none

def pTok (s : String) : Option IdTok :=
  if s == "bad" then some .bad else
  match s.splitOn "." with
  | [a, i] => do pure (.pair (← a.toNat?) (← i.toNat?))
  | _ => none

/-- `<aid>.<iid>.<perms>`: perms a subset of "rwe" (pr, pw, ev), "-" for none -/
def pEntryP (s : String) : Option Entry :=
  match s.splitOn "." with
  | [a, i, f] => do
    let c : Chr := { cfg := { format := .bool, perms := ⟨f.contains 'r', f.contains 'w', f.contains 'e', false, false⟩, min := .nil,
                              max := .nil, updateOnSameValue := false, tcb := none },
                     value := .bool false, log := [] }
    pure ⟨← a.toNat?, ← i.toNat?, c, false⟩
  | _ => none

/-- `<aid>.<iid>.<v|n><t|f|n>`: a value (true) or none; ev true / false / absent -/
def pPut (s : String) : Option PutReq :=
  match s.splitOn "." with
  | [a, i, f] =>
    match f.toList with
    | [v, e] => do
      let ev : JVal := if e == 't' then .bool true else if e == 'f' then .bool false else .null
      pure ⟨← a.toNat?, ← i.toNat?, if v == 'v' then .bool true else .null, ev⟩
    | _ => none
  | _ => none

def showEntry (e : RespEntry) : String :=
  let v := if e.value.isNil then "" else "V"
  let st := match e.status with | some s => (if v == "" then "" else "/") ++ toString s | none => ""
  s!"{e.aid}.{e.iid}={v}{st}"

def handle : List String → String
  | "get" :: rest =>
    let (dbs, toks) := rest.span (· != "|")
    match optAll (dbs.map pEntry), optAll ((toks.drop 1).map pTok) with
    | some db, some ts =>
      match getChars db ts with
      | .http500 => "500"
      | .ok200 es => "200 " ++ " ".intercalate (es.map showEntry)
      | .multi207 es => "207 " ++ " ".intercalate (es.map showEntry)
    | _, _ => "bad-op"
  | "put" :: rest =>
    let (dbs, toks) := rest.span (· != "|")
    match optAll (dbs.map pEntryP), optAll ((toks.drop 1).map pPut) with
    | some db, some rs =>
      match (putChars db rs).2 with
      | .panicked => "panic"
      | .noContent204 => "204"
      | .body es => "207 " ++ " ".intercalate (es.map fun e => s!"{e.aid}.{e.iid}={e.status.getD 0}")
    | _, _ => "bad-op"
  | _ => "bad-op"

/- chunkw <n> <len> <a<k> | e<k>> …  — hap.chunkedWriter.Write of the body (i mod 251)_{i<len} in chunks of n over a writer
   whose calls accept k bytes (`a`) or fail (`e`), then keep the contract.
   →  <nn> <ok|err> off=<len>@<first byte>,… acc=<len>,…   | bad-op (n = 0 is refused: the Go loop would not end) -/
def pResp (s : String) : Option Hc.ChunkedWriter.Resp :=
  match s.toList with
  | 'a' :: r => (String.ofList r).toNat?.map fun k => ⟨k, false⟩
  | 'e' :: r => (String.ofList r).toNat?.map fun k => ⟨k, true⟩
  | _ => none

def showPiece (c : Bytes) : String :=
  s!"{c.length}@{match c with | b :: _ => b.toNat | [] => 999}"

def handleChunkw : List String → String
  | n :: len :: rest =>
    match n.toNat?, len.toNat?, optAll (rest.map pResp) with
    | some n, some len, some script =>
      if hn : 0 < n then
        let body : Bytes := (List.range len).map fun i => UInt8.ofNat (i % 251)
        let o := Hc.ChunkedWriter.write n hn body script
        s!"{o.nn} {if o.err then "err" else "ok"} off={",".intercalate (o.offered.map showPiece)} acc={",".intercalate (o.accepted.map fun c => toString c.length)}"
      else "bad-op"
    | _, _, _ => "bad-op"
  | _ => "bad-op"

end Hc.Drv.CharHttp
