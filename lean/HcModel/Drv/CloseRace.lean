import HcModel.CloseRace
/-
  closerace run <ev> <ev> …      ev := c<n> (a connection with session n registers) | g (the close's lookup) | d (its delete)
                                      | a (lookup and delete in one step)
  Answer: the session registered under the address pair in the end: <n> | none
-/
namespace Hc.Drv.CloseRace
open Hc.CloseRace

def pEv (s : String) : Option Ev :=
  if s == "g" then some .closeGet else if s == "d" then some .closeDel else if s == "a" then some .closeAtomic
  else if s.startsWith "c" then (s.drop 1).toNat?.map Ev.connect else none

def handle : List String → String
  | "run" :: evs =>
    match evs.mapM pEv with
    | none => "bad-op"
    | some l => match (run init l).reg with
      | some n => toString n
      | none => "none"
  | _ => "bad-op"

end Hc.Drv.CloseRace
