import HcModel.Bytes
/-
  Model of the secure-session framing: crypto/secure_session.go, crypto/packet.go (as repaired by the
  `fix:` commits F5, F4, F4b), with crypto/chacha20poly1305 and crypto/hkdf as parameters.

  Go                                          | here
  --------------------------------------------+---------------------------------------------------------
  io.Reader handed to Encrypt                 | Reader = list of bursts; one `Read(p)` delivers
                                              |   min(len p, len burst) bytes of the head burst (an empty
                                              |   burst is a `(0, nil)` read); after the last burst `(0, io.EOF)`.
                                              |   The data-together-with-EOF variant of the last read ends
                                              |   ReadFull one Read earlier with the same bytes, and a reader
                                              |   error other than EOF ends the payload in the same way
                                              |   (packetsWithSizeFromBytes swallows it) — both are exercised
                                              |   by the correspondence, not distinguished here.
  io.ReadFull(r, value)                       | readFull
  packetsWithSizeFromBytes(1024, r)           | packets            (= chunks 1024 payload, HcProofs/Lemmas/Framing)
  secureSession{encryptKey,decryptKey,        | Sess               (counters are Nat; Go's uint64 wraps, and only
     encryptCount,decryptCount}               |                     `nonce12 ctr` = 4 zero bytes ++ leN 8 ctr, which
                                              |                     truncates mod 2^64 the same way, is observable)
  NewSecureSessionFromSharedKey               | serverSess         (labels saltControl / infoRead / infoWrite)
  NewSecureClientSessionFromSharedKey         | clientSess
  hkdf.Sha512 / EncryptAndSeal / DecryptAndV. | Crypto.kdf / sealB (ct ++ tag) / openB   — parameters
  (*secureSession).Encrypt                    | encrypt            (frame descriptors `frameDescs`, rendered by `renderFrame`)
  (*secureSession).Decrypt                    | decrypt            (parseFrame = the three binary.Read calls; decryptLoop)
  EncryptAndSeal/DecryptAndVerify error paths | unreachable: key is [32]byte, nonce [8]byte (sizes fixed by types)

  Frame-level (symbolic) receiver for C05: `Rx`, `DFrame`, `rxLoop`, `rxCall`, `rxCalls`.
-/
namespace Hc.Framing

/-- PacketLengthMax -/
def packetMax : Nat := 1024

-- ---------------------------------------------------------------------------------------------
-- reader + packetisation (crypto/packet.go)

abbrev Reader := List Bytes

/-- everything the reader will ever deliver -/
def payload (r : Reader) : Bytes := r.flatten

/-- `io.ReadFull(r, buf)` with `len(buf) = need`: loops over `Read(buf[n:])` until the buffer is full or
    the reader reports EOF. Returns the bytes read and the reader afterwards. -/
def readFull : Nat → Reader → Bytes × Reader
  | _, [] => ([], [])
  | need, b :: bs =>
    if need = 0 then ([], b :: bs)
    else if b.length ≤ need then
      let p := readFull (need - b.length) bs
      (b ++ p.1, p.2)
    else (b.take need, b.drop need :: bs)

theorem readFull_flatten (n : Nat) (r : Reader) :
    (readFull n r).1 ++ (readFull n r).2.flatten = r.flatten := by
  induction r generalizing n with
  | nil => simp [readFull]
  | cons b bs ih =>
    simp only [readFull]
    split
    · simp
    · split
      · simp [List.append_assoc, ih]
      · simp only [List.flatten_cons]
        rw [← List.append_assoc, List.take_append_drop]

theorem readFull_length_le (n : Nat) (r : Reader) : (readFull n r).1.length ≤ n := by
  induction r generalizing n with
  | nil => simp [readFull]
  | cons b bs ih =>
    simp only [readFull]
    split
    · simp
    · split
      · have := ih (n - b.length); simp only [List.length_append]; omega
      · simp [List.length_take]; omega

/-- packetsWithSizeFromBytes(PacketLengthMax, r) after F5: one `io.ReadFull` per packet;
    `n == 0` ends the loop without a packet, `n < length` ends it after the packet. -/
def packets (r : Reader) : List Bytes :=
  match _hp : readFull packetMax r with
  | (d, rest) =>
    if d.length = 0 then []
    else if d.length < packetMax then [d]
    else d :: packets rest
termination_by r.flatten.length
decreasing_by
  have h := congrArg List.length (readFull_flatten packetMax r)
  rw [_hp] at h
  simp only [List.length_append] at h
  simp only [packetMax] at *
  omega

/-- packetsWithSizeFromBytes *before* F5 (one `Read` per packet, stop at the first short read),
    faithful for bursts of at most 1024 bytes; kept only for the refutation example in Props/C06. -/
def packetsPreFix : Reader → List Bytes
  | [] => []
  | b :: bs =>
    if b.length = 0 then []
    else if b.length < packetMax then [b]
    else b.take packetMax :: packetsPreFix bs

-- ---------------------------------------------------------------------------------------------
-- session, keys

/-- the cryptographic primitives as parameters: HKDF-SHA-512 (master, salt, info ↦ 32-byte key) and
    ChaCha20-Poly1305 (key, 12-byte nonce, associated data, message ↦ ciphertext ++ 16-byte tag) -/
structure Crypto where
  kdf : Bytes → Bytes → Bytes → Bytes
  sealB : Bytes → Bytes → Bytes → Bytes → Bytes
  openB : Bytes → Bytes → Bytes → Bytes → Option Bytes

/-- `open ∘ seal = id` and the tag is 16 bytes: all that the round-trip theorems need -/
def Crypto.Correct (C : Crypto) : Prop :=
  ∀ k n ad m, C.openB k n ad (C.sealB k n ad m) = some m ∧ (C.sealB k n ad m).length = m.length + 16

def ascii (s : String) : Bytes := s.toList.map fun c => UInt8.ofNat c.toNat

def saltControlS : String := "Control-Salt"
def infoReadS : String := "Control-Read-Encryption-Key"
def infoWriteS : String := "Control-Write-Encryption-Key"
def saltControl : Bytes := ascii saltControlS
def infoRead : Bytes := ascii infoReadS
def infoWrite : Bytes := ascii infoWriteS

structure Sess where
  encKey : Bytes
  decKey : Bytes
  encCnt : Nat
  decCnt : Nat
deriving Repr

/-- NewSecureSessionFromSharedKey: the accessory encrypts with the *read* key, decrypts with the *write* key -/
def serverSess (C : Crypto) (shared : Bytes) : Sess :=
  { encKey := C.kdf shared saltControl infoRead, decKey := C.kdf shared saltControl infoWrite, encCnt := 0, decCnt := 0 }

/-- NewSecureClientSessionFromSharedKey -/
def clientSess (C : Crypto) (shared : Bytes) : Sess :=
  { encKey := C.kdf shared saltControl infoWrite, decKey := C.kdf shared saltControl infoRead, encCnt := 0, decCnt := 0 }

-- ---------------------------------------------------------------------------------------------
-- Encrypt

/-- what is sealed for one frame: counter (nonce) and plaintext chunk; the key is the session's -/
structure FrameD where
  ctr : Nat
  chunk : Bytes
deriving DecidableEq, Repr

/-- consecutive counters, one per packet (`s.encryptCount++` per loop iteration) -/
def frameDescs (ctr : Nat) : List Bytes → List FrameD
  | [] => []
  | p :: ps => ⟨ctr, p⟩ :: frameDescs (ctr + 1) ps

/-- wire layout of one frame: `le16 len ++ ciphertext ++ tag`, length as associated data,
    nonce = 4 zero bytes ++ le64 counter -/
def renderFrame (C : Crypto) (key : Bytes) (d : FrameD) : Bytes :=
  le16 d.chunk.length ++ C.sealB key (nonce12 d.ctr) (le16 d.chunk.length) d.chunk

def renderFrames (C : Crypto) (key : Bytes) (ds : List FrameD) : Bytes :=
  (ds.map (renderFrame C key)).flatten

def encrypt (C : Crypto) (s : Sess) (r : Reader) : Sess × Bytes :=
  let ps := packets r
  ({ s with encCnt := s.encCnt + ps.length }, renderFrames C s.encKey (frameDescs s.encCnt ps))

/-- a source reader that may FAIL (an error other than the end of the data) after it has delivered its chunks -/
structure FReader where
  chunks : Reader
  fails : Bool

/-- `Encrypt` (F70 repair): when the source fails nothing is sealed and no frame is counted — the bytes it delivered
    until then are not the message. `none`: the error of the source is returned. -/
def encryptF (C : Crypto) (s : Sess) (r : FReader) : Sess × Option Bytes :=
  if r.fails then (s, none) else ((encrypt C s r.chunks).1, some (encrypt C s r.chunks).2)

/-- before the repair: `packetsWithSizeFromBytes` looked at the number of bytes only; a failing source ended the message -/
def encryptFOld (C : Crypto) (s : Sess) (r : FReader) : Sess × Option Bytes :=
  ((encrypt C s r.chunks).1, some (encrypt C s r.chunks).2)

-- ---------------------------------------------------------------------------------------------
-- Decrypt

/-- `io.EOF` (nothing could be read), `io.ErrUnexpectedEOF` (cut short), authentication failure -/
inductive DecErr | eof | unexpectedEof | auth
deriving DecidableEq, Repr

/-- `io.ReadFull` of `n` bytes (inside `binary.Read`) on a byte source; `n = 0` always succeeds -/
def readN (n : Nat) (inp : Bytes) : Except DecErr (Bytes × Bytes) :=
  if n ≤ inp.length then .ok (inp.take n, inp.drop n)
  else if inp.length = 0 then .error .eof
  else .error .unexpectedEof

inductive Parsed
  | eof                                                       -- io.EOF on the length field: the loop ends
  | err (e : DecErr)
  | frame (len : Nat) (body tag rest : Bytes)
deriving DecidableEq, Repr

/-- the three `binary.Read`s of one loop iteration: uint16 length, `length` bytes, 16-byte tag -/
def parseFrame : Bytes → Parsed
  | [] => .eof
  | [_] => .err .unexpectedEof
  | a :: b :: r1 =>
    match readN (unle16 a b) r1 with
    | .error _ => .err .unexpectedEof      -- F70b: the end of the input behind the length field is inside a frame,
    | .ok (body, r2) =>                    --   `io.EOF` from these two reads is reported as `io.ErrUnexpectedEOF`
      match readN 16 r2 with
      | .error _ => .err .unexpectedEof
      | .ok (tag, r3) => .frame (unle16 a b) body tag r3

theorem parseFrame_rest_lt {inp : Bytes} {len : Nat} {body tag rest : Bytes}
    (h : parseFrame inp = .frame len body tag rest) : rest.length < inp.length := by
  match inp with
  | [] => simp [parseFrame] at h
  | [_] => simp [parseFrame] at h
  | a :: b :: r1 =>
    simp only [parseFrame, readN] at h
    split at h
    · simp at h
    · rename_i body' r2 h1
      split at h1
      · simp only [Except.ok.injEq, Prod.mk.injEq] at h1
        split at h
        · simp at h
        · rename_i tag' r3 h2
          split at h2
          · simp only [Except.ok.injEq, Prod.mk.injEq] at h2
            simp only [Parsed.frame.injEq] at h
            obtain ⟨_, _, _, h⟩ := h
            subst h
            rw [← h2.2, ← h1.2]
            simp [List.length_drop]; omega
          · split at h2 <;> simp at h2
      · split at h1 <;> simp at h1

/-- the frame loop of Decrypt from counter `cnt`: `(counter after, plaintext, unread input)`;
    a frame is counted once it verified; the loop ends after a frame shorter than 1024 or at end of input -/
def decryptLoop (C : Crypto) (key : Bytes) (cnt : Nat) (inp : Bytes) : Except DecErr (Nat × Bytes × Bytes) :=
  match _h : parseFrame inp with
  | .eof => .ok (cnt, [], [])
  | .err e => .error e
  | .frame len body tag rest =>
    match C.openB key (nonce12 cnt) (le16 len) (body ++ tag) with
    | none => .error .auth
    | some pt =>
      if len < packetMax then .ok (cnt + 1, pt, rest)
      else
        match decryptLoop C key (cnt + 1) rest with
        | .ok (c, out, r) => .ok (c, pt ++ out, r)
        | .error e => .error e
termination_by inp.length
decreasing_by exact parseFrame_rest_lt _h

/-- (*secureSession).Decrypt: a failed call returns `nil, err` — nothing is released — and leaves the
    counter where it was before the call (F4, F4b); a successful call commits the counter. The third
    component is what is left unread in the reader (after an error: unspecified, `[]`). -/
def decrypt (C : Crypto) (s : Sess) (inp : Bytes) : Sess × Except DecErr Bytes × Bytes :=
  match decryptLoop C s.decKey s.decCnt inp with
  | .ok (c, out, rest) => ({ s with decCnt := c }, .ok out, rest)
  | .error e => (s, .error e, [])

/-- a sequence of Encrypt calls on one session (one call per message) -/
def encryptSeq (C : Crypto) (s : Sess) : List Reader → Sess × List Bytes
  | [] => (s, [])
  | r :: rs =>
    let e := encrypt C s r
    let es := encryptSeq C e.1 rs
    (es.1, e.2 :: es.2)

/-- a sequence of Decrypt calls on one session, one per received message -/
def decryptSeq (C : Crypto) (s : Sess) : List Bytes → Sess × List (Except DecErr Bytes)
  | [] => (s, [])
  | m :: ms =>
    let d := decrypt C s m
    let ds := decryptSeq C d.1 ms
    (ds.1, d.2.1 :: ds.2)

-- ---------------------------------------------------------------------------------------------
-- frame-level receiver (C05): what the adversary delivers, classified against the receiver's key

/-- `genuine i`: the sender's `i`-th frame of this direction of this session, unmodified;
    `forged`: any complete frame that is not one of those (bit flip in length/ciphertext/tag, frame of the
    other direction or of another session, garbage): by the AEAD assumption it opens under no nonce of
    this key; `truncated`: the input ends inside a frame. -/
inductive DFrame | genuine (i : Nat) | forged | truncated
deriving DecidableEq, Repr

inductive RxErr | auth | short
deriving DecidableEq, Repr

/-- one Decrypt call from counter `c` over the frames in its reader; `sent` = the plaintext chunks of all
    frames the peer ever sealed in this direction. Result: counter after, indices released, frames left unread. -/
def rxLoop (sent : List Bytes) (c : Nat) : List DFrame → Except RxErr (Nat × List Nat × List DFrame)
  | [] => .ok (c, [], [])
  | .truncated :: _ => .error .short
  | .forged :: _ => .error .auth
  | .genuine i :: fs =>
    match sent[i]? with
    | none => .error .auth
    | some chunk =>
      if i = c then
        if chunk.length < packetMax then .ok (c + 1, [i], fs)
        else
          match rxLoop sent (c + 1) fs with
          | .ok (c', is, r) => .ok (c', i :: is, r)
          | .error e => .error e
      else .error .auth

structure Rx where
  cnt : Nat               -- decryptCount
  released : List Nat     -- indices of the chunks released so far, in order
deriving DecidableEq, Repr

inductive CallRes
  | ok (idxs : List Nat) (rest : List DFrame)
  | error (e : RxErr)
deriving DecidableEq, Repr

/-- a failed call releases nothing and leaves the counter unchanged -/
def rxCall (sent : List Bytes) (s : Rx) (batch : List DFrame) : Rx × CallRes :=
  match rxLoop sent s.cnt batch with
  | .ok (c, is, r) => ({ cnt := c, released := s.released ++ is }, .ok is r)
  | .error e => (s, .error e)

def rxCalls (sent : List Bytes) (s : Rx) (calls : List (List DFrame)) : Rx :=
  calls.foldl (fun s b => (rxCall sent s b).1) s

/-- the plaintext behind a list of released indices -/
def releasedBytes (sent : List Bytes) (idxs : List Nat) : Bytes :=
  idxs.flatMap fun i => (sent[i]?).getD []

/-- receivers *before* the repairs, only for the refutations in Props/C05. The counter is kept across a
    failed call; `countRejected = true`: incremented before verification (the original code, F4);
    `countRejected = false`: incremented after verification (the code after F4 alone, F4b). -/
def rxLoopPreFix (countRejected : Bool) (sent : List Bytes) (c : Nat) : List DFrame → Nat × Except RxErr (List Nat)
  | [] => (c, .ok [])
  | .truncated :: _ => (c, .error .short)
  | .forged :: _ => (if countRejected then c + 1 else c, .error .auth)
  | .genuine i :: fs =>
    match sent[i]? with
    | none => (if countRejected then c + 1 else c, .error .auth)
    | some chunk =>
      if i = c then
        if chunk.length < packetMax then (c + 1, .ok [i])
        else
          match rxLoopPreFix countRejected sent (c + 1) fs with
          | (c', .ok is) => (c', .ok (i :: is))
          | (c', .error e) => (c', .error e)
      else (if countRejected then c + 1 else c, .error .auth)

def rxCallsPreFix (countRejected : Bool) (sent : List Bytes) (s : Rx) (calls : List (List DFrame)) : Rx :=
  calls.foldl (fun s b =>
    match rxLoopPreFix countRejected sent s.cnt b with
    | (c, .ok is) => { cnt := c, released := s.released ++ is }
    | (c, .error _) => { s with cnt := c }) s

end Hc.Framing
