import HcModel.Json
/-
  Executable model of characteristic/{characteristic,int,float,string,bool,bytes}.go (after the
  `fix:` commits for F9), of the four conversions of github.com/xiam/to that hc calls on a dynamic
  value, and of the per-characteristic part of the PUT /characteristics handler
  (hap/http/characteristics.go). Core Lean only.

  Go ↔ Lean:
    interface{} holding nil/bool/int/float64/string/[]interface{}/map[string]interface{} ↔ `GVal`
    to.Float64 / to.Uint64 / to.Bool / to.String      ↔ `toFloat64` / `toUint64` / `toBool` / `toStr`
    (*Characteristic).convert                         ↔ `convert`
    (*Characteristic).clampInt / clampFloat           ↔ `clampInt` / `clampFloat`
    interface `==` (run-time panic on uncomparable)   ↔ `goEq` (`none` = panic)
    (*Characteristic).updateValue(v, conn, checkPerms)↔ `updateValue c v fromConn checkPerms`
    (*Characteristic).getValue(conn)                  ↔ `getValue`
    Int/Float/String/Bool.GetValue (type assertion)   ↔ `typedGet`
    X.OnValueRemoteUpdate's `new.(T)`                 ↔ `Config.tcb` + `cbOutcome`
    Characteristics (PUT), one request entry          ↔ `putEntry`
    hap.Body / GET response `value` field             ↔ `carried`

  Where Go panics the model returns `Outcome.panic`; nothing is totalised silently.
-/
namespace Hc.Charac
open Hc

/-- HAP formats of characteristic/constants.go; `other` is any other string (e.g. the empty format
    of a bare `NewCharacteristic`), which takes `convert`'s `default:` branch. -/
inductive Format where
  | float | uint8 | uint16 | uint32 | int32 | uint64 | bool | string | tlv8 | data | other
  deriving Repr, DecidableEq, Inhabited

/-- dynamic Go types that a stored value may have -/
inductive GType where
  | bool | int | float64 | string
  deriving Repr, DecidableEq, Inhabited

/-- the Go type that a format declares (`none` for an undeclared format) -/
def Format.gtype : Format → Option GType
  | .float => some .float64
  | .uint8 | .uint16 | .uint32 | .int32 | .uint64 => some .int
  | .bool => some .bool
  | .string | .tlv8 | .data => some .string
  | .other => none

/-- A Go `interface{}` value as it can reach or leave a characteristic. `int` is Go's 64-bit `int`
    (the model reduces into the int64 range wherever Go would), `comp` is a decoded JSON array or
    object, i.e. a value of an uncomparable dynamic type. -/
inductive GVal where
  | nil
  | bool (b : Bool)
  | int (i : Int)
  | float (x : F64)
  | str (s : String)
  | comp (j : JVal)
  deriving Repr, Inhabited

/-- what `encoding/json` hands to the PUT handler -/
def ofJson : JVal → GVal
  | .null => .nil
  | .bool b => .bool b
  | .num x => .float x
  | .str s => .str s
  | j => .comp j

def GVal.hasType : GVal → GType → Bool
  | .bool _, .bool => true
  | .int _, .int => true
  | .float _, .float64 => true
  | .str _, .string => true
  | _, _ => false

def GVal.isNil : GVal → Bool
  | .nil => true
  | _ => false

/-- two's-complement reading of a 64-bit pattern: Go's `int(u)` for `u : uint64` -/
def intOfU64 (n : Nat) : Int :=
  let k : Nat := n % 2^64
  if k ≥ 2^63 then (k : Int) - (2^64 : Int) else (k : Int)

/-- Go's `uint64(i)` for `i : int` -/
def u64OfInt (i : Int) : Nat := (i % (2^64 : Int)).toNat

-- github.com/xiam/to ----------------------------------------------------------------------------

/-- to.Uint64 -/
def toUint64 : GVal → Nat
  | .int i => u64OfInt i
  | .float x => x.toUint64
  | .bool b => if b then 1 else 0
  | .str s => parseUint s
  | .nil => 0          -- ParseUint("")
  | .comp _ => 0       -- ParseUint("[…]") / ParseUint("map[…]"): syntax error

/-- to.Int64 -/
def toInt64 : GVal → Int
  | .int i => intOfU64 (u64OfInt i)
  | .float x => x.toInt64
  | .bool b => if b then 1 else 0
  | .str s => parseInt s
  | .nil => 0          -- ParseInt("")
  | .comp _ => 0       -- ParseInt("[…]"): syntax error

/-- to.Float64 -/
def toFloat64 : GVal → F64
  | .int i => F64.ofInt (intOfU64 (u64OfInt i))
  | .float x => x
  | .bool b => if b then F64.one else F64.zero
  | .str s => parseFloat s
  | .nil => F64.zero
  | .comp _ => F64.zero

/-- to.String -/
def toStr : GVal → String
  | .nil => ""
  | .int i => toString (intOfU64 (u64OfInt i))
  | .float x => x.fmtG
  | .bool b => if b then "true" else "false"
  | .str s => s
  | .comp j => j.fmtV

/-- to.Bool = ParseBool(to.String(v)) -/
def toBool (v : GVal) : Bool := parseBool (toStr v)

-- the characteristic -----------------------------------------------------------------------------

/-- an arbitrary subset of {pr, pw, ev, hd, wr} -/
structure Perms where
  pr : Bool
  pw : Bool
  ev : Bool
  hd : Bool
  wr : Bool
  deriving Repr, DecidableEq, Inhabited

/-- the fields no operation changes -/
structure Config where
  format : Format
  perms : Perms
  /-- `MinValue` / `MaxValue` (`nil` = not declared) -/
  min : GVal
  max : GVal
  updateOnSameValue : Bool
  /-- a typed remote-update callback registered through `Int/Float/String/Bool.OnValueRemoteUpdate`
      asserts `new.(T)` -/
  tcb : Option GType
  deriving Repr, Inhabited

/-- one invocation of the application callbacks: from a connection or local, new and old value -/
structure CbEntry where
  fromConn : Bool
  new : GVal
  old : GVal
  deriving Repr, Inhabited

structure Chr where
  cfg : Config
  value : GVal
  log : List CbEntry
  deriving Repr, Inhabited

def init (cfg : Config) : Chr := { cfg := cfg, value := .nil, log := [] }

inductive Outcome where
  | ok | panic
  deriving Repr, DecidableEq, Inhabited

/-- the values of an integer format, as far as a (64-bit) Go `int` holds them -/
def Format.range : Format → Option (Int × Int)
  | .uint8 => some (0, 255)
  | .uint16 => some (0, 65535)
  | .uint32 => some (0, 4294967295)
  | .int32 => some (-2147483648, 2147483647)
  | .uint64 => some (0, 9223372036854775807)
  | _ => none

def satI (lo hi i : Int) : Int := if i > hi then hi else if i < lo then lo else i

/-- `integer(v, min, max)` of characteristic.go (F53 repair): floats are truncated and saturated (`truncate`), unsigned
    Go integers beyond `max` give `max`, everything else goes through `to.Int64`; the result is brought into the range. -/
def toIntSat (lo hi : Int) : GVal → Int
  | .float x => x.truncSat lo hi
  | v => satI lo hi (toInt64 v)

/-- (*Characteristic).convert, with F9's repair (string-like formats are coerced with to.String) and F53's (integer
    formats saturate at the range of the format) -/
def convert (f : Format) (v : GVal) : GVal :=
  match f with
  | .float => .float (toFloat64 v)
  | .uint8 => .int (toIntSat 0 255 v)
  | .uint16 => .int (toIntSat 0 65535 v)
  | .uint32 => .int (toIntSat 0 4294967295 v)
  | .int32 => .int (toIntSat (-2147483648) 2147483647 v)
  | .uint64 => .int (toIntSat 0 9223372036854775807 v)
  | .bool => .bool (toBool v)
  | .string | .tlv8 | .data => .str (toStr v)
  | .other => v

/-- `convert` as it was before F53 (and after F44): unsigned formats through `int(to.Uint64(v))`, int32 through
    `int(to.Int64(v))` — 300 or -1 in a uint8 characteristic, and for floats beyond ±2^63 whatever the platform makes of it
    (the amd64 result is modelled) -/
def convertOld (f : Format) (v : GVal) : GVal :=
  match f with
  | .uint8 | .uint16 | .uint32 | .uint64 => .int (intOfU64 (toUint64 v))
  | .int32 => .int (toInt64 v)
  | _ => convert f v

/-- `bound(value)` of float.go (F63 repair): what `Float.SetMinValue` / `SetMaxValue` / `SetStepValue` store — a value that is
    no number (NaN, ±Inf) is no bound (`nil`); before the repair it was stored as it was and the attribute database could not
    be encoded any more (`boundOld`) -/
def setBound (x : F64) : GVal := if x.isFinite then .float x else .nil
def setBoundOld (x : F64) : GVal := .float x

/-- clampFloat: bounds count only when they are float64 -/
def clampFloat (cfg : Config) (x : F64) : F64 :=
  match cfg.max, cfg.min with
  | .float mx, .float mn => if F64.lt mx x then mx else if F64.lt x mn then mn else x
  | .float mx, _ => if F64.lt mx x then mx else x
  | _, .float mn => if F64.lt x mn then mn else x
  | _, _ => x

/-- clampInt: bounds count only when they are int -/
def clampInt (cfg : Config) (i : Int) : Int :=
  match cfg.max, cfg.min with
  | .int mx, .int mn => if i > mx then mx else if i < mn then mn else i
  | .int mx, _ => if i > mx then mx else i
  | _, .int mn => if i < mn then mn else i
  | _, _ => i

def JVal.isArr : JVal → Bool
  | .arr _ => true
  | _ => false

mutual
  /-- `reflect.DeepEqual` on decoded JSON values (objects are presented with their keys in sorted order — the harness
      encodes them so —, which makes the positional comparison the comparison of maps) -/
  def JVal.deepEq : JVal → JVal → Bool
    | .null, .null => true
    | .bool a, .bool b => a == b
    | .num a, .num b => F64.eq a b
    | .str a, .str b => a == b
    | .arr a, .arr b => JVal.deepEqL a b
    | .obj a, .obj b => JVal.deepEqKV a b
    | _, _ => false
  def JVal.deepEqL : List JVal → List JVal → Bool
    | [], [] => true
    | x :: xs, y :: ys => JVal.deepEq x y && JVal.deepEqL xs ys
    | _, _ => false
  def JVal.deepEqKV : List (String × JVal) → List (String × JVal) → Bool
    | [], [] => true
    | (k, v) :: r, (k', v') :: r' => k == k' && JVal.deepEq v v' && JVal.deepEqKV r r'
    | _, _ => false
end

/-- the comparison `updateValue` makes between the stored and the new value (`sameValue`, F50 repair): Go's `a == b` on
    interface values — different dynamic types are unequal, equal types compare by value — except that two values of an
    uncomparable type ([]interface{}, map: only a characteristic WITHOUT a format stores such) are compared with
    `reflect.DeepEqual` instead of panicking. Total: never `none`. -/
def goEq : GVal → GVal → Option Bool
  | .nil, .nil => some true
  | .bool a, .bool b => some (a == b)
  | .int a, .int b => some (a == b)
  | .float a, .float b => some (F64.eq a b)
  | .str a, .str b => some (a == b)
  | .comp a, .comp b => some (JVal.deepEq a b)
  | _, _ => some false

/-- before the repair: a bare `==`, which panics (`none`) for two values of the same uncomparable type -/
def goEqOld : GVal → GVal → Option Bool
  | .comp a, .comp b => if JVal.isArr a == JVal.isArr b then none else some false
  | a, b => goEq a b

/-- the typed callback's assertion `new.(T)` -/
def cbOutcome (cfg : Config) (fromConn : Bool) (new : GVal) : Outcome :=
  match cfg.tcb with
  | some t => if fromConn && !new.hasType t then .panic else .ok
  | none => .ok

/-- second half of updateValue, after conversion and clamping: equality test, permission check,
    store, callbacks -/
def commit (c : Chr) (v2 : GVal) (fromConn checkPerms : Bool) : Chr × Outcome :=
  match goEq c.value v2 with
  | none => (c, .panic)
  | some same =>
    if same && !c.cfg.updateOnSameValue then (c, .ok)
    else if checkPerms && !c.cfg.perms.pw then (c, .ok)
    else
      let old := c.value
      let c' : Chr := { c with value := if c.cfg.perms.pr then v2 else c.value,
                               log := c.log ++ [⟨fromConn, v2, old⟩] }
      (c', cbOutcome c.cfg fromConn v2)

/-- first half: `convert`, then "Value must be within min and max". The type assertions cannot
    fail after `convert`; the model nevertheless keeps their panic branch (`none`). Non-finite
    floats are ignored (`some none`, F9 repair). -/
def convertClamp (cfg : Config) (v : GVal) : Option (Option GVal) :=
  let v1 := convert cfg.format v
  match cfg.format with
  | .float =>
    match v1 with
    | .float x => if x.isFinite then some (some (.float (clampFloat cfg x))) else some none
    | _ => none
  | .uint8 | .uint16 | .uint32 | .uint64 | .int32 =>
    match v1 with
    | .int i => some (some (.int (clampInt cfg i)))
    | _ => none
  | _ => some (some v1)

/-- (*Characteristic).updateValue(value, conn, checkPerms); `fromConn` ⇔ `conn != nil`. -/
def updateValue (c : Chr) (v : GVal) (fromConn checkPerms : Bool) : Chr × Outcome :=
  match convertClamp c.cfg v with
  | none => (c, .panic)
  | some none => (c, .ok)
  | some (some v2) => commit c v2 fromConn checkPerms

/-- (*Characteristic).getValue(conn): with a registered get function (returning `gf`) the value is
    first updated from it — from `conn`, without permission check. Returns the value read. -/
def getValue (c : Chr) (fromConn : Bool) (gf : Option GVal) : Chr × Outcome × GVal :=
  match gf with
  | none => (c, .ok, c.value)
  | some v =>
    let r := updateValue c v fromConn false
    match r.2 with
    | .ok => (r.1, .ok, r.1.value)
    | .panic => (r.1, .panic, .nil)   -- nothing is returned

/-- `Int.GetValue`, `Float.GetValue`, `String.GetValue`, `Bool.GetValue`: `c.Value.(T)` -/
def typedGet (_c : Chr) (_t : GType) : Outcome := .ok      -- `value, _ := c.Value.(T)` (F37 repair: was a bare assertion)

/-- `Int/Float.GetMinValue / GetMaxValue / GetStepValue`: `v, _ := c.MinValue.(T)` (F51 repair: was a bare assertion,
    which panics for every characteristic that does not declare that bound) -/
def rangeGet (_bound : GVal) (_t : GType) : Outcome := .ok
def rangeGetOld (bound : GVal) (t : GType) : Outcome := if bound.hasType t then .ok else .panic

/-- what the typed getter returns: the stored value if it has the getter's type, otherwise the zero value of that type
    (in particular for a characteristic that stores nothing, e.g. a write-only one) -/
def typedGetVal (c : Chr) (t : GType) : GVal :=
  if c.value.hasType t then c.value else
  match t with
  | .bool => .bool false
  | .int => .int 0
  | .float64 => .float (.fin false 0 0)
  | .string => .str ""

/-- the getter before the F37 repair (`c.Value.(T)`) -/
def typedGetOld (c : Chr) (t : GType) : Outcome := if c.value.hasType t then .ok else .panic

/-- `json.Marshal` succeeds on the value: no NaN / ±Inf -/
def encodable : GVal → Bool
  | .float x => x.isFinite
  | .comp j => j.allFinite
  | _ => true

/-- the `value` a GET response entry or an EVENT body carries (`nil` ⇒ the field is omitted) -/
def carried (c : Chr) : GVal := c.value

-- PUT /characteristics, restricted to the entries that address this characteristic --------------

/-- one element of the request's `characteristics` array: `value` and `ev` as decoded
    (`JVal.null` = absent or null) -/
structure PutEntry where
  value : JVal
  ev : JVal
  deriving Repr, Inhabited

/-- state of one (session, characteristic) pair -/
structure St where
  char : Chr
  /-- `sess.subs[c]` -/
  sub : Bool
  deriving Repr, Inhabited

def statusNotificationNotSupported : Int := -70406
def statusReadOnly : Int := -70404

def JVal.isNull : JVal → Bool
  | .null => true
  | _ => false

/-- body of the handler's loop for one entry; returns the status entry it appends, if any -/
def putEntry (s : St) (e : PutEntry) : St × Outcome × Option Int :=
  -- (the handler does not call `UpdateValueFromConnection` on a characteristic that is not writable — F75 —; the call
  --  changes nothing there, `updateValue_no_pw`, so the state is computed as before)
  let r : Chr × Outcome :=
    if JVal.isNull e.value then (s.char, .ok) else updateValue s.char (ofJson e.value) true true
  -- F75: a value for a characteristic that is not writable is answered with a status, not skipped silently
  let st0 : Option Int := if !JVal.isNull e.value && !s.char.cfg.perms.pw then some statusReadOnly else none
  match r.2 with
  | .panic => ({ s with char := r.1 }, .panic, none)
  | .ok =>
    let s1 : St := { s with char := r.1 }
    if JVal.isNull e.ev then (s1, .ok, st0)
    else if !s1.char.cfg.perms.ev then (s1, .ok, some statusNotificationNotSupported)
    else match e.ev with
      | .bool b => ({ s1 with sub := b }, .ok, st0)
      | _ => (s1, .ok, st0)

/-- the loop; a panic aborts the request (net/http recovers it per connection) -/
def putEntries : St → List PutEntry → List Int → St × Outcome × List Int
  | s, [], acc => (s, .ok, acc)
  | s, e :: es, acc =>
    match putEntry s e with
    | (s1, .panic, _) => (s1, .panic, [])   -- no response is written
    | (s1, .ok, st) => putEntries s1 es (acc ++ st.toList)

/-- the status of every entry, in order: 0 for an entry that succeeded (F75) -/
def putStatuses : St → List PutEntry → List Int
  | _, [] => []
  | s, e :: es => (putEntry s e).2.2.getD 0 :: putStatuses (putEntry s e).1 es

-- operations and runs -------------------------------------------------------------------------------

inductive Op where
  /-- `updateValue(v, conn, checkPerms)`: `UpdateValue` = (false,false), `UpdateValueFromConnection` = (true,true) -/
  | update (v : GVal) (fromConn checkPerms : Bool)
  /-- `GetValue()` / `GetValueFromConnection(conn)` with the value a registered get function returns -/
  | get (fromConn : Bool) (gf : Option GVal)
  /-- a PUT request whose entries address this characteristic -/
  | put (es : List PutEntry)
  deriving Repr, Inhabited

structure Out where
  outcome : Outcome
  /-- status entries of the PUT response body (empty ⇒ 204 No Content) -/
  statuses : List Int
  /-- value carried by the response of a read -/
  read : GVal
  deriving Repr, Inhabited

def step (s : St) : Op → St × Out
  | .update v fc cp =>
    let r := updateValue s.char v fc cp
    ({ s with char := r.1 }, ⟨r.2, [], .nil⟩)
  | .get fc gf =>
    let r := getValue s.char fc gf
    ({ s with char := r.1 }, ⟨r.2.1, [], r.2.2⟩)
  | .put es =>
    -- F75: when any entry failed the answer is a multi-status answer with a status for EVERY entry (0 for the ones that
    -- succeeded), otherwise it has no content
    let r := putEntries s es []
    (r.1, ⟨r.2.1, if r.2.2.isEmpty then [] else putStatuses s es, .nil⟩)

/-- every step's resulting state and output, in order -/
def trace : St → List Op → List (St × Out)
  | _, [] => []
  | s, o :: os => let r := step s o; r :: trace r.1 os

def start (cfg : Config) : St := { char := init cfg, sub := false }

-- specification predicates (decidable; used by the property theorems and the generated-table checks) --

/-- The declared bounds are usable: float bounds are finite, and `min ≤ max` when both are declared
    with the format's own type. (Bounds of a foreign Go type are ignored by clampInt/clampFloat.) -/
def boundsOk (cfg : Config) : Bool :=
  (match cfg.min with | .float x => x.isFinite | _ => true) &&
  (match cfg.max with | .float x => x.isFinite | _ => true) &&
  (match cfg.min, cfg.max with
   | .float mn, .float mx => F64.le mn mx
   | .int mn, .int mx => decide (mn ≤ mx)
   | _, _ => true)

/-- `nil` (nothing stored) or a value of the Go type the format declares -/
def wellTyped (cfg : Config) (v : GVal) : Bool :=
  v.isNil || (match cfg.format.gtype with | some t => v.hasType t | none => false)

/-- within the declared minimum and maximum -/
def inRange (cfg : Config) : GVal → Bool
  | .float x =>
    (match cfg.min with | .float mn => F64.le mn x | _ => true) &&
    (match cfg.max with | .float mx => F64.le x mx | _ => true)
  | .int i =>
    (match cfg.min with | .int mn => decide (mn ≤ i) | _ => true) &&
    (match cfg.max with | .int mx => decide (i ≤ mx) | _ => true)
  | _ => true

def finiteV : GVal → Bool
  | .float x => x.isFinite
  | _ => true

/-- a typed remote-update callback, if registered, is the one of the format's own wrapper -/
def tcbMatches (cfg : Config) : Bool :=
  match cfg.tcb with
  | none => true
  | some t => cfg.format.gtype == some t

/-- every callback invocation so far received a `new` value of the declared type -/
def logTyped (cfg : Config) (log : List CbEntry) : Bool :=
  log.all fun e => match cfg.format.gtype with | some t => e.new.hasType t | none => false

end Hc.Charac
